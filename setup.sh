#!/bin/sh
# Build the hand-written Coq theories once (offline). Generated models and obligations are
# rebuilt by every check from /repo's current working tree.
cd "$(dirname "$0")" && python3 - <<'PY'
import sys
sys.path.insert(0, 'tools')
import coqbuild
with coqbuild.Lock():
    res = coqbuild.build_theories()
bad = [r for r in res if not r['ok']]
for r in res:
    print(r['file'], 'ok' if r['ok'] else 'FAILED', '%.1fs' % r['secs'])
for r in bad:
    print(r['out'])
sys.exit(1 if bad else 0)
PY
