#!/usr/bin/env python3
"""runall.py [--tier quick] [ids...]: run every claimed check on the current tree, print a summary (exit code, seconds, VIOLATION/KNOWN lines)."""
import json, os, subprocess, sys, time
ROOT = os.path.dirname(os.path.dirname(os.path.abspath(__file__)))
man = json.load(open(os.path.join(ROOT, 'MANIFEST.json')))
tier = 'quick'
ids = [a for a in sys.argv[1:] if not a.startswith('--')]
for a in sys.argv[1:]:
    if a.startswith('--tier='):
        tier = a.split('=')[1]
bad = 0
for c in man['checks']:
    if ids and c['property_id'] not in ids:
        continue
    t = time.time()
    p = subprocess.run([os.path.join(ROOT, 'check'), c['property_id'], '--tier', tier], capture_output=True, text=True)
    v = [l for l in p.stdout.splitlines() if l.startswith('VIOLATION')]
    k = [l for l in p.stdout.splitlines() if l.startswith('KNOWN-FINDING')]
    print('%s exit=%d %.0fs known=%d %s' % (c['property_id'], p.returncode, time.time() - t, len(k), v[-1] if v else ''))
    sys.stdout.flush()
    bad += p.returncode != 0
sys.exit(1 if bad else 0)
