#!/usr/bin/env python3
"""py2coq -- fail-closed translator from pyQSC's numpy formula code to the deep
embedding QSC.Expr (Coq).  It is a symbolic interpreter of the Python AST: every
statement of a translated function is executed over symbolic values; anything it
does not know (node type, numpy call, slicing form, attribute) raises
TranslateError with file and line, which the check driver reports as a broken
obligation.  Nothing is silently skipped except logging calls and if-statements
whose body only logs.

Symbolic values
  E        expression tree (op, args, kind)   kind 's' scalar | 'p' profile on the phi grid
  SArr     array of E with explicit component shape; the grid axis is first or last
  Struct   attribute bag (util.Struct(), self)
  python numbers / strings / lists / tuples / bools are concrete
  NPhi, NMul(k), JIdx(block)   symbolic grid size, k*nphi, loop index j (+ block*nphi)
  RowS(E), OpRow, OpTerms, SMat, SBlockVec   matrix assembly (calculate_r2, _jacobian)
"""
import ast, sys, os, json
from fractions import Fraction


class TranslateError(Exception):
    pass


# ----------------------------------------------------------------------------
# expressions
# ----------------------------------------------------------------------------
class E:
    __slots__ = ('op', 'args', 'kind')

    def __init__(self, op, args, kind):
        self.op, self.args, self.kind = op, tuple(args), kind

    def __repr__(self):
        return 'E(%s,%s)' % (self.op, self.kind)


def is_num(v):
    return isinstance(v, (int, float, Fraction)) and not isinstance(v, bool)


def to_frac(v):
    if isinstance(v, Fraction):
        return v
    if isinstance(v, int):
        return Fraction(v)
    if isinstance(v, float):
        return Fraction(repr(v))  # exact value of the decimal literal as written
    raise TranslateError('not a number: %r' % (v,))


def cst(v):
    return E('Cst', (to_frac(v),), 's')


def var(name, kind):
    return E('Var', (name,), kind)


def lift(v):
    if isinstance(v, E):
        return v
    if isinstance(v, NPhi):
        return var('nphi', 's')
    if isinstance(v, Linspace):
        return var('phi', 'p')
    if isinstance(v, RowS):
        return v
    if is_num(v):
        return cst(v)
    raise TranslateError('cannot use %r as an expression' % (v,))


def jkind(a, b):
    return 'p' if 'p' in (a.kind, b.kind) else 's'


def mk(op, *args):
    args = [lift(a) for a in args]
    k = 's'
    for a in args:
        if a.kind == 'p':
            k = 'p'
    return E(op, args, k)


# ----------------------------------------------------------------------------
# other symbolic values
# ----------------------------------------------------------------------------
class NPhi:
    """the (odd) number of grid points, symbolic"""
    pass


class NMul:
    def __init__(self, k):
        self.k = k


class JIdx:
    """loop index j of a `for j in range(nphi)` loop, plus block*nphi"""
    def __init__(self, block=0):
        self.block = block


class RowS(E):
    """value of a profile at the current row j (inside a matrix assembly loop)"""
    def __init__(self, e):
        E.__init__(self, e.op, e.args, e.kind)
        self.e = e


class OpTerms:
    """sum of terms  left[j] * D[j,:] * right[:]   (left/right may be None = 1)"""
    def __init__(self, terms):
        self.terms = terms  # list of (sign_expr_left or None, right or None)


class DiagCur:
    """value of matrix[j, j(+nphi)] read inside the loop, used for `m[j,j] = m[j,j] + ...`"""
    def __init__(self, blk, extra=None):
        self.blk, self.extra = blk, extra


class SMat:
    def __init__(self, nb):
        self.nb = nb
        self.ops = {}    # (bi,bj) -> list of (left,right)
        self.diag = {}   # (bi,bj) -> E (profile)
        self.col0 = None  # replacement of column 0 (for _jacobian)


class SBlockVec:
    def __init__(self, nb, blocks=None):
        self.nb = nb
        self.blocks = blocks or [None] * nb


class SArr:
    def __init__(self, shape, data, grid):
        self.shape, self.data, self.grid = tuple(shape), data, grid  # grid: 'first' | 'last' | None

    def get(self, idx):
        d = self.data
        for i in idx:
            d = d[i]
        return d

    def set(self, idx, v):
        d = self.data
        for i in idx[:-1]:
            d = d[i]
        d[idx[-1]] = v


def nested(shape, fn, prefix=()):
    if not shape:
        return fn(prefix)
    return [nested(shape[1:], fn, prefix + (i,)) for i in range(shape[0])]


class Struct:
    def __init__(self, name):
        self._name = name
        self._attrs = {}


class Opaque:
    def __init__(self, what):
        self.what = what


class StateVec:
    """Newton state vector x: element 0 is iota (scalar var head), the rest is sigma (profile var tail).
    x == Pin0(tail, head); only np.copy(x) followed by a store to [0], and x[0], are supported."""
    def __init__(self, tail, head):
        self.tail, self.head = tail, head


class Linspace:
    def __init__(self, start, stop, n):
        self.start, self.stop, self.n = start, stop, n


# ----------------------------------------------------------------------------
# the interpreter
# ----------------------------------------------------------------------------
SKIP_CALLS = {'logger.debug', 'logger.info', 'logger.warning', 'logger.error', 'warnings.warn'}


class Interp:
    def __init__(self, fname, src_file, kinds, decisions, self_names=('self', 's'),
                 skip_self_calls=True, params=None):
        self.fname, self.src_file = fname, src_file
        self.kinds = kinds              # attribute name -> 's' | 'p' | ['arr', shape, grid] | 'str:<v>' | 'opaque'
        self.decisions = decisions      # source text of condition -> bool
        self.self_names = self_names
        self.locals = {}
        self.selfobj = Struct('s')
        self.prog = []                  # [(name, E)]
        self.inputs = {}                # name -> kind
        self.outputs = []               # attribute names assigned
        self.calls = []                 # self.method() calls, in order
        self.aux_progs = {}             # extra programs (residual equations)
        self.params = params or {}
        self.lineno = 0
        self.returned = None
        self.used_decisions = set()
        self.versions = {}
        self.final_name = {}           # attribute -> name of its last binding

    # ---------------- errors
    def err(self, msg, node=None):
        ln = getattr(node, 'lineno', self.lineno)
        raise TranslateError('%s:%s: in %s: %s' % (self.src_file, ln, self.fname, msg))

    # ---------------- emit
    def emit(self, name, e):
        """append a binding; names are made unique (SSA): a re-assignment of `x` is emitted as `x#2`, `x#3`, ...
        and later reads see the newest version"""
        if isinstance(e, RowS):
            self.err('row value escapes its loop')
        k = self.versions.get(name, 0) + 1
        self.versions[name] = k
        uname = name if k == 1 else '%s#%d' % (name, k)
        self.prog.append((uname, e))
        if name.startswith('s.'):
            self.final_name[name[2:]] = uname
        return var(uname, e.kind)

    def bind_value(self, name, v, is_attr):
        """store v under name; E values are emitted as program bindings"""
        full = ('s.' + name) if is_attr else name
        if is_num(v) and is_attr:
            v = cst(v)
        if isinstance(v, NPhi) and is_attr:
            v = var('nphi', 's')
        if isinstance(v, Linspace) and is_attr:
            v = lift(v)
        if isinstance(v, E) and not isinstance(v, RowS):
            ref = self.emit(full, v)
            if is_attr:
                self.outputs.append(name)
            return ref
        if isinstance(v, SArr):
            # emit every component under an indexed name
            def comp(idx):
                c = v.get(idx)
                if is_num(c):
                    c = cst(c)
                    c = E(c.op, c.args, 'p')
                if not isinstance(c, E):
                    self.err('array component is not an expression: %r' % (c,))
                nm = full + ''.join('_%d' % i for i in idx)
                r = self.emit(nm, c)
                if is_attr:
                    self.outputs.append(name + ''.join('_%d' % i for i in idx))
                return r
            return SArr(v.shape, nested(v.shape, comp), v.grid)
        return v

    # ---------------- attribute access on self
    def self_get(self, attr, node):
        so = self.selfobj
        if attr in so._attrs:
            return so._attrs[attr]
        k = self.kinds.get(attr)
        if k is None:
            self.err('attribute self.%s has no entry in the kind table' % attr, node)
        if k in ('s', 'p'):
            v = var('s.' + attr, k)
            self.inputs['s.' + attr] = k
        elif isinstance(k, str) and k.startswith('str:'):
            v = k[4:]
        elif k == 'nphi':
            v = NPhi()
        elif k == 'opaque':
            v = Opaque(attr)
        elif isinstance(k, list) and k[0] == 'arr':
            shape, grid = tuple(k[1]), k[2]
            def comp(idx):
                nm = 's.' + attr + ''.join('_%d' % i for i in idx)
                self.inputs[nm] = 'p'
                return var(nm, 'p')
            v = SArr(shape, nested(shape, comp), grid)
        elif k == 'dmat':
            v = Opaque('d_d_varphi')
        elif k == 'coef':
            v = Opaque('coef:' + attr)
        else:
            self.err('bad kind %r for self.%s' % (k, attr), node)
        so._attrs[attr] = v
        return v

    # ---------------- statements
    def run_body(self, body):
        for st in body:
            if self.returned is not None:
                return
            self.stmt(st)

    def only_logs(self, body):
        for st in body:
            if isinstance(st, ast.Pass):
                continue
            if isinstance(st, ast.Expr) and isinstance(st.value, ast.Call) and \
               ast.unparse(st.value.func) in SKIP_CALLS:
                continue
            if isinstance(st, ast.Expr) and isinstance(st.value, ast.Constant):
                continue
            return False
        return True

    def stmt(self, st):
        self.lineno = st.lineno
        if isinstance(st, ast.Expr):
            v = st.value
            if isinstance(v, ast.Constant):
                return  # docstring / commented-out block
            if isinstance(v, ast.Call):
                fn = ast.unparse(v.func)
                if fn in SKIP_CALLS:
                    return
                if isinstance(v.func, ast.Attribute) and isinstance(v.func.value, ast.Name) \
                   and v.func.value.id in self.self_names:
                    self.calls.append(v.func.attr)
                    self.on_self_call(v.func.attr, v)
                    return
            self.err('unsupported expression statement: %s' % ast.unparse(st)[:80], st)
        elif isinstance(st, ast.Assign):
            if len(st.targets) != 1:
                self.err('multiple assignment targets', st)
            val = self.expr(st.value)
            self.assign(st.targets[0], val, st)
        elif isinstance(st, ast.AugAssign):
            cur = self.expr(st.target)
            rhs = self.expr(st.value)
            val = self.binop(type(st.op), cur, rhs, st)
            self.assign(st.target, val, st)
        elif isinstance(st, ast.If):
            if self.only_logs(st.body) and not st.orelse:
                return
            c = self.decide(st.test, st)
            self.run_body(st.body if c else st.orelse)
        elif isinstance(st, ast.For):
            self.for_loop(st)
        elif isinstance(st, ast.Return):
            self.returned = self.expr(st.value) if st.value is not None else Opaque('None')
        elif isinstance(st, ast.Pass):
            return
        else:
            self.err('unsupported statement %s' % type(st).__name__, st)

    def on_self_call(self, name, node):
        pass

    def decide(self, test, node):
        # concrete evaluation first
        try:
            v = self.expr(test)
            if isinstance(v, bool):
                return v
        except TranslateError:
            pass
        src = ast.unparse(test)
        if src in self.decisions:
            self.used_decisions.add(src)
            return self.decisions[src]
        self.err('undecided branch condition: %s' % src, node)

    def for_loop(self, st):
        it = st.iter
        if not (isinstance(it, ast.Call) and ast.unparse(it.func) == 'range'):
            self.err('only range() loops are supported', st)
        args = [self.expr(a) for a in it.args]
        if not isinstance(st.target, ast.Name):
            self.err('loop target must be a name', st)
        if all(isinstance(a, int) for a in args):
            for i in range(*args):
                self.locals[st.target.id] = i
                self.run_body(st.body)
            return
        if len(args) == 1 and isinstance(args[0], NPhi):
            self.nphi_loop(st)
            return
        self.err('unsupported loop range: %s' % ast.unparse(it), st)

    def nphi_loop(self, st):
        # body executed once with the symbolic row index j
        self.locals[st.target.id] = JIdx(0)
        self.in_row_loop = True
        self.run_body(st.body)
        self.in_row_loop = False
        del self.locals[st.target.id]

    # ---------------- assignment
    def assign(self, tgt, val, node):
        if isinstance(tgt, ast.Name):
            self.locals[tgt.id] = self.bind_value(tgt.id, val, False)
        elif isinstance(tgt, ast.Attribute):
            base = tgt.value
            if isinstance(base, ast.Name) and base.id in self.self_names:
                self.selfobj._attrs[tgt.attr] = self.bind_value(tgt.attr, val, True)
            else:
                obj = self.expr(base)
                if isinstance(obj, Struct):
                    nm = obj._name + '.' + tgt.attr
                    obj._attrs[tgt.attr] = self.bind_value(nm, val, False)
                else:
                    self.err('attribute store on unsupported object', node)
        elif isinstance(tgt, ast.Subscript):
            self.store_sub(tgt, val, node)
        elif isinstance(tgt, ast.Tuple):
            if isinstance(val, SArr) and len(val.shape) == 1:
                val = list(val.data)
            if not isinstance(val, (list, tuple)) or len(val) != len(tgt.elts):
                self.err('tuple unpacking mismatch', node)
            for t, v in zip(tgt.elts, val):
                self.assign(t, v, node)
        else:
            self.err('unsupported assignment target', node)

    def target_name(self, node):
        if isinstance(node, ast.Name):
            return node.id, False
        if isinstance(node, ast.Attribute) and isinstance(node.value, ast.Name) and node.value.id in self.self_names:
            return node.attr, True
        return None, False

    def store_sub(self, tgt, val, node):
        obj = self.expr(tgt.value)
        idx = self.index(tgt.slice)
        nm, is_attr = self.target_name(tgt.value)
        if isinstance(obj, SArr):
            comp = self.arr_index(obj, idx, node)
            if comp is None or len(comp) != len(obj.shape):
                self.err('partial component store', node)
            if is_num(val):
                val = cst(val)
            if not isinstance(val, E):
                self.err('storing a non-expression into an array', node)
            full = (('s.' + nm) if is_attr else nm) + ''.join('_%d' % i for i in comp)
            ref = self.emit(full, E(val.op, val.args, 'p') if val.kind == 's' else val)
            if is_attr:
                self.outputs.append(nm + ''.join('_%d' % i for i in comp))
            obj.set(comp, ref)
            return
        if isinstance(obj, SMat):
            self.mat_store(obj, idx, val, node)
            return
        if isinstance(obj, SBlockVec):
            b = self.block_of_slice(idx, node)
            obj.blocks[b] = lift(val)
            return
        if isinstance(obj, E) and obj.kind == 'p' and idx == (0,):
            # x[0] = v   : pin element 0
            new = mk('Pin0', obj, val)
            new = E('Pin0', new.args, 'p')
            if nm is None:
                self.err('pin store on unnamed value', node)
            if is_attr:
                self.selfobj._attrs[nm] = self.bind_value(nm, new, True)
            else:
                self.locals[nm] = self.bind_value(nm, new, False)
            return
        self.err('unsupported subscript store: %s' % ast.unparse(tgt), node)

    # ---------------- matrices (calculate_r2, _jacobian)
    def block_of_slice(self, idx, node):
        if len(idx) != 1 or not isinstance(idx[0], slice):
            self.err('expected a block slice', node)
        s = idx[0]
        lo = s.start
        def blk(v):
            if v in (0, None):
                return 0
            if isinstance(v, NPhi):
                return 1
            if isinstance(v, NMul):
                return v.k
            self.err('unsupported slice bound', node)
        b0, b1 = blk(s.start), blk(s.stop)
        if b1 != b0 + 1:
            self.err('slice is not one block', node)
        return b0

    def mat_store(self, M, idx, val, node):
        if len(idx) != 2:
            self.err('matrix store needs 2 indices', node)
        r, c = idx
        if isinstance(r, slice) and r == slice(None, None, None) and c == 0:
            # jac[:, 0] = profile
            M.col0 = lift(val)
            return
        if not isinstance(r, JIdx):
            self.err('matrix row index must be the loop index', node)
        if isinstance(c, slice):
            bj = self.block_of_slice((c,), node)
            if not isinstance(val, OpTerms):
                self.err('row store must be built from d_d_varphi[j, :]', node)
            M.ops.setdefault((r.block, bj), []).extend(val.terms)
            return
        if isinstance(c, JIdx):
            key = (r.block, c.block)
            if isinstance(val, DiagCur) and val.blk == key and val.extra is not None:
                prev = M.diag.get(key)
                M.diag[key] = val.extra if prev is None else mk('Add', prev, val.extra)
                return
            self.err('diagonal store must have the form m[j,j] = m[j,j] + ... or m[j,j] += ...', node)
        self.err('unsupported matrix store', node)

    def mat_apply(self, M, vec_blocks):
        """rows of M @ vec  as profile expressions, one per block row"""
        rows = []
        for bi in range(M.nb):
            acc = None
            for bj in range(M.nb):
                S = vec_blocks[bj]
                for (L, R) in M.ops.get((bi, bj), []):
                    inner = S if R is None else mk('Mul', R, S)
                    t = self.dv(inner)
                    if L is not None:
                        t = mk('Mul', L, t)
                    acc = t if acc is None else mk('Add', acc, t)
                d = M.diag.get((bi, bj))
                if d is not None:
                    t = mk('Mul', d, S)
                    acc = t if acc is None else mk('Add', acc, t)
            rows.append(acc if acc is not None else cst(0))
        return rows

    def dv(self, a):
        """np.matmul(d_d_varphi, a)  ==  (D_phi a) / d_varphi_d_phi   (init_axis builds
        d_d_varphi[j,:] = d_d_phi[j,:] / d_varphi_d_phi[j]; checked by the init_axis translation)"""
        a = lift(a)
        if a.kind != 'p':
            self.err('d_d_varphi applied to a scalar')
        self.inputs['s.d_varphi_d_phi'] = 'p'
        return E('Div', (E('Dphi', (a,), 'p'), var('s.d_varphi_d_phi', 'p')), 'p')

    # ---------------- indices
    def index(self, sl):
        if isinstance(sl, ast.Tuple):
            return tuple(self.index1(e) for e in sl.elts)
        return (self.index1(sl),)

    def index1(self, e):
        if isinstance(e, ast.Slice):
            lo = self.expr(e.lower) if e.lower is not None else None
            hi = self.expr(e.upper) if e.upper is not None else None
            if e.step is not None:
                self.err('slice step', e)
            return slice(lo, hi, None)
        return self.expr(e)

    def arr_index(self, A, idx, node):
        """component index tuple addressed by idx (which must take the whole grid axis)"""
        idx = list(idx)
        full = slice(None, None, None)
        if A.grid == 'first':
            if idx and idx[0] == full:
                idx = idx[1:]
            else:
                return None
        elif A.grid == 'last':
            if len(idx) == len(A.shape) + 1 and idx[-1] == full:
                idx = idx[:-1]
        if not all(isinstance(i, int) for i in idx):
            return None
        return tuple(idx)

    # ---------------- expressions
    def expr(self, e):
        m = getattr(self, 'e_' + type(e).__name__, None)
        if m is None:
            self.err('unsupported expression node %s' % type(e).__name__, e)
        return m(e)

    def e_Constant(self, e):
        return e.value

    def e_Name(self, e):
        if e.id in self.locals:
            return self.locals[e.id]
        if e.id in self.params:
            return self.params[e.id]
        if e.id in self.self_names:
            return self.selfobj
        if e.id == 'mu0':
            return E('CMu0', (), 's')
        if e.id in ('np', 'integ', 'spline', 'logger'):
            return Opaque(e.id)
        self.err('unknown name %s' % e.id, e)

    def e_Attribute(self, e):
        src = ast.unparse(e)
        if src == 'np.pi':
            return E('CPi', (), 's')
        if isinstance(e.value, ast.Name) and e.value.id in self.self_names:
            return self.self_get(e.attr, e)
        base = self.expr(e.value)
        if isinstance(base, Struct):
            if e.attr not in base._attrs:
                self.err('unknown attribute %s.%s' % (base._name, e.attr), e)
            return base._attrs[e.attr]
        self.err('unsupported attribute access %s' % src, e)

    def e_UnaryOp(self, e):
        v = self.expr(e.operand)
        if isinstance(e.op, ast.USub):
            if is_num(v):
                return -v
            if isinstance(v, RowS):
                return RowS(mk('Neg', v.e))
            if isinstance(v, E):
                return mk('Neg', v)
            if isinstance(v, SArr):
                return SArr(v.shape, nested(v.shape, lambda i: mk('Neg', v.get(i))), v.grid)
            if isinstance(v, OpTerms):
                return OpTerms([(mk('Neg', L) if L is not None else cst(-1), R) for (L, R) in v.terms])
        if isinstance(e.op, ast.UAdd):
            return v
        if isinstance(e.op, ast.Not) and isinstance(v, bool):
            return not v
        self.err('unsupported unary operation', e)

    def e_BoolOp(self, e):
        vals = [self.expr(v) for v in e.values]
        if all(isinstance(v, bool) for v in vals):
            return all(vals) if isinstance(e.op, ast.And) else any(vals)
        self.err('symbolic boolean operation', e)

    def e_Compare(self, e):
        if len(e.ops) != 1:
            self.err('chained comparison', e)
        a, b = self.expr(e.left), self.expr(e.comparators[0])
        conc = (str, int, float, bool)
        if isinstance(a, conc) and isinstance(b, conc):
            op = e.ops[0]
            return {ast.Eq: a == b, ast.NotEq: a != b, ast.Lt: a < b if not isinstance(a, str) else None,
                    ast.Gt: a > b if not isinstance(a, str) else None}.get(type(op))
        self.err('symbolic comparison %s' % ast.unparse(e), e)

    def e_BinOp(self, e):
        return self.binop(type(e.op), self.expr(e.left), self.expr(e.right), e)

    def e_Tuple(self, e):
        return tuple(self.expr(x) for x in e.elts)

    def e_List(self, e):
        return [self.expr(x) for x in e.elts]

    def e_ListComp(self, e):
        if len(e.generators) != 1:
            self.err('nested generators', e)
        g = e.generators[0]
        if g.ifs or not isinstance(g.target, ast.Name):
            self.err('unsupported comprehension', e)
        it = self.expr(g.iter)
        if isinstance(it, range):
            it = list(it)
        if not isinstance(it, list):
            self.err('comprehension over non-concrete range', e)
        out = []
        saved = self.locals.get(g.target.id, None)
        for i in it:
            self.locals[g.target.id] = i
            out.append(self.expr(e.elt))
        if saved is None:
            self.locals.pop(g.target.id, None)
        else:
            self.locals[g.target.id] = saved
        return out

    def e_Subscript(self, e):
        obj = self.expr(e.value)
        idx = self.index(e.slice)
        if isinstance(obj, (list, tuple)) and len(idx) == 1 and isinstance(idx[0], int):
            return obj[idx[0]]
        if isinstance(obj, SArr):
            comp = self.arr_index(obj, idx, e)
            if comp is None:
                self.err('unsupported array indexing %s' % ast.unparse(e), e)
            if len(comp) == len(obj.shape):
                return obj.get(comp)
            sub = obj.get(comp)
            return SArr(obj.shape[len(comp):], sub, obj.grid)
        if isinstance(obj, Opaque) and obj.what == 'd_d_varphi':
            if len(idx) == 2 and isinstance(idx[0], JIdx) and idx[0].block == 0 and idx[1] == slice(None, None, None):
                return OpTerms([(None, None)])
            self.err('unsupported use of d_d_varphi: %s' % ast.unparse(e), e)
        if isinstance(obj, SMat):
            if len(idx) == 2 and isinstance(idx[0], JIdx) and isinstance(idx[1], JIdx):
                return DiagCur((idx[0].block, idx[1].block))
            self.err('unsupported matrix read', e)
        if isinstance(obj, SBlockVec):
            b = self.block_of_slice(idx, e)
            return obj.blocks[b]
        if isinstance(obj, StateVec) and idx == (0,):
            self.inputs[obj.head.args[0]] = 's'
            return obj.head
        if isinstance(obj, Linspace) and len(idx) == 1 and isinstance(idx[0], int):
            k = idx[0]
            step = mk('Div', mk('Sub', obj.stop, obj.start), obj.n)
            return mk('Add', obj.start, mk('Mul', k, step))
        if isinstance(obj, E) and obj.kind == 'p' and len(idx) == 1:
            i = idx[0]
            if isinstance(i, JIdx) and i.block == 0:
                return RowS(obj)
            if isinstance(i, int) and i >= 0:
                return E('At', (obj, i), 's')
        self.err('unsupported subscript %s' % ast.unparse(e), e)

    def e_JoinedStr(self, e):
        return Opaque('fstring')

    def e_IfExp(self, e):
        c = self.decide(e.test, e)
        return self.expr(e.body if c else e.orelse)

    # ---------------- arithmetic
    def binop(self, op, a, b, node):
        # symbolic sizes / indices
        if isinstance(a, JIdx) or isinstance(b, JIdx):
            j, o = (a, b) if isinstance(a, JIdx) else (b, a)
            if op is ast.Add and isinstance(o, NPhi):
                return JIdx(j.block + 1)
            self.err('unsupported index arithmetic', node)
        if op is ast.Mult and ((isinstance(a, int) and isinstance(b, NPhi)) or (isinstance(b, int) and isinstance(a, NPhi))):
            return NMul(a if isinstance(a, int) else b)
        if isinstance(a, DiagCur) or isinstance(b, DiagCur):
            d, o = (a, b) if isinstance(a, DiagCur) else (b, a)
            if isinstance(b, DiagCur) and op is not ast.Add:
                self.err('unsupported diagonal update', node)
            if not isinstance(o, RowS):
                self.err('diagonal update must be a row value', node)
            ex = o.e if op is ast.Add else (mk('Neg', o.e) if op is ast.Sub else None)
            if ex is None:
                self.err('unsupported diagonal update', node)
            return DiagCur(d.blk, ex if d.extra is None else mk('Add', d.extra, ex))
        if isinstance(a, OpTerms) or isinstance(b, OpTerms):
            return self.op_terms(op, a, b, node)
        if isinstance(a, SArr) or isinstance(b, SArr):
            return self.arr_binop(op, a, b, node)
        if is_num(a) and is_num(b):
            if op is ast.Add: return a + b
            if op is ast.Sub: return a - b
            if op is ast.Mult: return a * b
            if op is ast.Div:
                return to_frac(a) / to_frac(b)
            if op is ast.Pow and isinstance(b, int) and b >= 0:
                return a ** b
            self.err('unsupported constant arithmetic', node)
        if op is ast.MatMult:
            if isinstance(a, Opaque) and a.what == 'd_d_varphi':
                return self.dv(b)
            self.err('unsupported matrix product', node)
        if isinstance(a, (Opaque, Struct, str)) or isinstance(b, (Opaque, Struct, str)):
            self.err('arithmetic on unsupported value', node)
        rowish = isinstance(a, RowS) or isinstance(b, RowS)
        def unrow(x):
            return x.e if isinstance(x, RowS) else x
        if rowish:
            for x in (a, b):
                if isinstance(x, E) and not isinstance(x, RowS) and x.kind == 'p':
                    self.err('mixing a row value with a whole profile outside d_d_varphi[j,:]', node)
        A, B = unrow(a), unrow(b)
        if op is ast.Add: r = mk('Add', A, B)
        elif op is ast.Sub: r = mk('Sub', A, B)
        elif op is ast.Mult: r = mk('Mul', A, B)
        elif op is ast.Div: r = mk('Div', A, B)
        elif op is ast.Pow:
            if isinstance(b, int) and b >= 0:
                r = E('Pow', (lift(A), b), lift(A).kind)
            elif is_num(b) and to_frac(b) == Fraction(1, 4):
                r = mk('Root4', A)
            elif is_num(b) and to_frac(b) == Fraction(1, 2):
                r = mk('Sqrt', A)
            else:
                self.err('unsupported exponent', node)
        elif op is ast.MatMult:
            if isinstance(a, Opaque) and a.what == 'd_d_varphi':
                return self.dv(b)
            self.err('unsupported matrix product', node)
        else:
            self.err('unsupported operator %s' % op.__name__, node)
        return RowS(r) if rowish else r

    def op_terms(self, op, a, b, node):
        if op is ast.Mult:
            t, o = (a, b) if isinstance(a, OpTerms) else (b, a)
            if isinstance(o, OpTerms):
                self.err('product of two operator rows', node)
            if is_num(o):
                o = RowS(cst(o))
            if isinstance(o, RowS):
                return OpTerms([(o.e if L is None else mk('Mul', L, o.e), R) for (L, R) in t.terms])
            if isinstance(o, E) and o.kind == 'p':
                if not isinstance(a, OpTerms):
                    self.err('whole profile must multiply d_d_varphi[j,:] from the right', node)
                return OpTerms([(L, o if R is None else mk('Mul', R, o)) for (L, R) in t.terms])
            if isinstance(o, E) and o.kind == 's':
                return OpTerms([(o if L is None else mk('Mul', L, o), R) for (L, R) in t.terms])
        if op in (ast.Add, ast.Sub) and isinstance(a, OpTerms) and isinstance(b, OpTerms):
            bt = b.terms if op is ast.Add else [(mk('Neg', L) if L is not None else cst(-1), R) for (L, R) in b.terms]
            return OpTerms(a.terms + bt)
        if op is ast.Div and isinstance(a, OpTerms) and isinstance(b, RowS):
            return OpTerms([(mk('Div', 1, b.e) if L is None else mk('Div', L, b.e), R) for (L, R) in a.terms])
        self.err('unsupported operator-row arithmetic', node)

    def arr_binop(self, op, a, b, node):
        A = a if isinstance(a, SArr) else b
        def at(x, i):
            return x.get(i) if isinstance(x, SArr) else x
        if isinstance(a, SArr) and isinstance(b, SArr) and a.shape != b.shape:
            self.err('array shape mismatch', node)
        return SArr(A.shape, nested(A.shape, lambda i: self.binop(op, at(a, i), at(b, i), node)), A.grid)

    # ---------------- calls
    def e_Call(self, e):
        fn = ast.unparse(e.func)
        if fn in SKIP_CALLS:
            return Opaque('log')
        args = [self.expr(a) for a in e.args]
        kw = {k.arg: self.expr(k.value) for k in e.keywords}
        h = getattr(self, 'c_' + fn.replace('.', '_'), None)
        if h is None:
            # method call on self returning a value
            if isinstance(e.func, ast.Attribute) and isinstance(e.func.value, ast.Name) and e.func.value.id in self.self_names:
                return self.on_self_method(e.func.attr, args, kw, e)
            if isinstance(e.func, ast.Attribute) and e.func.attr == 'transpose' and not args:
                return self.c_np_transpose(self.expr(e.func.value))
            self.err('unsupported call %s' % fn, e)
        return h(*args, **kw)

    def on_self_method(self, name, args, kw, node):
        if name == 'convert_to_spline':
            return Opaque('spline')
        self.err('unsupported method call self.%s' % name, node)

    def un(self, op, a):
        if is_num(a):
            a = cst(a)
        if isinstance(a, RowS):
            return RowS(mk(op, a.e))
        if isinstance(a, E):
            return mk(op, a)
        if isinstance(a, SArr):
            return SArr(a.shape, nested(a.shape, lambda i: mk(op, a.get(i))), a.grid)
        self.err('%s of unsupported value' % op)

    def c_np_sqrt(self, a): return self.un('Sqrt', a)
    def c_np_abs(self, a): return self.un('Abs', a)
    def c_abs(self, a): return self.un('Abs', a)
    def c_float(self, a):
        # float(x) of a scalar value is the identity on reals (only a representation change)
        if is_num(a) or (isinstance(a, E) and a.kind == 's'):
            return a
        self.err('float() of a non-scalar value')
    def c_np_sin(self, a): return self.un('Sin', a)
    def c_np_cos(self, a): return self.un('Cos', a)
    def c_np_exp(self, a): return self.un('Exp', a)
    def c_np_copy(self, a):
        if isinstance(a, StateVec):
            self.inputs[a.tail.args[0]] = 'p'
            return a.tail
        if isinstance(a, Opaque) and a.what == 'd_d_varphi':
            M = SMat(1)
            M.ops[(0, 0)] = [(None, None)]
            return M
        return a
    def c_fourier_minimum(self, a): return self.red('FMin', a)
    def c_np_argmax(self, a): return Opaque('argindex')
    def c_np_argmin(self, a): return Opaque('argindex')
    def c_len(self, a):
        if isinstance(a, (list, tuple)):
            return len(a)
        if isinstance(a, E) and a.kind == 'p':
            return NPhi()
        self.err('len of unsupported value')
    def c_range(self, *a):
        if all(isinstance(x, int) for x in a):
            return range(*a)
        self.err('symbolic range outside a for statement')
    def c_Struct(self):
        self.nstruct = getattr(self, 'nstruct', 0) + 1
        return Struct('tensor' if self.nstruct == 1 else 'struct%d' % self.nstruct)
    def c_hasattr(self, obj, name):
        src = 'hasattr(%s)' % name
        if src in self.decisions:
            self.used_decisions.add(src)
            return self.decisions[src]
        self.err('undecided hasattr(%s)' % name)

    def red(self, op, a):
        if isinstance(a, (list, tuple)):
            if op == 'Sum':
                acc = None
                for x in a:
                    acc = x if acc is None else self.binop(ast.Add, acc, x, None)
                return acc
            if all(is_num(x) or (isinstance(x, E) and x.kind == 's') for x in a) and len(a) == 2:
                # np.max((0, x)) etc. on two scalars: max(a,b) = (a+b+|a-b|)/2 ; min = (a+b-|a-b|)/2
                x, y = lift(a[0]), lift(a[1])
                s, d = mk('Add', x, y), mk('Abs', mk('Sub', x, y))
                return mk('Div', mk('Add' if op == 'MaxG' else 'Sub', s, d), 2)
            self.err('reduction over a python list')
        if isinstance(a, E) and a.kind == 'p' and not isinstance(a, RowS):
            return E(op, (a,), 's')
        self.err('%s of a non-profile value' % op)

    def c_np_sum(self, a, axis=None):
        if isinstance(a, SArr) and a.grid == 'first' and axis == tuple(range(1, len(a.shape) + 1)):
            acc = None
            def walk(d):
                nonlocal acc
                if isinstance(d, list):
                    for x in d:
                        walk(x)
                else:
                    acc = d if acc is None else mk('Add', acc, d)
            walk(a.data)
            return acc
        if axis is not None:
            self.err('unsupported np.sum axis')
        return self.red('Sum', a)
    def c_sum(self, a): return self.red('Sum', a)
    def c_np_max(self, a): return self.red('MaxG', a)
    def c_np_min(self, a): return self.red('MinG', a)
    def c_np_mean(self, a): return mk('Div', self.red('Sum', a), var('nphi', 's'))

    def c_np_matmul(self, a, b):
        if isinstance(a, Opaque) and a.what == 'd_d_varphi':
            return self.dv(b)
        self.err('np.matmul with an unsupported matrix')

    def c_np_zeros(self, shape):
        if isinstance(shape, NPhi):
            z = cst(0)
            return E(z.op, z.args, 'p')
        if isinstance(shape, NMul):
            return SBlockVec(shape.k)
        if isinstance(shape, tuple) and len(shape) == 2 and all(isinstance(s, NMul) for s in shape) and shape[0].k == shape[1].k:
            return SMat(shape[0].k)
        if isinstance(shape, tuple) and isinstance(shape[0], NPhi) and all(isinstance(s, int) for s in shape[1:]):
            def z(_):
                c = cst(0)
                return E(c.op, c.args, 'p')
            return SArr(shape[1:], nested(shape[1:], z), 'first')
        self.err('unsupported np.zeros shape')

    def c_np_full(self, shape, v):
        if isinstance(shape, NPhi):
            v = lift(v)
            if v.kind != 's':
                self.err('np.full with a non-scalar')
            return E(v.op, v.args, 'p')
        self.err('unsupported np.full shape')

    def c_np_array(self, a):
        def shape_of(x):
            if isinstance(x, (list, tuple)):
                return (len(x),) + shape_of(x[0])
            return ()
        def tolist(x):
            if isinstance(x, (list, tuple)):
                return [tolist(y) for y in x]
            if is_num(x):
                return cst(x)
            if not isinstance(x, E):
                self.err('np.array component is not an expression')
            return x
        sh = shape_of(a)
        if not sh:
            self.err('np.array of a scalar')
        return SArr(sh, tolist(a), 'last')

    def c_np_transpose(self, a, axes=None):
        if isinstance(a, SArr):
            if axes is None and len(a.shape) == 1:
                return SArr(a.shape, a.data, 'first' if a.grid == 'last' else 'last')
            if axes == (1, 2, 3, 0) and a.grid == 'first' and len(a.shape) == 3:
                return SArr(a.shape, a.data, 'last')
            if axes is None and len(a.shape) == 2 and a.grid is None:
                return SArr((a.shape[1], a.shape[0]), [[a.data[i][j] for i in range(a.shape[0])] for j in range(a.shape[1])], None)
        self.err('unsupported transpose')

    def c_np_linspace(self, start, stop, n, endpoint=True):
        if endpoint is not False or not isinstance(n, NPhi):
            self.err('only np.linspace(a, b, nphi, endpoint=False) is supported')
        return Linspace(lift(start), lift(stop), var('nphi', 's'))

    def c_np_linalg_solve(self, M, rhs):
        if not (isinstance(M, SMat) and isinstance(rhs, SBlockVec) and M.nb == rhs.nb):
            self.err('unsupported np.linalg.solve arguments')
        self.nsolve = getattr(self, 'nsolve', 0) + 1
        sol = []
        for b in range(M.nb):
            nm = 'solve%d_%d' % (self.nsolve, b)
            self.inputs[nm] = 'p'
            sol.append(var(nm, 'p'))
        rows = self.mat_apply(M, sol)
        eqs = []
        for b in range(M.nb):
            r = rhs.blocks[b] if rhs.blocks[b] is not None else cst(0)
            eqs.append(('solve%d_eq%d' % (self.nsolve, b), mk('Sub', rows[b], r)))
        # residual equations are appended to the program under their own names;
        # the solution blocks are oracle inputs of the program
        self.aux_progs['solve%d' % self.nsolve] = {'unknowns': [s.args[0] for s in sol], 'equations': [n for n, _ in eqs]}
        for n, e in eqs:
            self.emit(n, e)
        return SBlockVec(M.nb, sol)


# ----------------------------------------------------------------------------
# Coq printing
# ----------------------------------------------------------------------------
def coq_q(fr):
    if fr.numerator < 0:
        return '((%d)#%d)' % (fr.numerator, fr.denominator)
    return '(%d#%d)' % (fr.numerator, fr.denominator)


def coq_expr(e, out):
    op = e.op
    if op == 'Cst':
        out.append('(Cst %s)' % coq_q(e.args[0]))
    elif op in ('CPi', 'CMu0'):
        out.append(op)
    elif op == 'Var':
        out.append('(Var "%s")' % e.args[0])
    elif op in ('Pow', 'At'):
        out.append('(%s ' % op)
        coq_expr(e.args[0], out)
        out.append(' %d)' % e.args[1])
    else:
        out.append('(%s' % op)
        for a in e.args:
            out.append(' ')
            coq_expr(a, out)
        out.append(')')


def coq_prog(name, prog):
    out = ['Definition %s : prog := [\n' % name]
    for i, (n, e) in enumerate(prog):
        buf = []
        coq_expr(e, buf)
        out.append('  ("%s", %s)%s\n' % (n, ''.join(buf), ';' if i + 1 < len(prog) else ''))
    out.append('].\n')
    return ''.join(out)


def expr_size(e):
    return 1 + sum(expr_size(a) for a in e.args if isinstance(a, E))


# ----------------------------------------------------------------------------
# driver helpers
# ----------------------------------------------------------------------------
def find_function(tree, name):
    for node in ast.walk(tree):
        if isinstance(node, ast.FunctionDef) and node.name == name:
            return node
    return None


def translate_function(repo, relfile, fname, kinds, decisions, params=None, cls=Interp, hook=None):
    path = os.path.join(repo, relfile)
    src = open(path).read()
    tree = ast.parse(src)
    fn = find_function(tree, fname)
    if fn is None:
        raise TranslateError('%s: function %s not found' % (relfile, fname))
    it = cls(fname, relfile, kinds, decisions, params=params)
    # default parameter values
    pos = fn.args.args
    defaults = fn.args.defaults
    for a, d in zip(pos[len(pos) - len(defaults):], defaults):
        if a.arg not in it.params:
            it.params[a.arg] = ast.literal_eval(d) if isinstance(d, ast.Constant) else None
    for pv in (params or {}).values():
        if isinstance(pv, E) and pv.op == 'Var':
            it.inputs[pv.args[0]] = pv.kind
    if hook:
        hook(it)
    it.run_body(fn.body)
    unused = set(decisions) - it.used_decisions
    return it
