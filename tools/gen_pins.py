#!/usr/bin/env python3
"""gen_pins.py [--repo /repo] [--out coq/gen]: source pins for the code that is modelled BY HAND.

The hand-written Coq models (Newton control, spectral_diff_matrix, helicity counter, bracket search, Fourier interpolation weights, root selection,
to_Fourier / inverse series, VMEC mode-line loop) are tied to the implementation by correspondence runs evaluated inside Coq.  A correspondence run
samples; this file adds the fail-closed half of the tie: the digest of the normalised syntax tree of every hand-modelled function is emitted into
coq/gen/G_pins.v on every run, and a committed obligation (coq/props/Pin_<name>.v) states which digest the model was written and validated against.
Any edit of such a function -- other than comments, docstrings, blank lines, formatting, logger.debug / logger.info calls and a consistent renaming of
local variables -- breaks that obligation;
the check then searches for a failing input as for every other broken obligation.

The digest is sha256 of ast.dump (no line numbers / columns) of the selected node."""
import ast, hashlib, os, sys, argparse, json

# pin name -> (file under qsc/, function name, selector)
#   selector None       : the whole function
#   selector 'jphi-loop': the `for jphi in range(nphi)` loop of calculate_r_singularity (the root selection; the coefficient part is translated, not hand-modelled)
PINS = {
    'newton': ('newton.py', 'newton', None),
    'spectral_diff_matrix': ('spectral_diff_matrix.py', 'spectral_diff_matrix', None),
    'fourier_interpolation': ('fourier_interpolation.py', 'fourier_interpolation', None),
    'fourier_minimum': ('util.py', 'fourier_minimum', None),
    'to_Fourier': ('util.py', 'to_Fourier', None),
    'determine_helicity': ('calculate_r1.py', '_determine_helicity', None),
    'r_singularity_selection': ('r_singularity.py', 'calculate_r_singularity', 'jphi-loop'),
    'get_boundary': ('plot.py', 'get_boundary', None),
    'to_vmec': ('to_vmec.py', 'to_vmec', None),
    'convert_to_spline': ('init_axis.py', 'convert_to_spline', None),
    # the object's constructor and mutators (modelled by theories/ObjModel.v; every property quantifies over objects built and changed through them)
    'qsc_init': ('qsc.py', '__init__', None),
    'qsc_calculate': ('qsc.py', 'calculate', None),
    'qsc_set_dofs': ('qsc.py', 'set_dofs', None),
    'qsc_change_nfourier': ('qsc.py', 'change_nfourier', None),
    'qsc_get_dofs': ('qsc.py', 'get_dofs', None),
}


class Strip(ast.NodeTransformer):
    """remove docstrings and logger.debug / logger.info calls (they do not take part in any modelled behaviour; logger.warning does)"""
    def _body(self, body):
        out = []
        for i, st in enumerate(body):
            if isinstance(st, ast.Expr) and isinstance(st.value, ast.Constant) and isinstance(st.value.value, str):
                continue
            if isinstance(st, ast.Expr) and isinstance(st.value, ast.Call):
                f = st.value.func
                if isinstance(f, ast.Attribute) and f.attr in ('debug', 'info') and isinstance(f.value, ast.Name) and f.value.id in ('logger', 'logging'):
                    continue
            out.append(self.visit(st))
        return out or [ast.Pass()]

    def generic_visit(self, node):
        for field in ('body', 'orelse', 'finalbody'):
            b = getattr(node, field, None)
            if isinstance(b, list) and b and isinstance(b[0], ast.stmt):
                setattr(node, field, self._body(b))
        for field, value in ast.iter_fields(node):
            if field in ('body', 'orelse', 'finalbody') and isinstance(value, list) and value and isinstance(value[0], ast.stmt):
                continue
            if isinstance(value, list):
                setattr(node, field, [self.visit(v) if isinstance(v, ast.AST) else v for v in value])
            elif isinstance(value, ast.AST):
                setattr(node, field, self.visit(value))
        return node


class Locals(ast.NodeVisitor):
    """local variable names of a function in order of their first binding (depth-first): assignment / loop / comprehension / with targets; the
    parameters are part of the interface (keyword calls) and keep their names"""
    def __init__(self, fn):
        self.order = []
        self.params = {a.arg for a in fn.args.posonlyargs + fn.args.args + fn.args.kwonlyargs}
        if fn.args.vararg: self.params.add(fn.args.vararg.arg)
        if fn.args.kwarg: self.params.add(fn.args.kwarg.arg)
        self.skip = set()
        for st in fn.body:
            self.visit(st)

    def visit_Global(self, node): self.skip |= set(node.names)
    def visit_Nonlocal(self, node): self.skip |= set(node.names)

    def visit_Name(self, node):
        if isinstance(node.ctx, ast.Store) and node.id not in self.params and node.id not in self.order:
            self.order.append(node.id)


class Rename(ast.NodeTransformer):
    def __init__(self, mapping): self.m = mapping
    def visit_Name(self, node):
        if node.id in self.m:
            return ast.copy_location(ast.Name(id=self.m[node.id], ctx=node.ctx), node)
        return node


def find_function(tree, name):
    for n in ast.walk(tree):
        if isinstance(n, ast.FunctionDef) and n.name == name:
            return n
    return None


def select(fn, selector):
    if selector is None:
        return [fn]
    if selector == 'jphi-loop':
        return [n for n in ast.walk(fn) if isinstance(n, ast.For) and isinstance(n.target, ast.Name) and n.target.id == 'jphi']
    raise ValueError(selector)


def digest(repo, fname, func, selector):
    path = os.path.join(repo, 'qsc', fname)
    tree = ast.parse(open(path).read())
    fn = find_function(tree, func)
    if fn is None:
        return None, 'function %s not found in %s' % (func, fname)
    fn = Strip().visit(fn)
    nodes = select(fn, selector)
    if not nodes:
        return None, 'selector %s matches nothing in %s' % (selector, func)
    # module-level constants the selected code reads (e.g. `eps = np.finfo(float).eps` in fourier_interpolation.py) belong to it
    used = set()
    for n in nodes:
        used |= {x.id for x in ast.walk(n) if isinstance(x, ast.Name)}
    # local variables are renamed v0, v1, ... in order of first binding: renaming a local is not an edit of the function
    loc = Locals(fn)
    mapping = {nm: 'v%d' % i for i, nm in enumerate(x for x in loc.order if x not in loc.skip)}
    nodes = [Rename(mapping).visit(n) for n in nodes]
    h = hashlib.sha256()
    for n in nodes:
        h.update(ast.dump(n, annotate_fields=True, include_attributes=False).encode())
    for st in tree.body:
        if isinstance(st, (ast.Assign, ast.AnnAssign, ast.AugAssign)):
            tg = st.targets if isinstance(st, ast.Assign) else [st.target]
            if any(isinstance(t, ast.Name) and t.id in used for t in tg):
                h.update(ast.dump(st, annotate_fields=True, include_attributes=False).encode())
    return h.hexdigest(), None


def main():
    ap = argparse.ArgumentParser()
    ap.add_argument('--repo', default=os.environ.get('VERIF_REPO', '/repo'))
    ap.add_argument('--out', default=os.path.join(os.path.dirname(os.path.dirname(os.path.abspath(__file__))), 'coq', 'gen'))
    ap.add_argument('--write-props', action='store_true', help='(re)write coq/props/Pin_<name>.v from the CURRENT source: only when a model has been re-validated by hand')
    a = ap.parse_args()
    lines = ['(* GENERATED by tools/gen_pins.py -- digests of the normalised syntax trees of the hand-modelled functions *)', 'From Coq Require Import String.',
             'Open Scope string_scope.', '']
    errs, digs = [], {}
    for name, (fname, func, sel) in PINS.items():
        d, err = digest(a.repo, fname, func, sel)
        if err:
            errs.append('%s: %s' % (name, err))
            d = 'MISSING: ' + err
        digs[name] = d
        lines.append('Definition pin_%s : string := "%s".' % (name, d))
    os.makedirs(a.out, exist_ok=True)
    open(os.path.join(a.out, 'G_pins.v'), 'w').write('\n'.join(lines) + '\n')
    if a.write_props:
        props = os.path.join(os.path.dirname(a.out), 'props')
        for name, (fname, func, sel) in PINS.items():
            open(os.path.join(props, 'Pin_%s.v' % name), 'w').write(
                '(* Source pin: the hand-written model of qsc/%s:%s%s was written and validated (correspondence runs evaluated inside Coq, see DESIGN.md 1.1) against the\n'
                '   source whose normalised syntax tree has this digest (tools/gen_pins.py).  If the function is edited this obligation fails and the check searches\n'
                '   for a failing input; after re-validating the model against the new source, regenerate with `tools/gen_pins.py --write-props`. *)\n'
                'From Coq Require Import String.\nFrom QSCGen Require Import G_pins.\nOpen Scope string_scope.\n\n'
                'Lemma pin_%s_current : pin_%s = "%s".\nProof. reflexivity. Qed.\n' % (fname, func, ' (%s)' % sel if sel else '', name, name, digs[name]))
    print(json.dumps(dict(pins=digs, errors=errs)))
    sys.exit(1 if errs else 0)


if __name__ == '__main__':
    main()
