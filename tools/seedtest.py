#!/usr/bin/env python3
"""seedtest.py [seed ids...] [--checks C04,C08] : apply each confirmed seeded change (seeded/<id>/patch.diff) to /repo, run the quick check of its
property (and of any extra properties given), record the outcome in seeded/<id>/meta.json (detected_by), and ALWAYS restore /repo.
Evidence written during these runs goes to work/seed_evidence, never to evidence/."""
import os, sys, json, subprocess, time
ROOT = os.path.dirname(os.path.dirname(os.path.abspath(__file__)))
SEEDED = os.path.join(ROOT, 'seeded')
REPO = os.environ.get('VERIF_REPO', '/repo')      # a scratch worktree when several copies run in parallel (tools/seedpar.py)
EXTRA = {'C03_m2': ['C16'], 'C13_m2': ['C17'], 'C05_m1': ['C13'], 'C12_m1': ['C07'], 'C15_m1': ['C07'], 'C07_m2': ['C15'], 'C01_m2': ['C04', 'C08'], 'C01_m1': ['C07'],
         'C10_m1': ['C17', 'C07'], 'C06_m1': ['C13'], 'C06_m2': ['C17'],
         'C01_m4': ['C16'], 'C03_m3': ['C17', 'C19'], 'C06_m3': ['C14'], 'C04_m4': ['C16'], 'C10_m4': ['C16'], 'C19_m4': ['C16', 'C17'], 'C17_m4': ['C19'], 'C14_m4': ['C16', 'C07'],
         'C02_m4': ['C13', 'C07'], 'C07_m3': ['C13'], 'C05_m4': ['C16'], 'C12_m3': ['C07'], 'C18_m3': ['C03', 'C05'], 'C18_m4': ['C19'], 'C20_m3': ['C03'], 'C15_m3': ['C14'],
         'C13_m4': ['C09'], 'C09_m4': ['C13'], 'C11_m4': ['C01', 'C07'], 'C08_m3': ['C01', 'C04'], 'C17_m3': ['C15']}


def sh(cmd, **kw):
    return subprocess.run(cmd, shell=True, capture_output=True, text=True, **kw)


def main():
    args = [a for a in sys.argv[1:] if not a.startswith('--')]
    extra = []
    for a in sys.argv[1:]:
        if a.startswith('--checks='):
            extra = a.split('=', 1)[1].split(',')
    claimed = {c['property_id'] for c in json.load(open(os.path.join(ROOT, 'MANIFEST.json')))['checks']}
    env = dict(os.environ, VERIF_EVIDENCE_DIR=os.path.join(ROOT, 'work', 'seed_evidence'))
    assert sh('git -C ' + REPO + ' status --porcelain').stdout.strip() == '', '/repo is not clean'
    for sid in sorted(os.listdir(SEEDED)):
        if args and sid not in args:
            continue
        d = os.path.join(SEEDED, sid)
        mp = os.path.join(d, 'meta.json')
        if not os.path.exists(mp):
            continue
        meta = json.load(open(mp))
        props = [meta['property']] + ([] if '--own' in sys.argv else EXTRA.get(sid, [])) + extra
        props = [p for p in dict.fromkeys(props) if p in claimed]
        r = sh('git -C ' + REPO + ' apply %s' % os.path.join(d, 'patch.diff'))
        if r.returncode != 0:
            r = sh('git -C ' + REPO + ' apply --3way %s' % os.path.join(d, 'patch.diff'))
        if r.returncode != 0:
            print(sid, 'PATCH DOES NOT APPLY', r.stderr[-200:])
            sh('git -C ' + REPO + ' checkout -- .')
            continue
        try:
            for p in props:
                t = time.time()
                c = subprocess.run([os.path.join(ROOT, 'check'), p, '--tier', 'quick'], capture_output=True, text=True, env=env)
                line = [l for l in c.stdout.splitlines() if l.startswith('VIOLATION')]
                det = dict(exit=c.returncode, violation_line=line[-1] if line else None, secs=round(time.time() - t, 1),
                           concrete_input=bool(line) and 'no-failing-input-found' not in line[-1])
                # which layer raised the alarm: broken proof obligations / correspondences (Coq side) and / or the numeric prediction on the real code
                try:
                    rp = json.load(open(line[-1].split('replay=')[1].split()[0]))
                    br = rp.get('broken') or []
                    det['kind'] = rp.get('kind')
                    det['broken_obligations'] = [b[:160] for b in br if b.startswith(('obligation', 'translator', 'generated model', 'theory', 'front-end', 'mkprops', 'unexpected axioms', 'forbidden'))][:6]
                    det['broken_correspondences'] = [b[:160] for b in br if b.startswith('correspondence')][:6]
                except Exception:
                    pass
                meta.setdefault('detected_by', {})[p] = det
                print(sid, p, 'exit', c.returncode, 'concrete' if det['concrete_input'] else ('alarm-without-input' if line else 'MISSED'), det['secs'])
                sys.stdout.flush()
        finally:
            sh('git -C ' + REPO + ' checkout -- .')
            sh('git -C ' + REPO + ' reset -q')
        json.dump(meta, open(mp, 'w'), indent=1)
    assert sh('git -C ' + REPO + ' status --porcelain').stdout.strip() == '', '/repo left dirty!'


if __name__ == '__main__':
    main()
