"""Translator validation shared by all checks that read the generated model."""
import os, json
import numpy as np
from common import ROOT, flat_attrs
import evalback

GEN = os.path.join(ROOT, 'coq', 'gen')
_cache = {}


def load_model():
    if 'man' not in _cache:
        _cache['man'] = json.load(open(os.path.join(GEN, 'gen_manifest.json')))
        progs = {}
        for f in sorted(os.listdir(GEN)):
            if f.endswith('.v'):
                progs.update(evalback.parse_file(os.path.join(GEN, f)))
        _cache['progs'] = progs
    return _cache['man'], _cache['progs']


def variant_ok(pname, info, q):
    fn, var = info['function'], info['variant']
    if var in ('h0', 'hN'):
        if (q.helicity == 0) != (var == 'h0'):
            return False
    if fn in ('calculate_r2', 'mercier', 'calculate_grad_grad_B_tensor', 'calculate_r_singularity',
              'grad_grad_B_tensor_cylindrical', 'grad_grad_B_tensor_cartesian') and q.order == 'r1':
        return False
    if fn in ('calculate_r3', 'calculate_shear') and q.order != 'r3':
        return False
    if fn == 'B_mag' or fn.startswith('Frenet_to_cylindrical_') :
        if (var.startswith('r1')) != (q.order == 'r1'):
            return False
    if fn in ('Frenet_to_cylindrical', 'to_RZ') and var != q.order:
        return False
    if fn == 'calculate_shear':
        sym = q.sigma0 == 0 and np.max(np.abs(q.rs)) == 0 and np.max(np.abs(q.zc)) == 0
        if (var == 'sym') != bool(sym):
            return False
    return True


def extra_inputs(pname, info, q, rng):
    """values of the non-attribute inputs (state vectors, oracle solutions, method parameters)"""
    ex = {}
    fn = info['function']
    if fn in ('_residual', '_jacobian'):
        x = np.array(q.sigma, dtype=float, copy=True)
        x[0] = q.iota
        x = x + 0.05 * rng.standard_normal(q.nphi)   # arbitrary (not converged) state vector
        ex['x'] = x
        ex['xs'] = x
        ex['xi'] = float(x[0])
        ex['h'] = rng.standard_normal(q.nphi)
        ex['hs'] = ex['h']
        ex['hi'] = float(ex['h'][0])
    if fn == 'init_axis' and info['variant'] != 'term':
        for a in ('R0', 'Z0', 'R0p', 'Z0p', 'R0pp', 'Z0pp', 'R0ppp', 'Z0ppp'):
            ex[a + '_sum'] = getattr(q, a)
        ex['phi'] = q.phi
        cs = np.zeros(q.nphi)
        for j in range(1, q.nphi):
            cs[j] = cs[j - 1] + (q.d_l_d_phi[j - 1] + q.d_l_d_phi[j])
        ex['varphi_cumsum'] = cs
    if fn == 'B_mag':
        bt = info['variant'].endswith('boozer')
        ex['r'] = 0.07; ex['theta'] = 0.9; ex['phi_arg'] = 0.37 + 2 * np.pi / q.nfp
        ex['nu_at_phi'] = float(q.nu_spline(ex['phi_arg']))
        ex['_bmag'] = float(q.B_mag(ex['r'], ex['theta'], ex['phi_arg'], Boozer_toroidal=bt))
        if q.order != 'r1':
            ex['B20_at_phi'] = float(q.B20_spline(ex['phi_arg']))
    if fn in ('Frenet_to_cylindrical_residual_func', 'Frenet_to_cylindrical_1_point'):
        # build the splines the way Frenet_to_cylindrical does for one poloidal angle, then evaluate everything at one phi0
        r_, th_ = 0.04, 0.8
        X = r_ * (q.X1c_untwisted * np.cos(th_) + q.X1s_untwisted * np.sin(th_)); Y = r_ * (q.Y1c_untwisted * np.cos(th_) + q.Y1s_untwisted * np.sin(th_)); Zs = 0 * X
        if q.order != 'r1':
            X = X + r_ * r_ * (q.X20_untwisted + q.X2c_untwisted * np.cos(2 * th_) + q.X2s_untwisted * np.sin(2 * th_))
            Y = Y + r_ * r_ * (q.Y20_untwisted + q.Y2c_untwisted * np.cos(2 * th_) + q.Y2s_untwisted * np.sin(2 * th_))
            Zs = Zs + r_ * r_ * (q.Z20_untwisted + q.Z2c_untwisted * np.cos(2 * th_) + q.Z2s_untwisted * np.sin(2 * th_))
        q.X_spline = q.convert_to_spline(X); q.Y_spline = q.convert_to_spline(Y); q.Z_spline = q.convert_to_spline(Zs)
        ex['phi0'] = 0.31; ex['phi_target'] = 0.29
        for nm in info['inputs']:
            if nm.endswith('@phi0'):
                ex[nm] = float(getattr(q, nm[:-5])(ex['phi0']))
        import qsc.Frenet_to_cylindrical as FC
        if fn.endswith('1_point'):
            R_, z_, p_ = FC.Frenet_to_cylindrical_1_point(ex['phi0'], q)
            ex['atan2'] = float(p_); ex['_ref'] = {'s.ret0': float(R_), 's.ret1': float(z_), 's.ret2': float(p_)}
        else:
            res_ = FC.Frenet_to_cylindrical_residual_func(ex['phi0'], ex['phi_target'], q)
            ex['atan2'] = float(res_ + ex['phi_target']); ex['_ref'] = {'s.ret': float(res_)}
    if fn in ('Frenet_to_cylindrical', 'to_RZ'):
        ex['r'] = 0.05; ex['theta'] = 0.7; ex['pt_r'] = 0.05; ex['pt_theta'] = 0.7; ex['pt_phi0'] = 0.2
    if fn == 'to_vmec':
        ex['r'] = 0.06
    if fn == 'solve_sigma_equation':
        x = np.array(q.sigma, dtype=float, copy=True)
        x[0] = q.iota
        ex['newton_xs'] = x
        ex['newton_xi'] = float(q.iota)
    if fn == 'calculate_r2':
        ex['solve1_0'] = q.X20
        ex['solve1_1'] = q.Y20
    if fn == 'calculate_shear':
        DMred = q.d_d_varphi[1:, 1:]
        if info['variant'] == 'sym':
            ex['redsolve1'] = np.insert(np.linalg.solve(DMred, q.sigma[1:]), 0, 0)
        else:
            avSig = sum(q.sigma * q.d_varphi_d_phi) / len(q.sigma)
            ex['redsolve1'] = np.insert(np.linalg.solve(DMred, q.sigma[1:] - avSig), 0, 0)
            # trapezoid weights for the abscissae append(varphi, 2 pi / nfp): sum_j y_j w_j + y_end w_end
            xe = np.append(q.varphi, 2 * np.pi / q.nfp)
            w = np.zeros(q.nphi + 1)
            w[:-1] += 0.5 * np.diff(xe)
            w[1:] += 0.5 * np.diff(xe)
            ex['trapz_w'] = w[:-1]
            ex['trapz_wend'] = float(w[-1])
        ex['B31c'] = 0.0
    if fn in ('Bfield_cylindrical', 'Bfield_cartesian'):
        ex['r'] = 0.07 if info['variant'] != 'r0' else 0.0
        ex['theta'] = 0.9
        if fn == 'Bfield_cartesian':
            B = q.Bfield_cylindrical(ex['r'], ex['theta'])
            for i in range(3):
                ex['Bcyl_%d' % i] = B[i]
    if fn == 'grad_B_tensor_cartesian':
        B = q.Bfield_cylindrical()
        for i in range(3):
            ex['Bcyl_%d' % i] = B[i]
    if fn == 'grad_grad_B_tensor_cartesian':
        T = q.grad_grad_B_tensor_cylindrical()
        for idx in np.ndindex(3, 3, 3):
            ex['ggBcyl' + ''.join('_%d' % i for i in idx)] = T[idx]
    return ex


def reference_outputs(pname, info, q, ex):
    """what the implementation produced for the outputs of this program: name -> array"""
    fn = info['function']
    fa = flat_attrs(q)
    ref = {}
    if fn == '_residual':
        ref[info.get('last_version', {}).get('r', 'r')] = q._residual(ex['x'])
        return ref
    if fn == '_jacobian':
        ref['s.ret'] = q._jacobian(ex['x']) @ ex['h']
        return ref
    if fn == 'B_mag':
        ref['s.ret'] = ex['_bmag']
        return ref
    if fn in ('Frenet_to_cylindrical_residual_func', 'Frenet_to_cylindrical_1_point'):
        return dict(ex['_ref'])
    if fn in ('Frenet_to_cylindrical', 'to_RZ'):
        r_, th_ = 0.05, 0.7
        X = r_ * (q.X1c_untwisted * np.cos(th_) + q.X1s_untwisted * np.sin(th_)); Y = r_ * (q.Y1c_untwisted * np.cos(th_) + q.Y1s_untwisted * np.sin(th_)); Zs = 0 * X
        if q.order != 'r1':
            X = X + r_ * r_ * (q.X20_untwisted + q.X2c_untwisted * np.cos(2 * th_) + q.X2s_untwisted * np.sin(2 * th_))
            Y = Y + r_ * r_ * (q.Y20_untwisted + q.Y2c_untwisted * np.cos(2 * th_) + q.Y2s_untwisted * np.sin(2 * th_))
            Zs = Zs + r_ * r_ * (q.Z20_untwisted + q.Z2c_untwisted * np.cos(2 * th_) + q.Z2s_untwisted * np.sin(2 * th_))
        if q.order == 'r3':
            r3 = r_ ** 3
            X = X + r3 * (q.X3c1_untwisted * np.cos(th_) + q.X3s1_untwisted * np.sin(th_) + q.X3c3_untwisted * np.cos(3 * th_) + q.X3s3_untwisted * np.sin(3 * th_))
            Y = Y + r3 * (q.Y3c1_untwisted * np.cos(th_) + q.Y3s1_untwisted * np.sin(th_) + q.Y3c3_untwisted * np.cos(3 * th_) + q.Y3s3_untwisted * np.sin(3 * th_))
            Zs = Zs + r3 * (q.Z3c1_untwisted * np.cos(th_) + q.Z3s1_untwisted * np.sin(th_) + q.Z3c3_untwisted * np.cos(3 * th_) + q.Z3s3_untwisted * np.sin(3 * th_))
        lv = info.get('last_version', {})
        return {lv.get('X_at_this_theta', 'X_at_this_theta'): X, lv.get('Y_at_this_theta', 'Y_at_this_theta'): Y, lv.get('Z_at_this_theta', 'Z_at_this_theta'): Zs}
    if fn == 'to_vmec':
        r_ = ex['r']
        return {'phiedge': np.pi * r_ * r_ * q.spsi * q.Bbar, 'am_0': -q.p2 * r_ * r_, 'am_1': q.p2 * r_ * r_, 'curtor': 2 * np.pi / (4 * np.pi * 1e-7) * q.I2 * r_ * r_}
    if fn in ('Bfield_cylindrical', 'Bfield_cartesian', 'grad_B_tensor_cartesian',
              'grad_grad_B_tensor_cylindrical', 'grad_grad_B_tensor_cartesian'):
        if fn.startswith('Bfield'):
            R = getattr(q, fn)(ex['r'], ex['theta'])
        else:
            R = getattr(q, fn)()
        R = np.asarray(R)
        for idx in np.ndindex(*R.shape[:-1]):
            ref['s.ret' + ''.join('_%d' % i for i in idx)] = R[idx]
        return ref
    for o in info['outputs']:
        if o in fa:
            ref[info.get('final_name', {}).get(o, 's.' + o)] = fa[o]
    return ref


def aux_term_program(pname, info, q, progs, res):
    """init_axis_term: the sum over harmonics of each *_term binding must reproduce the corresponding axis array,
    and the R0_func / Z0_func terms must reproduce the interpolants at the grid nodes"""
    acc = {}
    for k in range(q.nfourier):
        env = {'jn': float(k), 'nfp': float(q.nfp), 's.nfp': float(q.nfp), 'phi': q.phi, 's.phi': q.phi,
               'rc_jn': float(q.rc[k]), 'rs_jn': float(q.rs[k]), 'zc_jn': float(q.zc[k]), 'zs_jn': float(q.zs[k])}
        missing = [x for x in info['inputs'] if x not in env]
        if missing:
            res['mismatches'].append('%s: no value for inputs %s' % (pname, missing))
            return
        evalback.run_prog(q, progs[pname], env)
        for n, v in env.items():
            if n.endswith('_term'):
                acc[n] = acc.get(n, 0.0) + v
    res['programs'] += 1
    for n, v in acc.items():
        base = n[:-5]
        want = getattr(q, base)(q.phi) if base.endswith('_func') else getattr(q, base)
        ok, err = evalback.compare(n, v, want)
        res['bindings'] += 1
        if not ok:
            res['mismatches'].append('%s: sum over harmonics of %s differs from %s (rel err %s)' % (pname, n, base, err))
        elif isinstance(err, float):
            res['max_rel_err'] = max(res['max_rel_err'], err)


def validate(q, rng, only=None):
    """returns dict(programs, bindings, max_rel_err, mismatches[list of str])"""
    man, progs = load_model()
    res = dict(programs=0, bindings=0, max_rel_err=0.0, mismatches=[], equations=0)
    if q.order == 'r3' and not hasattr(q, 'iota2'):
        q.calculate_shear()
    if q.order != 'r1' and not hasattr(q, 'grad_grad_B_alt'):
        q.calculate_grad_grad_B_tensor(two_ways=True)
    for pname, info in man['programs'].items():
        if only and pname not in only:
            continue
        if not variant_ok(pname, info, q):
            continue
        if info.get('auxiliary'):
            aux_term_program(pname, info, q, progs, res)
            continue
        if pname not in progs:
            res['mismatches'].append('%s: program missing from generated Coq text' % pname)
            continue
        ex = extra_inputs(pname, info, q, rng)
        env, missing = evalback.base_env(q, info['inputs'], ex)
        if missing:
            res['mismatches'].append('%s: no value for inputs %s' % (pname, missing[:5]))
            continue
        try:
            with np.errstate(all='ignore'):
                evalback.run_prog(q, progs[pname], env)
        except Exception as e:
            res['mismatches'].append('%s: evaluation failed: %r' % (pname, e))
            continue
        ref = reference_outputs(pname, info, q, ex)
        res['programs'] += 1
        for name, want in ref.items():
            if name not in env:
                res['mismatches'].append('%s: output %s not bound by the model' % (pname, name))
                continue
            ok, err = evalback.compare(name, env[name], want)
            res['bindings'] += 1
            if not ok:
                res['mismatches'].append('%s: %s differs from the implementation (rel err %s)' % (pname, name, err))
            elif isinstance(err, float):
                res['max_rel_err'] = max(res['max_rel_err'], err)
        # residual equations of the oracle solves: |eq(sol)| small relative to |M sol|
        for sname, sv in info['solves'].items():
            env2 = dict((k, v) for k, v in env.items() if k in info['inputs'] or k in ex)
            for u in sv['unknowns']:
                env2[u] = 2.0 * np.asarray(env[u])
            try:
                with np.errstate(all='ignore'):
                    evalback.run_prog(q, progs[pname], env2)
            except Exception as e:
                res['mismatches'].append('%s: equation evaluation failed: %r' % (pname, e))
                continue
            for eq in sv['equations']:
                a, b = np.asarray(env[eq], dtype=float), np.asarray(env2[eq], dtype=float)
                scale = np.max(np.abs(b - a))
                resid = np.max(np.abs(a))
                res['equations'] += 1
                if eq.endswith('_pin'):
                    if resid != 0:
                        res['mismatches'].append('%s: pin equation %s violated (%g)' % (pname, eq, resid))
                elif not (resid <= 1e-8 * max(scale, 1e-300)):
                    res['mismatches'].append('%s: oracle solution does not satisfy %s: residual %g vs scale %g'
                                             % (pname, eq, resid, scale))
    return res
