"""Numeric oracle / correspondence for C13: helicity = sG*spsi*winding number (and the Quadrant.v model evaluated inside Coq agrees
with the code), iotaN relation, untwisting identities, prescribed |B| from B_mag in both angle conventions, also after recalculation."""
import sys, os, json, time, argparse, subprocess, re
sys.path.insert(0, os.path.dirname(os.path.abspath(__file__)))
from common import *
import transval
COQ = os.path.join(ROOT, 'coq')


def winding(q):
    """signed number of turns of the normal about the axis per field period, from the unwrapped angle of (n_R, n_Z)"""
    a = np.arctan2(q.normal_cylindrical[:, 2], q.normal_cylindrical[:, 0])
    a = np.append(a, a[0])
    d = np.diff(a)
    d = (d + np.pi) % (2 * np.pi) - np.pi
    return int(round(np.sum(d) / (2 * np.pi)))


def predict(cfg, rng, q=None):
    out, n = [], 0
    if q is None:
        q, _ = build(cfg)
    w = winding(q)
    n += 1
    if (normal_resolved(q) and q.helicity != q.sG * q.spsi * w) or q.helicity != int(q.helicity):
        out.append(dict(key='helicity', what='helicity %r but sG*spsi*(turns of the normal) = %d' % (q.helicity, q.sG * q.spsi * w), cfg=jsonable(cfg)))
    n += 1
    if abs(q.iotaN - (q.iota + q.helicity * q.nfp)) > 1e-13 * max(1, abs(q.iotaN)):
        out.append(dict(key='iotaN', what='iotaN != iota + helicity*nfp', cfg=jsonable(cfg)))
    # untwisting: same function of the poloidal angle
    ang = -q.helicity * q.nfp * q.varphi
    groups = [(1, 'X1s', 'X1c'), (1, 'Y1s', 'Y1c')]
    if q.order != 'r1':
        groups += [(2, 'X2s', 'X2c'), (2, 'Y2s', 'Y2c'), (2, 'Z2s', 'Z2c')]
    if q.order == 'r3':
        groups += [(1, 'X3s1', 'X3c1'), (1, 'Y3s1', 'Y3c1'), (3, 'X3s3', 'X3c3')]
    for m, s_, c_ in groups:
        th = rnd(rng, 0, 6.28)
        lhs = getattr(q, s_ + '_untwisted') * np.sin(m * th) + getattr(q, c_ + '_untwisted') * np.cos(m * th)
        rhs = getattr(q, s_) * np.sin(m * (th - ang)) + getattr(q, c_) * np.cos(m * (th - ang))
        n += 1
        sc = max(np.max(np.abs(rhs)) if np.ndim(rhs) else abs(rhs), 1e-300)
        if np.max(np.abs(lhs - rhs)) > 1e-10 * sc and sc > 1e-200:
            out.append(dict(key='untwist:' + s_, what='untwisted (%s,%s) do not describe the same surface' % (s_, c_), cfg=jsonable(cfg)))
    for nm in ('X20', 'Y20', 'Z20'):
        if q.order != 'r1':
            n += 1
            if not np.array_equal(getattr(q, nm), getattr(q, nm + '_untwisted')):
                out.append(dict(key='untwist:' + nm, what=nm + '_untwisted differs from ' + nm, cfg=jsonable(cfg)))
    # prescribed |B| at grid nodes (splines interpolate their nodes), both conventions, beyond the first period, before and after a recalculation
    def bcheck(tag):
        r, th = 0.05, rnd(rng, 0, 6.28)
        for k in (0, 1):
            j = int(rng.integers(0, q.nphi))
            phi = q.phi[j] + k * 2 * np.pi / q.nfp
            vphi = q.varphi[j] + k * 2 * np.pi / q.nfp
            tN = th - (q.iota - q.iotaN) * vphi
            want = q.B0 * (1 + r * q.etabar * np.cos(tN))
            if q.order != 'r1':
                want += r * r * (q.B20[j] + q.B2c * np.cos(2 * tN) + q.B2s * np.sin(2 * tN))
            for bt, arg in ((False, phi), (True, vphi)):
                got = float(q.B_mag(r, th, arg, Boozer_toroidal=bt))
                if abs(got - want) > 1e-9 * abs(want):
                    out.append(dict(key='bmag', what='B_mag(%s, Boozer_toroidal=%s) = %.12g, prescribed %.12g at a grid node (period %d)' % (tag, bt, got, want, k), cfg=jsonable(cfg)))
    bcheck('fresh'); n += 4
    # array arguments: the evaluator returns, entry by entry, what it returns for the scalar arguments, in both conventions, and leaves the caller's arrays untouched
    # (so that calling it again with the same arrays gives the same values)
    jj = rng.integers(0, q.nphi, size=4)
    for bt, base in ((False, q.phi), (True, q.varphi)):
        arr = np.array(base[jj], dtype=float) + 2 * np.pi / q.nfp * np.array([0, 1, 0, 1])
        tha = np.array([rnd(rng, 0, 6.28) for _ in range(4)])
        keep, keep_t = arr.copy(), tha.copy()
        try:
            first = np.array(q.B_mag(0.05, tha, arr, Boozer_toroidal=bt), dtype=float)
            scal = np.array([float(q.B_mag(0.05, float(keep_t[i]), float(keep[i]), Boozer_toroidal=bt)) for i in range(4)])
            second = np.array(q.B_mag(0.05, tha, arr, Boozer_toroidal=bt), dtype=float)
        except Exception as e:
            out.append(dict(key='bmag:array', what='B_mag with array arguments raised %s' % type(e).__name__, cfg=jsonable(cfg))); continue
        n += 1
        if not (np.array_equal(arr, keep) and np.array_equal(tha, keep_t)):
            out.append(dict(key='bmag:array', what='B_mag(Boozer_toroidal=%s) modified the array of angles passed by the caller (by up to %.3g)' % (bt, float(np.max(np.abs(arr - keep)))), cfg=jsonable(cfg)))
        elif np.max(np.abs(first - scal)) > 1e-12 * np.max(np.abs(scal)) or np.max(np.abs(second - first)) > 1e-12 * np.max(np.abs(scal)):
            out.append(dict(key='bmag:array', what='B_mag(Boozer_toroidal=%s) on arrays differs from its values on the scalar arguments (%.3g) or between two identical calls (%.3g)'
                            % (bt, float(np.max(np.abs(first - scal))), float(np.max(np.abs(second - first)))), cfg=jsonable(cfg)))
    # history: change a parameter, recalculate, evaluate again
    old = q.etabar
    q.etabar = old * 1.07
    if q.order != 'r1':
        q.B2c = q.B2c + 0.1
    q.calculate()
    bcheck('after-recalculation'); n += 4
    return out, n


def helicity_model_cases(objs):
    """evaluate Quadrant.helicity4_of_signs inside Coq on the sign patterns of real objects"""
    lines = ['From Coq Require Import ZArith List Bool.', 'From QSC Require Import Quadrant.', 'Import ListNotations.', 'Open Scope Z_scope.']
    names = []
    for k, q in enumerate(objs):
        signs = '[' + '; '.join('(%s, %s)' % ('true' if q.normal_cylindrical[j, 0] < 0 else 'false', 'true' if q.normal_cylindrical[j, 2] < 0 else 'false') for j in range(q.nphi)) + ']'
        lines.append('Definition h%d := helicity4_of_signs (%d) %s.' % (k, int(q.sG * q.spsi), signs))
        names.append('h%d' % k)
    lines.append('Eval vm_compute in [%s].' % '; '.join(names))
    path = os.path.join(COQ, 'gprops', 'K_helicity_cases_%d.v' % os.getpid())
    open(path, 'w').write('\n'.join(lines) + '\n')
    p = subprocess.run(['coqc', '-Q', 'theories', 'QSC', '-Q', 'gprops', 'QSCGProps', 'gprops/K_helicity_cases_%d.v' % os.getpid()], cwd=COQ, capture_output=True, text=True, timeout=600)
    m = re.search(r'=\s*\[(.*?)\]\s*:\s*list Z', p.stdout, flags=re.S)
    if p.returncode != 0 or not m:
        return None, (p.stdout + p.stderr)[-400:]
    return [int(x.replace('%Z', '').replace('(', '').replace(')', '')) for x in m.group(1).split(';')], ''


def main():
    ap = argparse.ArgumentParser()
    for a_ in ('--mode', '--hint', '--file', '--tier'):
        ap.add_argument(a_, default={'--mode': 'check', '--hint': '[]', '--tier': 'quick'}.get(a_))
    ap.add_argument('--seed', type=int, default=1); ap.add_argument('--n', type=int, default=6); ap.add_argument('--budget', type=float, default=60)
    a = ap.parse_args()
    rng = np.random.default_rng(a.seed)
    res = dict(configs=0, programs_validated=0, bindings_compared=0, max_rel_err=0.0, mismatches=[], violations=[], samples=[],
               predictions_checked=0, distribution={})
    dist = {}
    if a.mode == 'replay':
        f = (json.load(open(a.file)).get('failing') or {})
        if f.get('cfg'):
            res['violations'], res['predictions_checked'] = predict(f['cfg'], rng)
        print(json.dumps(res, default=str)); return
    t0 = time.time(); tried = 0; objs = []
    nn = a.n if a.mode == 'check' else 10 ** 6
    for c_, q_ in corpus_objects():          # distilled regression inputs first
        v, n = predict(c_, rng, q_)
        res['predictions_checked'] += n; res['violations'] += v; res['configs'] += 1
        dist['corpus'] = dist.get('corpus', 0) + 1
        if a.mode == 'check':
            objs.append(q_)          # the corpus objects go through the Coq helicity model too
    while tried < nn and (a.mode == 'check' or (time.time() - t0 < a.budget and not res['violations'])):
        tried += 1
        try:
            sg = [(1, 1), (1, -1), (-1, 1), (-1, -1)][((tried - 1) // 2) % 4]
            cfg, q = gen_admissible(rng, qh=(tried % 2 == 1), order=['r1', 'r2', 'r3'][tried % 3], signs=sg)
        except RuntimeError:
            continue
        key = '%s/hel%+d/sG%+d/spsi%+d' % (cfg['order'], int(q.helicity), cfg['sG'], cfg['spsi'])
        dist[key] = dist.get(key, 0) + 1
        if a.mode == 'check':
            tv = transval.validate(q, rng, only=('r1_diagnostics_h0', 'r1_diagnostics_hN', 'calculate_r3_h0', 'calculate_r3_hN', 'B_mag_r1_cyl', 'B_mag_r1_boozer', 'B_mag_r2_cyl', 'B_mag_r2_boozer', 'solve_sigma_equation'))
            res['programs_validated'] += tv['programs']; res['bindings_compared'] += tv['bindings']
            res['max_rel_err'] = max(res['max_rel_err'], tv['max_rel_err']); res['mismatches'] += tv['mismatches']
            q2, _ = build(cfg)
            objs.append(q2)
        res['configs'] += 1
        v, n = predict(cfg, rng, q)
        res['predictions_checked'] += n; res['violations'] += v
        if len(res['samples']) < 3:
            res['samples'].append(dict(cfg=jsonable(cfg), helicity=float(q.helicity)))
    if a.mode == 'check' and objs:
        hs, err = helicity_model_cases(objs)
        if hs is None:
            res['mismatches'].append('Quadrant model could not be evaluated: ' + err)
        else:
            for q, h4 in zip(objs, hs):
                res['programs_validated'] += 1
                if h4 != int(round(4 * q.helicity)):
                    res['mismatches'].append('Quadrant.helicity4_of_signs = %d but the code reports helicity*4 = %r' % (h4, 4 * q.helicity))
    res['distribution'] = dist; res['summary'] = 'tried %d inputs' % tried
    res['mismatches'] = res['mismatches'][:20]; res['violations'] = res['violations'][:20]
    print(json.dumps(res, default=str))


if __name__ == '__main__':
    main()
