"""Dynamic oracle and front-end correspondence for C17 (diagnostics / plotting / export are read-only).
modes:  check  -- random sequences of entry points on objects of all orders and on sentinel presets: bitwise snapshots
                  before/after every call, independence of results from the call history, correspondence of the observed
                  attribute effects / memory sharing with coq/gen/effects_manifest.json (tools/gen_eff.py)
        search -- the same until a violation is found or the budget is spent
        replay -- re-run one recorded failing sequence
Runs the REAL code from VERIF_REPO (default /repo), MPLBACKEND=Agg, show=False everywhere, files only under a tempdir."""
import sys, os, json, time, argparse, struct, tempfile, shutil, warnings
sys.path.insert(0, os.path.dirname(os.path.abspath(__file__)))
from common import *

MANIFEST = os.environ.get('VERIF_EFF_MANIFEST', os.path.join(ROOT, 'coq', 'gen', 'effects_manifest.json'))
SENTINEL_PRESETS = ['precise QH', '2022 QH nfp7', '2022 QH nfp2', 'precise QH+well', '2022 QH nfp3 vacuum', '2022 QH nfp4 well']
ENTRY = ['plot', 'plot_boundary', 'plot_axis', 'B_fieldline', 'B_contour', 'flux_tube', 'get_boundary',
         'Frenet_to_cylindrical', 'to_RZ', 'B_mag', 'Bfield_cylindrical', 'Bfield_cartesian',
         'grad_B_tensor_cartesian', 'grad_grad_B_tensor_cylindrical', 'grad_grad_B_tensor_cartesian', 'to_vmec',
         'calculate_shear', 'calculate_grad_grad_B_tensor', 'min_R0_penalty']
# relative frequency in random sequences (slow 3-D plotting less often)
WEIGHT = dict(plot=1.5, plot_boundary=0.7, flux_tube=0.5, get_boundary=0.7, Frenet_to_cylindrical=0.7, to_vmec=1.0)
NEEDS = dict(calculate_shear=('r2', 'r3'), calculate_grad_grad_B_tensor=('r2', 'r3'), grad_grad_B_tensor_cylindrical=('r2', 'r3'),
             grad_grad_B_tensor_cartesian=('r2', 'r3'))
TMP = None


# ---- canonical bitwise content -------------------------------------------------------------------------------------
def canon(v, depth=0):
    if isinstance(v, np.ndarray):
        if v.dtype == object:
            return ('ndo', v.shape, tuple(canon(x, depth + 1) for x in v.ravel().tolist()))
        return ('nd', str(v.dtype), v.shape, v.tobytes())
    if isinstance(v, np.generic):
        return ('ns', str(v.dtype), v.tobytes())
    if isinstance(v, float):
        return ('f', struct.pack('<d', v))
    if isinstance(v, complex):
        return ('c', struct.pack('<dd', v.real, v.imag))
    if v is None or isinstance(v, (bool, int, str, bytes)):
        return ('p', type(v).__name__, v)
    if isinstance(v, (list, tuple)):
        return (type(v).__name__, tuple(canon(x, depth + 1) for x in v))
    if isinstance(v, dict):
        return ('d', tuple(sorted((str(k), canon(x, depth + 1)) for k, x in v.items())))
    if hasattr(v, 'c') and hasattr(v, 'x') and isinstance(getattr(v, 'c'), np.ndarray):
        return ('spline', type(v).__name__, canon(v.c), canon(v.x))
    if hasattr(v, '__dict__') and depth < 3:
        return ('o', type(v).__name__, canon(vars(v), depth + 1))
    return ('?', type(v).__name__)


def snapshot(q):
    """attribute -> (id, canonical content, reference kept alive so that ids stay unique)"""
    return {k: (id(v), canon(v), v) for k, v in q.__dict__.items()}


def arrays_of(v, depth=0):
    if isinstance(v, np.ndarray) and v.dtype != object:
        yield v
    elif isinstance(v, (list, tuple)) and depth < 3:
        for x in v:
            yield from arrays_of(x, depth + 1)
    elif isinstance(v, dict) and depth < 3:
        for x in v.values():
            yield from arrays_of(x, depth + 1)
    elif hasattr(v, 'c') and hasattr(v, 'x') and isinstance(getattr(v, 'c'), np.ndarray):
        yield v.c
        yield v.x
    elif hasattr(v, '__dict__') and depth < 2 and not isinstance(v, type):
        for x in vars(v).values():
            yield from arrays_of(x, depth + 1)


def shares(v, base_arrays):
    """names of base attributes whose array memory may be shared by (an array inside) v"""
    out = set()
    for a in arrays_of(v):
        if a.size == 0:
            continue
        for k, b in base_arrays:
            if b.size and np.may_share_memory(a, b):
                out.add(k)
    return out


# ---- argument generation (JSON-able specs, so that a failing sequence can be replayed) ------------------------------
def small_r(rng, q):
    return round_sig(min(0.1, rnd(rng, 0.03, 0.15) / float(np.max(q.curvature))), 3)


def gen_call(rng, q, m, tier):
    r = small_r(rng, q)
    big = tier == 'thorough'
    I = lambda lo, hi: int(rng.integers(lo, hi + 1))
    if m == 'plot':
        return dict(m=m, kw=dict(newfigure=bool(rng.random() < 0.8), show=False))
    if m == 'plot_boundary':
        kw = dict(r=r, ntheta=I(6, 12), nphi=I(8, 14), ntheta_fourier=I(5, 8), nsections=I(1, 4), fieldlines=False, show=False)
        if big and rng.random() < 0.3:
            kw['savefig'] = {'__tmp__': 'pb%d' % I(0, 999)}
        if rng.random() < 0.3:
            kw['azim_default'] = I(0, 90)
        return dict(m=m, kw=kw)
    if m == 'plot_axis':
        kw = dict(nphi=I(10, 40), frenet=False, show=False)
        if big and rng.random() < 0.3:
            kw['savefig'] = {'__tmp__': 'pa%d' % I(0, 999)}
        return dict(m=m, kw=kw)
    if m == 'B_fieldline':
        kw = dict(r=r, alpha=round_sig(rnd(rng, 0, 6.0)), nphi=I(20, 80), show=False)
        if rng.random() < 0.5:
            kw['phimax'] = round_sig(rnd(rng, 1.0, 20.0))
        return dict(m=m, kw=kw)
    if m == 'B_contour':
        return dict(m=m, kw=dict(r=r, ntheta=I(6, 14), nphi=I(6, 14), ncontours=I(3, 8), show=False))
    if m == 'flux_tube':
        return dict(m=m, kw=dict(r=r, alpha=round_sig(rnd(rng, 0, 3.0)), delta_r=round_sig(r * rnd(rng, 0.1, 0.4)),
                                 delta_alpha=round_sig(rnd(rng, 0.05, 0.4)), delta_phi=round_sig(rnd(rng, 1.0, 12.0)),
                                 ntheta=I(6, 10), nphi=I(8, 12), ntheta_fourier=I(5, 7), nphi_tube=I(10, 30), show=False))
    if m == 'get_boundary':
        return dict(m=m, kw=dict(r=r, ntheta=I(5, 10), nphi=I(6, 12), ntheta_fourier=I(5, 8), mpol=I(2, 5), ntor=I(2, 6)))
    if m == 'Frenet_to_cylindrical':
        return dict(m=m, args=[r], kw=dict(ntheta=I(4, 8)))
    if m == 'to_RZ':
        pts = [[small_r(rng, q), round_sig(rnd(rng, 0, 6.28)), round_sig(rnd(rng, 0, 6.28 / q.nfp))] for _ in range(I(1, 4))]
        return dict(m=m, args=[pts])
    if m == 'B_mag':
        shape = [(), (I(2, 6),), (I(2, 4), I(2, 5))][I(0, 2)]
        mk = lambda: {'__array__': np.round(rng.random(shape) * 6.28, 4).tolist()} if shape else round_sig(rnd(rng, 0, 6.28))
        return dict(m=m, args=[r, mk(), mk()], kw=dict(Boozer_toroidal=bool(rng.random() < 0.5)))
    if m in ('Bfield_cylindrical', 'Bfield_cartesian'):
        if rng.random() < 0.25:
            return dict(m=m)
        return dict(m=m, kw=dict(r=0 if rng.random() < 0.2 else r, theta=round_sig(rnd(rng, 0, 6.28))))
    if m == 'to_vmec':
        kw = dict(r=r, ntheta=I(5, 10), ntorMax=I(2, 14))
        c = I(0, 3)
        if c == 1:
            kw['params'] = {}
        elif c == 2:
            kw['params'] = dict(mpol=I(2, 4), ntor=I(2, 5))
        elif c == 3:
            kw['params'] = dict(delt=0.5, nstep=100, ns_array=[9, 25])
        return dict(m=m, args=[{'__tmp__': 'input.v%d' % I(0, 999)}], kw=kw)
    if m == 'calculate_shear':
        return dict(m=m, kw={} if rng.random() < 0.6 else dict(B31c=round_sig(rnd(rng, -1, 1))))
    if m == 'calculate_grad_grad_B_tensor':
        return dict(m=m, kw=dict(two_ways=bool(rng.random() < 0.5)))
    return dict(m=m)


def realise(x):
    if isinstance(x, dict):
        if '__array__' in x:
            return np.array(x['__array__'], dtype=float)
        if '__tmp__' in x:
            return os.path.join(TMP, x['__tmp__'])
        return {k: realise(v) for k, v in x.items()}
    if isinstance(x, list):
        return [realise(v) for v in x]
    return x


def do_call(q, spec):
    """-> ('ok', result) or ('raised', exception type name)"""
    import matplotlib.pyplot as plt
    args = [realise(a) for a in spec.get('args', [])]
    kw = {k: realise(v) for k, v in spec.get('kw', {}).items()}
    try:
        with warnings.catch_warnings():
            warnings.simplefilter('ignore')
            with np.errstate(all='ignore'):
                res = getattr(q, spec['m'])(*args, **kw)
        if res is None and spec['m'] in ('B_fieldline', 'plot_axis', 'B_contour'):
            # what a plotting method DRAWS is its result: the data of the 2-D lines left on the open figures (show=False)
            drawn = []
            for num in plt.get_fignums():
                for ax in plt.figure(num).get_axes():
                    for ln in ax.get_lines():
                        try:
                            drawn.append(np.round(np.asarray(ln.get_data(), dtype=float), 10))
                        except Exception:
                            pass
            if drawn:
                res = drawn
        return 'ok', res
    except Exception as ex:
        return 'raised', type(ex).__name__ + ': ' + str(ex)[:80]
    finally:
        plt.close('all')


def applicable(q, m):
    return q.order in NEEDS.get(m, ('r1', 'r2', 'r3'))


def gen_sequence(rng, q, tier, hint, force=()):
    lo, hi = (1, 6) if tier != 'thorough' else (3, 12)
    ms = [m for m in ENTRY if applicable(q, m)]
    w = np.array([WEIGHT.get(m, 1.0) * (4.0 if m in hint else 1.0) for m in ms])
    n = int(rng.integers(lo, hi + 1))
    seq = [ms[int(i)] for i in rng.choice(len(ms), size=n, p=w / w.sum())]
    for f in force:
        if f not in seq and applicable(q, f):
            seq.insert(int(rng.integers(0, len(seq) + 1)), f)
    return [gen_call(rng, q, m, tier) for m in seq]


# ---- objects --------------------------------------------------------------------------------------------------------
def build_src(src):
    """src = {'cfg': {...}} or {'preset': name, 'kwargs': {...}}"""
    qsc = import_qsc()
    import logging
    logging.disable(logging.CRITICAL)
    try:
        with warnings.catch_warnings():
            warnings.simplefilter('ignore')
            with np.errstate(all='ignore'):
                if 'preset' in src:
                    return qsc.Qsc.from_paper(src['preset'], **src.get('kwargs', {}))
                return qsc.Qsc(**src['cfg'])
    finally:
        logging.disable(logging.NOTSET)


def has_sentinel(q):
    v = getattr(q, 'r_singularity_vs_varphi', None)
    return v is not None and bool(np.any(np.asarray(v) > 1e20))


# ---- the checks -----------------------------------------------------------------------------------------------------
class Run:
    def __init__(self, man):
        self.man = man
        self.methods = man['methods']
        self.recomputed = set(man['recomputed'])
        self.res = dict(configs=0, programs_validated=0, predictions_checked=0, mismatches=[], violations=[], samples=[],
                        distribution={}, raised={}, independence_checked=0, sentinel_objects=0, calls=0)

    def mismatch(self, s):
        if s not in self.res['mismatches']:
            self.res['mismatches'].append(s)

    def check_fresh(self, q, src):
        """hypothesis Inv of the Coq theorem on a freshly constructed object + protected list of the manifest is current"""
        base = set(q.__dict__)
        prot = set(self.man['protected'])
        extra = base - prot - self.recomputed
        if extra:
            self.mismatch('attributes of a fresh object unknown to the front-end (not protected): %s' % sorted(extra)[:8])
        arrs = [(k, a) for k, v in q.__dict__.items() for a in arrays_of(v)]
        for k, a in arrs:
            if k in prot:
                continue
            for k2, b in arrs:
                if k2 in prot and a.size and b.size and np.may_share_memory(a, b):
                    self.mismatch('fresh object: non-protected attribute %s shares memory with protected %s (hypothesis Inv fails)' % (k, k2))
        self.res['predictions_checked'] += 1

    def run_sequence(self, q, src, seq, base_attrs):
        """executes seq on q with before/after snapshots; returns list of per-call outcomes"""
        viol = []
        done = []
        exported = {}          # the coefficient arrays to_vmec() leaves on the object (documented output of the export): no OTHER method may touch them afterwards
        for spec in seq:
            m = spec['m']
            before = snapshot(q)
            base_arrays = [(k, a) for k in base_attrs if k in q.__dict__ for a in arrays_of(q.__dict__[k])]
            status, result = do_call(q, spec)
            after = snapshot(q)
            done.append(spec)
            self.res['calls'] += 1
            self.res['distribution'][m] = self.res['distribution'].get(m, 0) + 1
            if status == 'raised':
                self.res['raised'][m] = self.res['raised'].get(m, 0) + 1
            if m == 'to_vmec':
                exported = {k: after[k][1] for k in ('RBC', 'ZBS', 'RBS', 'ZBC') if k in after} if status == 'ok' else {}
            else:
                for k, c in exported.items():
                    if k not in after or after[k][1] != c:
                        viol.append(dict(key=k, what='%s changed the array %s that an earlier to_vmec() left on the object' % (m, k), method=m))
                        exported = {}
                        break
            changed = set()
            for k, (i0, c0, _) in before.items():
                if k not in after:
                    changed.add(k)
                    if k in base_attrs:
                        viol.append(dict(key=k, what='%s deleted attribute %s' % (m, k), method=m))
                    continue
                i1, c1, _ = after[k]
                if c1 != c0:
                    changed.add(k)
                    if k in base_attrs:
                        how = 'modified in place' if i1 == i0 else 're-bound to a different value'
                        detail = ''
                        v0, v1 = before[k][2], after[k][2]
                        if isinstance(v1, np.ndarray) and isinstance(c0, tuple) and c0[0] == 'nd' and c0[2] == v1.shape:
                            old = np.frombuffer(c0[3], dtype=v1.dtype).reshape(v1.shape)
                            neq = ~((old == v1) | (np.isnan(old) & np.isnan(v1))) if v1.dtype.kind == 'f' else old != v1
                            idx = np.argwhere(neq)
                            if len(idx):
                                j = tuple(idx[0])
                                detail = '; %d entries differ, first at %s: %r -> %r' % (len(idx), list(map(int, j)), old[j].item(), v1[j].item())
                        viol.append(dict(key=k, what='%s: pre-existing attribute %s %s%s' % (m, k, how, detail), method=m,
                                         recomputed=k in self.recomputed))
                elif i1 != i0:
                    changed.add(k)      # re-bound to a bitwise identical value: allowed for eff_recomputed only
                    if k in base_attrs and k not in self.recomputed:
                        viol.append(dict(key=k, what='%s re-bound pre-existing attribute %s (to an equal value)' % (m, k), method=m))
            new = set(after) - set(before)
            changed |= new
            # ---- correspondence with the front-end ----
            info = self.methods.get(m)
            self.res['programs_validated'] += 1
            if info is None:
                self.mismatch('method %s is not in effects_manifest.json' % m)
            else:
                pred = set(info['sets_transitive']) | set(info['stores_transitive'])
                un = sorted(changed - pred)
                if un:
                    self.mismatch('%s (re)bound or modified %s, front-end predicts only %s' % (m, un, sorted(pred)))
                so = info.get('set_origin_attrs_transitive', {})
                for k in sorted(changed & set(after)):
                    sh = shares(after[k][2], [(b, a) for b, a in base_arrays if b != k]) - set(so.get(k, []))
                    self.res['predictions_checked'] += 1
                    if sh:
                        self.mismatch('%s: new value of %s shares memory with %s, front-end says it cannot' % (m, k, sorted(sh)))
                if status == 'ok':
                    sh = shares(result, base_arrays) - set(info.get('returns_attrs', []))
                    self.res['predictions_checked'] += 1
                    if sh and '<any attribute>' not in info.get('returns_attrs', []):
                        self.mismatch('%s: return value shares memory with %s, front-end predicts %s' % (m, sorted(sh), info.get('returns_attrs')))
            if viol:
                break
        for v in viol:
            v.update(src)
            v['sequence'] = done
        return viol

    def independence(self, rng, src, spec, tier, hint):
        """result / attributes set by spec on a fresh object == the same after a random prefix of other entry points"""
        qa = build_src(src)
        sa, ra = do_call(qa, spec)
        qb = build_src(src)
        prefix = [s for s in gen_sequence(rng, qb, 'quick', hint) if WEIGHT.get(s['m'], 1.0) >= 1.0 or rng.random() < 0.3][:3]
        # plus calls that (re)bind the same scratch attributes as spec: the most likely source of interference
        mine = set(self.methods.get(spec['m'], {}).get('sets_transitive', []))
        inter = [m for m in ENTRY if applicable(qb, m) and mine & set(self.methods.get(m, {}).get('sets_transitive', []))
                 and (tier == 'thorough' or WEIGHT.get(m, 1.0) >= 0.7)]
        for _ in range(int(rng.integers(1, 3)) if inter else 0):
            prefix.insert(int(rng.integers(0, len(prefix) + 1)), gen_call(rng, qb, inter[int(rng.integers(0, len(inter)))], 'quick'))
        for s in prefix:
            do_call(qb, s)
        sb, rb = do_call(qb, spec)
        self.res['independence_checked'] += 1
        out = []
        m = spec['m']
        if sa != sb or (sa == 'raised' and ra != rb):
            out.append(dict(key=m, what='%s: %s on a fresh object, %s after %s' % (m, (sa, ra if sa == 'raised' else ''), (sb, rb if sb == 'raised' else ''), [s['m'] for s in prefix])))
        elif sa == 'ok':
            if canon(ra) != canon(rb):
                out.append(dict(key=m, what='%s: return value depends on the calls made before (%s)' % (m, [s['m'] for s in prefix])))
            for k in self.methods.get(m, {}).get('sets_transitive', []):
                if k.startswith('default:'):
                    continue
                ina, inb = k in qa.__dict__, k in qb.__dict__
                if ina != inb and not any(k in self.methods.get(s['m'], {}).get('sets_transitive', []) for s in prefix):
                    out.append(dict(key=k, what='%s: attribute %s set only %s' % (m, k, 'on the fresh object' if ina else 'after a prefix')))
                elif ina and inb and canon(qa.__dict__[k]) != canon(qb.__dict__[k]):
                    # an attribute that spec itself does not set on this path may legitimately differ (left by the prefix)
                    qc = build_src(src)
                    keep = snapshot(qc).get(k)
                    do_call(qc, spec)
                    if k in qc.__dict__ and (keep is None or id(qc.__dict__[k]) != keep[0]):
                        out.append(dict(key=k, what='%s: value of the attribute %s it sets depends on the calls made before (%s)' % (m, k, [s['m'] for s in prefix])))
        if m == 'to_vmec' and sa == 'ok' and 'params' not in spec.get('kw', {}):
            # nothing may leak between calls through the mutable default argument: a default call must equal the same call with params={} spelled out
            qd = build_src(src)
            spec2 = dict(spec); spec2['kw'] = dict(spec.get('kw', {}), params={})
            sd, rd = do_call(qd, spec2)
            for k in ('RBC', 'ZBS', 'RBS', 'ZBC'):
                if sd == 'ok' and k in qa.__dict__ and k in qd.__dict__ and canon(qa.__dict__[k]) != canon(qd.__dict__[k]):
                    out.append(dict(key='to_vmec:default-params', what='to_vmec with the default params gives a different %s than the same call with params={} (state kept in the default dict from an earlier call)' % k))
                    break
        for v in out:
            v.update(src)
            v['sequence'] = prefix + [spec]
            v['independence'] = True
        return out


def main():
    global TMP
    ap = argparse.ArgumentParser()
    ap.add_argument('--mode', default='check')
    ap.add_argument('--seed', type=int, default=1)
    ap.add_argument('--n', type=int, default=5)
    ap.add_argument('--tier', default='quick')
    ap.add_argument('--budget', type=float, default=60)
    ap.add_argument('--hint', default='[]')
    ap.add_argument('--file')
    a = ap.parse_args()
    rng = np.random.default_rng(a.seed)
    try:
        hint = [h for h in json.loads(a.hint) if isinstance(h, str)]
    except Exception:
        hint = []
    man = json.load(open(MANIFEST))
    R = Run(man)
    res = R.res
    TMP = tempfile.mkdtemp(prefix='c17_')
    t0 = time.time()
    try:
        if a.mode == 'replay':
            rep = json.load(open(a.file))
            f = rep.get('failing') or rep
            src = {k: f[k] for k in ('cfg', 'preset', 'kwargs') if k in f}
            if src and f.get('sequence'):
                if f.get('independence'):
                    res['violations'] = R.independence(rng, src, f['sequence'][-1], a.tier, hint)
                    if not res['violations']:
                        # replay the recorded prefix exactly
                        qa, qb = build_src(src), build_src(src)
                        sa, ra = do_call(qa, f['sequence'][-1])
                        for s in f['sequence'][:-1]:
                            do_call(qb, s)
                        sb, rb = do_call(qb, f['sequence'][-1])
                        if sa != sb or (sa == 'ok' and canon(ra) != canon(rb)):
                            res['violations'] = [dict(key=f['sequence'][-1]['m'], what='result depends on the recorded prefix', **src)]
                else:
                    q = build_src(src)
                    res['configs'] = 1
                    res['violations'] = R.run_sequence(q, src, f['sequence'], set(q.__dict__))
            res['summary'] = 'replayed %d call(s)' % res['calls']
            print(json.dumps(res, default=str))
            return
        # fixed scenario first: two exports with different poloidal resolution through the DEFAULT params, then the same call with params={} spelled out
        # (nothing may be carried from one call to the next through the mutable default argument)
        try:
            base_cfg = dict(rc=[1.0, 0.09], zs=[0.0, -0.09], nfp=2, etabar=0.95, nphi=15)
            src0 = dict(cfg=base_cfg)
            q1 = build_src(src0); do_call(q1, dict(m='to_vmec', args=[{'__tmp__': 'input.fixed1'}], kw=dict(r=0.05, ntheta=6)))
            q2 = build_src(src0); do_call(q2, dict(m='to_vmec', args=[{'__tmp__': 'input.fixed2'}], kw=dict(r=0.05, ntheta=10)))
            q3 = build_src(src0); do_call(q3, dict(m='to_vmec', args=[{'__tmp__': 'input.fixed3'}], kw=dict(r=0.05, ntheta=10, params={})))
            res['independence_checked'] += 1
            if 'RBC' in q2.__dict__ and 'RBC' in q3.__dict__ and canon(q2.RBC) != canon(q3.RBC):
                res['violations'].append(dict(key='to_vmec:default-params', what='to_vmec(ntheta=10) after an earlier to_vmec(ntheta=6) differs from the same call with params={} '
                                              '(RBC shape %s vs %s): state is kept in the mutable default argument' % (np.shape(q2.RBC), np.shape(q3.RBC)),
                                              sequence=[dict(m='to_vmec', kw=dict(r=0.05, ntheta=6)), dict(m='to_vmec', kw=dict(r=0.05, ntheta=10))], independence=True, **src0))
        except Exception:
            pass
        # fixed scenario: on an order-r3 object, every evaluation / plotting entry point gives the same result before and after calculate_shear()
        # (which adds iota2 and friends to the object)
        try:
            src3 = dict(cfg=dict(rc=[1.0, 0.09], zs=[0.0, -0.09], nfp=2, etabar=0.95, order='r3', B2c=-0.7, p2=-600000.0, I2=0.3, nphi=21))
            specs = [dict(m='B_fieldline', kw=dict(r=0.07, alpha=0.4, nphi=30, show=False)), dict(m='B_mag', args=[0.07, 0.3, 0.5], kw=dict(Boozer_toroidal=True)),
                     dict(m='B_mag', args=[0.07, 0.3, 0.5], kw=dict(Boozer_toroidal=False)), dict(m='Bfield_cylindrical', kw=dict(r=0.05, theta=0.2)),
                     dict(m='get_boundary', kw=dict(r=0.05, ntheta=6, nphi=8, ntheta_fourier=6, mpol=3, ntor=4)), dict(m='min_R0_penalty')]
            for spec in specs:
                qa = build_src(src3); sa, ra = do_call(qa, spec)
                qb = build_src(src3); do_call(qb, dict(m='calculate_shear')); sb, rb = do_call(qb, spec)
                res['independence_checked'] += 1
                if sa != sb or (sa == 'ok' and canon(ra) != canon(rb)):
                    res['violations'].append(dict(key=spec['m'], what='%s gives a different result after calculate_shear() than on the fresh object' % spec['m'],
                                                  sequence=[dict(m='calculate_shear'), spec], independence=True, **src3))
        except Exception:
            pass
        # fixed scenario: the optional diagnostics, each called twice, on a NON-stellarator-symmetric order-r3 object (calculate_shear() takes its quadrature branch
        # there) and on a symmetric one: bitwise snapshots of every pre-existing attribute around every call
        try:
            for cfgf in (dict(rc=[1.0, 0.08], zs=[0.0, 0.07], rs=[0.0, 0.006], zc=[0.0, 0.009], nfp=2, etabar=0.9, sigma0=0.15, order='r3', B2c=0.2, B2s=-0.15, B0=1.2, I2=0.3,
                              p2=-40000.0, sG=1, spsi=1, nphi=15),
                         dict(rc=[1.0, 0.09], zs=[0.0, -0.09], nfp=2, etabar=0.95, order='r3', B2c=-0.7, p2=-600000.0, I2=0.3, nphi=15),
                         dict(rc=[1.0, 0.09], zs=[0.0, -0.09], nfp=2, etabar=0.95, order='r2', B2c=-0.7, p2=-600000.0, I2=0.3, nphi=15)):     # (the shear diagnostic also runs on an order-r2 object)
                srcf = dict(cfg=cfgf)
                qf = build_src(srcf)
                seqf = [dict(m='calculate_shear'), dict(m='calculate_shear'), dict(m='calculate_grad_grad_B_tensor', kw=dict(two_ways=True)), dict(m='calculate_shear'),
                        dict(m='B_mag', args=[0.05, 0.3, 0.4]), dict(m='Bfield_cartesian', kw=dict(r=0.03, theta=0.4)), dict(m='grad_grad_B_tensor_cartesian'),
                        dict(m='to_RZ', args=[[[0.04, 0.3, 0.2], [0.04, 1.3, 0.9]]]), dict(m='min_R0_penalty'), dict(m='calculate_shear')]
                seqf = [sp for sp in seqf if sp['m'] in ENTRY and hasattr(qf, sp['m'])]
                res['violations'] += R.run_sequence(qf, srcf, seqf, set(qf.__dict__))
                res['configs'] += 1
        except Exception:
            pass
        try:
            srcv = dict(cfg=dict(rc=[1.0, 0.09], zs=[0.0, -0.09], nfp=2, etabar=0.95, order='r2', B2c=-0.7, p2=-600000.0, I2=0.3, nphi=15))
            qv = build_src(srcv)
            seqv = [dict(m='to_vmec', args=[{'__tmp__': 'input.fixedv'}], kw=dict(r=0.05, ntheta=6)),
                    dict(m='get_boundary', kw=dict(r=0.07, ntheta=8, nphi=10, ntheta_fourier=8, mpol=3, ntor=4)),
                    dict(m='Frenet_to_cylindrical', args=[0.06], kw=dict(ntheta=5)), dict(m='B_mag', args=[0.05, 0.3, 0.4])]
            res['violations'] += R.run_sequence(qv, srcv, seqv, set(qv.__dict__))
            res['configs'] += 1
        except Exception:
            pass
        try:
            srcp = dict(preset='2022 QH nfp7', kwargs=dict(nphi=31))          # 16+ axis harmonics: more than VMEC's default NTOR
            qp = build_src(srcp)
            res['violations'] += R.run_sequence(qp, srcp, [dict(m='to_vmec', args=[{'__tmp__': 'input.fixedp'}], kw=dict(r=0.02, ntheta=6)), dict(m='B_mag', args=[0.02, 0.3, 0.4])], set(qp.__dict__))
            res['configs'] += 1
        except Exception:
            pass
        thorough = a.tier == 'thorough'
        n_obj = a.n if a.mode == 'check' else 10 ** 9
        budget = a.budget if a.mode == 'search' else (55 if not thorough else max(a.budget, 600))
        presets = list(SENTINEL_PRESETS)
        i = 0
        sent_done = 0
        gen_count = 0
        while i < n_obj and time.time() - t0 < budget and not (a.mode == 'search' and res['violations']):
            want_sentinel = (i % 3 == 1) or (a.mode == 'check' and i >= n_obj - 2 and sent_done < 2)
            if a.mode == 'check' and not thorough and n_obj >= 4:
                want_sentinel = i in (1, n_obj - 1)
            if 'plot' in hint and a.mode == 'search':
                want_sentinel = i % 2 == 0
            src = None
            if want_sentinel:
                name = presets[(sent_done + (a.seed - 1)) % len(presets)]
                for kwargs in (dict(nphi=int(2 * rng.integers(15, 25) + 1)), {}):
                    s = dict(preset=name, kwargs=kwargs)
                    q = build_src(s)
                    if has_sentinel(q):
                        src = s
                        break
                sent_done += 1
                if src is None:
                    R.mismatch('preset %s has no sentinel entry in r_singularity_vs_varphi any more' % name)
                    i += 1
                    continue
                res['sentinel_objects'] += 1
            else:
                order = ['r1', 'r2', 'r3'][(gen_count + a.seed) % 3]
                gen_count += 1
                try:
                    cfg, q = gen_admissible(rng, order=order, nphi=int(2 * rng.integers(7, 16) + 1), history=False)   # C17 starts from a FRESH object by definition
                except RuntimeError:
                    i += 1
                    continue
                if gen_count % 4 == 3:
                    # a small device: min R0 below the min_R0_threshold of 0.3 (lengths scaled; the other inputs scaled according to their dimension)
                    from oracle_C08 import scaled_cfg
                    c2 = scaled_cfg(cfg, 0.2, 1.0)
                    try:
                        q2, m2 = build(c2)
                        if admissible(q2, m2):
                            cfg, q = c2, q2
                    except Exception:
                        pass
                src = dict(cfg=jsonable(cfg))
                if has_sentinel(q):
                    res['sentinel_objects'] += 1
            i += 1
            res['configs'] += 1
            R.check_fresh(q, src)
            base_attrs = set(q.__dict__)
            seq = gen_sequence(rng, q, a.tier, hint, force=('plot',) if has_sentinel(q) else ())
            v = R.run_sequence(q, src, seq, base_attrs)
            res['violations'] += v
            if len(res['samples']) < 4:
                res['samples'].append(dict(src={k: (val if k != 'cfg' else {kk: val[kk] for kk in ('order', 'nfp', 'nphi')}) for k, val in src.items()},
                                           sequence=[s['m'] for s in seq]))
            # independence of results from the history (cheap objects: every time; presets: thorough only)
            if not v and ('cfg' in src or thorough) and time.time() - t0 < budget:
                for _ in range(4 if not thorough else 8):
                    ms = [m for m in ENTRY if applicable(q, m) and (thorough or WEIGHT.get(m, 1.0) >= 0.7)]
                    w = np.array([4.0 if m in hint else 1.0 for m in ms])
                    spec = gen_call(rng, q, ms[int(rng.choice(len(ms), p=w / w.sum()))], a.tier)
                    res['violations'] += R.independence(rng, src, spec, a.tier, hint)
        res['summary'] = '%d objects (%d with sentinel entries), %d calls (%d raised), %d independence checks, %.0fs' % (
            res['configs'], res['sentinel_objects'], res['calls'], sum(res['raised'].values()), res['independence_checked'], time.time() - t0)
    finally:
        shutil.rmtree(TMP, ignore_errors=True)
    res['mismatches'] = res['mismatches'][:20]
    res['violations'] = res['violations'][:20]
    print(json.dumps(res, default=str))


if __name__ == '__main__':
    main()
