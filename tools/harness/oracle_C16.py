"""Dynamic oracle + model correspondence for C16 (object = fresh construction after any call history; presets).

On the REAL code (VERIF_REPO, default /repo):
  history   random histories over {set_dofs(x), change_nfourier(n), calculate(), get_dofs()} on objects of all three orders; after
            EVERY op every numeric attribute is compared with a freshly constructed object (1e-12 relative, parameters bitwise) and
            the DOF vector with an independent Python reading of the model (blocks truncated / zero-padded; set_dofs stores x);
  model     the same op sequences are replayed through ObjModel.run_trace / run_trace_accepted / run_trace_names INSIDE Coq
            (coq/gprops/K_obj_cases.v, vm_compute) with every float replaced by its index in a per-history value table
            (0.0 <-> 0), and compared op by op: nfourier, DOF vector, names, accepted / AssertionError  -> MISMATCH;
  names     len(names) == len(get_dofs()); perturbing DOF k changes exactly the element names[k] designates;
  setget    set_dofs(get_dofs()) changes nothing (parameters bitwise, outputs 1e-13);
  alias     caller arrays given to the constructor / to set_dofs, and the vector returned by get_dofs, share no memory with
            the object and mutating them changes nothing;
  preset    from_paper(name, **ov) == Qsc(**{**extracted preset, **ov}) attribute by attribute (presets are taken from
            coq/gen/obj_manifest.json, i.e. from the structural front-end tools/gen_obj.py); zero-valued overrides included;
  reject    unknown names and sG / spsi outside {1, -1} raise ValueError;
  alias-name:<name>  every name the code accepts that is not in Qsc.configurations.
Prints ONE JSON object as the last line."""
import sys, os, json, time, argparse, subprocess, re, ast, copy
sys.path.insert(0, os.path.dirname(os.path.abspath(__file__)))
from common import *

COQ = os.path.join(ROOT, 'coq')
PARAM_ARRAYS = ['rc', 'zs', 'rs', 'zc']
PARAM_SCALARS = ['etabar', 'sigma0', 'B2s', 'B2c', 'p2', 'I2', 'B0']          # get_dofs order (checked by C16_layout.v)
CTOR_REST = ['nfp', 'sG', 'spsi', 'nphi', 'order']
EXACT = set(PARAM_ARRAYS + PARAM_SCALARS + CTOR_REST + ['nfourier', 'names', 'min_R0_threshold'])


def quiet():
    logging.getLogger('qsc').setLevel(logging.CRITICAL)
    warnings.simplefilter('ignore')
    np.seterr(all='ignore')


# ---------------------------------------------------------------------------------------------- snapshots
def snapshot(q, prefix='', depth=0):
    """name -> deep copy of every numeric / string / list-of-string attribute (nested objects two levels deep)"""
    out = {}
    for k, v in vars(q).items():
        key = prefix + k
        if isinstance(v, (bool, np.bool_, str, int, float, np.integer, np.floating, complex)):
            out[key] = copy.copy(v)
        elif isinstance(v, np.ndarray):
            if v.dtype.kind in 'biufc':
                out[key] = np.array(v, copy=True)
        elif isinstance(v, list):
            if all(isinstance(x, str) for x in v):
                out[key] = list(v)
        elif hasattr(v, '__dict__') and depth < 2:
            out.update(snapshot(v, key + '.', depth + 1))
        elif depth < 2 and hasattr(v, 'c') and hasattr(v, 'x'):      # scipy splines
            out[key + '.c'] = np.array(v.c, copy=True)
            out[key + '.x'] = np.array(v.x, copy=True)
    return out


def differs(a, b, rtol):
    """None if equal, else a short description"""
    if isinstance(a, (str, list)) or isinstance(b, (str, list)):
        return None if (type(a) == type(b) and a == b) else 'value %r vs %r' % (a if not isinstance(a, list) else a[:3], b if not isinstance(b, list) else b[:3])
    x, y = np.asarray(a), np.asarray(b)
    if x.shape != y.shape:
        return 'shape %s vs %s' % (x.shape, y.shape)
    if rtol == 0:
        return None if np.array_equal(x, y, equal_nan=True) else 'not bitwise equal (max diff %.3g)' % float(np.nanmax(np.abs(x.astype(float) - y.astype(float))))
    x, y = x.astype(float), y.astype(float)
    fin = np.isfinite(x) & np.isfinite(y)
    if not np.array_equal(x[~fin], y[~fin], equal_nan=True):
        return 'non-finite pattern differs'
    if not fin.any():
        return None
    scale = max(float(np.max(np.abs(x[fin]))), float(np.max(np.abs(y[fin]))))
    err = float(np.max(np.abs(x[fin] - y[fin])))
    if err > rtol * scale:
        return 'rel. diff %.3g (abs %.3g)' % (err / scale if scale else float('inf'), err)
    return None


def compare(sa, sb, rtol, exact=EXACT):
    """list of 'attr: why' between two snapshots"""
    out = []
    for k in sorted(set(sa) | set(sb)):
        if k not in sa or k not in sb:
            out.append('%s: only in %s' % (k, 'first' if k in sa else 'second'))
            continue
        d = differs(sa[k], sb[k], 0 if (exact is True or k in exact) else rtol)
        if d:
            out.append('%s: %s' % (k, d))
    return out


def fresh_from(q, order=None):
    qsc = import_qsc()
    return qsc.Qsc(rc=np.array(q.rc), zs=np.array(q.zs), rs=np.array(q.rs), zc=np.array(q.zc), nfp=q.nfp, etabar=q.etabar,
                   sigma0=q.sigma0, B0=q.B0, I2=q.I2, sG=q.sG, spsi=q.spsi, nphi=q.nphi, B2s=q.B2s, B2c=q.B2c, p2=q.p2,
                   order=order or q.order)


def params_of(q):
    d = {a: np.array(getattr(q, a), dtype=float, copy=True) for a in PARAM_ARRAYS}
    d.update({s: float(getattr(q, s)) for s in PARAM_SCALARS})
    return d


# ---------------------------------------------------------------------------------------------- histories
def initial_cfg(rng, order, asym):
    cfg = gen_config(rng, order=order, asym=asym, qh=(rng.random() < 0.25), nphi=int(rng.integers(15, 22)))
    cfg.setdefault('rs', [])
    cfg.setdefault('zc', [])
    # unequal lengths: the constructor must pad to the longest
    r = rng.random()
    if r < 0.3 and len(cfg['rs']) > 1:
        cfg['rs'] = cfg['rs'][:-1]
    elif r < 0.5:
        cfg['zc'] = list(cfg['zc']) + [round_sig(rnd(rng, -2e-3, 2e-3))]
    elif r < 0.65:
        cfg['zs'] = list(cfg['zs']) + [round_sig(rnd(rng, -2e-3, 2e-3))]
    for k in PARAM_SCALARS:
        cfg.setdefault(k, 0.0)
    cfg = {k: ([float(x) for x in v] if isinstance(v, list) else v) for k, v in cfg.items()}
    return cfg


def gen_op(rng, q, maxnf=5):
    """one random op as a JSON-able list, generated against the live object"""
    r = rng.random()
    n = int(q.nfourier)
    if r < 0.40:
        x = np.array(q.get_dofs(), dtype=float)
        kind = rng.random()
        if kind < 0.15:
            return ['set_dofs', [float(v) for v in x]]              # set_dofs(get_dofs())
        if kind < 0.22:
            # exactly one scalar changes (B0, or I2): every output that depends on it has to follow, whatever else stayed the same
            kk_ = 4 * n + (6 if rng.random() < 0.6 else 5)
            x[kk_] = x[kk_] * 1.3 + (0.0 if kk_ == 4 * n + 6 else 0.2)
            return ['set_dofs', [float(v) for v in x]]
        if kind < 0.30:
            # a finite-difference sized step: every non-zero entry moved by a relative 1e-8 .. 1e-6, sigma0 possibly from 0 to a few 1e-9 (the object must
            # follow however small the change is)
            step = 10.0 ** rnd(rng, -8, -6)
            x = x * (1 + step * rng.uniform(-1, 1, size=x.shape))
            if x[4 * n + 1] == 0.0 and rng.random() < 0.5:
                x[4 * n + 1] = 5e-9
            return ['set_dofs', [float(v) for v in x]]
        for b in range(4):
            for j in range(n):
                k = b * n + j
                u = rng.random()
                if j == 0:
                    x[k] = x[k] * (1 + 0.02 * rnd(rng, -1, 1)) if b == 0 else x[k]
                elif u < 0.6 or (j == 1 and b < 2):       # the leading rc / zs harmonic is never zeroed: the axis stays non-planar
                    x[k] = x[k] * (1 + 0.1 * rnd(rng, -1, 1))
                elif u < 0.75:
                    x[k] = 0.0
                elif u < 0.9:
                    x[k] = round_sig(rnd(rng, -3e-3, 3e-3)) / j
        s = 4 * n
        x[s + 0] *= 1 + 0.1 * rnd(rng, -1, 1)
        x[s + 1] = round_sig(rnd(rng, -0.3, 0.3)) if rng.random() < 0.5 else 0.0
        if q.order != 'r1':
            x[s + 2] = round_sig(rnd(rng, -0.5, 0.5)) if rng.random() < 0.5 else 0.0
            x[s + 3] = round_sig(rnd(rng, -1, 1))
            x[s + 4] = round_sig(-rnd(rng, 0, 1e5)) if rng.random() < 0.5 else 0.0
        x[s + 5] = round_sig(rnd(rng, -0.8, 0.8)) if rng.random() < 0.5 else 0.0
        x[s + 6] = x[s + 6] * (1 + 0.1 * rnd(rng, -1, 1))
        x = [float(v) for v in x]
        if kind > 0.82:                                              # wrong length: AssertionError expected
            d = int(rng.integers(1, 4))
            x = x[:-d] if rng.random() < 0.5 else x + [0.5] * d
        return ['set_dofs', x]
    if r < 0.75:
        lo = 1 if q.order == 'r1' else 2
        return ['change_nfourier', int(rng.integers(lo, maxnf + 1))]
    if r < 0.88:
        return ['calculate']
    return ['get_dofs']


def resize_blocks(x, n_old, n_new):
    blocks = []
    m = min(n_old, n_new)
    for k in range(4):
        b = np.zeros(n_new)
        b[:m] = x[k * n_old: k * n_old + m]
        blocks.append(b)
    return np.concatenate(blocks + [x[4 * n_old:]])


def expected_names(n):
    return ['%s(%d)' % (p, j) for p in PARAM_ARRAYS for j in range(n)] + list(PARAM_SCALARS)


def ctor_kwargs(cfg):
    return {k: (list(v) if isinstance(v, list) else v) for k, v in cfg.items()}


def run_history(cfg, ops=None, rng=None, nops=8, stats=None):
    """executes (and, when ops is None, generates) one history; returns (violations, record) where record holds what the
    Coq model must reproduce: init observation and per op (nfourier, dofs, names, accepted)"""
    qsc = import_qsc()
    viol = []
    stats = stats if stats is not None else {}

    def bump(k, n=1):
        stats[k] = stats.get(k, 0) + n

    def V(key, what, done):
        viol.append(dict(key=key, what=what, cfg=jsonable(cfg), ops=jsonable(done)))
    q = qsc.Qsc(**ctor_kwargs(cfg))
    rec = dict(init=(int(q.nfourier), [float(v) for v in q.get_dofs()], list(q.names)), steps=[])
    done = []
    gen = ops is None
    i = 0
    while True:
        if gen:
            if i >= nops:
                break
            op = gen_op(rng, q)
        else:
            if i >= len(ops):
                break
            op = ops[i]
        i += 1
        done.append(op)
        before = snapshot(q)
        x0 = np.array(q.get_dofs(), dtype=float)
        n0 = int(q.nfourier)
        accepted = True
        exp = x0
        try:
            if op[0] == 'set_dofs':
                x = np.array(op[1], dtype=float)
                try:
                    q.set_dofs(x)
                    exp = x
                except AssertionError:
                    accepted = False
                if accepted != (len(x) == 4 * n0 + 7):
                    V('history', 'set_dofs with len(x)=%d on nfourier=%d was %s' % (len(x), n0, 'accepted' if accepted else 'rejected'), done)
                if not accepted:
                    d = compare(before, snapshot(q), 0, exact=True)
                    bump('predictions')
                    if d:
                        V('history', 'rejected set_dofs changed the object: ' + '; '.join(d[:4]), done)
            elif op[0] == 'change_nfourier':
                q.change_nfourier(int(op[1]))
                exp = resize_blocks(x0, n0, int(op[1]))
            elif op[0] == 'calculate':
                q.calculate()
            elif op[0] == 'get_dofs':
                v = q.get_dofs()
                v[:] = -7.25            # the returned vector is the caller's
            else:
                raise ValueError('unknown op %r' % (op,))
        except Exception as e:
            # inadmissible parameters (NaN in the O(r^2) solve, singular matrix ...): there is no fresh object to compare with;
            # the property only requires that a fresh construction from the same parameters fails as well
            try:
                fresh_from(q)
                V('history', 'op %r raised %s (%s) although a fresh construction from the same parameters succeeds' % (op[0], type(e).__name__, str(e)[:120]), done)
            except Exception as e2:
                bump('inadmissible:' + type(e).__name__)
                bump('predictions')
                if type(e2) is not type(e):
                    V('history', 'op %r raised %s but a fresh construction from the same parameters raises %s' % (op[0], type(e).__name__, type(e2).__name__), done)
            break
        bump('op:' + op[0] + ('' if accepted else ':rejected'))
        got = np.array(q.get_dofs(), dtype=float)
        bump('predictions')
        if got.shape != exp.shape or not np.array_equal(got, exp):
            bad = [q.names[k] for k in range(min(len(got), len(exp), len(q.names))) if got[k] != exp[k]][:6] if got.shape == exp.shape else 'length %d vs %d' % (len(got), len(exp))
            V('history', 'after %s the DOF vector is not the expected one (wrong entries: %s)' % (op[0], bad), done)
        bump('predictions')
        if list(q.names) != expected_names(int(q.nfourier)) or len(q.names) != len(got):
            V('names', 'after %s: names do not match nfourier=%d / len(get_dofs())=%d' % (op[0], int(q.nfourier), len(got)), done)
        # the object must equal a fresh construction from its current parameters
        try:
            f = fresh_from(q)
            # an evaluation entry point at the same arguments on both (on the history object it has been called after every earlier step as well): same answer
            try:
                P_ = [[0.03, 0.4, 0.2]]
                with np.errstate(all='ignore'):
                    ra_ = np.array([float(np.asarray(v_).ravel()[0]) for v_ in q.to_RZ(P_)]); rb_ = np.array([float(np.asarray(v_).ravel()[0]) for v_ in f.to_RZ(P_)])
                dz = ['to_RZ(%s) = %s on the object but %s on a fresh construction' % (P_[0], list(np.round(ra_, 9)), list(np.round(rb_, 9)))] if (np.all(np.isfinite(rb_)) and np.max(np.abs(ra_ - rb_)) > 1e-10 * max(1.0, float(np.max(np.abs(rb_))))) else []
            except Exception:
                dz = []
            d = dz + compare(snapshot(q), snapshot(f), 1e-12)
        except Exception as e:
            d = ['fresh construction raised %s: %s' % (type(e).__name__, e)]
        bump('predictions')
        bump('fresh_comparisons')
        if d:
            V('history', 'after %s the object differs from a fresh construction (%d attributes): %s' % (op[0], len(d), '; '.join(d[:5])), done)
        rec['steps'].append((int(q.nfourier), [float(v) for v in got], list(q.names), accepted))
        if viol:
            break
    return viol, rec, q, done


def check_names(q, cfg, done, stats):
    """perturb DOF k and see which parameter element changes"""
    out = []
    c = fresh_from(q, order='r1')
    x0 = np.array(c.get_dofs(), dtype=float)
    if len(c.names) != len(x0):
        return [dict(key='names', what='len(names)=%d != len(get_dofs())=%d' % (len(c.names), len(x0)), cfg=jsonable(cfg), ops=jsonable(done))]
    base = params_of(c)
    for k in range(len(x0)):
        x = x0.copy()
        x[k] = x[k] + 1e-3 * (1 + abs(x[k]))
        c.set_dofs(x)
        now = params_of(c)
        changed = []
        for a in PARAM_ARRAYS:
            for j in np.nonzero(now[a] != base[a])[0]:
                changed.append('%s(%d)' % (a, j))
        changed += [s for s in PARAM_SCALARS if now[s] != base[s]]
        stats['predictions'] = stats.get('predictions', 0) + 1
        if changed != [c.names[k]]:
            out.append(dict(key='names', what='DOF %d is named %r but setting it changes %s' % (k, c.names[k], changed), cfg=jsonable(cfg), ops=jsonable(done)))
            break
        m = re.fullmatch(r'(\w+)\((\d+)\)', c.names[k])
        val = getattr(c, m.group(1))[int(m.group(2))] if m else getattr(c, c.names[k])
        if val != x[k]:
            out.append(dict(key='names', what='attribute designated by %r is %r after set_dofs put %r there' % (c.names[k], val, x[k]), cfg=jsonable(cfg), ops=jsonable(done)))
            break
    return out


def check_setget(q, cfg, done, stats):
    before = snapshot(q)
    q.set_dofs(q.get_dofs())
    d = compare(before, snapshot(q), 1e-13)
    stats['predictions'] = stats.get('predictions', 0) + 1
    if d:
        return [dict(key='setget', what='set_dofs(get_dofs()) changed %d attributes: %s' % (len(d), '; '.join(d[:5])), cfg=jsonable(cfg), ops=jsonable(done))]
    return []


# ---------------------------------------------------------------------------------------------- aliasing
def array_attrs(q):
    out = []
    for k, v in vars(q).items():
        if isinstance(v, np.ndarray):
            out.append((k, v))
        elif hasattr(v, '__dict__'):
            out += [(k + '.' + kk, vv) for kk, vv in vars(v).items() if isinstance(vv, np.ndarray)]
    return out


def check_alias(cfg, rng, stats):
    qsc = import_qsc()
    out = []

    def V(what):
        out.append(dict(key='alias', what=what, cfg=jsonable(cfg), ops=[]))
    n = max(len(cfg[a]) for a in PARAM_ARRAYS)
    arrs = {a: np.array(list(cfg[a]) + [0.0] * (n - len(cfg[a])), dtype=float) for a in PARAM_ARRAYS}   # full length: no padding copy needed
    kw = ctor_kwargs(cfg)
    kw.update(arrs)
    q = qsc.Qsc(**kw)
    sh = [k for k, v in array_attrs(q) for a in PARAM_ARRAYS if np.shares_memory(v, arrs[a])]
    stats['predictions'] = stats.get('predictions', 0) + 3
    if sh:
        V('after Qsc(rc=a, zs=b, rs=c, zc=d) attributes %s share memory with the caller arrays' % sh)
    before = snapshot(q)
    d0 = np.array(q.get_dofs())
    for a in PARAM_ARRAYS:
        arrs[a][:] = arrs[a] * 3.0 + 0.125
    d = compare(before, snapshot(q), 0, exact=True)
    if d or not np.array_equal(d0, q.get_dofs()):
        V('mutating the constructor arrays in place changed the object: %s' % '; '.join(d[:4]))
    # set_dofs
    x = np.array(d0, dtype=float)
    x[1:int(q.nfourier)] *= 1.01
    x[4 * int(q.nfourier)] *= 1.01
    q.set_dofs(x)
    sh = [k for k, v in array_attrs(q) if np.shares_memory(v, x)]
    if sh:
        V('after set_dofs(x) attributes %s share memory with x' % sh)
    before = snapshot(q)
    d1 = np.array(q.get_dofs())
    x[:] = x * 2.0 + 1.0
    d = compare(before, snapshot(q), 0, exact=True)
    if d or not np.array_equal(d1, q.get_dofs()):
        V('mutating x in place after set_dofs(x) changed the object: %s' % '; '.join(d[:4]))
    # a later recalculation must not pick the caller's later edits up either
    q.calculate()
    d = compare(before, snapshot(q), 1e-13)
    if d:
        V('calculate() after the caller mutated x gives different results: %s' % '; '.join(d[:4]))
    # get_dofs result
    v = q.get_dofs()
    sh = [k for k, w in array_attrs(q) if np.shares_memory(w, v)]
    v[:] = 0.0
    d = compare(before, snapshot(q), 1e-13)
    if sh or d:
        V('the vector returned by get_dofs() is tied to the object: shares %s; %s' % (sh, '; '.join(d[:4])))
    return out


# ---------------------------------------------------------------------------------------------- presets
def load_manifest(res=None):
    """the preset table extracted by tools/gen_obj.py from the tree under test; re-extracted in process when the committed
    manifest is absent or was generated from another tree; last resort (front-end rejects the tree): learnt from the code"""
    p = os.path.join(COQ, 'gen', 'obj_manifest.json')
    try:
        man = json.load(open(p))
        if os.path.realpath(man.get('repo', '')) == os.path.realpath(REPO):
            return man
    except Exception:
        pass
    try:
        sys.path.insert(0, os.path.join(ROOT, 'tools'))
        import gen_obj
        d = gen_obj.extract(REPO)
        return dict(preset_branches=d['preset_branches'], preset_advertised=d['preset_advertised'], repo=REPO)
    except Exception as e:
        if res is not None:
            res['distribution']['manifest'] = 'front-end failed (%s): presets learnt from from_paper itself' % str(e)[:120]
        qsc = import_qsc()
        KwargsOnly.from_paper = classmethod(qsc.Qsc.from_paper.__func__)
        br = []
        cands = list(qsc.Qsc.configurations) + ['5.1', '5.2', '5.3', '5.4', '5.5', 1, 2, 3, 4, 5, 'LandremanPaul2022QA', 'LandremanPaul2022QH']
        for name in cands:
            try:
                kw = KwargsOnly.from_paper(name).received
            except Exception:
                continue
            br.append([[name if isinstance(name, str) else 'int:%d' % name], [[k, repr(v)] for k, v in kw.items()]])
        return dict(preset_branches=br, preset_advertised=list(qsc.Qsc.configurations), repo=REPO)


def parse_name(s):
    return int(s[4:]) if s.startswith('int:') else s


def preset_of(man, name):
    for names, kws in man['preset_branches']:
        for n in names:
            pn = parse_name(n)
            if type(pn) is type(name) and pn == name:
                return {k: ast.literal_eval(v) for k, v in kws}
    return None


class KwargsOnly:
    """stand-in class: records what from_paper constructs"""
    def __init__(self, **kw):
        self.received = dict(kw)


def check_presets(rng, quick, stats, res):
    qsc = import_qsc()
    Qsc = qsc.Qsc
    man = load_manifest(res)
    out = []
    KwargsOnly.from_paper = classmethod(Qsc.from_paper.__func__)

    def V(key, what, cfg=None):
        out.append(dict(key=key, what=what, cfg=jsonable(cfg) if cfg is not None else None, ops=[]))

    def same(a, b):
        a, b = np.asarray(a), np.asarray(b)
        return a.shape == b.shape and a.dtype.kind == b.dtype.kind and np.array_equal(a, b)
    advertised = list(Qsc.configurations)
    stats['predictions'] = stats.get('predictions', 0) + 1
    if advertised != man['preset_advertised']:
        V('preset', 'Qsc.configurations %r differs from the list extracted by the front-end %r' % (advertised[:3], man['preset_advertised'][:3]))
    zero_keys = ['sigma0', 'I2', 'p2', 'B2s', 'B2c']
    for name in advertised:
        pre = preset_of(man, name)
        if pre is None:
            V('preset', 'advertised name %r has no extracted branch' % name)
            continue
        ovs = [{}]
        ovs.append({k: 0 for k in zero_keys if k in pre})
        ovs.append({k: 0.0 for k in zero_keys})
        if 'zc' in pre:
            ovs.append({'zc': []})
        for _ in range(2 if quick else 8):
            ov = {}
            for k, gen in (('etabar', lambda: pre['etabar'] * round_sig(rnd(rng, 0.9, 1.1))), ('nphi', lambda: int(rng.integers(15, 42))),
                           ('order', lambda: ['r1', 'r2', 'r3'][int(rng.integers(0, 3))]), ('sG', lambda: -1), ('spsi', lambda: -1),
                           ('B0', lambda: round_sig(rnd(rng, 0.7, 1.4))), ('p2', lambda: 0), ('I2', lambda: 0.0), ('sigma0', lambda: 0),
                           ('B2s', lambda: 0.0), ('B2c', lambda: [0, round_sig(rnd(rng, -1, 1))][int(rng.integers(0, 2))]),
                           ('nfp', lambda: pre['nfp']), ('rc', lambda: list(pre['rc'][:3])), ('zs', lambda: list(pre['zs'][:3]))):
                if rng.random() < 0.3:
                    ov[k] = gen()
            if 'rc' in ov or 'zs' in ov:      # keep the axis consistent
                ov['rc'], ov['zs'] = list(pre['rc'][:3]), list(pre['zs'][:3])
            ovs.append(ov)
        # 1. what the constructor receives, for every override set
        for ov in ovs:
            exp = dict(pre)
            exp.update(ov)
            stats['predictions'] = stats.get('predictions', 0) + 1
            try:
                got = KwargsOnly.from_paper(name, **copy.deepcopy(ov)).received
            except Exception as e:
                V('preset', 'from_paper(%r, **%r) raised %s: %s' % (name, ov, type(e).__name__, e), dict(name=name, ov=ov))
                continue
            badk = [k for k in set(got) | set(exp) if k not in got or k not in exp or not same(got[k], exp[k])]
            if badk:
                V('preset', 'from_paper(%r, **%r): constructor receives %s but preset+overrides give %s' % (
                    name, ov, {k: got.get(k) for k in badk}, {k: exp.get(k) for k in badk}), dict(name=name, ov=ov))
        # 2. real objects, attribute by attribute (cheap resolution unless the override set is empty)
        real = [ovs[1], ovs[2], ovs[-1]] if quick else ovs[1:]
        for ov in real:
            ov = dict(ov)
            ov.setdefault('nphi', int(rng.integers(15, 26)))
            exp = dict(pre)
            exp.update(ov)
            stats['predictions'] = stats.get('predictions', 0) + 1
            try:
                a = Qsc.from_paper(name, **copy.deepcopy(ov))
                b = Qsc(**copy.deepcopy(exp))
                d = compare(snapshot(a), snapshot(b), 1e-12)
            except Exception as e:
                d = ['raised %s: %s' % (type(e).__name__, e)]
            res['distribution']['preset-objects'] = res['distribution'].get('preset-objects', 0) + 1
            if d:
                V('preset', 'from_paper(%r, **%r) differs from the explicit constructor call in %d attributes: %s' % (name, ov, len(d), '; '.join(d[:4])),
                  dict(name=name, ov=ov))
    # the unmodified presets, once each at full resolution (thorough only: ~1 s each)
    if not quick:
        for name in advertised:
            pre = preset_of(man, name)
            if pre is None:
                continue
            d = compare(snapshot(Qsc.from_paper(name)), snapshot(Qsc(**copy.deepcopy(pre))), 1e-12)
            stats['predictions'] = stats.get('predictions', 0) + 1
            if d:
                V('preset', 'from_paper(%r) differs from the explicit constructor call: %s' % (name, '; '.join(d[:4])), dict(name=name, ov={}))
    # 3. rejection
    for bad in ('nonsense', 99, None, '', 'r1 section 5.1 ', 0, 6, '5.6'):
        stats['predictions'] = stats.get('predictions', 0) + 1
        try:
            KwargsOnly.from_paper(bad)
            V('reject', 'from_paper(%r) is accepted' % (bad,))
        except ValueError:
            pass
        except Exception as e:
            V('reject', 'from_paper(%r) raises %s instead of ValueError' % (bad, type(e).__name__))
    for key in ('sG', 'spsi'):
        for bad in (0, 2, -2, 1.5, -1.5, 100):
            stats['predictions'] = stats.get('predictions', 0) + 1
            kw = dict(rc=[1, 0.045], zs=[0, -0.045], nfp=3, etabar=-0.9, nphi=15)
            kw[key] = bad
            try:
                Qsc(**kw)
                V('reject', 'Qsc(%s=%r) is accepted' % (key, bad), kw)
            except ValueError:
                pass
            except Exception as e:
                V('reject', 'Qsc(%s=%r) raises %s instead of ValueError' % (key, bad, type(e).__name__), kw)
        for good in (1, -1):
            kw = dict(rc=[1, 0.045], zs=[0, -0.045], nfp=3, etabar=-0.9, nphi=15)
            kw[key] = good
            try:
                Qsc(**kw)
            except Exception as e:
                V('reject', 'Qsc(%s=%r) raises %s' % (key, good, type(e).__name__), kw)
    # 4. accepted but not advertised
    cand = []
    for names, _ in man['preset_branches']:
        cand += [parse_name(n) for n in names]
    for name in cand:
        stats['predictions'] = stats.get('predictions', 0) + 1
        try:
            KwargsOnly.from_paper(name)
            ok = True
        except ValueError:
            ok = False
        if not ok:
            res['mismatches'].append('front-end lists %r as an accepted configuration name but from_paper raises ValueError' % (name,))
        elif not any(type(a) is type(name) and a == name for a in advertised):
            key = name if isinstance(name, str) else 'int:%d' % name
            V('alias-name:%s' % (name,), 'from_paper accepts %r which is not in Qsc.configurations' % (name,), dict(name=key))
    res['distribution']['preset-names'] = len(advertised)
    return out


# ---------------------------------------------------------------------------------------------- the Coq model
def zlist(v):
    return '[' + '; '.join('%d' % x for x in v) + ']%Z'


def slist(v):
    return '[' + '; '.join('"%s"' % s for s in v) + ']%string'


class Table:
    def __init__(self):
        self.ix = {(0.0).hex(): 0}

    def __call__(self, v):
        return self.ix.setdefault(float(v).hex(), len(self.ix))


HEADER = '''(* GENERATED by tools/harness/oracle_C16.py: recorded histories of the running implementation, replayed through the model. *)
From Coq Require Import List String Bool Arith ZArith.
From QSC Require Import ObjModel.
Import ListNotations.
Fixpoint slist_eqb (a b : list string) : bool :=
  match a, b with [], [] => true | x :: a', y :: b' => String.eqb x y && slist_eqb a' b' | _, _ => false end.
Fixpoint blist_eqb (a b : list bool) : bool :=
  match a, b with [], [] => true | x :: a', y :: b' => Bool.eqb x y && blist_eqb a' b' | _, _ => false end.
Definition obs_eqb (a b : nat * list Z * bool) : bool :=
  Nat.eqb (fst (fst a)) (fst (fst b)) && listZ_eqb (snd (fst a)) (snd (fst b)) && Bool.eqb (snd a) (snd b).
Fixpoint trace_eqb (a b : list (nat * list Z * bool)) : bool :=
  match a, b with [], [] => true | x :: a', y :: b' => obs_eqb x y && trace_eqb a' b' | _, _ => false end.
Fixpoint names_eqb (a b : list (list string)) : bool :=
  match a, b with [], [] => true | x :: a', y :: b' => slist_eqb x y && names_eqb a' b' | _, _ => false end.
'''


def case_text(k, cfg, ops, rec):
    T = Table()
    init = [zlist([T(v) for v in cfg[a]]) for a in PARAM_ARRAYS]
    scal = zlist([T(cfg.get(s, 0.0)) for s in PARAM_SCALARS])
    cops = []
    for op in ops:
        if op[0] == 'set_dofs':
            cops.append('SetDofs %s' % zlist([T(v) for v in op[1]]))
        elif op[0] == 'change_nfourier':
            cops.append('ChangeNf Z %d%%nat' % op[1])
        elif op[0] == 'calculate':
            cops.append('Calculate Z')
        else:
            cops.append('GetDofs Z')
    args = ' '.join(init) + ' ' + scal
    lines = ['Definition ops%d : list opZ := [%s].' % (k, '; '.join(cops))]
    exp = ['(%d%%nat, %s, true)' % (n, zlist([T(v) for v in d])) for n, d, _, _ in rec['steps']]
    lines.append('Definition h%d : bool :=' % k)
    lines.append('  obs_eqb (init_trace %s) (%d%%nat, %s, true)' % (args, rec['init'][0], zlist([T(v) for v in rec['init'][1]])))
    lines.append('  && trace_eqb (run_trace %s ops%d) [%s]' % (args, k, '; '.join(exp)))
    lines.append('  && blist_eqb (run_trace_accepted %s ops%d) [%s]' % (args, k, '; '.join('true' if s[3] else 'false' for s in rec['steps'])))
    lines.append('  && names_eqb (run_trace_names %s ops%d) [%s].' % (args, k, '; '.join(slist(s[2]) for s in rec['steps'])))
    return '\n'.join(lines)


def run_model(cases, res):
    """cases: list of (cfg, ops, rec); appends MISMATCH strings; returns number of histories the model reproduces"""
    if not cases:
        return 0
    path = os.path.join(COQ, 'gprops', 'K_obj_cases_%d.v' % os.getpid())
    txt = [HEADER]
    for k, (cfg, ops, rec) in enumerate(cases):
        txt.append(case_text(k, cfg, ops[:len(rec['steps'])], rec))
    txt.append('Eval vm_compute in [%s].' % '; '.join('h%d' % k for k in range(len(cases))))
    open(path, 'w').write('\n'.join(txt) + '\n')
    t = time.time()
    try:
        p = subprocess.run(['coqc', '-Q', 'theories', 'QSC', '-Q', 'gen', 'QSCGen', '-Q', 'gprops', 'QSCGProps', 'gprops/K_obj_cases_%d.v' % os.getpid()],
                           cwd=COQ, capture_output=True, text=True, timeout=600)
        rc, out = p.returncode, p.stdout + p.stderr
    except subprocess.TimeoutExpired:
        rc, out = 1, 'TIMEOUT'
    res['coqc_s'] = round(time.time() - t, 2)
    m = re.search(r'=\s*\[(.*?)\]\s*:\s*list bool', out, flags=re.S)
    if rc != 0 or not m:
        res['mismatches'].append('object model: could not evaluate ObjModel.run_trace on the recorded histories: %s' % out[-400:])
        return 0
    vals = re.findall(r'true|false', m.group(1))
    if len(vals) != len(cases):
        res['mismatches'].append('object model: %d results for %d histories' % (len(vals), len(cases)))
        return 0
    ok = 0
    for (cfg, ops, rec), v in zip(cases, vals):
        if v == 'true':
            ok += 1
        else:
            res['mismatches'].append('ObjModel.run_trace disagrees with the implementation (nfourier / DOF vector / names / accepted) on cfg=%s ops=%s; code trace nfourier=%s'
                                     % (json.dumps(jsonable(cfg)), json.dumps(jsonable(ops))[:600], [s[0] for s in rec['steps']]))
    return ok


# ---------------------------------------------------------------------------------------------- driver
def histories(rng, nh, nops, res, stats, deadline=None, stop_on_violation=False):
    cases = []
    # fixed history: a two-digit number of harmonics (names rc(10), rc(11), ... appear), resized up and down again
    try:
        cfg0 = dict(rc=[1.0, 0.045], zs=[0.0, -0.045], rs=[0.0, 0.002], zc=[0.0, 0.003], nfp=3, etabar=-0.9, order='r1', nphi=15, sigma0=0.0, B0=1.0, I2=0.0, sG=1, spsi=1)
        if admissible(*build(ctor_kwargs(cfg0))):
            quiet()
            viol, rec, q, done = run_history(cfg0, [['change_nfourier', 12], ['get_dofs'], ['calculate'], ['change_nfourier', 11], ['change_nfourier', 3]], None, 0, stats)
            if not viol:
                viol += check_names(q, cfg0, done, stats)
                viol += check_setget(q, cfg0, done, stats)
            res['configs'] += 1; res['violations'] += viol
            res['distribution']['fixed:two-digit-nfourier'] = 1
    except Exception:
        pass
    for i in range(nh):
        if deadline and time.time() > deadline:
            break
        order = ['r1', 'r2', 'r3'][i % 3]
        asym = (i % 4) != 3
        cfg = None
        for _ in range(30):
            c = initial_cfg(rng, order, asym)
            try:
                q, msgs = build(ctor_kwargs(c))
            except Exception:
                continue
            if admissible(q, msgs):
                cfg = c
                break
        if cfg is None:
            continue
        quiet()
        n = int(rng.integers(max(1, nops // 2), nops + 1))
        viol, rec, q, done = run_history(cfg, None, rng, n, stats)
        res['configs'] += 1
        key = '%s/%s/nf%d' % (order, 'asym' if asym else 'sym', rec['init'][0])
        res['distribution'][key] = res['distribution'].get(key, 0) + 1
        if not viol:
            viol += check_names(q, cfg, done, stats)
            viol += check_setget(q, cfg, done, stats)
        cases.append((cfg, done, rec))
        res['violations'] += viol
        if len(res['samples']) < 3:
            res['samples'].append(dict(cfg=jsonable(cfg), ops=[o[0] + (('(%d)' % o[1]) if o[0] == 'change_nfourier' else ('(len %d)' % len(o[1])) if o[0] == 'set_dofs' else '()') for o in done],
                                       nfourier=[rec['init'][0]] + [s[0] for s in rec['steps']], accepted=[s[3] for s in rec['steps']]))
        if viol and stop_on_violation:
            break
    return cases


def main():
    ap = argparse.ArgumentParser()
    ap.add_argument('--mode', default='check')
    ap.add_argument('--seed', type=int, default=1)
    ap.add_argument('--n', type=int, default=6)
    ap.add_argument('--tier', default='quick')
    ap.add_argument('--budget', type=float, default=60)
    ap.add_argument('--hint', default='[]')
    ap.add_argument('--file')
    ap.add_argument('--histories', type=int, default=0, help='override the number of histories (default 40 quick / 400 thorough)')
    a = ap.parse_args()
    rng = np.random.default_rng(a.seed)
    quick = a.tier == 'quick'
    res = dict(configs=0, programs_validated=0, predictions_checked=0, mismatches=[], violations=[], samples=[], distribution={}, summary='')
    stats = {}
    quiet()
    t0 = time.time()
    if a.mode == 'replay':
        rep = json.load(open(a.file))
        f = rep.get('failing') or {}
        key = str(f.get('key', ''))
        cfg = f.get('cfg')
        if key in ('history', 'names', 'setget') and cfg and 'rc' in cfg:
            viol, rec, q, done = run_history(cfg, f.get('ops') or [], None, 0, stats)
            if not viol:
                viol += check_names(q, cfg, done, stats) + check_setget(q, cfg, done, stats)
            res['violations'] = viol
            res['programs_validated'] = run_model([(cfg, done, rec)], res)
            res['configs'] = 1
        elif key == 'alias' and cfg:
            res['violations'] = check_alias(cfg, rng, stats)
            res['configs'] = 1
        else:
            v = check_presets(rng, True, stats, res)
            res['violations'] = [x for x in v if x['key'] == key] or v
        res['predictions_checked'] = stats.get('predictions', 0)
        res['summary'] = 'replayed %s' % key
        print(json.dumps(res, default=str))
        return
    nh = a.histories or (40 if quick else 400)
    nops = 8 if quick else 12
    if a.mode == 'check':
        cases = histories(rng, nh, nops, res, stats)
        res['programs_validated'] = run_model(cases, res)
        nal = max(a.n, 6) if quick else max(a.n, 30)
        for i in range(nal):
            cfg = initial_cfg(rng, ['r1', 'r2', 'r3'][i % 3], True)
            try:
                res['violations'] += check_alias(cfg, rng, stats)
            except Exception as e:
                res['violations'].append(dict(key='alias', what='alias probe raised %s: %s' % (type(e).__name__, e), cfg=jsonable(cfg), ops=[]))
            res['distribution']['alias-probes'] = res['distribution'].get('alias-probes', 0) + 1
        res['violations'] += check_presets(rng, quick, stats, res)
    elif a.mode == 'search':
        deadline = t0 + a.budget
        # cheap and decisive first
        for i in range(3):
            res['violations'] += check_alias(initial_cfg(rng, ['r1', 'r2', 'r3'][i], True), rng, stats)
        res['violations'] += [v for v in check_presets(rng, True, stats, res)]
        real = [v for v in res['violations'] if not str(v['key']).startswith('alias-name:')]
        rounds = 0
        while not real and time.time() < deadline:
            histories(rng, 10, 12, res, stats, deadline=deadline, stop_on_violation=True)
            real = [v for v in res['violations'] if not str(v['key']).startswith('alias-name:')]
            rounds += 1
        # a concrete failing input first
        res['violations'] = real + [v for v in res['violations'] if str(v['key']).startswith('alias-name:')]
    res['predictions_checked'] = stats.get('predictions', 0)
    for k, v in stats.items():
        if k.startswith('op:') or k.startswith('inadmissible') or k == 'fresh_comparisons':
            res['distribution'][k] = v
    # one entry per key and kind is enough for the driver; keep the list short but never drop an alias-name entry
    names = [v for v in res['violations'] if str(v['key']).startswith('alias-name:')]
    other = [v for v in res['violations'] if not str(v['key']).startswith('alias-name:')]
    res['violations'] = other[:20] + names
    res['mismatches'] = res['mismatches'][:20]
    res['summary'] = '%d histories (%d ops, %d fresh-construction comparisons), %d replayed through ObjModel.run_trace in Coq, %d predictions, %.0fs' % (
        res['configs'], sum(v for k, v in stats.items() if k.startswith('op:')), stats.get('fresh_comparisons', 0), res['programs_validated'],
        res['predictions_checked'], time.time() - t0)
    print(json.dumps(res, default=str))


if __name__ == '__main__':
    main()
