"""Numeric oracle for C09: independent Python reading of props/C09_spec.v on live objects."""
import sys, os, json, time, argparse
sys.path.insert(0, os.path.dirname(os.path.abspath(__file__)))
from common import *
import transval


def predict(cfg, rng, q=None):
    out, n = [], 0
    if q is None:
        q, _ = build(cfg)
    T = q.grad_B_tensor
    def bad(key, what):
        out.append(dict(key=key, what=what, cfg=jsonable(cfg)))
    sc = max(np.max(np.abs(T.nn)), np.max(np.abs(T.tn)), 1e-300)
    tt = T.tt if np.ndim(T.tt) else float(T.tt)
    # continuum clauses: tolerance from the measured spectral resolution (only asserted on well resolved grids)
    spec = np.abs(np.fft.rfft(q.X1c * q.Y1s + q.sigma)); tail = spec[-3:].max() / max(spec.max(), 1e-300)
    ctol = max(1e-7, 1e3 * tail)
    if isinstance(cfg, dict) and 'preset' not in cfg:
        n += 1
        for k_ in ('I2', 'B0', 'etabar', 'sigma0'):
            if k_ in cfg and float(getattr(q, k_)) != float(cfg[k_]):
                bad('input:' + k_, 'the object was given %s = %r but holds %r: the tensor is that of another configuration' % (k_, cfg[k_], float(getattr(q, k_)))); break
    n += 2
    if tail < 1e-9:
        if np.max(np.abs(T.nn + T.bb + tt)) > ctol * sc:
            bad('trace', 'grad B tensor is not trace-free: max|nn+bb+tt| = %.3g (scale %.3g)' % (np.max(np.abs(T.nn + T.bb + tt)), sc))
        if np.max(np.abs(T.nb - T.bn - 2 * q.sG * q.spsi * q.I2)) > ctol * max(sc, abs(q.I2)):
            bad('curl', 'nb - bn = %.6g but 2*sG*spsi*I2 = %.6g' % (np.mean(T.nb - T.bn), 2 * q.sG * q.spsi * q.I2))
    # contraction with a first-order displacement vs the field-vector evaluator (algebraic, exact)
    th = rnd(rng, 0, 6.28); r = 0.01
    B0v = q.Bfield_cylindrical(0, th); B1v = (q.Bfield_cylindrical(r, th) - B0v) / r
    t, nn_, b = q.tangent_cylindrical.T, q.normal_cylindrical.T, q.binormal_cylindrical.T
    X = q.X1c * np.cos(th) + q.X1s * np.sin(th); Y = q.Y1c * np.cos(th) + q.Y1s * np.sin(th)
    want = (X * T.nn + Y * T.bn) * nn_ + (X * T.nb + Y * T.bb) * b + (X * T.nt) * t
    n += 1
    if np.max(np.abs(B1v - want)) > 1e-7 * max(np.max(np.abs(want)), 1e-300):
        bad('contraction', '(X1 n + Y1 b).grad B differs from the first-order field vector by %.3g' % np.max(np.abs(B1v - want)))
    # same contraction through the cylindrical array (index convention [component][derivative])
    G = q.grad_B_tensor_cylindrical
    delta = X * nn_ + Y * b
    want2 = np.einsum('jin,in->jn', G, delta)
    n += 1
    if np.max(np.abs(B1v - want2)) > 1e-7 * max(np.max(np.abs(want2)), 1e-300):
        bad('contraction-cyl', 'grad_B_tensor_cylindrical contracted with the displacement differs from the field vector change')
    # |B| to first order
    Bt = np.sum(B1v * t, axis=0)
    n += 1
    if np.max(np.abs(q.sG * Bt - q.B0 * q.etabar * np.cos(th))) > 1e-7 * abs(q.B0 * q.etabar):
        bad('magnitude', 'd|B|/dr from the field vector differs from B0*etabar*cos(theta)')
    # |B| from the field vector vs the field-strength evaluator, to first order in r (B_mag takes the Boozer poloidal angle, Bfield_cylindrical
    # the helical one: theta_Boozer = theta_helical + (iota - iotaN) * varphi).  First-order coefficients are compared directly (the O(r^2) terms
    # of |B0 + r B1| are large on strongly shaped helical axes, so a finite-r comparison has no useful tolerance).
    thB = th + (q.iota - q.iotaN) * q.varphi
    r2_ = 1e-8
    d1 = (q.B_mag(r2_, thB, q.phi) - q.B_mag(0.0, thB, q.phi)) / r2_
    n += 1
    if np.max(np.abs(d1 - q.sG * Bt)) > 1e-4 * abs(q.B0 * q.etabar):
        bad('magnitude-Bmag', 'd|B|/dr at r = 0 differs between B_mag and the field vector: %.3g (scale %.3g)' % (np.max(np.abs(d1 - q.sG * Bt)), abs(q.B0 * q.etabar)))
    d1b = (q.B_mag(r2_, thB, q.varphi, Boozer_toroidal=True) - q.B0) / r2_
    n += 1
    if np.max(np.abs(d1b - q.sG * Bt)) > 1e-4 * abs(q.B0 * q.etabar):
        bad('magnitude-Bmag-boozer', 'd|B|/dr at r = 0 differs between B_mag(Boozer_toroidal=True) and the field vector: %.3g' % np.max(np.abs(d1b - q.sG * Bt)))
    # the Cartesian field-vector evaluator is the rotation of the cylindrical one at the SAME (r, theta), also off the axis and for theta != 0,
    # and the Cartesian tensor contracted with the Cartesian displacement reproduces its first-order change
    cph, sph = np.cos(q.phi), np.sin(q.phi)
    for (rr, tt_) in ((0.0, th), (r, th), (0.03, 1.3)):
        Bc = q.Bfield_cylindrical(rr, tt_); Bx = q.Bfield_cartesian(rr, tt_)
        wantx = np.array([Bc[0] * cph - Bc[1] * sph, Bc[0] * sph + Bc[1] * cph, Bc[2]])
        n += 1
        if np.max(np.abs(Bx - wantx)) > 1e-12 * max(np.max(np.abs(wantx)), 1e-300):
            bad('Bfield-cartesian', 'Bfield_cartesian(r=%g, theta=%.3g) is not the rotation of Bfield_cylindrical at the same (r, theta): %.3g' % (rr, tt_, np.max(np.abs(Bx - wantx))))
            break
    B1x = (q.Bfield_cartesian(r, th) - q.Bfield_cartesian(0, th)) / r
    dcyl = X * nn_ + Y * b
    dx = np.array([dcyl[0] * cph - dcyl[1] * sph, dcyl[0] * sph + dcyl[1] * cph, dcyl[2]])
    Cx = q.grad_B_tensor_cartesian()
    want3 = np.einsum('jin,in->jn', Cx, dx)
    n += 1
    if np.max(np.abs(B1x - want3)) > 1e-7 * max(np.max(np.abs(want3)), 1e-300):
        bad('contraction-cart', 'grad_B_tensor_cartesian contracted with the displacement differs from the first-order change of Bfield_cartesian by %.3g' % np.max(np.abs(B1x - want3)))
    # Cartesian = rotated cylindrical; Frobenius norms; L_grad_B
    C = q.grad_B_tensor_cartesian()
    c, s = np.cos(q.phi), np.sin(q.phi); z, o = np.zeros_like(c), np.ones_like(c)
    Q = np.array([[c, -s, z], [s, c, z], [z, z, o]])
    rot = np.einsum('ain,bjn,ijn->abn', Q, Q, G)
    n += 3
    if np.max(np.abs(C - rot)) > 1e-10 * max(np.max(np.abs(G)), 1e-300):
        bad('cartesian', 'Cartesian grad B tensor is not the rotated cylindrical tensor (%.3g)' % np.max(np.abs(C - rot)))
    f_cyl, f_car = np.sum(G * G, axis=(0, 1)), np.sum(C * C, axis=(0, 1))
    if np.max(np.abs(f_cyl - q.grad_B_colon_grad_B)) > 1e-9 * np.max(np.abs(f_cyl)) or np.max(np.abs(f_car - f_cyl)) > 1e-9 * np.max(np.abs(f_cyl)):
        bad('frobenius', 'Frobenius norms differ between bases')
    if np.max(np.abs(q.L_grad_B - q.B0 * np.sqrt(2 / f_car))) > 1e-9 * np.max(np.abs(q.L_grad_B)) or np.max(np.abs(q.inv_L_grad_B * q.L_grad_B - 1)) > 1e-12:
        bad('L_grad_B', 'L_grad_B is not B0*sqrt(2/||grad B||^2)')
    return out, n


def main():
    ap = argparse.ArgumentParser()
    for a_ in ('--mode', '--hint', '--file', '--tier'):
        ap.add_argument(a_, default={'--mode': 'check', '--hint': '[]', '--tier': 'quick'}.get(a_))
    ap.add_argument('--seed', type=int, default=1); ap.add_argument('--n', type=int, default=6); ap.add_argument('--budget', type=float, default=60)
    a = ap.parse_args()
    rng = np.random.default_rng(a.seed)
    res = dict(configs=0, programs_validated=0, bindings_compared=0, max_rel_err=0.0, mismatches=[], violations=[], samples=[],
               predictions_checked=0, distribution={})
    dist = {}
    if a.mode == 'replay':
        f = (json.load(open(a.file)).get('failing') or {})
        if f.get('cfg'):
            res['violations'], res['predictions_checked'] = predict(f['cfg'], rng)
        print(json.dumps(res, default=str)); return
    t0 = time.time(); tried = 0
    nn = a.n if a.mode == 'check' else 10 ** 6
    for c_, q_ in corpus_objects():          # distilled regression inputs first
        v, n = predict(c_, rng, q_)
        res['predictions_checked'] += n; res['violations'] += v; res['configs'] += 1
        dist['corpus'] = dist.get('corpus', 0) + 1
    while tried < nn and (a.mode == 'check' or (time.time() - t0 < a.budget and not res['violations'])):
        tried += 1
        sg = [(1, 1), (1, -1), (-1, 1), (-1, -1)][tried % 4]
        try:
            cfg, q = gen_admissible(rng, qh=(tried % 3 == 0), order=['r1', 'r2'][tried % 2], signs=sg, nphi=int(2 * rng.integers(20, 40) + 1))
        except RuntimeError:
            continue
        key = '%s/sG%+d/spsi%+d/I2%s' % ('QH' if q.helicity else 'QA', cfg['sG'], cfg['spsi'], '!=0' if cfg.get('I2') else '=0')
        dist[key] = dist.get(key, 0) + 1
        if a.mode == 'check':
            tv = transval.validate(q, rng, only=('calculate_grad_B_tensor', 'Bfield_cylindrical_r', 'Bfield_cylindrical_r0', 'Bfield_cartesian', 'grad_B_tensor_cartesian', 'init_axis', 'r1_diagnostics_h0', 'r1_diagnostics_hN', 'residual'))
            res['programs_validated'] += tv['programs']; res['bindings_compared'] += tv['bindings']
            res['max_rel_err'] = max(res['max_rel_err'], tv['max_rel_err']); res['mismatches'] += tv['mismatches']
        res['configs'] += 1
        v, n = predict(cfg, rng, q)
        res['predictions_checked'] += n; res['violations'] += v
        if len(res['samples']) < 3:
            res['samples'].append(dict(cfg=jsonable(cfg)))
    res['distribution'] = dist; res['summary'] = 'tried %d inputs' % tried
    res['mismatches'] = res['mismatches'][:20]; res['violations'] = res['violations'][:20]
    print(json.dumps(res, default=str))


if __name__ == '__main__':
    main()
