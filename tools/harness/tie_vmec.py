#!/usr/bin/env python3
"""Correspondence between the Coq model of the boundary section of the VMEC file (coq/theories/VmecEmit.v) and qsc/to_vmec.py.

For generated (mpol, ntor, ntorMax, lasym) and generated zero patterns of the four coefficient arrays, the model's `emit` is evaluated INSIDE Coq
on the boolean instance (scalar = "is this entry zero") and gives the ordered list of assignments (field, n, m); the real to_vmec is run in the
harness process with to_Fourier replaced by a function returning arrays with exactly that zero pattern (and Frenet_to_cylindrical by a stub), the
file it writes is scanned for `NAME(n,m) = value` in file order, and the two sequences, the values, and the header fields MPOL / NTOR (model:
ntor_written, mpol_default, ntor_default) must agree.  Prints one JSON object last."""
import argparse, json, os, re, subprocess, sys, tempfile
sys.path.insert(0, os.path.dirname(os.path.abspath(__file__)))
import common
from common import np, ROOT

COQ = os.path.join(ROOT, 'coq')
FIELDS = ['RBC', 'ZBS', 'RBS', 'ZBC']


def cb(b):
    return 'true' if b else 'false'


def coq_tbl(z):
    return '[' + '; '.join('[' + '; '.join(cb(x) for x in row) + ']' for row in z) + ']'


def main():
    ap = argparse.ArgumentParser()
    ap.add_argument('--mode', default='check'); ap.add_argument('--seed', type=int, default=1); ap.add_argument('--n', type=int, default=12)
    ap.add_argument('--tier', default='quick'); ap.add_argument('--budget', default='60'); ap.add_argument('--hint', default=''); ap.add_argument('--file')
    a = ap.parse_args()
    rng = np.random.default_rng(a.seed)
    res = dict(configs=0, programs_validated=0, bindings_compared=0, max_rel_err=0.0, mismatches=[], violations=[], samples=[], predictions_checked=0,
               distribution={}, summary='')
    ncase = max(8, a.n) if a.tier == 'quick' else 60
    cases = []
    for c in range(ncase):
        mp, ntr = int(rng.integers(0, 5)), int(rng.integers(0, 5))
        lasym = bool(rng.integers(0, 2))
        dens = [0.0, 0.3, 0.7, 1.0][int(rng.integers(0, 4))]
        zs = [rng.random((2 * ntr + 1, mp + 1)) < dens for _ in range(4)]     # True = entry is zero;  order RBC, RBS, ZBC, ZBS (to_Fourier's order)
        use_default = bool(rng.integers(0, 2)) and c % 3 == 0
        ntheta = int(rng.integers(1, 12)); ntormax = int(rng.integers(0, 6))
        cases.append(dict(mpol=mp, ntor=ntr, lasym=lasym, zs=zs, use_default=use_default, ntheta=ntheta, ntormax=ntormax))
    # Coq side
    lines = ['From Coq Require Import ZArith List Bool.', 'From QSC Require Import VmecEmit.', 'Import ListNotations.',
             'Definition arr_of (ntor : nat) (t : list (list bool)) : Z -> nat -> bool := fun n m => nth m (nth (Z.to_nat (n + Z.of_nat ntor)) t []) true.',
             'Definition fcode (f : field) : nat := match f with F_RBC => 0 | F_ZBS => 1 | F_RBS => 2 | F_ZBC => 3 end.',
             'Definition show (l : list (@assign bool)) := map (fun a => (fcode (a_f a), a_n a, a_m a, a_v a)) l.']
    for c in cases:
        lines.append('Eval vm_compute in show (emit (fun b => b) %s (arr_of %d %s) (arr_of %d %s) (arr_of %d %s) (arr_of %d %s) %d %d).'
                     % (cb(c['lasym']), c['ntor'], coq_tbl(c['zs'][0]), c['ntor'], coq_tbl(c['zs'][1]), c['ntor'], coq_tbl(c['zs'][2]), c['ntor'], coq_tbl(c['zs'][3]), c['mpol'], c['ntor']))
        lines.append('Eval vm_compute in (ntor_written %d %d, mpol_default %d, ntor_default %d).' % (c['ntor'], c['ntormax'], c['ntheta'], 15))
    path = os.path.join(COQ, 'gprops', 'K_vmec_cases_%d.v' % os.getpid())
    open(path, 'w').write('\n'.join(lines) + '\n')
    p = subprocess.run(['coqc', '-Q', 'theories', 'QSC', '-Q', 'gprops', 'QSCGProps', 'gprops/K_vmec_cases_%d.v' % os.getpid()], cwd=COQ, capture_output=True, text=True, timeout=900)
    if p.returncode != 0:
        res['mismatches'].append('Coq evaluation of the VmecEmit model failed: ' + (p.stdout + p.stderr)[-600:])
        print(json.dumps(res)); return
    chunks = re.split(r'\n\s*=\s', '\n' + p.stdout)[1:]
    if len(chunks) != 2 * len(cases):
        res['mismatches'].append('expected %d results from Coq, got %d' % (2 * len(cases), len(chunks)))
        print(json.dumps(res)); return
    qsc = common.import_qsc()
    import qsc.to_vmec as TV
    q, _ = common.build(dict(rc=[1, 0.09], zs=[0, -0.09], nfp=2, etabar=0.95, nphi=15))
    orig = TV.to_Fourier
    nlines = 0
    try:
        for k, c in enumerate(cases):
            body = chunks[2 * k].split('\n     :')[0].replace('%Z', '').replace('%nat', '')
            model = [(int(f), int(n), int(m), v == 'true') for (f, n, m, v) in re.findall(r'\(\s*(\d+)\s*,\s*\(?(-?\d+)\)?\s*,\s*(\d+)\s*,\s*(true|false)\s*\)', body)]
            hdr = [int(x) for x in re.findall(r'\d+', chunks[2 * k + 1].split('\n     :')[0].replace('%nat', ''))]
            vals = [np.where(z, 0.0, rng.standard_normal(z.shape) + 3.0) for z in c['zs']]
            if rng.integers(0, 2):
                vals = [np.where(z & (rng.random(z.shape) < 0.5), -0.0, v) for z, v in zip(c['zs'], vals)]      # negative zeros are zeros too
            TV.to_Fourier = lambda *args, **kw: tuple(v.copy() for v in vals)
            q.lasym = c['lasym']
            q.Frenet_to_cylindrical = lambda r, ntheta=20: (np.zeros((ntheta, q.nphi)),) * 3
            params = {} if c['use_default'] else dict(mpol=c['mpol'], ntor=c['ntor'])
            with tempfile.TemporaryDirectory() as td:
                fn = os.path.join(td, 'input.t')
                if c['use_default']:
                    # default ranges: arrays must have the default shape; regenerate values accordingly (pattern: all nonzero)
                    mpd, ntd = hdr[1], hdr[2]
                    vals = [rng.standard_normal((2 * ntd + 1, mpd + 1)) + 3.0 for _ in range(4)]
                    TV.to_Fourier = (lambda vv: (lambda R2, Z2, nfp, mpol, ntor, lasym: tuple(x.copy() for x in vv) if (mpol, ntor) == (mpd, ntd) else (_ for _ in ()).throw(ValueError('to_vmec asked for mpol=%s ntor=%s, model default %s %s' % (mpol, ntor, mpd, ntd)))))(vals)
                try:
                    TV.to_vmec(q, fn, r=0.1, params=params, ntheta=c['ntheta'], ntorMax=c['ntormax'])
                except ValueError as e:
                    res['mismatches'].append('default resolutions: ' + str(e)); continue
                txt = open(fn).read()
            got = [(FIELDS.index(f), int(n), int(m), float(v)) for (f, n, m, v) in re.findall(r'(RBC|ZBS|RBS|ZBC)\(\s*(-?\d+)\s*,\s*(\d+)\s*\)\s*=\s*([-+0-9.eE]+)', txt)]
            ntor_hdr = int(re.search(r'NTOR\s*=\s*(-?\d+)', txt).group(1)); mpol_hdr = int(re.search(r'MPOL\s*=\s*(-?\d+)', txt).group(1))
            res['configs'] += 1
            if c['use_default']:
                if (mpol_hdr, ntor_hdr) != (hdr[1], min(hdr[2], c['ntormax'])):
                    res['mismatches'].append('header with defaults: file MPOL=%d NTOR=%d, model mpol_default=%d min(ntor_default, ntorMax)=%d' % (mpol_hdr, ntor_hdr, hdr[1], min(hdr[2], c['ntormax'])))
                res['programs_validated'] += 1
                continue
            if (mpol_hdr, ntor_hdr) != (c['mpol'], hdr[0]):
                res['mismatches'].append('header: file MPOL=%d NTOR=%d, model MPOL=%d NTOR=%d (ntor=%d, ntorMax=%d)' % (mpol_hdr, ntor_hdr, c['mpol'], hdr[0], c['ntor'], c['ntormax']))
            if [(f, n, m) for (f, n, m, _) in got] != [(f, n, m) for (f, n, m, _) in model]:
                res['mismatches'].append('mode lines (mpol=%d, ntor=%d, lasym=%s): file has %d assignments %s..., model %d %s...'
                                         % (c['mpol'], c['ntor'], c['lasym'], len(got), [(FIELDS[f], n, m) for (f, n, m, _) in got[:4]], len(model), [(FIELDS[f], n, m) for (f, n, m, _) in model[:4]]))
                continue
            arrs = dict(RBC=vals[0], RBS=vals[1], ZBC=vals[2], ZBS=vals[3])
            for (f, n, m, v), (_, _, _, z) in zip(got, model):
                src = arrs[FIELDS[f]][n + c['ntor'], m]
                nlines += 1
                if v != src or (src == 0) != z:
                    res['mismatches'].append('mode line %s(%d,%d) = %r, array entry %r' % (FIELDS[f], n, m, v, src)); break
            res['programs_validated'] += 1
    finally:
        TV.to_Fourier = orig
    res['bindings_compared'] = nlines
    res['distribution'] = dict(lasym=sum(c['lasym'] for c in cases), defaults=sum(c['use_default'] for c in cases), cases=len(cases))
    res['mismatches'] = res['mismatches'][:20]
    res['summary'] = 'VmecEmit model vs to_vmec: %d cases, %d assignments compared' % (len(cases), nlines)
    print(json.dumps(res))


if __name__ == '__main__':
    main()
