"""Shared pieces of the correspondence / counter-example harness.
Runs the implementation from the repository's working tree (REPO env var, default /repo)."""
import os, sys, json, time, logging, io, contextlib, warnings, math

REPO = os.environ.get('VERIF_REPO', '/repo')
ROOT = os.path.dirname(os.path.dirname(os.path.dirname(os.path.abspath(__file__))))
os.environ.setdefault('MPLBACKEND', 'Agg')
os.environ.setdefault('PYTHONHASHSEED', '0')
for _v in ('OPENBLAS_NUM_THREADS', 'OMP_NUM_THREADS', 'MKL_NUM_THREADS'):      # small matrices: threaded BLAS only thrashes a loaded machine
    os.environ.setdefault(_v, '1')
if REPO not in sys.path:
    sys.path.insert(0, REPO)
import numpy as np


class WarnCatcher(logging.Handler):
    def __init__(self):
        logging.Handler.__init__(self, level=logging.WARNING)
        self.records = []

    def emit(self, record):
        self.records.append(record.getMessage())


def import_qsc():
    import qsc
    assert os.path.realpath(os.path.dirname(qsc.__file__)) == os.path.realpath(os.path.join(REPO, 'qsc')), \
        'qsc imported from %s, expected %s' % (qsc.__file__, REPO)
    return qsc


def build(cfg, shear=False):
    """construct Qsc(**cfg); returns (object, list of warning messages)"""
    qsc = import_qsc()
    h = WarnCatcher()
    lg = logging.getLogger('qsc')
    lg.addHandler(h)
    old = lg.level
    lg.setLevel(logging.WARNING)
    try:
        with warnings.catch_warnings(record=True) as w:
            warnings.simplefilter('always')
            with np.errstate(all='ignore'):
                q = qsc.Qsc(**cfg)
                if shear and cfg.get('order') == 'r3':
                    q.calculate_shear()
        msgs = list(h.records) + [str(x.message) for x in w]
    finally:
        lg.removeHandler(h)
        lg.setLevel(old)
    return q, msgs


def rnd(rng, lo, hi):
    return float(lo + (hi - lo) * rng.random())


def round_sig(x, k=3):
    if x == 0:
        return 0.0
    return float(('%.' + str(k) + 'g') % x)


def gen_config(rng, order=None, asym=None, qh=None, signs=None, nphi=None, simple=False):
    """a random admissible input; all random choices come from rng (numpy Generator)"""
    if qh is None:
        qh = rng.random() < 0.35
    if asym is None:
        asym = rng.random() < 0.5
    if order is None:
        order = ['r1', 'r2', 'r3'][int(rng.integers(0, 3))]
    if qh:
        nfp = int(rng.integers(3, 6))
        a = rnd(rng, 1.6, 2.6) / (1 + nfp * nfp)
        rc1, zs1 = a, a * rnd(rng, 0.85, 1.1)
        if rng.random() < 0.5:
            zs1 = -zs1
    else:
        nfp = int(rng.integers(1, 4))
        m = 0.5 / (1 + nfp * nfp)
        rc1 = rnd(rng, 0.25, 0.9) * m * (1 if rng.random() < 0.5 else -1)
        zs1 = rnd(rng, 0.25, 0.9) * m * (1 if rng.random() < 0.5 else -1)
    R0 = 1.0 if rng.random() < 0.4 else rnd(rng, 0.6, 1.8)
    rc = [1.0, rc1]; zs = [0.0, zs1]; rs = [0.0, 0.0]; zc = [0.0, 0.0]
    if rng.random() < 0.5 and not simple:
        rc.append(rc1 * rnd(rng, -0.12, 0.12)); zs.append(zs1 * rnd(rng, -0.12, 0.12)); rs.append(0.0); zc.append(0.0)
    if asym:
        for k in range(1, len(rc)):
            rs[k] = abs(rc1) * rnd(rng, -0.2, 0.2) / k
            zc[k] = abs(rc1) * rnd(rng, -0.2, 0.2) / k
    if asym and len(rc) >= 3 and rng.random() < 0.4:
        rc[-1] = 0.0; zs[-1] = 0.0          # the last harmonic is carried by rs / zc alone
    sc = lambda l: [round_sig(R0 * x, 4) for x in l]
    cfg = dict(rc=sc(rc), zs=sc(zs), nfp=nfp, order=order)
    if asym:
        cfg['rs'] = sc(rs); cfg['zc'] = sc(zc)
    cfg['etabar'] = round_sig(rnd(rng, 0.6, 1.6) / R0 * (1 if rng.random() < 0.7 else -1))
    cfg['sigma0'] = round_sig(rnd(rng, -0.5, 0.5)) if asym and rng.random() < 0.7 else 0.0
    cfg['B0'] = 1.0 if rng.random() < 0.3 else round_sig(rnd(rng, 0.5, 2.0))
    cfg['I2'] = round_sig(rnd(rng, -1.0, 1.0) / R0) if rng.random() < 0.6 else 0.0
    if signs is None:
        cfg['sG'] = 1 if rng.random() < 0.5 else -1
        cfg['spsi'] = 1 if rng.random() < 0.5 else -1
    else:
        cfg['sG'], cfg['spsi'] = signs
    if order != 'r1':
        cfg['B2c'] = round_sig(rnd(rng, -1.0, 1.0) / R0 ** 2)
        cfg['B2s'] = round_sig(rnd(rng, -1.0, 1.0) / R0 ** 2) if asym and rng.random() < 0.7 else 0.0
        cfg['p2'] = round_sig(-rnd(rng, 0, 2e5)) if rng.random() < 0.6 else 0.0
    cfg['nphi'] = nphi if nphi is not None else int(2 * rng.integers(7, 20) + 1)
    return cfg


def admissible(q, msgs):
    if [m for m in msgs if 'Methods of computing lambda disagree' not in m]:
        return False
    for k in ('iota', 'sigma', 'curvature', 'elongation'):
        v = np.asarray(getattr(q, k), dtype=float)
        if not np.all(np.isfinite(v)):
            return False
    if abs(q.iotaN) < 0.05 or np.max(q.elongation) > 30:
        return False
    if q.order != 'r1':
        for k in ('X20', 'Y20', 'B20'):
            if not np.all(np.isfinite(getattr(q, k))):
                return False
        if np.max(np.abs(q.X20)) * abs(1 / np.max(q.curvature)) > 200:
            return False
    return True


def warm_up(q, rng):
    """a few read-only calls / attribute reads on an object that is about to be changed (C17: they change nothing; anything they cache
    must be invalidated by the change)"""
    import matplotlib
    calls = [lambda: q.grad_B_tensor_cartesian(), lambda: q.Bfield_cylindrical(0.01, 0.3), lambda: q.Bfield_cartesian(0.01, 0.3),
             lambda: q.B_mag(0.01, 0.2, 0.1), lambda: getattr(q, 'r_singularity', None), lambda: getattr(q, 'grad_B_tensor_cylindrical', None),
             lambda: q.Frenet_to_cylindrical(0.01, 4), lambda: q.get_dofs(), lambda: getattr(q, 'min_R0', None), lambda: getattr(q, 'L_grad_B', None)]
    if q.order != 'r1':
        calls += [lambda: q.grad_grad_B_tensor_cylindrical(), lambda: q.grad_grad_B_tensor_cartesian(), lambda: getattr(q, 'DMerc_times_r2', None)]
    for i in rng.permutation(len(calls))[:int(rng.integers(3, 7))]:
        try:
            calls[int(i)]()
        except Exception:
            pass


def via_history(cfg, rng, variant=None, which=None):
    """the object for `cfg` reached through a call HISTORY instead of a fresh construction: built for a different axis (possibly with one more
    harmonic) and other scalar inputs, then resized with change_nfourier and moved to cfg with set_dofs (order r3: calculate_shear() afterwards,
    half of the time).  On a correct implementation the result is indistinguishable from Qsc(**cfg) (property C16); using such objects in the
    other oracles exposes stale caches and in-place writes that no freshly constructed object shows."""
    qsc = import_qsc()
    nh = len(cfg['rc'])
    if variant == 'B' or (variant is None and rng.random() < 0.3):
        # variant B: the same input with ONE more harmonic that only carries rs / zc (or only rc / zs), discarded again by change_nfourier
        c0 = dict(cfg)
        which = which or (('rs', 'zc') if rng.random() < 0.6 else ('rc', 'zs'))
        for k in ('rc', 'zs', 'rs', 'zc'):
            base = list(cfg.get(k, [0.0] * nh))
            c0[k] = base + [abs(cfg['rc'][-1]) * 0.05 if k in which else 0.0]
        h = WarnCatcher(); lg = logging.getLogger('qsc'); lg.addHandler(h); old = lg.level; lg.setLevel(logging.WARNING)
        try:
            with warnings.catch_warnings(record=True):
                warnings.simplefilter('always')
                with np.errstate(all='ignore'):
                    q = qsc.Qsc(**c0)
                    h.records.clear()
                    q.change_nfourier(nh)
                    if cfg.get('order') == 'r3' and rng.random() < 0.5:
                        q.calculate_shear()
            msgs = list(h.records)
        finally:
            lg.removeHandler(h); lg.setLevel(old)
        return q, msgs
    if variant == 'D':
        # variant D: built with ANOTHER number of field periods (same coefficient lists), then nfp assigned and calculate() called: everything that depends on
        # the field period (grid, differentiation matrices, splines) has to follow
        c0 = dict(cfg); c0['nfp'] = cfg['nfp'] + 1
        h = WarnCatcher(); lg = logging.getLogger('qsc'); lg.addHandler(h); old = lg.level; lg.setLevel(logging.WARNING)
        try:
            with warnings.catch_warnings(record=True):
                warnings.simplefilter('always')
                with np.errstate(all='ignore'):
                    q = qsc.Qsc(**c0)
                    h.records.clear()
                    q.nfp = cfg['nfp']
                    q.calculate()
                    if cfg.get('order') == 'r3':
                        q.calculate_shear()
            msgs = list(h.records)
        finally:
            lg.removeHandler(h); lg.setLevel(old)
        return q, msgs
    sc = 1.0 + rnd(rng, 0.05, 0.25) * (1 if rng.random() < 0.5 else -1)
    if variant == 'C' or (variant is None and rng.random() < 0.3):
        sc = 1.0          # variant C: the SAME axis; only scalar inputs (B0, I2, p2, sigma0, sG, spsi, ...) differ at the start
    c0 = dict(cfg)
    for k in ('rc', 'zs', 'rs', 'zc'):
        if k in cfg:
            c0[k] = [cfg[k][0]] + [x * sc for x in cfg[k][1:]]
    extra = rng.random() < 0.4 and not (variant == 'C' and isinstance(which, str))      # (single-change histories change nothing else)
    if extra:
        for k in ('rc', 'zs', 'rs', 'zc'):
            if k in c0:
                c0[k] = list(c0[k]) + [c0[k][-1] * 0.05 if k in ('rc', 'zs') else 0.0]
    if not (sc == 1.0 and rng.random() < 0.6):
        c0['etabar'] = cfg['etabar'] * (1.0 + rnd(rng, 0.03, 0.1))        # (variant C: often ONLY B0 / I2 / p2 / sG / spsi differ)
    if 'B2c' in cfg:
        c0['B2c'] = cfg['B2c'] + 0.07
    only = which if (variant == 'C' and isinstance(which, str)) else None       # variant C with which in {'B0', 'I2', 'signs'}: exactly that differs
    if only is not None:
        c0['etabar'] = cfg['etabar']
        if 'B2c' in cfg:
            c0['B2c'] = cfg['B2c']
    if only == 'B0' or (only is None and rng.random() < 0.5):
        c0['B0'] = cfg.get('B0', 1.0) * (1.7 if rng.random() < 0.5 else 0.6)
    if only == 'I2' or (only is None and rng.random() < 0.5):
        c0['I2'] = cfg.get('I2', 0.0) + (0.3 if rng.random() < 0.5 else -0.2)
    if 'p2' in cfg and only is None and rng.random() < 0.5:
        c0['p2'] = cfg['p2'] * 0.5 - 1000.0
    flip = ['sG', 'spsi'] if only == 'signs' else ([] if only is not None else [k for k in ('sG', 'spsi') if rng.random() < 0.3])
    for k in flip:
        c0[k] = -cfg.get(k, 1)
    if rng.random() < 0.35 and only is None:
        # start from a stellarator-SYMMETRIC object; the symmetry is broken (if the target is asymmetric) only by the later set_dofs
        for k in ('rs', 'zc'):
            if k in c0:
                c0[k] = [0.0] * len(c0[k])
        c0['sigma0'] = 0.0
        if 'B2s' in c0:
            c0['B2s'] = 0.0
    shear_first = cfg.get('order') == 'r3' and (variant == 'A' or rng.random() < 0.5)
    h = WarnCatcher(); lg = logging.getLogger('qsc'); lg.addHandler(h); old = lg.level; lg.setLevel(logging.WARNING)
    try:
        with warnings.catch_warnings(record=True) as w:
            warnings.simplefilter('always')
            with np.errstate(all='ignore'):
                q = qsc.Qsc(**c0)
                if shear_first:
                    q.calculate_shear()      # anything this caches must not survive the change of axis below
                warm_up(q, rng)              # read-only calls and attribute reads: whatever they cache must not survive the change of state below
                for k in flip:               # sG / spsi are not degrees of freedom of set_dofs: assign them (the recalculation below uses them)
                    setattr(q, k, cfg.get(k, 1))
                if q.nfourier != nh:
                    q.change_nfourier(nh)
                z = [0.0] * nh
                x = np.array(list(cfg['rc']) + list(cfg['zs']) + list(cfg.get('rs', z)) + list(cfg.get('zc', z))
                             + [cfg['etabar'], cfg.get('sigma0', 0.0), cfg.get('B2s', 0.0), cfg.get('B2c', 0.0), cfg.get('p2', 0.0), cfg.get('I2', 0.0), cfg.get('B0', 1.0)], dtype=float)
                h.records.clear()
                if rng.random() < 0.7 or only is not None:      # (single-change histories always go through set_dofs: they are aimed at its invalidation logic)
                    q.set_dofs(x)
                else:
                    # the other documented way to change an object: assign the inputs, then calculate()
                    q.rc = np.array(cfg['rc'], dtype=float); q.zs = np.array(cfg['zs'], dtype=float)
                    q.rs = np.array(cfg.get('rs', z), dtype=float); q.zc = np.array(cfg.get('zc', z), dtype=float)
                    q.etabar = cfg['etabar']; q.sigma0 = cfg.get('sigma0', 0.0); q.B2s = cfg.get('B2s', 0.0); q.B2c = cfg.get('B2c', 0.0)
                    q.p2 = cfg.get('p2', 0.0); q.I2 = cfg.get('I2', 0.0); q.B0 = cfg.get('B0', 1.0)
                    q.calculate()
                if cfg.get('order') == 'r3' and (shear_first or rng.random() < 0.5):
                    q.calculate_shear()      # (after shear_first the old iota2 would otherwise be left on the object, stale by design)
        msgs = list(h.records)
    finally:
        lg.removeHandler(h); lg.setLevel(old)
    return q, msgs


HISTORY_FRACTION = float(os.environ.get('VERIF_HISTORY_FRACTION', '0.25'))


def gen_admissible(rng, tries=40, shear=False, history=True, **kw):
    for _ in range(tries):
        cfg = gen_config(rng, **kw)
        try:
            q, msgs = build(cfg, shear=shear)
        except Exception:
            continue
        if admissible(q, msgs):
            if history and cfg.get('order') == 'r3' and not shear and rng.random() < 0.5:
                q.calculate_shear()          # a read-only diagnostic (C17): must not change anything the oracles look at
            if history and rng.random() < HISTORY_FRACTION:
                try:
                    q2, msgs2 = via_history(cfg, rng)
                    if admissible(q2, msgs2):
                        if shear and cfg.get('order') == 'r3':
                            q2.calculate_shear()          # (an iota2 left over from before the change of axis would be stale by design)
                        return cfg, q2
                except Exception:
                    pass
            return cfg, q
    raise RuntimeError('could not generate an admissible configuration')


def flat_attrs(q):
    """name -> float ndarray for every numeric attribute; tensor components get _i_j suffixes"""
    out = {}
    n = q.nphi
    for k, v in q.__dict__.items():
        if isinstance(v, (bool, np.bool_, str)) or not isinstance(v, (int, float, np.floating, np.integer, np.ndarray)):
            continue
        a = np.asarray(v, dtype=float)
        if a.ndim == 0 or a.shape == (n,):
            out[k] = a
        elif a.ndim >= 2 and a.shape[0] == n and all(s == 3 for s in a.shape[1:]):
            for idx in np.ndindex(*a.shape[1:]):
                out[k + ''.join('_%d' % i for i in idx)] = a[(slice(None),) + idx]
        elif a.ndim >= 2 and a.shape[-1] == n and all(s == 3 for s in a.shape[:-1]):
            for idx in np.ndindex(*a.shape[:-1]):
                out[k + ''.join('_%d' % i for i in idx)] = a[idx + (slice(None),)]
        elif a.ndim == 1:
            out[k] = a
    return out


def write_evidence(prop, tier, seed, level, coverage, wall, violations=0, assumptions=None):
    ev = dict(property_id=prop, tier=tier, seed=int(seed), level=level, coverage=coverage,
              wall_s=round(float(wall), 2), violations=int(violations))
    if assumptions:
        ev['assumptions'] = assumptions
    os.makedirs(os.path.join(ROOT, 'evidence'), exist_ok=True)
    p = os.path.join(ROOT, 'evidence', prop + '.json')
    with open(p, 'w') as f:
        json.dump(ev, f, indent=1, default=str)
    return p


def jsonable(cfg):
    return json.loads(json.dumps(cfg, default=lambda o: o.tolist() if hasattr(o, 'tolist') else str(o)))


def cleanup_case_files():
    """remove the Coq case files (and their compilation products) written by this process"""
    import glob
    d = os.path.join(ROOT, 'coq', 'gprops')
    for f in glob.glob(os.path.join(d, '*_cases_%d.*' % os.getpid())) + glob.glob(os.path.join(d, '.*_cases_%d.aux' % os.getpid())):
        try:
            os.remove(f)
        except OSError:
            pass


import atexit
atexit.register(cleanup_case_files)


def single_knob_variant(cfg, rng):
    """a copy of a stellarator-symmetric input with exactly ONE symmetry-breaking knob switched on (B2s, sigma0, rs or zc)"""
    c = dict((k, v) for k, v in cfg.items() if k not in ('rs', 'zc', 'sigma0', 'B2s'))
    nh = len(c['rc'])
    knobs = ['sigma0', 'rs', 'zc'] + (['B2s'] * 4 if c.get('order', 'r1') != 'r1' else [])
    k = knobs[int(rng.integers(0, len(knobs)))]
    if k == 'B2s':
        c['B2s'] = round_sig(rnd(rng, 0.2, 1.0) * (1 if rng.random() < 0.5 else -1))
    elif k == 'sigma0':
        c['sigma0'] = round_sig(rnd(rng, 0.1, 0.5))
    else:
        c[k] = [0.0] * (nh - 1) + [round_sig(abs(c['rc'][-1]) * rnd(rng, 0.05, 0.2))]
    return c


def dphi_indep(q, f):
    """d/dphi of a grid profile computed INDEPENDENTLY of the object's matrices: FFT derivative of the trigonometric interpolant
    (period 2 pi / nfp).  For odd n this is exactly what the spectral differentiation matrix represents."""
    n = q.nphi
    kk = np.fft.fftfreq(n, 1.0 / n) * q.nfp
    F = np.fft.fft(np.asarray(f, dtype=float) + np.zeros(n))
    return np.fft.ifft(1j * kk * F).real


def dvarphi_indep(q, f):
    """d/dvarphi, independent of the object's matrices AND of its d_varphi_d_phi: the Boozer angle advances in proportion to arclength, one field period
    per field period, so d varphi / d phi = (2 pi / L) dl/dphi > 0 with L the axis length (periodic trapezoid sum of the returned arclength element)"""
    dl = np.asarray(q.d_l_d_phi, dtype=float)
    L = float(np.sum(dl)) * (2 * np.pi / q.nfp / q.nphi) * q.nfp
    return dphi_indep(q, f) / (2 * np.pi / L * dl)


# Inputs distilled from seeded changes that random generation reached only rarely; every oracle that can use them runs them FIRST in check mode
# (a corpus of minimised failures).  All are admissible on the pinned tree.
CORPUS = [
    # the only symmetry-breaking input is B2s, at order r3 (lasym must be True; surfaces are not stellarator symmetric)
    dict(rc=[1.0, 0.09], zs=[0.0, -0.09], nfp=2, etabar=0.95, order='r3', B2c=-0.7, B2s=0.3, p2=-600000.0, nphi=31),
    # the same at order r2
    dict(rc=[1.0, 0.09], zs=[0.0, -0.09], nfp=2, etabar=0.95, order='r2', B2c=-0.7, B2s=0.3, p2=-600000.0, nphi=25),
    # quasi-helical, spsi = -1, current and pressure, non-unit B0
    dict(rc=[1.0, 0.17, 0.01804, 0.001409], zs=[0.0, 0.1581, 0.01820, 0.001548], nfp=4, etabar=1.569, order='r3', B2c=0.1348, B0=1.3, I2=0.4, p2=-50000.0,
         sG=1, spsi=-1, nphi=41),
    # non-symmetric axis with zc != 0 and nfp > 1, sG = -1
    dict(rc=[1.0, 0.06], zs=[0.0, 0.05], rs=[0.0, 0.006], zc=[0.0, 0.02], nfp=3, etabar=-0.8, sigma0=0.1, order='r2', B2c=0.2, B2s=-0.1, B0=0.8, I2=-0.3,
         sG=-1, spsi=1, nphi=31),
    # a harmonic carried by rs / zc alone (rc = zs = 0 there)
    dict(rc=[1.0, 0.06, 0.0], zs=[0.0, 0.05, 0.0], rs=[0.0, 0.004, 0.006], zc=[0.0, 0.003, 0.008], nfp=2, etabar=0.9, order='r2', B2c=0.1, I2=0.2, B0=1.2, nphi=31),
    # nearly axisymmetric axis (constant-data shortcuts must not fire)
    dict(rc=[1.0, 4.0e-6], zs=[0.0, 4.0e-6], nfp=3, etabar=1.1, order='r1', nphi=31),
    # order r3, non-symmetric (sigma0, rs, zc, B2s all non-zero): calculate_shear() takes its quadrature branch
    dict(rc=[1.0, 0.08], zs=[0.0, 0.07], rs=[0.0, 0.006], zc=[0.0, 0.009], nfp=2, etabar=0.9, sigma0=0.15, order='r3', B2c=0.2, B2s=-0.15, B0=1.2, I2=0.3, p2=-40000.0,
         sG=1, spsi=1, nphi=31),
    # an axis with a curvature dip: the normal turns by more than one quadrant between two grid points
    dict(rc=[1.0, 0.2123], zs=[0.0, 0.1556], rs=[0.0, 0.027], zc=[0.0, 0.0354], nfp=2, etabar=0.9, order='r1', nphi=61),
    # quasi-helical axis whose normal points OUTWARD at phi = 0 (R has its minimum there) and turns so that the step closing the period goes from quadrant 4 to quadrant 1
    dict(rc=[1.0, -0.17, 0.01804], zs=[0.0, -0.1581, 0.0182], nfp=4, etabar=1.569, order='r1', nphi=31),
    # symmetry broken by exactly ONE of the two non-symmetric axis blocks (zc alone; rs alone), sigma0 = 0, B2s = 0
    dict(rc=[1.0, 0.09], zs=[0.0, -0.09], zc=[0.0, 0.02], nfp=2, etabar=0.95, order='r2', B2c=-0.7, p2=-600000.0, I2=0.3, nphi=31),
    dict(rc=[1.0, 0.06], zs=[0.0, 0.05], rs=[0.0, 0.01], nfp=3, etabar=1.1, order='r1', nphi=31),
    # an axis displaced vertically (constant term zc[0] != 0; nothing but Z0 and Z0_func may notice) and an axis whose mean major radius is not 1
    dict(rc=[1.0, 0.05], zs=[0.0, 0.05], rs=[0.0, 0.005], zc=[0.3, 0.01], nfp=3, etabar=1.0, order='r1', nphi=31),
    dict(rc=[1.6, 0.144], zs=[0.0, -0.144], nfp=2, etabar=0.59375, order='r2', B2c=-0.2734375, p2=-200000.0, I2=0.1875, nphi=31),
    # third order with B2s as the ONLY symmetry-breaking input (symmetric axis, sigma0 = 0): first-order symmetry tests do not see it
    dict(rc=[1.0, 0.09], zs=[0.0, -0.09], nfp=2, etabar=0.95, order='r3', B2c=-0.7, B2s=0.4, p2=-600000.0, I2=0.3, nphi=61),
    # a very weak current and no pressure: G2 = -iota I2 ~ 1e-9 is small in absolute terms but exactly determined
    dict(rc=[1.0, 0.045], zs=[0.0, -0.045], nfp=3, etabar=-0.9, order='r2', B2c=-0.7, I2=3.0e-9, p2=0.0, nphi=31),
    # a very small device (all lengths x 0.005): absolute guards on quantities that carry a length dimension fire here
    dict(rc=[0.005, 0.000225], zs=[0.0, -0.000225], nfp=3, etabar=-180.0, order='r1', nphi=61),
    # two harmonics of comparable size: R0 has two competing minima per period and neither sits at phi = 0 or pi/nfp
    dict(rc=[1.0, 0.04, 0.03], zs=[0.0, 0.04, 0.03], nfp=2, etabar=0.9, order='r1', nphi=31),
    # a harmonic carried ONLY by the non-symmetric blocks (rc = zs = 0 for it)
    dict(rc=[1.0, 0.05, 0.0], zs=[0.0, 0.05, 0.0], rs=[0.0, 0.0, 0.004], zc=[0.0, 0.0, 0.003], nfp=3, etabar=1.0, order='r1', nphi=31),
    # resolved (spectral tail 1e-12) third-order object with pressure, B0 != 1, sG = -1 and a non-symmetric axis: closed forms that agree when B0 = 1 differ here
    dict(rc=[1.0, 0.06], zs=[0.0, 0.05], rs=[0.0, 0.004], zc=[0.0, 0.003], nfp=2, etabar=0.9, order='r3', B2c=0.1, B2s=0.05, I2=0.2, B0=0.8, p2=-30000.0, sG=-1, nphi=61),
    # weakly shaped axis at second order: B20 is nearly uniform (one-pass variance formulas cancel catastrophically)
    dict(rc=[1.0, 2.0e-5], zs=[0.0, 2.0e-5], nfp=2, etabar=0.9, order='r2', B2c=0.3, p2=-1.0e5, I2=0.7, nphi=21),
]


def corpus_objects(orders=None, histories=True):
    """fresh objects for the corpus inputs, followed (histories=True) by two history-built objects: one that discards an rs/zc-only harmonic with
    change_nfourier and nothing else, one that is moved from another axis with set_dofs after a calculate_shear() call"""
    out = []
    for cfg in CORPUS:
        if orders and cfg.get('order', 'r1') not in orders:
            continue
        try:
            q, msgs = build(dict(cfg))
        except Exception:
            continue
        if admissible(q, msgs) or (not msgs and np.all(np.isfinite(q.sigma)) and np.isfinite(q.iota)):
            if cfg.get('order') == 'r3':
                try:
                    q.calculate_shear()          # a read-only diagnostic (C17): nothing the oracles look at may change
                except Exception:
                    pass
            out.append((dict(cfg), q))
    if histories:
        hr = np.random.default_rng(12345)
        resolved = [c for c in CORPUS if c.get('nphi') == 61 and c.get('order') == 'r3' and c.get('sG') == -1][:1]       # spectral tail 1e-12: continuum identities are sharp on it
        for cfg, variant, wh in [(CORPUS[3], 'B', ('rs', 'zc')), (CORPUS[0], 'A', None), (CORPUS[2], 'C', 'B0'), (CORPUS[3], 'C', 'I2'), (CORPUS[2], 'C', 'signs'), (CORPUS[0], 'C', 'I2')] \
                + [(c, 'C', w) for c in resolved for w in ('I2', 'B0')] + [(CORPUS[0], 'D', None), (CORPUS[2], 'D', None)]:
            if orders and cfg.get('order', 'r1') not in orders:
                continue
            try:
                q, msgs = via_history(dict(cfg), hr, variant=variant, which=wh)
            except Exception:
                continue
            # the same inputs as an admissible fresh object: kept whatever the history made of it (a history that leaves the object
            # unconverged or non-finite is exactly what the predictions should see)
            out.append((dict(cfg), q))
    return out


def position_from_coefficients(q, r, theta, j):
    """(R, Z, phi) of the point r0 + X n + Y b + Z t at toroidal grid node j, assembled from the HELICAL-angle coefficient arrays (X1c, X20, X3c1, ...), the returned
    frame and the returned axis -- independent of Frenet_to_cylindrical / to_RZ and of the *_untwisted arrays.  theta is the Boozer poloidal angle;
    the helical angle is theta + helicity * nfp * varphi."""
    vt = theta + q.helicity * q.nfp * q.varphi[j]
    g = lambda name: float(np.asarray(getattr(q, name), dtype=float)[j]) if np.ndim(getattr(q, name)) else float(getattr(q, name))
    X = r * (g('X1c') * np.cos(vt) + g('X1s') * np.sin(vt)); Y = r * (g('Y1c') * np.cos(vt) + g('Y1s') * np.sin(vt)); Zt = 0.0
    if q.order != 'r1':
        X += r * r * (g('X20') + g('X2c') * np.cos(2 * vt) + g('X2s') * np.sin(2 * vt))
        Y += r * r * (g('Y20') + g('Y2c') * np.cos(2 * vt) + g('Y2s') * np.sin(2 * vt))
        Zt += r * r * (g('Z20') + g('Z2c') * np.cos(2 * vt) + g('Z2s') * np.sin(2 * vt))
    if q.order == 'r3':
        r3 = r ** 3
        X += r3 * (g('X3c1') * np.cos(vt) + g('X3s1') * np.sin(vt) + g('X3c3') * np.cos(3 * vt) + g('X3s3') * np.sin(3 * vt))
        Y += r3 * (g('Y3c1') * np.cos(vt) + g('Y3s1') * np.sin(vt) + g('Y3c3') * np.cos(3 * vt) + g('Y3s3') * np.sin(3 * vt))
        Zt += r3 * (g('Z3c1') * np.cos(vt) + g('Z3s1') * np.sin(vt) + g('Z3c3') * np.cos(3 * vt) + g('Z3s3') * np.sin(3 * vt))
    n_, b_, t_ = q.normal_cylindrical[j], q.binormal_cylindrical[j], q.tangent_cylindrical[j]
    vR = q.R0[j] + X * n_[0] + Y * b_[0] + Zt * t_[0]
    vp = X * n_[1] + Y * b_[1] + Zt * t_[1]
    vz = q.Z0[j] + X * n_[2] + Y * b_[2] + Zt * t_[2]
    return float(np.hypot(vR, vp)), float(vz), float(q.phi[j] + np.arctan2(vp, vR))


def toRZ_vs_coefficients(q, rng, npts=4, r=0.03, periods=(0,)):
    """largest relative deviation of to_RZ((r, theta, phi_j + m 2 pi / nfp)) from position_from_coefficients (moved by m field periods) over a few nodes / angles;
    the returned toroidal angle is compared modulo 2 pi (NOT modulo the field period)"""
    worst = 0.0
    for i_ in range(npts):
        j = int(rng.integers(0, q.nphi)); th = float(rng.random() * 6.28)
        mper = periods[i_ % len(periods)]
        R1, Z1, P1 = q.to_RZ([[r, th, float(q.phi[j]) + mper * 2 * np.pi / q.nfp]])
        R2, Z2, P2 = position_from_coefficients(q, r, th, j)
        P2 = P2 + mper * 2 * np.pi / q.nfp
        worst = max(worst, abs(float(R1[0]) - R2) / max(abs(R2), 1e-300), abs(float(Z1[0]) - Z2) / max(abs(R2), 1e-300), abs((float(P1[0]) - P2 + np.pi) % (2 * np.pi) - np.pi))
    return worst


def bmag_node_error(q, r=0.05, theta=0.7):
    """largest relative deviation of B_mag from the prescribed |B| = B0 (1 + r etabar cos t) + r^2 (B20 + B2c cos 2t + B2s sin 2t), t = theta - (iota - iotaN) varphi,
    at a few grid nodes (where the splines interpolate their data), in both angle conventions, in and beyond the first field period"""
    worst = 0.0
    for j in (0, q.nphi // 3, (2 * q.nphi) // 3, q.nphi - 1):
        for k in (0, 1):
            phi = q.phi[j] + k * 2 * np.pi / q.nfp; vphi = q.varphi[j] + k * 2 * np.pi / q.nfp
            tN = theta - (q.iota - q.iotaN) * vphi
            want = q.B0 * (1 + r * q.etabar * np.cos(tN))
            if q.order != 'r1':
                want += r * r * (q.B20[j] + q.B2c * np.cos(2 * tN) + q.B2s * np.sin(2 * tN))
            for bt, arg in ((False, phi), (True, vphi)):
                got = float(q.B_mag(r, theta, arg, Boozer_toroidal=bt))
                worst = max(worst, abs(got - want) / abs(want))
    return worst


def normal_resolved(q):
    """True when the grid resolves the rotation of the axis normal in the (R, Z) plane: consecutive grid points (cyclically) lie in the same or in
    adjacent quadrants (the hypothesis of theories/Winding.v under which the quadrant counter IS the winding number)"""
    nR, nZ = q.normal_cylindrical[:, 0], q.normal_cylindrical[:, 2]
    quad = np.where(nR >= 0, np.where(nZ >= 0, 1, 4), np.where(nZ >= 0, 2, 3))
    d = (np.roll(quad, -1) - quad) % 4
    return bool(np.all(d != 2))
