"""Correspondence of the hand-written control models with the implementation (C02, C20):
  * newton(): the stream of residual norms of a real run is replayed through Newton.newton_ctl_float
    (vm_compute inside Coq) and the decisions (returned iterate, warning, number of evaluations) compared;
  * spectral_diff_matrix(): DiffMat.Dmat_float_table is compared entry-by-entry (PrimFloat.eqb) with the
    matrix the implementation returns, for many n and intervals;
  * numeric oracles for the analytic clauses (exact differentiation of resolvable modes, interpolation,
    spectral minimum) on the real code.
Writes Coq case files under coq/gprops/ and prints one JSON object."""
import sys, os, json, time, argparse, subprocess, logging, re
sys.path.insert(0, os.path.dirname(os.path.abspath(__file__)))
from common import *

COQ = os.path.join(ROOT, 'coq')


def fl(x):
    x = float(x)
    if x != x:
        return 'nan'
    if x == float('inf'):
        return 'infinity'
    if x == float('-inf'):
        return 'neg_infinity'
    h = x.hex()
    return '(%s)' % h if h.startswith('-') else h


def coq_list(xs):
    return '[' + '; '.join(xs) + ']'


# ---------------------------------------------------------------- Newton
def newton_systems(rng, n):
    """generated systems: (name, f, jac, x0, kwargs)"""
    out = []
    for i in range(n):
        kind = i % 8
        d = int(rng.integers(1, 4))
        A = rng.standard_normal((d, d)) + 2 * np.eye(d)
        b = rng.standard_normal(d)
        if kind == 0:     # smooth well-posed
            f = lambda x, A=A, b=b: A @ x + 0.3 * np.sin(x) - b
            J = lambda x, A=A: A + 0.3 * np.diag(np.cos(x))
            kw = {}
        elif kind == 1:   # perturbed Jacobian (line search needed)
            s = rnd(rng, 0.2, 0.6)
            f = lambda x, A=A, b=b: A @ x + x ** 3 - b
            J = lambda x, A=A, s=s: s * (A + 3 * np.diag(x ** 2))
            kw = {}
        elif kind == 2:   # arctan overshoot
            f = lambda x: np.arctan(x)
            J = lambda x: np.diag(1 / (1 + x ** 2))
            kw = {}
        elif kind == 3:   # no solution: stalls, must warn
            f = lambda x: x ** 2 + 1.0
            J = lambda x: np.diag(2 * x + 1e-3)
            kw = {}
        elif kind == 4:   # few iterations
            f = lambda x, A=A, b=b: A @ x + 0.1 * x ** 3 - b
            J = lambda x, A=A: A + 0.3 * np.diag(x ** 2)
            kw = dict(niter=int(rng.integers(1, 4)))
        elif kind == 5:   # NaN trials (log of a negative number)
            f = lambda x: np.log(x)
            J = lambda x: np.diag(1 / x)
            kw = dict(niter=int(rng.integers(2, 5)), nlinesearch=int(rng.integers(1, 4)))
        elif kind == 6:   # NaN initial residual
            f = lambda x: np.sqrt(x - 3.0)
            J = lambda x: np.diag(0.5 / np.sqrt(np.abs(x - 3.0) + 1e-3))
            kw = dict(niter=3, nlinesearch=2)
        else:             # loose tolerance, zero line-search budget
            f = lambda x, A=A, b=b: A @ x - b
            J = lambda x, A=A: A
            kw = dict(tol=10.0 ** -int(rng.integers(3, 13)), nlinesearch=int(rng.integers(0, 3)))
        if kind == 5:
            x0 = np.abs(rng.standard_normal(d)) * 10 + 5
        elif kind == 6:
            x0 = rng.standard_normal(d)
        else:
            x0 = rng.standard_normal(d) * (5 if kind == 2 else 1)
        out.append((['smooth', 'perturbed-jac', 'arctan', 'nosolution', 'few-iter', 'nan-trial', 'nan-initial', 'loose-tol'][kind], f, J, x0, kw))
    return out


def run_newton_cases(rng, n):
    from qsc.newton import newton
    cases = []
    for name, f, J, x0, kw in newton_systems(rng, n):
        norms, args, jpts = [], [], []

        def Jw(x, J=J):
            jpts.append(np.array(x, dtype=float, copy=True))
            with np.errstate(all='ignore'):
                return J(x)

        def fw(x, f=f):
            with np.errstate(all='ignore'):
                r = np.atleast_1d(f(np.asarray(x, dtype=float)))
            args.append(np.array(x, dtype=float, copy=True))
            with np.errstate(all='ignore'):
                norms.append(float(np.sqrt(np.sum(r * r))))
            return r
        h = WarnCatcher()
        lg = logging.getLogger('qsc.newton')
        lg.addHandler(h)
        err = None
        try:
            with np.errstate(all='ignore'):
                xb = newton(fw, x0, jac=Jw, **kw)
        except Exception as e:   # LinAlgError etc.: outside the control model
            err = repr(e)
            xb = None
        finally:
            lg.removeHandler(h)
        cases.append(dict(name=name, norms=norms, args=args, jpts=jpts, f=f, xbest=xb, warned=bool(h.records), err=err,
                          niter=kw.get('niter', 20), nls=kw.get('nlinesearch', 10), tol=kw.get('tol', 1e-13)))
    return cases


def newton_case_file(cases, path):
    lines = ['From Coq Require Import List Floats.PrimFloat.', 'From QSC Require Import Newton.', 'Import ListNotations.',
             'Open Scope float_scope.', '']
    for k, c in enumerate(cases):
        tol = c['tol']
        lines.append('Definition c%d := newton_ctl_float %d %d %s %s %s.' % (
            k, c['niter'], c['nls'], fl(tol), fl(tol * 1e4), coq_list([fl(x) for x in c['norms']] + ['nan'] * 0)))
    lines.append('Eval vm_compute in %s.' % coq_list(['c%d' % k for k in range(len(cases))]))
    open(path, 'w').write('\n'.join(lines) + '\n')


def parse_tuples(out):
    m = re.search(r'=\s*\[(.*)\]\s*:\s*list', out, flags=re.S)
    if not m:
        return None
    body = m.group(1)
    res = []
    for t in re.finditer(r'\(\s*(\d+)(?:%nat)?\s*,\s*(true|false)\s*,\s*(\d+)(?:%nat)?\s*,\s*(true|false)\s*\)', body):
        res.append((int(t.group(1)), t.group(2) == 'true', int(t.group(3)), t.group(4) == 'true'))
    return res


def coqc(vfile):
    p = subprocess.run(['coqc', '-Q', 'theories', 'QSC', '-Q', 'gen', 'QSCGen', '-Q', 'gprops', 'QSCGProps', vfile],
                       cwd=COQ, capture_output=True, text=True, timeout=900)
    return p.returncode, p.stdout + p.stderr


def check_newton(rng, n, res):
    cases = [c for c in run_newton_cases(rng, n)]
    usable = [c for c in cases if c['err'] is None]
    res['newton_cases'] = len(cases)
    res['newton_outside_model'] = len(cases) - len(usable)
    kinds = {}
    for c in usable:
        kinds[c['name']] = kinds.get(c['name'], 0) + 1
    res['newton_distribution'] = kinds
    path = os.path.join(COQ, 'gprops', 'K_newton_cases_%d.v' % os.getpid())
    newton_case_file(usable, path)
    rc, out = coqc('gprops/K_newton_cases_%d.v' % os.getpid())
    tup = parse_tuples(out) if rc == 0 else None
    if tup is None or len(tup) != len(usable):
        res['mismatches'].append('newton: could not evaluate the model on the recorded traces: %s' % out[-400:])
        return
    nwarn = 0
    for c, (best, warned, evals, achieved) in zip(usable, tup):
        ok = (warned == c['warned']) and (evals == len(c['norms'])) and best < len(c['args']) and \
            np.array_equal(c['xbest'], c['args'][best], equal_nan=True)
        nwarn += c['warned']
        if not ok:
            res['mismatches'].append('newton control model disagrees on a %s system: model (best=%d, warned=%s, evals=%d) vs code (warned=%s, evals=%d, x_best matches args[best]=%s); norms=%s'
                                     % (c['name'], best, warned, evals, c['warned'], len(c['norms']),
                                        best < len(c['args']) and np.array_equal(c['xbest'], c['args'][best], equal_nan=True), c['norms'][:8]))
        # accepts only residual-decreasing steps: the residual norms at the successive linearisation points strictly decrease
        with np.errstate(all='ignore'):
            jn = [float(np.sqrt(np.sum(np.atleast_1d(c['f'](p)) ** 2))) for p in c['jpts']]
        for a_, b_ in zip(jn, jn[1:]):
            if not (b_ < a_):
                res['violations'].append(dict(key='newton:accept', what='newton accepted a step that did not decrease the residual: %g -> %g (%s system)' % (a_, b_, c['name']), norms=c['norms'][:12]))
                break
        if c['xbest'] is not None and jn:
            with np.errstate(all='ignore'):
                nb_ = float(np.sqrt(np.sum(np.atleast_1d(c['f'](c['xbest'])) ** 2)))
            if nb_ > min(jn) * (1 + 1e-12):
                res['violations'].append(dict(key='newton:accept', what='newton returned a point whose residual %g exceeds that of an earlier iterate %g: a non-decreasing step was accepted (%s system)' % (nb_, min(jn), c['name']), norms=c['norms'][:12]))
        # the property itself, on the real run: returned residual <= initial; warning whenever returned residual > 1e4 tol
        if c['xbest'] is not None:
            nb = c['norms'][best] if best < len(c['norms']) else float('nan')
            if not (nb <= c['norms'][0] or (nb != nb and c['norms'][0] != c['norms'][0])):
                res['violations'].append(dict(key='newton:worse', what='newton returned a point with larger residual (%g) than the initial guess (%g)' % (nb, c['norms'][0]), case=c['name']))
            if (not (nb <= c['tol'] * 1e4)) and not c['warned']:
                res['violations'].append(dict(key='newton:silent', what='newton returned residual %g > 1e4*tol without a warning' % nb, case=c['name'], norms=c['norms'][:12]))
    res['newton_traces_validated'] = len(usable)
    res['newton_warned_cases'] = int(nwarn)
    if usable:
        c = usable[0]
        res['samples'].append(dict(kind='newton-trace', system=c['name'], norms=c['norms'][:6], warned=c['warned']))


# ---------------------------------------------------------------- spectral_diff_matrix
def check_diffmat(rng, ns, res):
    from qsc.spectral_diff_matrix import spectral_diff_matrix
    lines = ['From Coq Require Import List Bool Floats.PrimFloat.', 'From QSC Require Import DiffMat.', 'Import ListNotations.',
             'Open Scope float_scope.',
             'Definition eqrow (a b : list float) : bool := Nat.eqb (length a) (length b) && forallb (fun p => PrimFloat.eqb (fst p) (snd p)) (combine a b).',
             'Definition eqtab (a b : list (list float)) : bool := Nat.eqb (length a) (length b) && forallb (fun p => eqrow (fst p) (snd p)) (combine a b).', '']
    names = []
    for k, n in enumerate(ns):
        xmin = 0.0 if k % 3 else round_sig(rnd(rng, -2, 1))
        xmax = 2 * np.pi / int(rng.integers(1, 6)) if k % 2 else xmin + round_sig(rnd(rng, 0.5, 9))
        D = np.array(spectral_diff_matrix(n, xmin=xmin, xmax=xmax), copy=True)
        # every call returns the matrix, whatever was done to earlier results (call history)
        tmp = spectral_diff_matrix(n, xmin=xmin, xmax=xmax)
        tmp += 1.0
        if not np.array_equal(spectral_diff_matrix(n, xmin=xmin, xmax=xmax), D):
            res['violations'].append(dict(key='D:history', what='spectral_diff_matrix(%d) returns a different matrix after an earlier result was modified in place' % n))
        h = 2 * np.pi / n
        n2 = int(np.ceil((n - 1) / 2))
        # the list the implementation calls topc, recomputed exactly as the source does
        with np.errstate(all='ignore'):
            topc = 1 / np.tan(np.arange(1, n2 + 1) * h / 2) if n % 2 == 0 else 1 / np.sin(np.arange(1, n2 + 1) * h / 2)
        scale = 2 * np.pi / (xmax - xmin)
        tab = coq_list([coq_list([fl(D[i, j]) for j in range(n)]) for i in range(n)])
        lines.append('Definition t%d := eqtab (Dmat_float_table %d %s %s) %s.' % (k, n, coq_list([fl(x) for x in topc]), fl(scale), tab))
        names.append('t%d' % k)
    lines.append('Eval vm_compute in %s.' % coq_list(names))
    path = os.path.join(COQ, 'gprops', 'K_diffmat_cases_%d.v' % os.getpid())
    open(path, 'w').write('\n'.join(lines) + '\n')
    rc, out = coqc('gprops/K_diffmat_cases_%d.v' % os.getpid())
    m = re.search(r'=\s*\[(.*)\]\s*:\s*list bool', out, flags=re.S)
    if rc != 0 or not m:
        res['mismatches'].append('diffmat: model evaluation failed: %s' % out[-400:])
        return
    vals = re.findall(r'true|false', m.group(1))
    for n, v in zip(ns, vals):
        if v != 'true':
            res['mismatches'].append('spectral_diff_matrix(%d) differs from DiffMat.Dmat_float_table' % n)
    res['diffmat_sizes_validated'] = len(vals)
    res['samples'].append(dict(kind='diffmat', sizes=ns[:10]))


# ---------------------------------------------------------------- analytic clauses, on the real code
def numeric_kernel_oracles(rng, res, nmax=200, quick=True):
    from qsc.spectral_diff_matrix import spectral_diff_matrix
    from qsc.fourier_interpolation import fourier_interpolation
    from qsc.util import fourier_minimum
    ns = list(range(1, 41)) + [50, 63, 64, 99, 100, 127, 128, 199, 200] if not quick else list(range(1, 26)) + [32, 63, 64, 101, 200]
    checked = 0
    for n in ns:
        xmin = round_sig(rnd(rng, -1, 1)); L = round_sig(rnd(rng, 0.5, 7))
        D = spectral_diff_matrix(n, xmin=xmin, xmax=xmin + L)
        x = xmin + L * np.arange(n) / n
        # the interval may be given positionally (n, xmin, xmax) or by keyword, and by default is [0, 2 pi)
        if not np.array_equal(np.asarray(spectral_diff_matrix(n, xmin, xmin + L)), np.asarray(D)):
            res['violations'].append(dict(key='D:positional', what='spectral_diff_matrix(%d, a, b) called positionally differs from spectral_diff_matrix(%d, xmin=a, xmax=b)' % (n, n), n=n, xmin=xmin, L=L))
        if not np.array_equal(np.asarray(spectral_diff_matrix(n)), np.asarray(spectral_diff_matrix(n, xmin=0, xmax=2 * np.pi))):
            res['violations'].append(dict(key='D:default', what='spectral_diff_matrix(%d) differs from the matrix of the interval [0, 2 pi)' % n, n=n))
        # an interval that ENDS at 0 (xmax = 0 is a legitimate upper end) has the matrix of the same interval moved to start at 0
        if not np.allclose(np.asarray(spectral_diff_matrix(n, xmin=-L, xmax=0.0)), np.asarray(spectral_diff_matrix(n, xmin=0.0, xmax=L)), rtol=1e-14, atol=0):
            res['violations'].append(dict(key='D:xmax-zero', what='spectral_diff_matrix(%d, xmin=-L, xmax=0) differs from spectral_diff_matrix(%d, xmin=0, xmax=L), L=%g' % (n, n, L), n=n, L=L))
        # constants, antisymmetry, circulant
        if np.max(np.abs(D @ np.ones(n))) > 1e-9 * max(1.0, np.max(np.abs(D))) * n:
            res['violations'].append(dict(key='D:constants', what='spectral_diff_matrix(%d) does not annihilate constants' % n))
        if np.max(np.abs(D + D.T)) > 1e-12 * max(1.0, np.max(np.abs(D))):
            res['violations'].append(dict(key='D:antisym', what='spectral_diff_matrix(%d) is not antisymmetric' % n))
        if n > 1 and np.max(np.abs(np.roll(np.roll(D, 1, 0), 1, 1) - D)) > 1e-12 * max(1.0, np.max(np.abs(D))):
            res['violations'].append(dict(key='D:circulant', what='spectral_diff_matrix(%d) is not circulant' % n))
        mmax = (n - 1) // 2
        for m in sorted(set([1, 2, mmax // 2, mmax])):
            if m < 1 or m > mmax:
                continue
            ph = rnd(rng, 0, 6.28)
            k = 2 * np.pi * m / L
            f, df = np.sin(k * x + ph), k * np.cos(k * x + ph)
            err = np.max(np.abs(D @ f - df))
            checked += 1
            if err > 1e-8 * max(1.0, k) * n:
                res['violations'].append(dict(key='D:mode', what='spectral_diff_matrix(%d): mode %d differentiated with error %.3g' % (n, m, err)))
        # interpolation: nodes and resolvable modes elsewhere
        if n >= 2:
            fk = rng.standard_normal(n)
            xk = np.arange(n) * 2 * np.pi / n
            got = fourier_interpolation(fk, xk)
            checked += 1
            if np.max(np.abs(got - fk)) > 1e-9 * max(1.0, np.max(np.abs(fk))):
                res['violations'].append(dict(key='interp:nodes', what='fourier_interpolation does not reproduce the samples at the nodes for N=%d (%.3g)' % (n, np.max(np.abs(got - fk)))))
            m = int(rng.integers(0, mmax + 1))
            ph = rnd(rng, 0, 6.28)
            xs = rng.uniform(-10, 10, 7)
            got = fourier_interpolation(np.cos(m * xk + ph), xs)
            checked += 1
            if np.max(np.abs(got - np.cos(m * xs + ph))) > 1e-8 * n:
                res['violations'].append(dict(key='interp:mode', what='fourier_interpolation: mode %d of N=%d not reproduced at arbitrary abscissae (%.3g)' % (m, n, np.max(np.abs(got - np.cos(m * xs + ph))))))
            # abscissae given as integers (np.arange, a list of ints) are evaluated like the same numbers given as floats
            xi_ = np.arange(-2, 5)
            gi_ = np.asarray(fourier_interpolation(np.cos(m * xk + ph), xi_), dtype=float); gf_ = np.asarray(fourier_interpolation(np.cos(m * xk + ph), xi_.astype(float)), dtype=float)
            checked += 1
            if gi_.shape != gf_.shape or np.max(np.abs(gi_ - gf_)) > 1e-12:
                res['violations'].append(dict(key='interp:int', what='fourier_interpolation at integer-typed abscissae differs from the same abscissae as floats by %.3g (N=%d)' % (float(np.max(np.abs(gi_ - gf_))) if gi_.shape == gf_.shape else float('nan'), n)))
            # one abscissa vector that MIXES nodes (also shifted by whole periods) with off-grid points: every entry is what it is when evaluated alone
            xmix = np.array([xs[0], xk[int(rng.integers(0, n))], xs[1], xk[int(rng.integers(0, n))] + 2 * np.pi, xs[2], xk[0] - 4 * np.pi])
            gotm = np.asarray(fourier_interpolation(np.cos(m * xk + ph), xmix), dtype=float)
            checked += 1
            if gotm.shape != xmix.shape or np.max(np.abs(gotm - np.cos(m * xmix + ph))) > 1e-8 * n:
                res['violations'].append(dict(key='interp:mixed', what='fourier_interpolation: a vector of abscissae mixing nodes and off-grid points is not evaluated entry by entry (N=%d, mode %d, max error %.3g)'
                                              % (n, m, float(np.max(np.abs(gotm - np.cos(m * xmix + ph)))) if gotm.shape == xmix.shape else float('nan'))))
        # spectral minimum: <= every sample, shift invariant, equals the true minimum for single-well data
        if n >= 7:
            c = rnd(rng, 0, 6.28)
            y = 1.5 - np.cos(np.arange(n) * 2 * np.pi / n - c) + 0.2 * np.cos(2 * (np.arange(n) * 2 * np.pi / n - c)) if n >= 9 else 1.5 - np.cos(np.arange(n) * 2 * np.pi / n - c)
            try:
                v = fourier_minimum(y)
                s = int(rng.integers(1, n))
                v2 = fourier_minimum(np.roll(y, s))
            except Exception as e:
                res['violations'].append(dict(key='fmin:raise', what='fourier_minimum raised on smooth single-well data N=%d: %r' % (n, e)))
                continue
            checked += 1
            true_min = 1.5 - 1 + (0.2 if n >= 9 else 0.0)
            if v > np.min(y) + 1e-12:
                res['violations'].append(dict(key='fmin:samples', what='fourier_minimum (%.12g) exceeds a sample (%.12g), N=%d' % (v, np.min(y), n)))
            if abs(v - v2) > 1e-9:
                res['violations'].append(dict(key='fmin:shift', what='fourier_minimum not invariant under cyclic shift, N=%d: %.12g vs %.12g' % (n, v, v2)))
            if abs(v - true_min) > 1e-8:
                res['violations'].append(dict(key='fmin:value', what='fourier_minimum %.12g differs from the minimum of the interpolant %.12g, N=%d' % (v, true_min, n)))
    # Newton converges to the REQUESTED tolerance: a smooth well-posed system, large initial residual, Jacobian off by a constant factor (linear convergence),
    # plenty of iterations -- the returned residual is below tol (not below tol times something)
    try:
        import logging
        from qsc.newton import newton as _newton
        logging.disable(logging.CRITICAL)
        A_ = np.array([[3.0, 0.4], [-0.2, 2.5]]); b_ = np.array([40.0, -25.0])
        f_ = lambda x: A_ @ x + 0.3 * np.sin(x) - b_
        J_ = lambda x: 0.7 * (A_ + 0.3 * np.diag(np.cos(x)))
        x0_ = np.array([0.0, 0.0])
        xb_ = _newton(f_, x0_.copy(), jac=J_, niter=200, tol=1e-12)
        rb_ = float(np.sqrt(np.sum(f_(np.asarray(xb_, dtype=float)) ** 2)))
        logging.disable(logging.NOTSET)
        checked += 1
        if not rb_ < 1e-12:
            res['violations'].append(dict(key='newton:tolerance', what='newton(tol=1e-12, niter=200) on a smooth well-posed system with initial residual %.3g returned a point with residual %.3g' % (float(np.sqrt(np.sum(f_(x0_) ** 2))), rb_)))
    except Exception as e:
        logging.disable(logging.NOTSET)
        res['violations'].append(dict(key='newton:raise', what='newton raised %s on a smooth well-posed system' % type(e).__name__))
    # Newton on systems whose full step lands where the residual is NaN / inf: the returned point is never worse than the initial guess
    try:
        import logging
        from qsc.newton import newton
        logging.disable(logging.CRITICAL)
        cases = [(lambda x: np.log(x), lambda x: np.diag(1.0 / x), np.array([5.0])), (lambda x: np.log(x), lambda x: np.diag(1.0 / x), np.array([20.0, 7.0])),
                 (lambda x: np.exp(2 * x) - 3 * np.exp(x) + 2, lambda x: np.diag(2 * np.exp(2 * x) - 3 * np.exp(x)), np.array([-3.0])),
                 (lambda x: np.sqrt(x) - 1.0, lambda x: np.diag(0.5 / np.sqrt(x)), np.array([9.0]))]
        for f, jac, x0 in cases:
            with np.errstate(all='ignore'):
                xb = newton(f, x0.copy(), jac=jac, niter=8)
                r0, rb = np.sqrt(np.sum(f(x0) ** 2)), np.sqrt(np.sum(f(np.asarray(xb, dtype=float)) ** 2))
            checked += 1
            if not (rb <= r0):
                res['violations'].append(dict(key='newton:worse', what='newton returned a point with residual norm %r from an initial guess with %r (a trial step landed on a non-finite residual)' % (float(rb), float(r0)),
                                              x0=[float(v) for v in x0]))
        logging.disable(logging.NOTSET)
    except Exception as e:
        res['violations'].append(dict(key='newton:raise', what='newton raised %s on a scalar test system' % type(e).__name__))
    # spectral minimum on ROUGH multi-well data: whenever it returns (a valid bracket was found), the value does not exceed any sample
    # and is shift invariant up to the choice among wells of equal depth
    nrough = 60 if quick else 400
    returned = 0
    for t in range(nrough):
        n = int(2 * rng.integers(6, 40) + 1)
        xk = np.arange(n) * 2 * np.pi / n
        y = np.zeros(n)
        for m in range(1, max(2, n // 3)):
            y += rng.standard_normal() * np.cos(m * xk + rnd(rng, 0, 6.28)) / np.sqrt(m)
        try:
            v = fourier_minimum(y)
        except Exception:
            continue
        returned += 1
        checked += 1
        if v > np.min(y) + 1e-10 * max(1.0, float(np.max(np.abs(y)))):
            res['violations'].append(dict(key='fmin:samples', what='fourier_minimum (%.12g) exceeds the smallest sample (%.12g) on rough data, N=%d' % (v, np.min(y), n),
                                          data=[float(x) for x in y]))
    # nearly constant data (a few ulp of noise) of either sign: the constant shortcut must fire, nothing may be raised
    for t in range(40 if quick else 300):
        n = int(2 * rng.integers(4, 30) + 1)
        base = float(10 ** rnd(rng, -3, 3)) * (1 if t % 2 else -1)
        y = base * (1.0 + np.finfo(float).eps * rng.integers(-2, 3, n))
        if t % 3 == 2:
            y = np.full(n, base); y[int(rng.integers(0, n))] += 4 * np.spacing(abs(base))        # constant except one sample a few ulp away
        checked += 1
        try:
            v = fourier_minimum(y)
            if v > np.min(y) + 1e-9 * abs(base):
                res['violations'].append(dict(key='fmin:samples', what='fourier_minimum (%.17g) exceeds the smallest sample (%.17g) on nearly constant data' % (v, np.min(y)), data=[float(x) for x in y]))
        except Exception as e:
            res['violations'].append(dict(key='fmin:raise', what='fourier_minimum raised %s on nearly constant data of mean %.3g, N=%d' % (type(e).__name__, base, n), data=[float(x) for x in y]))
    res['fmin_rough_cases'] = dict(tried=nrough, returned=returned)
    res['predictions_checked'] += checked


def main():
    ap = argparse.ArgumentParser()
    ap.add_argument('--mode', default='check')
    ap.add_argument('--seed', type=int, default=1)
    ap.add_argument('--n', type=int, default=6)
    ap.add_argument('--tier', default='quick')
    ap.add_argument('--budget', type=float, default=60)
    ap.add_argument('--hint', default='[]')
    ap.add_argument('--file')
    a = ap.parse_args()
    rng = np.random.default_rng(a.seed)
    res = dict(configs=0, programs_validated=0, bindings_compared=0, max_rel_err=0.0, mismatches=[], violations=[],
               samples=[], predictions_checked=0, distribution={})
    quick = a.tier == 'quick'
    if a.mode in ('check', 'search'):
        check_newton(rng, 64 if quick else 400, res)
        ns = list(range(1, 22)) + [30, 31, 40] if quick else list(range(1, 61)) + [64, 75, 99, 100]
        check_diffmat(rng, ns, res)
        numeric_kernel_oracles(rng, res, quick=quick)
        res['programs_validated'] = res.get('newton_traces_validated', 0) + res.get('diffmat_sizes_validated', 0)
        res['distribution'] = res.get('newton_distribution', {})
        res['summary'] = 'newton traces %s, diffmat sizes %s' % (res.get('newton_traces_validated'), res.get('diffmat_sizes_validated'))
    res['mismatches'] = res['mismatches'][:20]
    res['violations'] = res['violations'][:20]
    print(json.dumps(res, default=str))


if __name__ == '__main__':
    main()
