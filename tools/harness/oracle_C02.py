"""Numeric oracle / correspondence for C02: converged-or-warned, sigma0 pin, Jacobian exactness
(the prediction of props/C02.v evaluated on the real _residual/_jacobian), Newton control traces."""
import sys, os, json, time, argparse
sys.path.insert(0, os.path.dirname(os.path.abspath(__file__)))
from common import *
import transval, kernels


def sigma_residual(q, sigma, iota):
    """the discretised sigma equation written from the property, not from the code"""
    E = q.etabar ** 2 / q.curvature ** 2
    return dvarphi_indep(q, sigma) + (iota + q.helicity * q.nfp) * (E * E + 1 + sigma * sigma) \
        - 2 * E * (-q.spsi * q.torsion + q.I2 / q.B0) * q.G0 / q.B0


def predict(cfg, rng, q=None, msgs=None):
    out, n = [], 0
    if q is None:
        q, msgs = build(cfg)
    r = sigma_residual(q, q.sigma, q.iota)
    nrm = float(np.sqrt(np.sum(r * r)))
    warned = any('Newton solve did not get close' in m for m in (msgs or []))
    n += 1
    if not (nrm <= 1e-9) and not warned:
        out.append(dict(key='silent', what='sigma equation residual norm %.3g > 1e-9 at the returned solution and no warning was logged' % nrm, cfg=jsonable(cfg)))
    n += 1
    if q.sigma[0] != q.sigma0:
        out.append(dict(key='pin', what='sigma[0]=%r differs from sigma0=%r' % (q.sigma[0], q.sigma0), cfg=jsonable(cfg)))
    # Jacobian exactness at an arbitrary state: r(x+eps h) - r(x) - eps J h = eps^2 A + eps^3 B
    x = np.array(q.sigma, copy=True); x[0] = q.iota
    x = x + 0.3 * rng.standard_normal(q.nphi)
    h = rng.standard_normal(q.nphi)
    J = q._jacobian(x)
    r0 = q._residual(x)
    ht = np.array(h, copy=True); ht[0] = 0.0
    sig = np.array(x, copy=True); sig[0] = q.sigma0
    iN = x[0] + q.helicity * q.nfp
    A = iN * ht * ht + 2 * h[0] * sig * ht
    B = h[0] * ht * ht
    scale = max(np.max(np.abs(J @ h)), 1e-300)
    for eps in (1.0, -0.37, 1e-3):
        lhs = q._residual(x + eps * h) - r0 - eps * (J @ h) - eps * eps * A - eps ** 3 * B
        n += 1
        if np.max(np.abs(lhs)) > 1e-9 * scale * max(1.0, abs(eps)) * max(1.0, np.max(np.abs(x)) ** 2):
            out.append(dict(key='jacobian', what='_jacobian is not the exact derivative of _residual at an arbitrary state: defect %.3g (scale %.3g, eps=%g)' % (np.max(np.abs(lhs)), scale, eps), cfg=jsonable(cfg)))
            break
    return out, n


def main():
    ap = argparse.ArgumentParser()
    ap.add_argument('--mode', default='check')
    ap.add_argument('--seed', type=int, default=1)
    ap.add_argument('--n', type=int, default=6)
    ap.add_argument('--tier', default='quick')
    ap.add_argument('--budget', type=float, default=60)
    ap.add_argument('--hint', default='[]')
    ap.add_argument('--file')
    a = ap.parse_args()
    rng = np.random.default_rng(a.seed)
    res = dict(configs=0, programs_validated=0, bindings_compared=0, max_rel_err=0.0, mismatches=[], violations=[],
               samples=[], predictions_checked=0, distribution={})
    dist = {}

    def note(cfg, q):
        key = '%s/%s/sigma0%s/I2%s' % ('QH' if q.helicity != 0 else 'QA', 'asym' if q.lasym else 'sym', '!=0' if cfg.get('sigma0') else '=0', '!=0' if cfg.get('I2') else '=0')
        dist[key] = dist.get(key, 0) + 1
    if a.mode == 'replay':
        rep = json.load(open(a.file))
        f = rep.get('failing') or {}
        if f.get('cfg'):
            res['violations'], res['predictions_checked'] = predict(f['cfg'], rng)
        print(json.dumps(res, default=str))
        return
    t0 = time.time()
    nn = a.n if a.mode == 'check' else 10 ** 6
    tried = 0
    while tried < nn and (a.mode == 'check' or (time.time() - t0 < a.budget and not res['violations'])):
        tried += 1
        try:
            cfg, q = gen_admissible(rng, order='r1', asym=(tried % 2 == 0))
        except RuntimeError:
            continue
        q, msgs = build(cfg)
        note(cfg, q)
        if a.mode == 'check':
            tv = transval.validate(q, rng, only=('residual', 'jacobian', 'solve_sigma_equation'))
            res['programs_validated'] += tv['programs']
            res['bindings_compared'] += tv['bindings'] + tv['equations']
            res['max_rel_err'] = max(res['max_rel_err'], tv['max_rel_err'])
            res['mismatches'] += tv['mismatches']
        res['configs'] += 1
        v, n = predict(cfg, rng, q, msgs)
        res['predictions_checked'] += n
        res['violations'] += v
        if len(res['samples']) < 3:
            res['samples'].append(dict(cfg=jsonable(cfg)))
    # Newton control traces (model vs code) and the kernel-level newton properties
    kernels.check_newton(rng, 48 if a.tier == 'quick' else 300, res)
    res['programs_validated'] += res.get('newton_traces_validated', 0)
    res['distribution'] = dist
    res['summary'] = 'tried %d inputs' % tried
    res['mismatches'] = res['mismatches'][:20]
    res['violations'] = res['violations'][:20]
    print(json.dumps(res, default=str))


if __name__ == '__main__':
    main()
