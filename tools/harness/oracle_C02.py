"""Numeric oracle / correspondence for C02: converged-or-warned, sigma0 pin, Jacobian exactness
(the prediction of props/C02.v evaluated on the real _residual/_jacobian), Newton control traces."""
import sys, os, json, time, argparse
sys.path.insert(0, os.path.dirname(os.path.abspath(__file__)))
from common import *
import transval, kernels


def sigma_residual(q, sigma, iota):
    """the discretised sigma equation written from the property, not from the code"""
    E = q.etabar ** 2 / q.curvature ** 2
    return dvarphi_indep(q, sigma) + (iota + q.helicity * q.nfp) * (E * E + 1 + sigma * sigma) \
        - 2 * E * (-q.spsi * q.torsion + q.I2 / q.B0) * q.G0 / q.B0


def axis_geometry(cfg, phi):
    """curvature, torsion, dl/dphi and the normal's (R, Z) components of the axis described by cfg, from the Fourier coefficients alone
    (analytic derivatives of the series, Cartesian formulas) -- independent of init_axis"""
    nfp = cfg['nfp']
    nh = len(cfg['rc'])
    rc, zs = np.array(cfg['rc'], float), np.array(cfg['zs'], float)
    rs, zc = np.array(cfg.get('rs', [0.0] * nh), float), np.array(cfg.get('zc', [0.0] * nh), float)
    m = np.arange(nh) * nfp
    def ser(c, s_, k):      # k-th derivative of sum c cos(m phi) + s sin(m phi)
        a = m[:, None] * phi[None, :] + k * np.pi / 2
        return np.sum((m[:, None] ** k) * (c[:, None] * np.cos(a) + s_[:, None] * np.sin(a)), axis=0)
    R = [ser(rc, rs, k) for k in range(4)]; Z = [ser(zc, zs, k) for k in range(4)]
    c, s_ = np.cos(phi), np.sin(phi)
    # derivatives of e_R = (cos, sin, 0), e_phi = (-sin, cos, 0)
    eR = np.array([c, s_, 0 * c]); eP = np.array([-s_, c, 0 * c]); eZ = np.array([0 * c, 0 * c, 1 + 0 * c])
    r1 = R[1] * eR + R[0] * eP + Z[1] * eZ
    r2 = (R[2] - R[0]) * eR + 2 * R[1] * eP + Z[2] * eZ
    r3 = (R[3] - 3 * R[1]) * eR + (3 * R[2] - R[0]) * eP + Z[3] * eZ
    sp = np.sqrt(np.sum(r1 * r1, axis=0))
    cr = np.cross(r1.T, r2.T).T
    cn = np.sqrt(np.sum(cr * cr, axis=0))
    kappa = cn / sp ** 3
    tau = np.sum(cr * r3, axis=0) / cn ** 2
    t = r1 / sp
    nvec = r2 - np.sum(r2 * t, axis=0) * t
    nvec = nvec / np.sqrt(np.sum(nvec * nvec, axis=0))
    return kappa, tau, sp, np.sum(nvec * eR, axis=0), nvec[2]


def shooting_iota(cfg):
    """iota from a high-accuracy shooting solution of the continuous sigma (Riccati) ODE built from the axis coefficients alone"""
    from scipy.integrate import solve_ivp
    from scipy.optimize import brentq
    nfp = cfg['nfp']; sG = cfg.get('sG', 1); spsi = cfg.get('spsi', 1); B0 = cfg.get('B0', 1.0); I2 = cfg.get('I2', 0.0)
    eta = cfg['etabar']; s0 = cfg.get('sigma0', 0.0)
    fine = np.arange(4096) * (2 * np.pi / 4096)
    k_, t_, sp, nR, nZ = axis_geometry(cfg, fine)
    L = np.sum(sp) * (2 * np.pi / 4096)
    G0 = sG * B0 * L / (2 * np.pi)
    # winding number of the normal in the (R, Z) plane over one field period
    per = fine[: 4096 // nfp + 1] if 4096 % nfp == 0 else np.linspace(0, 2 * np.pi / nfp, 4097)
    kk, tt, ss, aR, aZ = axis_geometry(cfg, per)
    ang = np.unwrap(np.arctan2(aZ, aR))
    wind = int(round((ang[-1] - ang[0]) / (2 * np.pi)))
    N = sG * spsi * wind
    def rhs(phi, y, iN):
        k1, t1, s1, _, _ = axis_geometry(cfg, np.atleast_1d(phi))
        E = eta * eta / (k1[0] * k1[0])
        dvp = 2 * np.pi / L * s1[0]
        return [dvp * (-iN * (E * E + 1 + y[0] * y[0]) + 2 * E * (-spsi * t1[0] + I2 / B0) * G0 / B0)]
    def F(iN):
        sol = solve_ivp(rhs, [0, 2 * np.pi / nfp], [s0], args=(iN,), method='DOP853', rtol=1e-11, atol=1e-13)
        return sol.y[0, -1] - s0
    F.G0 = G0
    return F, N


def shooting_check(cfg, q, out):
    """returns number of predictions checked"""
    spec = np.abs(np.fft.rfft(q.sigma)); tail = spec[-3:].max() / max(spec.max(), 1e-300)
    spec2 = np.abs(np.fft.rfft(q.curvature)); tail = max(tail, spec2[-3:].max() / max(spec2.max(), 1e-300))
    from scipy.optimize import brentq
    F, N = shooting_iota(cfg)
    n = 1
    if not normal_resolved(q):
        return n          # the winding number (hence the split of iotaN into iota and N nfp) is only claimed on grids that resolve the normal's rotation
    if N != q.helicity:
        out.append(dict(key='shooting:helicity', what='helicity %r differs from sG*spsi*(winding number of the normal computed from the coefficients) = %d' % (q.helicity, N), cfg=jsonable(cfg)))
    n += 1
    if abs(q.G0 - F.G0) > 1e-9 * abs(F.G0):
        out.append(dict(key='shooting:G0', what='G0 = %.12g but sG * B0 * (axis length) / (2 pi) from the coefficients is %.12g: the sigma equation was solved with the wrong G0' % (q.G0, F.G0), cfg=jsonable(cfg)))
    if not tail < 1e-9:
        return n
    want_iN = q.iota + N * cfg['nfp']                 # the iotaN the shooting solution must have if the returned iota is right
    d = 1e-3 * max(1.0, abs(want_iN))
    try:
        fa, fb = F(want_iN - d), F(want_iN + d)
        if fa * fb > 0:
            out.append(dict(key='shooting:iota', what='no periodic solution of the continuous sigma ODE within 1e-3 of iota + N*nfp = %.9g (iota = %.9g, N = %d): sigma(end) - sigma0 = %.3g, %.3g at the two ends' % (want_iN, q.iota, N, fa, fb), cfg=jsonable(cfg)))
            return n + 1
        iN = brentq(F, want_iN - d, want_iN + d, xtol=1e-13, rtol=1e-13)
    except Exception as e:
        return n
    n += 1
    if abs(iN - want_iN) > max(1e-7, 1e3 * tail) * max(1.0, abs(iN)):
        out.append(dict(key='shooting:iota', what='iota = %.12g but the shooting solution of the continuous ODE gives %.12g (nphi = %d)' % (q.iota, iN - N * cfg['nfp'], q.nphi), cfg=jsonable(cfg)))
    return n


def predict(cfg, rng, q=None, msgs=None):
    out, n = [], 0
    if q is None:
        q, msgs = build(cfg)
    r = sigma_residual(q, q.sigma, q.iota)
    nrm = float(np.sqrt(np.sum(r * r)))
    warned = any('Newton solve did not get close' in m for m in (msgs or []))
    n += 1
    # the code's own residual (matrix arithmetic) and this independent evaluation (FFT derivative) differ by rounding of the TERMS of the equation
    E_ = q.etabar ** 2 / q.curvature ** 2
    terms = np.abs(dvarphi_indep(q, q.sigma)) + np.abs((q.iota + q.helicity * q.nfp) * (E_ * E_ + 1 + q.sigma * q.sigma)) + np.abs(2 * E_ * (-q.spsi * q.torsion + q.I2 / q.B0) * q.G0 / q.B0)
    slack = 200 * np.finfo(float).eps * float(np.sqrt(np.sum(terms * terms))) * max(1.0, float(np.sqrt(q.nphi)))
    own = q._residual(np.concatenate(([q.iota], q.sigma[1:])))
    own_nrm = float(np.sqrt(np.sum(own * own)))
    # a norm within a factor 100 of the threshold is attributed to the different arithmetic only if the code's own residual function agrees with the code's decision
    if not (nrm <= 1e-9 + slack) and not warned and (own_nrm > 1e-9 or nrm > 1e-7):
        out.append(dict(key='silent', what='sigma equation residual norm %.3g > 1e-9 at the returned solution and no warning was logged' % nrm, cfg=jsonable(cfg)))
    n += 1
    if q.sigma[0] != q.sigma0:
        out.append(dict(key='pin', what='sigma[0]=%r differs from sigma0=%r' % (q.sigma[0], q.sigma0), cfg=jsonable(cfg)))
    # Jacobian exactness at an arbitrary state: r(x+eps h) - r(x) - eps J h = eps^2 A + eps^3 B
    x = np.array(q.sigma, copy=True); x[0] = q.iota
    x = x + 0.3 * rng.standard_normal(q.nphi)
    h = rng.standard_normal(q.nphi)
    J = q._jacobian(x)
    r0 = q._residual(x)
    ht = np.array(h, copy=True); ht[0] = 0.0
    sig = np.array(x, copy=True); sig[0] = q.sigma0
    iN = x[0] + q.helicity * q.nfp
    A = iN * ht * ht + 2 * h[0] * sig * ht
    B = h[0] * ht * ht
    scale = max(np.max(np.abs(J @ h)), 1e-300)
    for eps in (1.0, -0.37, 1e-3):
        lhs = q._residual(x + eps * h) - r0 - eps * (J @ h) - eps * eps * A - eps ** 3 * B
        n += 1
        if np.max(np.abs(lhs)) > 1e-9 * scale * max(1.0, abs(eps)) * max(1.0, np.max(np.abs(x)) ** 2):
            out.append(dict(key='jacobian', what='_jacobian is not the exact derivative of _residual at an arbitrary state: defect %.3g (scale %.3g, eps=%g)' % (np.max(np.abs(lhs)), scale, eps), cfg=jsonable(cfg)))
            break
    if not warned and cfg.get('nphi', 0) >= 31:
        n += shooting_check(cfg, q, out)
    return out, n


def main():
    ap = argparse.ArgumentParser()
    ap.add_argument('--mode', default='check')
    ap.add_argument('--seed', type=int, default=1)
    ap.add_argument('--n', type=int, default=6)
    ap.add_argument('--tier', default='quick')
    ap.add_argument('--budget', type=float, default=60)
    ap.add_argument('--hint', default='[]')
    ap.add_argument('--file')
    a = ap.parse_args()
    rng = np.random.default_rng(a.seed)
    res = dict(configs=0, programs_validated=0, bindings_compared=0, max_rel_err=0.0, mismatches=[], violations=[],
               samples=[], predictions_checked=0, distribution={})
    dist = {}

    def note(cfg, q):
        key = '%s/%s/sigma0%s/I2%s' % ('QH' if q.helicity != 0 else 'QA', 'asym' if q.lasym else 'sym', '!=0' if cfg.get('sigma0') else '=0', '!=0' if cfg.get('I2') else '=0')
        dist[key] = dist.get(key, 0) + 1
    if a.mode == 'replay':
        rep = json.load(open(a.file))
        f = rep.get('failing') or {}
        if f.get('key') == 'requested-sigma0':
            c_ = dict(f['cfg']); name = c_.pop('preset')
            qn = import_qsc().Qsc.from_paper(name, nphi=31, **c_)
            res['predictions_checked'] = 1
            if [k for k, v_ in c_.items() if float(getattr(qn, k)) != v_] or ('sigma0' in c_ and float(qn.sigma[0]) != c_['sigma0']):
                res['violations'] = [f]
        elif f.get('cfg'):
            res['violations'], res['predictions_checked'] = predict(f['cfg'], rng)
        print(json.dumps(res, default=str))
        return
    t0 = time.time()
    nn = a.n if a.mode == 'check' else 10 ** 6
    tried = 0
    # distilled regression inputs first: the corpus (incl. quasi-helical with spsi = -1) and two inputs on which Newton stalls
    for c_, q_ in corpus_objects(histories=True):        # fresh objects and objects reached through histories (same inputs, must be the same objects)
        v, n = predict(c_, rng, q_, [])
        res['predictions_checked'] += n; res['violations'] += v; res['configs'] += 1
        dist['corpus'] = dist.get('corpus', 0) + 1
    # "sigma at phi = 0 equals the REQUESTED sigma0", also when the request is zero and goes through a named configuration whose own sigma0 / I2 is not zero
    try:
        import logging
        qsc_ = import_qsc()
        for name, ov in (('r1 section 5.3', dict(sigma0=0.0)), ('r2 section 5.5', dict(sigma0=0.0, I2=0.0)), ('r2 section 5.3', dict(I2=0.0))):
            logging.disable(logging.CRITICAL)
            qn = qsc_.Qsc.from_paper(name, nphi=31, **ov)
            logging.disable(logging.NOTSET)
            res['predictions_checked'] += 1; res['configs'] += 1
            badk = [k for k, v_ in ov.items() if float(getattr(qn, k)) != v_]
            if badk or ('sigma0' in ov and float(qn.sigma[0]) != ov['sigma0']):
                res['violations'].append(dict(key='requested-sigma0', what='from_paper(%r, %s): the object has %s and sigma[0] = %r' % (name, ov, {k: float(getattr(qn, k)) for k in ov}, float(qn.sigma[0])),
                                              cfg=dict(preset=name, **ov)))
    except Exception:
        logging.disable(logging.NOTSET)
    qh = dict(rc=[1.0, 0.17, 0.01804, 0.001409], zs=[0.0, 0.1581, 0.01820, 0.001548], nfp=4, etabar=1.569, nphi=31)
    for hard in (dict(qh, sigma0=1.0e6), dict(qh, etabar=300.0), dict(qh, sigma0=-3.0e4, spsi=-1)):
        try:
            qh_, mh_ = build(hard)
            vh, nh_ = predict(hard, rng, qh_, mh_)
            res['predictions_checked'] += nh_; res['violations'] += vh
            dist['hard'] = dist.get('hard', 0) + 1
        except Exception:
            pass
    while tried < nn and (a.mode == 'check' or (time.time() - t0 < a.budget and not res['violations'])):
        tried += 1
        try:
            cfg, q = gen_admissible(rng, order='r1', asym=(tried % 2 == 0))
        except RuntimeError:
            continue
        if tried % 4 == 3:
            # hard inputs on which Newton may stall: the property then demands a warning
            hard = dict(cfg)
            if rng.random() < 0.5:
                hard['sigma0'] = float(10 ** rnd(rng, 2, 6.5)) * (1 if rng.random() < 0.5 else -1)
            else:
                hard['etabar'] = cfg['etabar'] * float(10 ** rnd(rng, 1.5, 2.6))
            try:
                qh_, mh_ = build(hard)
                vh, nh_ = predict(hard, rng, qh_, mh_)
                res['predictions_checked'] += nh_; res['violations'] += vh
                dist['hard'] = dist.get('hard', 0) + 1
            except Exception:
                pass
        if tried % 2 == 1:
            cfg['nphi'] = int(2 * rng.integers(20, 40) + 1)          # resolved grids for the shooting comparison
        q, msgs = build(cfg)
        note(cfg, q)
        if a.mode == 'check':
            tv = transval.validate(q, rng, only=('residual', 'jacobian', 'solve_sigma_equation'))
            res['programs_validated'] += tv['programs']
            res['bindings_compared'] += tv['bindings'] + tv['equations']
            res['max_rel_err'] = max(res['max_rel_err'], tv['max_rel_err'])
            res['mismatches'] += tv['mismatches']
        res['configs'] += 1
        v, n = predict(cfg, rng, q, msgs)
        res['predictions_checked'] += n
        res['violations'] += v
        if len(res['samples']) < 3:
            res['samples'].append(dict(cfg=jsonable(cfg)))
    # Newton control traces (model vs code) and the kernel-level newton properties
    kernels.check_newton(rng, 48 if a.tier == 'quick' else 300, res)
    res['programs_validated'] += res.get('newton_traces_validated', 0)
    res['distribution'] = dist
    res['summary'] = 'tried %d inputs' % tried
    res['mismatches'] = res['mismatches'][:20]
    res['violations'] = res['violations'][:20]
    print(json.dumps(res, default=str))


if __name__ == '__main__':
    main()
