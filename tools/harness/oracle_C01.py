"""Numeric oracle for C01: the Boozer-coordinate identities evaluated FROM THE GEOMETRY ALONE on live objects.
Independent numpy reading of props/C01_spec.v: truncated power series in r whose coefficients are functions of the helical angle
sampled on 16 points (exact for the trigonometric polynomials that occur), one series per toroidal grid point.
Only public attributes enter (axis frame data, shape coefficients, iota, G0, G2, I2, B0, etabar, B20, B2c, B2s, beta_1s);
toroidal derivatives of the shape coefficients are recomputed here by an FFT derivative, independently of the object's matrices.  Attributes of an order higher than
the object's are replaced by RANDOM numbers (an order-rN claim must not depend on them)."""
import sys, os, json, time, argparse
sys.path.insert(0, os.path.dirname(os.path.abspath(__file__)))
from common import *
import transval

K = 5          # series kept through r^K
NT = 16
TH = 2 * np.pi * np.arange(NT) / NT
MM = np.fft.fftfreq(NT, 1.0 / NT)


class Ser:
    def __init__(s, c):
        s.c = c                                     # (K+1, NT, nphi)
    def __add__(s, o): return Ser(s.c + o.c)
    def __sub__(s, o): return Ser(s.c - o.c)
    def __mul__(s, o):
        if not isinstance(o, Ser):
            return Ser(s.c * o)
        c = np.zeros_like(s.c)
        for i in range(K + 1):
            for j in range(K + 1 - i):
                c[i + j] += s.c[i] * o.c[j]
        return Ser(c)
    __rmul__ = __mul__
    def sc(s, arr):
        return Ser(s.c * (np.asarray(arr, dtype=float) + np.zeros(s.c.shape[2]))[None, None, :])
    def dr(s):
        c = np.zeros_like(s.c)
        for k in range(K):
            c[k] = (k + 1) * s.c[k + 1]
        return Ser(c)
    def dth(s):
        f = np.fft.fft(s.c, axis=1) * (1j * MM)[None, :, None]
        f[:, NT // 2, :] = 0
        return Ser(np.fft.ifft(f, axis=1).real)


class Amp:
    """magnitude bookkeeping: the same expression evaluated on upper bounds of the coefficient sizes (per order in r, per grid point),
    every subtraction replaced by an addition -- the natural scale against which a residual is small"""
    def __init__(s, c):
        s.c = c                                     # (K+1, nphi)
    def __add__(s, o): return Amp(s.c + o.c)
    __sub__ = __add__
    def __mul__(s, o):
        if not isinstance(o, Amp):
            return Amp(s.c * abs(o))
        c = np.zeros_like(s.c)
        for i in range(K + 1):
            for j in range(K + 1 - i):
                c[i + j] += s.c[i] * o.c[j]
        return Amp(c)
    __rmul__ = __mul__
    def sc(s, arr):
        return Amp(s.c * np.abs(np.asarray(arr, dtype=float) + np.zeros(s.c.shape[1]))[None, :])
    def dr(s):
        c = np.zeros_like(s.c)
        for k in range(K):
            c[k] = (k + 1) * s.c[k + 1]
        return Amp(c)
    def dth(s):
        return Amp(s.c * np.maximum(np.arange(K + 1), 1)[:, None])


def amp_series(nphi, terms):
    c = np.zeros((K + 1, nphi))
    for k, (z, hs) in terms.items():
        c[k] += np.abs(np.asarray(z, dtype=float) + np.zeros(nphi))
        for (m, cc, ss) in hs:
            c[k] += np.abs(np.asarray(cc, dtype=float) + np.zeros(nphi)) + np.abs(np.asarray(ss, dtype=float) + np.zeros(nphi))
    return Amp(c)


def series(nphi, terms):
    """terms: {order: (const, [(m, cos_coef, sin_coef), ...])} with coefficient arrays over phi"""
    c = np.zeros((K + 1, NT, nphi))
    for k, (z, hs) in terms.items():
        c[k] += np.asarray(z, dtype=float)[None, :] if np.ndim(z) else z
        for (m, cc, ss) in hs:
            c[k] += np.cos(m * TH)[:, None] * (np.asarray(cc, dtype=float) + np.zeros(nphi))[None, :] + np.sin(m * TH)[:, None] * (np.asarray(ss, dtype=float) + np.zeros(nphi))[None, :]
    return Ser(c)


def dot(u, v): return u[0] * v[0] + u[1] * v[1] + u[2] * v[2]
def cross(u, v): return (u[1] * v[2] - u[2] * v[1], u[2] * v[0] - u[0] * v[2], u[0] * v[1] - u[1] * v[0])


def residuals(q, rng):
    n = q.nphi
    z = np.zeros(n)
    # d/dvarphi of a grid profile, INDEPENDENTLY of the object's matrices: FFT derivative of the trigonometric interpolant in phi
    # (period 2 pi / nfp, odd n), divided by the attribute d_varphi_d_phi
    kk = np.fft.fftfreq(n, 1.0 / n) * q.nfp
    def d(f):
        F = np.fft.fft(np.asarray(f, dtype=float) + z)
        return np.fft.ifft(1j * kk * F).real / q.d_varphi_d_phi
    rv = lambda: rng.standard_normal(n)
    o2 = q.order in ('r2', 'r3'); o3 = q.order == 'r3'
    a1 = max(np.max(np.abs(q.X1c)), np.max(np.abs(q.Y1s)))
    g = lambda name, ok, size: (np.asarray(getattr(q, name), dtype=float) + z) if ok else rv() * size
    X1c, Y1c, Y1s = q.X1c + z, q.Y1c + z, q.Y1s + z
    X20, X2c, X2s = g('X20', o2, a1 ** 2), g('X2c', o2, a1 ** 2), g('X2s', o2, a1 ** 2)
    Y20, Y2c, Y2s = g('Y20', o2, a1 ** 2), g('Y2c', o2, a1 ** 2), g('Y2s', o2, a1 ** 2)
    Z20, Z2c, Z2s = g('Z20', o2, a1 ** 2), g('Z2c', o2, a1 ** 2), g('Z2s', o2, a1 ** 2)
    X3c1, Y3c1, Y3s1 = g('X3c1', o3, a1 ** 3), g('Y3c1', o3, a1 ** 3), g('Y3s1', o3, a1 ** 3)
    B20 = g('B20', o2, abs(q.B0))
    rs = lambda size: float(rng.standard_normal()) * size
    B2c = float(q.B2c) if o2 else rs(abs(q.B0)); B2s = float(q.B2s) if o2 else rs(abs(q.B0))
    G2 = float(q.G2) if o2 else rs(abs(q.G0)); be = float(q.beta_1s) if o2 else rs(1.0)
    lp = abs(q.G0) / q.B0; kap, tau = q.curvature, q.torsion

    def build_all(mk):
        sX = mk(n, {1: (0, [(1, X1c, z)]), 2: (X20, [(2, X2c, X2s)]), 3: (0, [(1, X3c1, z)])})
        sY = mk(n, {1: (0, [(1, Y1c, Y1s)]), 2: (Y20, [(2, Y2c, Y2s)]), 3: (0, [(1, Y3c1, Y3s1)])})
        sZ = mk(n, {2: (Z20, [(2, Z2c, Z2s)])})
        sdX = mk(n, {1: (0, [(1, d(X1c), z)]), 2: (d(X20), [(2, d(X2c), d(X2s))]), 3: (0, [(1, d(X3c1), z)])})
        sdY = mk(n, {1: (0, [(1, d(Y1c), d(Y1s))]), 2: (d(Y20), [(2, d(Y2c), d(Y2s))]), 3: (0, [(1, d(Y3c1), d(Y3s1))])})
        sdZ = mk(n, {2: (d(Z20), [(2, d(Z2c), d(Z2s))])})
        e_r = (sX.dr(), sY.dr(), sZ.dr())
        e_th = (sX.dth(), sY.dth(), sZ.dth())
        e_ph = (sdX - sY.sc(lp * tau) + sZ.sc(lp * kap), sdY + sX.sc(lp * tau), sdZ - sX.sc(lp * kap) + mk(n, {0: (lp + z, [])}))
        w = tuple(a + b.sc(q.iotaN) for a, b in zip(e_ph, e_th))
        sqrtg = dot(e_r, cross(e_th, e_ph))
        psip = mk(n, {1: (q.spsi * q.B0 + z, [])})
        Bm = mk(n, {0: (q.B0 + z, []), 1: (0, [(1, q.B0 * q.etabar + z, z)]), 2: (B20, [(2, B2c + z, B2s + z)])})
        Gh = mk(n, {0: (q.G0 + z, []), 2: (G2 + (q.iota - q.iotaN) * q.I2 + z, [])})
        Ic = mk(n, {2: (q.I2 + z, [])})
        bet = mk(n, {1: (0, [(1, z, be + z)])})
        return dict(
            sqrtg=sqrtg,
            pol=psip * dot(w, e_th) - Ic * sqrtg,
            tor=psip * dot(w, e_ph) - Gh * sqrtg,
            rad=dot(w, e_r) - bet * sqrtg,
            jac=sqrtg * (Bm * Bm) - psip * (Gh + Ic.sc(q.iotaN)),
            modB=(Bm * Bm) * dot(w, e_ph) - Gh * (Gh + Ic.sc(q.iotaN)),
            crl=(dot(w, e_th).dr() - dot(w, e_r).dth() + (bet * sqrtg).dth()).sc(q.spsi * q.B0) - (mk(n, {1: (q.I2 + z, [])}) * sqrtg).dr())

    res = build_all(series)
    amp = build_all(amp_series)
    scale = {k: np.max(v.c, axis=1) + 1e-300 for k, v in amp.items()}
    return res, scale


CLAIMS = {
    'r1': [('pol', 0, 'all'), ('pol', 1, 'all'), ('pol', 2, 'all'), ('tor', 0, 'all'), ('tor', 1, 'all'), ('rad', 0, 'all'), ('jac', 0, 'all'), ('jac', 1, 'all'),
           ('modB', 0, 'all'), ('modB', 1, 'all'), ('crl', 0, 'all'), ('pol', 3, 'avg'), ('crl', 1, 'all')],
    'r2': [('pol', 3, 'all'), ('tor', 2, 'all'), ('rad', 1, 'all'), ('jac', 2, 'all'), ('modB', 2, 'all'), ('crl', 2, 'all')],
    'r3': [('tor', 3, 'avg'), ('jac', 3, 'avg')],
}


def spectral_tail(q):
    worst = 0.0
    names = ['sigma', 'curvature', 'torsion', 'X1c', 'Y1c'] + (['X20', 'Y20', 'B20', 'Z20'] if q.order != 'r1' else []) + (['X3c1', 'Y3c1', 'Y3s1'] if q.order == 'r3' else [])
    for name in names:
        v = np.asarray(getattr(q, name), dtype=float) + np.zeros(q.nphi)
        s = np.abs(np.fft.rfft(v))
        worst = max(worst, s[-3:].max() / max(s.max(), 1e-300))
    return worst


WORST = [0.0]


def predict(cfg, rng, q=None):
    out, n = [], 0
    if q is None:
        q, _ = build(cfg)
    tail = spectral_tail(q)
    # the identities hold for the continuum solution; on a grid that does not resolve the profiles they hold up to the discretisation error, which is
    # measured by the spectral tail (pinned tree: residual / scale <= 0.25 * tail over fresh, corpus and history-built objects) -- beyond 1e-3 nothing is claimed
    if not tail < 1e-3:
        return out, 0, False
    res, scale = residuals(q, rng)
    tol = max(1e-9, 1e2 * tail)
    # the RETURNED axis arrays are the curve the frame belongs to: d r0/d phi = (R0', R0, Z0') = d_l_d_phi * tangent (cylindrical components)
    n += 1
    t_ = q.tangent_cylindrical
    dev = max(float(np.max(np.abs(dphi_indep(q, q.R0) - q.d_l_d_phi * t_[:, 0]))), float(np.max(np.abs(q.R0 - q.d_l_d_phi * t_[:, 1]))),
              float(np.max(np.abs(dphi_indep(q, q.Z0) - q.d_l_d_phi * t_[:, 2]))))
    if dev > max(1e-9, 1e2 * tail) * float(np.max(np.abs(q.d_l_d_phi))):
        out.append(dict(key='axis:tangent', what='the returned axis arrays R0, Z0 are not the curve whose tangent is returned: |d r0/d phi - (dl/dphi) t| = %.3g' % dev, cfg=jsonable(cfg), rel=dev))
    # the identities above are evaluated in the abstract Frenet basis; the RETURNED frame vectors are that basis: orthonormal, right-handed, and rotating along the
    # returned curve with the returned curvature and torsion (Frenet-Serret, cylindrical components, FFT derivative)
    n += 1
    T_, N_, B_ = q.tangent_cylindrical, q.normal_cylindrical, q.binormal_cylindrical
    def ddl_(v):
        dv = np.stack([dphi_indep(q, v[:, c_]) for c_ in range(3)], axis=1)
        return np.array([dv[:, 0] - v[:, 1], dv[:, 1] + v[:, 0], dv[:, 2]]).T / q.d_l_d_phi[:, None]
    k_, t_ = q.curvature[:, None], q.torsion[:, None]
    efs = max(float(np.max(np.abs(ddl_(T_) - k_ * N_))), float(np.max(np.abs(ddl_(N_) + k_ * T_ - t_ * B_))), float(np.max(np.abs(ddl_(B_) + t_ * N_))),
              float(np.max(np.abs(np.cross(T_, N_) - B_))), float(np.max(np.abs(np.sum(N_ * N_, axis=1) - 1))))
    if efs > max(1e-8, 1e2 * tail) * max(1.0, float(np.max(np.abs(q.curvature))), float(np.max(np.abs(q.torsion)))):
        out.append(dict(key='frame:frenet-serret', what='the returned normal / binormal are not the Frenet frame of the returned curve with the returned curvature and torsion (largest defect %.3g)' % efs, cfg=jsonable(cfg), rel=efs))
    orders = ['r1'] + (['r2'] if q.order in ('r2', 'r3') else []) + (['r3'] if q.order == 'r3' else [])
    for o in orders:
        for (name, k, how) in CLAIMS[o]:
            c = res[name].c[k]
            v = np.mean(c, axis=0) if how == 'avg' else c
            n += 1
            e = float(np.max(np.abs(v))); sc = float(scale[name][k])
            WORST[0] = max(WORST[0], e / sc if sc > 1e-200 else 0.0)
            if e > tol * sc:
                out.append(dict(key='%s[r^%d]%s@%s' % (name, k, ':avg' if how == 'avg' else '', o),
                                what='Boozer identity %s, coefficient of r^%d (%s) required at order %s does not vanish: %.3g (terms of size %.3g) for an order-%s object' % (name, k, 'poloidal average' if how == 'avg' else 'every harmonic', o, e, sc, q.order),
                                cfg=jsonable(cfg), rel=e / sc))
    return out, n, True


def main():
    ap = argparse.ArgumentParser()
    for a_ in ('--mode', '--hint', '--file', '--tier'):
        ap.add_argument(a_, default={'--mode': 'check', '--hint': '[]', '--tier': 'quick'}.get(a_))
    ap.add_argument('--seed', type=int, default=1); ap.add_argument('--n', type=int, default=6); ap.add_argument('--budget', type=float, default=60)
    a = ap.parse_args()
    rng = np.random.default_rng(a.seed)
    res = dict(configs=0, programs_validated=0, bindings_compared=0, max_rel_err=0.0, mismatches=[], violations=[], samples=[],
               predictions_checked=0, distribution={})
    dist = {}
    if a.mode == 'replay':
        f = (json.load(open(a.file)).get('failing') or {})
        if f.get('cfg'):
            v, n, _ = predict(f['cfg'], rng)
            res['violations'], res['predictions_checked'] = v, n
        print(json.dumps(res, default=str)); return
    t0 = time.time(); tried = 0; nres = 0
    nn = a.n if a.mode == 'check' else 10 ** 6
    for c_, q_ in corpus_objects():          # distilled regression inputs first
        v, n, r_ = predict(c_, rng, q_)
        res['predictions_checked'] += n; res['violations'] += v; res['configs'] += 1
        dist['corpus'] = dist.get('corpus', 0) + 1
    # a FINE grid: the residual norm Newton settles at grows with nphi, so anything that tests convergence against an absolute number shows up here
    for c_ in [dict(rc=[1.0, 0.17, 0.01804, 0.001409, 5.877e-05], zs=[0.0, 0.1581, 0.0182, 0.001548, 7.772e-05], nfp=4, etabar=1.569, B2c=0.1348, order='r2', nphi=401)]:
        if res['violations']:
            break
        try:
            q_, m_ = build(c_)
            missing = [nm for nm in ('X20', 'Y20', 'B20', 'G2', 'beta_1s') if not hasattr(q_, nm)]
            if missing:
                res['violations'].append(dict(key='fine-grid', what='an order-r2 object built at nphi=%d lacks the second-order output %s (first-order solve reported: %s)' % (c_['nphi'], missing, m_[:1]), cfg=jsonable(c_)))
            else:
                v, n, r_ = predict(c_, rng, q_)
                res['predictions_checked'] += n; res['violations'] += v
            res['configs'] += 1; dist['fixed:fine-grid'] = 1
        except Exception as e:
            res['violations'].append(dict(key='fine-grid', what='building an order-r2 object at nphi=%d raised %s' % (c_['nphi'], type(e).__name__), cfg=jsonable(c_)))
    while tried < nn and (a.mode == 'check' or (time.time() - t0 < a.budget and not res['violations'])):
        tried += 1
        sg = [(1, 1), (1, -1), (-1, 1), (-1, -1)][tried % 4]
        try:
            cfg, q = gen_admissible(rng, qh=(tried % 3 == 0), order=['r1', 'r2', 'r3'][tried % 3 if tried % 5 else 2], signs=sg, nphi=int(2 * rng.integers(35, 60) + 1), simple=(tried % 2 == 0))
        except RuntimeError:
            continue
        key = '%s/%s/sG%+d/spsi%+d/%s' % ('QH' if q.helicity else 'QA', cfg['order'], cfg['sG'], cfg['spsi'], 'asym' if q.lasym else 'sym')
        dist[key] = dist.get(key, 0) + 1
        if a.mode == 'check':
            tv = transval.validate(q, rng, only=('init_axis', 'r1_diagnostics_h0', 'r1_diagnostics_hN', 'calculate_r2_h0', 'calculate_r2_hN', 'calculate_r3_h0', 'calculate_r3_hN', 'residual', 'solve_sigma_equation'))
            res['programs_validated'] += tv['programs']; res['bindings_compared'] += tv['bindings']
            res['max_rel_err'] = max(res['max_rel_err'], tv['max_rel_err']); res['mismatches'] += tv['mismatches']
        res['configs'] += 1
        v, n, r_ = predict(cfg, rng, q)
        nres += bool(r_)
        res['predictions_checked'] += n; res['violations'] += v
        if len(res['samples']) < 3:
            res['samples'].append(dict(cfg=jsonable(cfg)))
    dist['resolved'] = nres
    res['distribution'] = dist; res['summary'] = 'tried %d inputs, %d resolved; worst residual relative to the size of its terms %.3g' % (tried, nres, WORST[0])
    res['mismatches'] = res['mismatches'][:20]; res['violations'] = res['violations'][:20]
    print(json.dumps(res, default=str))


if __name__ == '__main__':
    main()
