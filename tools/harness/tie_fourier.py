#!/usr/bin/env python3
"""Correspondence between the Coq model of util.to_Fourier / plot.get_boundary (coq/props/C14_fourier.v, executable part
coq/props/C14_weights.v) and the implementation.

The model says: coefficient [i, m] of the cosine (sine) array is  sum_jk F[j,k] * cos (sin) (m theta_j - n nfp phi_k) * w4C(m,n) / (4 ntheta nphi)
with n = row_n ntor i, and the inverse series reads row i as n = row_n ntor i.  The integer tables w4C, w4S, row_n and the lasym mask are
evaluated INSIDE Coq (vm_compute) for every generated (ntheta, nphi, mpol, ntor); the real to_Fourier is run on random data and must equal the
double sums with exactly those weights; the real get_boundary is run with unit coefficient arrays (to_Fourier and Frenet_to_cylindrical replaced
in the harness process only) and must return the single mode the table names.
Prints one JSON object last (house style: mismatches = model/implementation disagreements)."""
import argparse, json, os, re, subprocess, sys, time
sys.path.insert(0, os.path.dirname(os.path.abspath(__file__)))
import common
from common import np, ROOT

COQ = os.path.join(ROOT, 'coq')


def gen_cases(rng, n):
    cases = []
    fixed = [(1, 1, 0, 0), (2, 2, 1, 1), (3, 4, 1, 2), (4, 3, 2, 1), (6, 8, 3, 4), (5, 7, 2, 3), (4, 6, 3, 2), (3, 3, 2, 2)]
    for c in fixed[:max(4, n)]:
        cases.append(c)
    while len(cases) < n + 4:
        nt, nph = int(rng.integers(1, 11)), int(rng.integers(1, 11))
        kind = rng.integers(0, 3)
        if kind == 0:
            mp, ntr = nt // 2, nph // 2                     # exactly covering (hypothesis of the round-trip theorem)
        elif kind == 1:
            mp, ntr = int(rng.integers(0, nt // 2 + 1)), int(rng.integers(0, nph // 2 + 1))   # truncated
        else:
            mp, ntr = int(rng.integers(0, nt + 2)), int(rng.integers(0, nph + 2))             # any
        cases.append((nt, nph, mp, ntr))
    return cases


def coq_tables(cases):
    path = os.path.join(COQ, 'gprops', 'K_fourier_cases_%d.v' % os.getpid())
    lines = ['From Coq Require Import ZArith List.', 'From QSCProps Require Import C14_fourier C14_weights.', 'Import ListNotations.']
    for (nt, nph, mp, ntr) in cases:
        lines.append('Eval vm_compute in (table (w4C %d %d) %d %d, table (w4S %d %d) %d %d, map (row_n %d) (seq 0 (2 * %d + 1))).'
                     % (nt, nph, mp, ntr, nt, nph, mp, ntr, ntr, ntr))
    lines.append('Eval vm_compute in (kept true, kept false).')
    open(path, 'w').write('\n'.join(lines) + '\n')
    p = subprocess.run(['coqc', '-Q', 'theories', 'QSC', '-Q', 'props', 'QSCProps', '-Q', 'gprops', 'QSCGProps', 'gprops/K_fourier_cases_%d.v' % os.getpid()],
                       cwd=COQ, capture_output=True, text=True, timeout=900)
    if p.returncode != 0:
        return None, (p.stdout + p.stderr)[-800:]
    chunks = re.split(r'\n\s*=\s', '\n' + p.stdout)[1:]
    if len(chunks) != len(cases) + 1:
        return None, 'expected %d results from Coq, got %d' % (len(cases) + 1, len(chunks))
    out = []
    for (nt, nph, mp, ntr), ch in zip(cases, chunks):
        body = ch.split('\n     :')[0]
        ints = [int(x) for x in re.findall(r'-?\d+', body.replace('%Z', '').replace('%nat', ''))]
        rows, cols = 2 * ntr + 1, mp + 1
        if len(ints) != 2 * rows * cols + rows:
            return None, 'cannot parse Coq table for case %s (%d integers)' % ((nt, nph, mp, ntr), len(ints))
        wc = np.array(ints[:rows * cols]).reshape(rows, cols)
        ws = np.array(ints[rows * cols:2 * rows * cols]).reshape(rows, cols)
        nn = np.array(ints[2 * rows * cols:])
        out.append((wc, ws, nn))
    kept = re.findall(r'true|false', chunks[-1])
    if len(kept) != 8:
        return None, 'cannot parse the lasym mask'
    mask = {True: [k == 'true' for k in kept[:4]], False: [k == 'true' for k in kept[4:]]}
    return (out, mask), None


def main():
    ap = argparse.ArgumentParser()
    ap.add_argument('--mode', default='check')
    ap.add_argument('--seed', type=int, default=1)
    ap.add_argument('--n', type=int, default=12)
    ap.add_argument('--tier', default='quick')
    ap.add_argument('--budget', default='60')
    ap.add_argument('--hint', default='')
    ap.add_argument('--file')
    a = ap.parse_args()
    rng = np.random.default_rng(a.seed)
    res = dict(configs=0, programs_validated=0, bindings_compared=0, max_rel_err=0.0, mismatches=[], violations=[], samples=[], predictions_checked=0,
               distribution={}, summary='')
    n = a.n if a.tier == 'quick' else max(a.n, 60)
    n = min(n, 120)
    cases = gen_cases(rng, n)
    tabs, err = coq_tables(cases)
    if err:
        res['mismatches'].append('Coq evaluation of the to_Fourier model failed: ' + err)
        print(json.dumps(res))
        return
    tables, mask = tabs
    qsc = common.import_qsc()
    from qsc import util as U
    import qsc.plot as P
    worst = 0.0
    dist = dict(exact_cover=0, truncated=0, over=0, even_even=0, odd_odd=0, mixed=0)
    for (nt, nph, mp, ntr), (wc, ws, nn) in zip(cases, tables):
        res['configs'] += 1
        dist['exact_cover' if (mp == nt // 2 and ntr == nph // 2) else ('truncated' if (mp <= nt // 2 and ntr <= nph // 2) else 'over')] += 1
        dist['even_even' if (nt % 2 == 0 and nph % 2 == 0) else ('odd_odd' if (nt % 2 and nph % 2) else 'mixed')] += 1
        nfp = int(rng.integers(1, 6))
        R2 = rng.standard_normal((nt, nph))
        Z2 = rng.standard_normal((nt, nph))
        th = 2 * np.pi * np.arange(nt) / nt
        ph = 2 * np.pi * np.arange(nph) / nph / nfp
        for lasym in (True, False):
            got = U.to_Fourier(R2.copy(), Z2.copy(), nfp, mp, ntr, lasym)
            for idx, (name, F, trig, w) in enumerate((('RBC', R2, np.cos, wc), ('RBS', R2, np.sin, ws), ('ZBC', Z2, np.cos, wc), ('ZBS', Z2, np.sin, ws))):
                g = np.asarray(got[idx], dtype=float)
                if not mask[lasym][idx]:
                    if np.any(g != 0):
                        res['mismatches'].append('to_Fourier %s: model says %s is zeroed when lasym=%s, implementation returns nonzero' % ((nt, nph, mp, ntr), name, lasym))
                    continue
                if g.shape != (2 * ntr + 1, mp + 1):
                    res['mismatches'].append('to_Fourier %s: %s has shape %s, model (2 ntor+1, mpol+1)' % ((nt, nph, mp, ntr), name, g.shape))
                    continue
                pred = np.zeros_like(g)
                for i in range(2 * ntr + 1):
                    for m in range(mp + 1):
                        ang = m * th[:, None] - int(nn[i]) * nfp * ph[None, :]
                        pred[i, m] = np.sum(F * trig(ang)) * w[i, m] / (4.0 * nt * nph)
                e = float(np.max(np.abs(pred - g)))
                worst = max(worst, e)
                res['bindings_compared'] += g.size
                if e > 1e-12 * max(1.0, float(np.max(np.abs(F))) * 4):
                    i, m = np.unravel_index(np.argmax(np.abs(pred - g)), g.shape)
                    res['mismatches'].append('to_Fourier (ntheta,nphi,mpol,ntor)=%s nfp=%d lasym=%s: %s[%d,%d] = %.15g, model weight %d/(4 ntheta nphi) gives %.15g'
                                             % ((nt, nph, mp, ntr), nfp, lasym, name, i, m, g[i, m], w[i, m], pred[i, m]))
        res['programs_validated'] += 1
    # inverse series of get_boundary: unit coefficient at [i, m] must give the single mode (m, row_n i)
    q, _ = common.build(dict(rc=[1, 0.09], zs=[0, -0.09], nfp=2, etabar=0.95, nphi=15))
    orig_tf = P.to_Fourier
    ninv = 0
    try:
        for (nt, nph, mp, ntr), (wc, ws, nn) in list(zip(cases, tables))[:(12 if a.tier == 'quick' else 60)]:
            for lasym in (True, False):
                i = int(rng.integers(0, 2 * ntr + 1)); m = int(rng.integers(0, mp + 1)); which = int(rng.integers(0, 4))
                arrs = [np.zeros((2 * ntr + 1, mp + 1)) for _ in range(4)]
                arrs[which][i, m] = 1.0
                P.to_Fourier = lambda *args, **kw: tuple(x.copy() for x in arrs)
                q.lasym = lasym
                q.Frenet_to_cylindrical = lambda r, ntheta=20: (np.zeros((ntheta, q.nphi)), np.zeros((ntheta, q.nphi)), np.zeros((ntheta, q.nphi)))
                ntp, npp = int(rng.integers(2, 9)), int(rng.integers(2, 9))
                x2, y2, z2, Rn = P.get_boundary(q, r=0.1, ntheta=ntp, nphi=npp, ntheta_fourier=4, mpol=mp, ntor=ntr)
                t1 = np.linspace(0, 2 * np.pi, ntp); p1 = np.linspace(0, 2 * np.pi, npp)
                ang = m * t1[:, None] - int(nn[i]) * q.nfp * p1[None, :]
                expR = np.zeros((ntp, npp)); expZ = np.zeros((ntp, npp))
                live = mask[lasym][which]
                if live:
                    if which == 0: expR = np.cos(ang)
                    if which == 1: expR = np.sin(ang)
                    if which == 2: expZ = np.cos(ang)
                    if which == 3: expZ = np.sin(ang)
                e = max(float(np.max(np.abs(Rn - expR))), float(np.max(np.abs(z2 - expZ))))
                worst = max(worst, e)
                ninv += 1
                if e > 1e-12:
                    res['mismatches'].append('get_boundary inverse series: unit %s[%d,%d] (mpol=%d, ntor=%d, lasym=%s) does not give the mode (m=%d, n=%d) of the model: error %.3g'
                                             % (['RBC', 'RBS', 'ZBC', 'ZBS'][which], i, m, mp, ntr, lasym, m, int(nn[i]), e))
    finally:
        P.to_Fourier = orig_tf
    res['max_rel_err'] = worst
    res['predictions_checked'] = ninv
    res['distribution'] = dist
    res['mismatches'] = res['mismatches'][:20]
    res['summary'] = 'to_Fourier weight tables from Coq vs implementation on %d (ntheta,nphi,mpol,ntor) cases x 2 lasym; %d unit-coefficient inverse checks; worst abs error %.2g' % (len(cases), ninv, worst)
    print(json.dumps(res))


if __name__ == '__main__':
    main()
