"""Translator validation: parse the GENERATED Coq text (coq/gen/*.v) back, evaluate the
deep-embedded programs with numpy on the data of a live Qsc object, and compare every
output binding with what the implementation computed.  The constructor semantics used here
mirror QSC.Expr.eval one-for-one."""
import os, re, sys, json
from fractions import Fraction
import numpy as np
from common import ROOT, REPO

TOK = re.compile(r'\s*(\(|\)|"[^"]*"|-?\d+#\d+|[A-Za-z_][A-Za-z_0-9]*|\d+|;|,|\[|\]|:=|\.)')


def tokenize(s):
    pos, out = 0, []
    while pos < len(s):
        m = TOK.match(s, pos)
        if not m:
            if s[pos:].strip() == '':
                break
            raise ValueError('cannot tokenize at %r' % s[pos:pos + 40])
        out.append(m.group(1))
        pos = m.end()
    return out


def parse_expr(toks, i):
    t = toks[i]
    if t in ('CPi', 'CMu0'):
        return (t,), i + 1
    if t != '(':
        raise ValueError('expected ( at token %d: %r' % (i, toks[i:i + 5]))
    op = toks[i + 1]
    i += 2
    if op == 'Cst':
        # (Cst (a#b)) or (Cst ((-a)#b))
        assert toks[i] == '('
        i += 1
        if toks[i] == '(':
            # ((-a)#b): tokens ( -a ) #b  -- handled by regex as '(' , '-a'?? keep generic
            j = i
            txt = ''
            depth = 0
            while True:
                if toks[j] == '(':
                    depth += 1
                elif toks[j] == ')':
                    if depth == 0:
                        break
                    depth -= 1
                txt += toks[j]
                j += 1
            i = j
        else:
            txt = toks[i]
            i += 1
        assert toks[i] == ')' and toks[i + 1] == ')', toks[i:i + 3]
        return ('Cst', txt), i + 2
    if op == 'Var':
        name = toks[i][1:-1]
        assert toks[i + 1] == ')'
        return ('Var', name), i + 2
    args = []
    while toks[i] != ')':
        if toks[i] in ('(', 'CPi', 'CMu0'):
            a, i = parse_expr(toks, i)
            args.append(a)
        else:
            args.append(int(toks[i]))
            i += 1
    return (op,) + tuple(args), i + 1


CST = re.compile(r'\(?\(?(-?\d+)\)?#(\d+)\)?')


def cst_value(txt):
    m = re.match(r'^\(?(-?\d+)\)?#(\d+)$', txt.replace(' ', ''))
    if not m:
        raise ValueError('bad constant %r' % txt)
    return Fraction(int(m.group(1)), int(m.group(2)))


def parse_file(path):
    """returns {progname: [(name, expr)]}"""
    src = open(path).read()
    src = re.sub(r'\(\*.*?\*\)', '', src, flags=re.S)
    progs = {}
    for m in re.finditer(r'Definition\s+(\w+)\s*:\s*prog\s*:=\s*\[(.*?)\n\]\.', src, flags=re.S):
        name, body = m.group(1), m.group(2)
        # the regex tokenizer has no token for a minus sign inside ((-2)#1): normalise first
        body = re.sub(r'\(\((-\d+)\)#(\d+)\)', r'(\1#\2)', body)
        toks = tokenize(body)
        i, items = 0, []
        while i < len(toks):
            assert toks[i] == '(', toks[i:i + 4]
            nm = toks[i + 1][1:-1]
            assert toks[i + 2] == ','
            e, i = parse_expr(toks, i + 3)
            assert toks[i] == ')'
            i += 1
            if i < len(toks) and toks[i] == ';':
                i += 1
            items.append((nm, e))
        progs[name] = items
    return progs


class Ev:
    def __init__(self, q, env):
        self.q, self.env = q, env
        self.D = q.d_d_phi
        self.n = q.nphi

    def val(self, e):
        op = e[0]
        if op == 'Cst':
            f = cst_value(e[1])
            return f.numerator / f.denominator
        if op == 'CPi':
            return np.pi
        if op == 'CMu0':
            return 4 * np.pi * 1e-7
        if op == 'Var':
            return self.env[e[1]]
        a = [self.val(x) if isinstance(x, tuple) else x for x in e[1:]]
        if op == 'Neg': return -a[0]
        if op == 'Add': return a[0] + a[1]
        if op == 'Sub': return a[0] - a[1]
        if op == 'Mul': return a[0] * a[1]
        if op == 'Div': return a[0] / a[1]
        if op == 'Pow': return a[0] ** a[1]
        if op == 'Sqrt': return np.sqrt(a[0])
        if op == 'Root4': return np.sqrt(np.sqrt(a[0]))
        if op == 'Abs': return np.abs(a[0])
        if op == 'Sin': return np.sin(a[0])
        if op == 'Cos': return np.cos(a[0])
        if op == 'Exp': return np.exp(a[0])
        if op == 'Dphi':
            assert np.ndim(a[0]) == 1, 'Dphi of a scalar'
            return np.matmul(self.D, a[0])
        if op in ('Sum', 'MaxG', 'MinG', 'FMin'):
            assert np.ndim(a[0]) == 1, op + ' of a scalar'
            if op == 'Sum': return np.sum(a[0])
            if op == 'MaxG': return np.max(a[0])
            if op == 'MinG': return np.min(a[0])
            from qsc.util import fourier_minimum
            return fourier_minimum(a[0])
        if op == 'At':
            assert np.ndim(a[0]) == 1
            return a[0][a[1]]
        if op == 'Pin0':
            v = np.array(a[0], dtype=float, copy=True) if np.ndim(a[0]) == 1 else np.full(self.n, a[0], dtype=float)
            v[0] = a[1] if np.ndim(a[1]) == 0 else a[1][0]
            return v
        raise ValueError('unknown constructor ' + op)


def run_prog(q, prog, env):
    ev = Ev(q, env)
    for name, e in prog:
        env[name] = ev.val(e)
    return env


def base_env(q, inputs, extra=None):
    """environment for the declared inputs of a program from the live object"""
    from common import flat_attrs
    fa = flat_attrs(q)
    env = {}
    missing = []
    for x in inputs:
        if extra and x in extra:
            env[x] = extra[x]
        elif x == 'nphi':
            env[x] = float(q.nphi)
        elif x.startswith('s.') and x[2:] in fa:
            v = fa[x[2:]]
            env[x] = float(v) if v.ndim == 0 else v
        else:
            missing.append(x)
    return env, missing


def compare(name, got, want, tol=1e-9):
    got = np.asarray(got, dtype=float); want = np.asarray(want, dtype=float)
    if got.shape != want.shape:
        if got.ndim == 0 and want.ndim == 1:
            got = np.full(want.shape, float(got))
        elif want.ndim == 0 and got.ndim == 1 and np.ptp(got) == 0:
            got = got[0]
        else:
            return False, 'shape %s vs %s' % (got.shape, want.shape)
    scale = max(np.max(np.abs(want)) if want.size else 0.0, 1e-300)
    with np.errstate(all='ignore'):
        err = np.max(np.abs(got - want)) / scale if want.size else 0.0
    both_nan = np.isnan(got) & np.isnan(want)
    if np.any(np.isnan(got) != np.isnan(want)):
        return False, 'nan pattern'
    if np.all(both_nan):
        return True, 0.0
    err = np.nanmax(np.abs(got - want)) / scale
    return bool(err <= tol), float(err)
