"""Numeric oracle for C15 (the VMEC input file written by to_vmec).

The file is read back with an own small Fortran-namelist reader (comments '!', NAME = v1, v2 ... possibly wrapped over lines,
NAME(i,j) = v entries several to a line, logicals T/F/True/False/.TRUE./.FALSE., quoted strings, D exponents, r*c repeats) and
every clause of the property is checked against the object and against an independent evaluation:
  NFP, LASYM, MPOL, NTOR = min(ntor, ntorMax); RBC/ZBS (+RBS/ZBC iff lasym) equal the arrays left on the object (transposed) digit
  for digit, equal an own discrete transform of the surface of Frenet_to_cylindrical(r, ntheta), and - read with VMEC's
  m*theta - n*nfp*phi convention through an own inverse series - reproduce that surface on its grid to 1e-10 when the mode ranges
  cover the grid; RAXIS_CC/ZAXIS_CS(/RAXIS_CS/ZAXIS_CC) = rc/-zs(/-rs/zc) to the 8 digits printed; PHIEDGE, CURTOR, AM, the
  remaining scalars and the params overrides; no state leaks between calls through the mutable default argument.
"""
import os, sys
for _v in ('OPENBLAS_NUM_THREADS', 'OMP_NUM_THREADS', 'MKL_NUM_THREADS'):
    os.environ.setdefault(_v, '1')
import json, time, argparse, re, tempfile, shutil
sys.path.insert(0, os.path.dirname(os.path.abspath(__file__)))
from common import *

TWO_PI = 2 * np.pi
MU0 = 4e-7 * np.pi
DEFAULTS = dict(DELT=[0.9], NSTEP=[200], TCON0=[2.0], NS_ARRAY=[16, 49, 101], FTOL_ARRAY=[1e-14, 1e-13, 1e-13], NITER_ARRAY=[2000, 2000, 2000])


# ------------------------------------------------------------------------------------------------------------------------
# own namelist reader
# ------------------------------------------------------------------------------------------------------------------------
class NamelistError(Exception):
    pass


def _strip_comments(text):
    out = []
    for line in text.splitlines():
        buf, q = [], None
        for ch in line:
            if q:
                buf.append(ch)
                if ch == q:
                    q = None
            elif ch in '\'"':
                q = ch; buf.append(ch)
            elif ch == '!':
                break
            else:
                buf.append(ch)
        if q:
            raise NamelistError('unterminated string in line %r' % line)
        out.append(''.join(buf))
    return '\n'.join(out)


def _value(tok):
    if tok[0] in '\'"':
        if len(tok) < 2 or tok[-1] != tok[0]:
            raise NamelistError('bad string %r' % tok)
        return tok[1:-1]
    if re.match(r'^\.?(t|true)\.?$', tok, re.I):
        return True
    if re.match(r'^\.?(f|false)\.?$', tok, re.I):
        return False
    if re.match(r'^[+-]?\d+$', tok):
        return int(tok)
    if re.match(r'^[+-]?(\d+\.?\d*|\.\d+)([eEdD][+-]?\d+)?$', tok):
        return float(tok.replace('d', 'e').replace('D', 'e'))
    raise NamelistError('cannot read value %r' % tok)


def parse_namelist(text, group='INDATA'):
    """returns (scalars: NAME -> list of values, indexed: NAME -> {(i, j, ..): value}, problems: list of str)"""
    body = _strip_comments(text)
    m = re.search(r'&' + group + r'\b', body, re.I)
    if not m:
        raise NamelistError('no &%s group' % group)
    rest = body[m.end():]
    # terminator: first '/' (or &END) outside quotes
    end, q = None, None
    for i, ch in enumerate(rest):
        if q:
            if ch == q:
                q = None
        elif ch in '\'"':
            q = ch
        elif ch == '/':
            end = i; break
    m2 = re.search(r'&END\b', rest, re.I)
    if end is None and m2:
        end = m2.start()
    if end is None:
        raise NamelistError('namelist group is not terminated')
    trailing = rest[end + 1:].strip()
    rest = rest[:end]
    heads = list(re.finditer(r'([A-Za-z_]\w*)\s*(\(([^()]*)\))?\s*=', rest))
    problems = []
    if trailing:
        problems.append('text after the terminating "/": %r' % trailing[:40])
    if not heads:
        raise NamelistError('no assignments')
    if rest[:heads[0].start()].strip():
        problems.append('text before the first assignment: %r' % rest[:heads[0].start()].strip()[:40])
    scalars, indexed = {}, {}
    for k, h in enumerate(heads):
        name = h.group(1).upper()
        vtxt = rest[h.end():heads[k + 1].start() if k + 1 < len(heads) else len(rest)]
        toks = re.findall(r'\'[^\']*\'|"[^"]*"|[^\s,]+', vtxt)
        vals = []
        for t in toks:
            mm = re.match(r'^(\d+)\*(.+)$', t)
            if mm:
                vals += [_value(mm.group(2))] * int(mm.group(1))
            else:
                vals.append(_value(t))
        if not vals:
            problems.append('%s has no value' % name); continue
        if h.group(2):
            try:
                idx = tuple(int(x) for x in h.group(3).split(','))
            except ValueError:
                raise NamelistError('bad subscript in %r' % h.group(0))
            if len(vals) != 1:
                problems.append('%s%s is given %d values' % (name, h.group(2), len(vals)))
            d = indexed.setdefault(name, {})
            if idx in d:
                problems.append('%s%s assigned twice' % (name, h.group(2)))
            d[idx] = vals[0]
        else:
            if name in scalars:
                problems.append('%s assigned twice' % name)
            scalars[name] = vals
    return scalars, indexed, problems


# ------------------------------------------------------------------------------------------------------------------------
# own transforms (VMEC convention m*theta - n*nfp*phi; arrays indexed [n + ntor, m])
# ------------------------------------------------------------------------------------------------------------------------
def own_transform(R2, Z2, nfp, mpol, ntor):
    """discrete projection of grid data on the modes (m, n), 0 <= m <= mpol, |n| <= ntor (m = 0: n >= 0 only): identity with the
    inverse series on the grid when the ranges are mpol = ntheta//2, ntor = nphi//2"""
    nt, nph = R2.shape
    th = np.arange(nt) * (TWO_PI / nt); ph = np.arange(nph) * (TWO_PI / nfp / nph)
    ms = np.arange(mpol + 1); ns = np.arange(-ntor, ntor + 1)
    Et = np.exp(1j * np.outer(ms, th))                   # [m, j]
    Ep = np.exp(-1j * nfp * np.outer(ns, ph))            # [n, k]
    out = []
    for A in (R2, Z2):
        C = np.einsum('mj,jk,nk->nm', Et, A, Ep) * (2.0 / (nt * nph))        # sum A exp(i(m th - n nfp ph))
        if nt % 2 == 0 and nt // 2 <= mpol:
            C[:, nt // 2] *= 0.5
        if nph % 2 == 0 and nph // 2 <= ntor:
            C[ntor + nph // 2, :] *= 0.5; C[ntor - nph // 2, :] *= 0.5
        C[:ntor, 0] = 0.0                                 # m = 0, n < 0: represented by n > 0
        C[ntor, 0] = np.mean(A)                           # (0,0): the mean, no sine part
        out.append(C)
    return out[0].real, out[0].imag, out[1].real, out[1].imag      # RBC, RBS, ZBC, ZBS


def inverse_series(co, nfp, nt, nph):
    RBC, RBS, ZBC, ZBS = co
    ntor = (RBC.shape[0] - 1) // 2; mpol = RBC.shape[1] - 1
    th = np.arange(nt) * (TWO_PI / nt); ph = np.arange(nph) * (TWO_PI / nfp / nph)
    Et = np.exp(1j * np.outer(np.arange(mpol + 1), th)); Ep = np.exp(-1j * nfp * np.outer(np.arange(-ntor, ntor + 1), ph))
    R = np.einsum('nm,mj,nk->jk', RBC - 1j * RBS, Et, Ep).real
    Z = np.einsum('nm,mj,nk->jk', ZBC - 1j * ZBS, Et, Ep).real
    return R, Z


def mode_arrays(indexed, ntor, mpol):
    co = [np.zeros((2 * ntor + 1, mpol + 1)) for _ in range(4)]
    for a, name in zip(co, ('RBC', 'RBS', 'ZBC', 'ZBS')):
        for idx, v in indexed.get(name, {}).items():
            if len(idx) == 2 and abs(idx[0]) <= ntor and 0 <= idx[1] <= mpol:      # anything else is reported as file:mode-range
                a[idx[0] + ntor, idx[1]] = v
    return co


# ------------------------------------------------------------------------------------------------------------------------
def check_file(q, cfg, fn, r, ntheta, params, ntorMax, bad, stats, surface=None):
    """all clauses for one written file; returns (n predictions, parsed content for comparisons)"""
    n = 0
    ctx = dict(r=r, ntheta=ntheta, params=jsonable(params) if params is not None else None, ntorMax=ntorMax)
    try:
        sc, ix, problems = parse_namelist(open(fn).read())
    except NamelistError as e:
        bad('file:parse', 'the written file does not parse as a Fortran namelist: %s' % e, **ctx)
        return 1, None
    n += 1
    for p in problems:
        bad('file:syntax', 'namelist problem: %s' % p, **ctx)
    P = params or {}
    mpol = int(P['mpol']) if 'mpol' in P else int(np.floor(min(ntheta / 2, 100)))
    ntor = int(P['ntor']) if 'ntor' in P else int(min(q.nphi / 2, 100))

    def one(name):
        v = sc.get(name)
        if v is None or len(v) != 1:
            bad('file:' + name, '%s is %s in the file' % (name, 'missing' if v is None else 'given %d values' % len(v)), **ctx)
            return None
        return v[0]
    # --- integer / logical header
    for name, want in (('NFP', int(q.nfp)), ('LASYM', bool(q.lasym)), ('MPOL', mpol), ('NTOR', min(ntor, ntorMax)), ('NCURR', 1), ('PRES_SCALE', 1),
                       ('PMASS_TYPE', 'power_series'), ('PCURR_TYPE', 'power_series')):
        n += 1
        got = one(name)
        if got is not None and (got != want or type(got) is not type(want)):
            bad('file:' + name, '%s = %r in the file, expected %r' % (name, got, want), **ctx)
    # --- run-time parameters: overrides or defaults
    for name, dflt in DEFAULTS.items():
        n += 1
        want = P.get(name.lower(), dflt)
        want = list(want) if isinstance(want, (list, tuple)) else [want]
        got = sc.get(name)
        if got is None or len(got) != len(want) or any(abs(float(g) - float(w)) > 1e-15 * abs(float(w)) for g, w in zip(got, want)):
            bad('file:' + name, '%s = %r in the file, expected %r' % (name, got, want), **ctx)
    # --- physics scalars
    B0, I2, p2 = float(q.B0), float(q.I2), float(getattr(q, 'p2', 0.0))
    n += 3
    got = one('PHIEDGE')
    if got is not None and not abs(abs(got) - np.pi * r * r * B0) <= 1e-13 * np.pi * r * r * B0:
        bad('file:PHIEDGE', '|PHIEDGE| = %.16g but pi r^2 B0 = %.16g' % (abs(got), np.pi * r * r * B0), **ctx)
    got = one('CURTOR')
    want = TWO_PI * I2 * r * r / MU0
    if got is not None and not abs(got - want) <= 1e-13 * abs(want):
        bad('file:CURTOR', 'CURTOR = %.16g but 2 pi I2 r^2 / mu0 = %.16g' % (got, want), **ctx)
    am = sc.get('AM')
    want = [-p2 * r * r, p2 * r * r]          # p(s) = AM0 + AM1 s = -p2 r^2 (1 - s)
    if am is None or len(am) != 2 or any(not abs(g - w) <= 1e-13 * abs(w) for g, w in zip(am, want)):
        bad('file:AM', 'AM = %r but p(s) = -p2 r^2 (1-s) needs %r' % (am, want), **ctx)
    n += 1
    if sc.get('AC') != [1]:
        bad('file:AC', 'AC = %r, expected [1]' % (sc.get('AC'),), **ctx)
    # --- axis: VMEC's sine terms are sin(-n nfp phi), hence the sign flips
    want_axis = dict(RAXIS_CC=np.asarray(q.rc, float), ZAXIS_CS=-np.asarray(q.zs, float))
    if q.lasym:
        want_axis.update(RAXIS_CS=-np.asarray(q.rs, float), ZAXIS_CC=np.asarray(q.zc, float))
    for name in ('RAXIS_CC', 'ZAXIS_CS', 'RAXIS_CS', 'ZAXIS_CC'):
        n += 1
        got = sc.get(name)
        if name not in want_axis:
            if got is not None:
                bad('file:' + name, '%s present although LASYM is false' % name, **ctx)
            continue
        w = want_axis[name]
        # numpy prints 8 digits: fixed notation -> 8 decimals of the common scale, scientific -> 8 significant digits each
        tol = 1.01e-8 * max(np.max(np.abs(w)), 1e-300)
        if got is None or len(got) != len(w) or np.max(np.abs(np.array(got, float) - w)) > tol:
            bad('file:' + name, '%s = %r in the file but the object has %r' % (name, got, w.tolist()), **ctx)
    # input axis as well (the object could have changed its own arrays)
    n += 1
    for name, key, sgn in (('RAXIS_CC', 'rc', 1), ('ZAXIS_CS', 'zs', -1), ('RAXIS_CS', 'rs', -1), ('ZAXIS_CC', 'zc', 1)):
        if name in want_axis and sc.get(name) is not None:
            w = np.zeros(len(want_axis[name])); src = cfg.get(key, [])
            w[:len(src)] = src
            if len(sc[name]) == len(w) and np.max(np.abs(np.array(sc[name], float) - sgn * w)) > 1.01e-8 * max(np.max(np.abs(w)), 1e-300):
                bad('file:input-axis', '%s does not reproduce the input %s under VMEC\'s sign convention' % (name, key), **ctx)
    # --- boundary coefficients
    names = ('RBC', 'RBS', 'ZBC', 'ZBS')
    n += 1
    for name in names:
        for (idx, v) in ix.get(name, {}).items():
            if len(idx) != 2 or abs(idx[0]) > ntor or not 0 <= idx[1] <= mpol:
                bad('file:mode-range', '%s%r lies outside |n| <= %d, 0 <= m <= %d' % (name, idx, ntor, mpol), **ctx); break
    for name in ix:
        if name not in names:
            bad('file:unknown-array', 'unexpected subscripted entry %s' % name, **ctx)
    if not q.lasym and (ix.get('RBS') or ix.get('ZBC')):
        bad('file:lasym-modes', 'RBS/ZBC entries in a stellarator-symmetric file', **ctx)
    co = mode_arrays(ix, ntor, mpol)
    # (i) the arrays left on the object (transposed: [m, n + ntor])
    n += 1
    for name, a in zip(names, co):
        if not hasattr(q, name):
            bad('object:' + name, 'attribute %s missing after to_vmec' % name, **ctx); continue
        o = getattr(q, name)
        if name in ('RBS', 'ZBC') and not q.lasym:
            if not (np.ndim(o) == 0 and o == 0):
                bad('object:' + name, '%s on a stellarator-symmetric object is %r, expected 0' % (name, type(o)), **ctx)
            continue
        o = np.asarray(o, float)
        if o.shape != (mpol + 1, 2 * ntor + 1):
            bad('object:' + name, '%s has shape %s, expected %s' % (name, o.shape, (mpol + 1, 2 * ntor + 1)), **ctx); continue
        if name in ('RBS', 'ZBC'):
            # a line is only written where RBC or ZBS is nonzero
            mask = (co[0] != 0) | (co[3] != 0)
            o = np.where(mask.T, o, 0.0)
        # 17 significant digits are printed: the values must survive the round trip exactly
        if not np.array_equal(o.T, a):
            bad('object:' + name, '%s of the file differs from the array left on the object by %.3g' % (name, np.max(np.abs(o.T - a))), **ctx)
    # (ii) the surface
    if surface is None:
        with np.errstate(all='ignore'):
            surface = q.Frenet_to_cylindrical(r, ntheta)[:2]
    R2, Z2 = surface
    nph = R2.shape[1]
    scale = float(np.max(np.abs(R2)))
    own = own_transform(R2, Z2, q.nfp, mpol, ntor)
    if not q.lasym:
        own = (own[0], 0 * own[1], 0 * own[2], own[3])
    n += 1
    e = max(float(np.max(np.abs(a - b))) for a, b in zip(co, own)) / scale
    stats['max_coef_err'] = max(stats.get('max_coef_err', 0.0), e)
    if e > 1e-12:
        bad('file:coefficients', 'RBC/ZBS.. of the file differ from an own discrete transform of the surface at r=%.4g by a relative %.3g (mpol=%d, ntor=%d, ntheta=%d, nphi=%d)'
            % (r, e, mpol, ntor, ntheta, nph), **ctx)
    covering = (mpol == ntheta // 2 and ntor == nph // 2)
    if covering:
        n += 1
        Ri, Zi = inverse_series(co, q.nfp, ntheta, nph)
        # dropping RBS/ZBC is exact only as far as the computed surface is stellarator symmetric (root-solve accuracy)
        e = max(np.max(np.abs(Ri - R2)), np.max(np.abs(Zi - Z2))) / scale
        stats['max_surface_err'] = max(stats.get('max_surface_err', 0.0), e)
        if e > 1e-10:
            bad('file:surface', 'the coefficients of the file, summed with m*theta - n*nfp*phi, miss the surface of Frenet_to_cylindrical(r=%.4g, ntheta=%d) by a relative %.3g'
                % (r, ntheta, e), **ctx)
        NT = min(ntor, ntorMax)
        if NT < ntor:
            # what VMEC keeps (|n| <= NTOR) can miss the surface at most by the sum of the dropped amplitudes
            n += 1
            cut = [a.copy() for a in co]
            drop = 0.0
            for a in cut:
                drop += float(np.sum(np.abs(a[:ntor - NT, :])) + np.sum(np.abs(a[ntor + NT + 1:, :])))
                a[:ntor - NT, :] = 0; a[ntor + NT + 1:, :] = 0
            Rc, Zc = inverse_series(cut, q.nfp, ntheta, nph)
            e = max(np.max(np.abs(Rc - R2)), np.max(np.abs(Zc - Z2)))
            stats['max_NTOR_truncation'] = max(stats.get('max_NTOR_truncation', 0.0), e / scale)
            if e > drop + 1e-10 * scale:
                bad('file:NTOR-truncation', 'modes with |n| <= NTOR = %d miss the surface by %.3g, more than the %.3g carried by the dropped modes' % (NT, e, drop), **ctx)
    else:
        stats['truncated_ranges'] = stats.get('truncated_ranges', 0) + 1
    return n, dict(scalars={k: v for k, v in sc.items()}, indexed=ix)


def same_content(a, b):
    if a is None or b is None:
        return 'one of the files did not parse'
    if set(a['scalars']) != set(b['scalars']):
        return 'different sets of variables: %s' % sorted(set(a['scalars']) ^ set(b['scalars']))
    for k in a['scalars']:
        if a['scalars'][k] != b['scalars'][k]:
            return '%s: %r vs %r' % (k, a['scalars'][k], b['scalars'][k])
    for k in set(a['indexed']) | set(b['indexed']):
        da, db = a['indexed'].get(k, {}), b['indexed'].get(k, {})
        if da != db:
            return '%s entries differ (%d vs %d entries)' % (k, len(da), len(db))
    return None


def call(q, fn, r, ntheta=None, params='absent', ntorMax=None):
    kw = {}
    if ntheta is not None:
        kw['ntheta'] = ntheta
    if ntorMax is not None:
        kw['ntorMax'] = ntorMax
    if params != 'absent':
        kw['params'] = params
    with np.errstate(all='ignore'):
        q.to_vmec(fn, r=r, **kw)


def r_for(q, rng):
    from oracle_C14 import r_range
    return round_sig(r_range(q) * rnd(rng, 0.15, 1.0), 4)


def predict(cfg, rng, q=None, thorough=False, sub=None, stats=None, other=None):
    """other: a second configuration (dict) used for the call-sequence clause; drawn from the sub-generator if absent"""
    out, n = [], 0
    stats = stats if stats is not None else {}
    if sub is None:
        sub = int(rng.integers(0, 2 ** 31 - 1))
    r2 = np.random.default_rng(sub)
    if q is None:
        q, _ = build(cfg)
    if other is None:
        other, _ = gen_admissible(r2, nphi=int(2 * r2.integers(7, 16) + 1))

    def bad(key, what, **kw):
        out.append(dict(key=key, what=what, cfg=jsonable(cfg), sub=sub, thorough=bool(thorough), other=jsonable(other), **kw))
    # the surface that is exported is built around the axis INTERPOLANTS: at the grid nodes they are the input axis (evaluated here from the coefficients)
    n += 1
    try:
        nf_ = max(len(cfg.get(c, [])) for c in ('rc', 'zs', 'rs', 'zc')) if isinstance(cfg, dict) and 'rc' in cfg else 0
        if nf_:
            padl = lambda l: list(l) + [0.0] * (nf_ - len(l))
            rc_, rs_, zc_, zs_ = (padl(cfg.get(c, [])) for c in ('rc', 'rs', 'zc', 'zs'))
            xs_ = np.concatenate([q.phi, q.phi[:3] + 2 * np.pi / q.nfp])
            Ra = sum(rc_[m] * np.cos(m * q.nfp * xs_) + rs_[m] * np.sin(m * q.nfp * xs_) for m in range(nf_))
            Za = sum(zc_[m] * np.cos(m * q.nfp * xs_) + zs_[m] * np.sin(m * q.nfp * xs_) for m in range(nf_))
            eax = max(float(np.max(np.abs(q.R0_func(xs_) - Ra))), float(np.max(np.abs(q.Z0_func(xs_) - Za))))
            if eax > 1e-11 * max(1.0, float(np.max(np.abs(Ra)))):
                bad('axis-interpolant', 'R0_func / Z0_func differ from the input axis at the grid nodes by %.3g: the exported surface is built around a different axis than the one written to the file' % eax)
    except Exception:
        pass
    tmp = tempfile.mkdtemp(prefix='c15_')
    try:
        r = r_for(q, r2)
        nph = q.nphi
        # 1. defaults except ntheta (odd and even), default ntorMax = 14: NTOR is capped when nphi > 29
        ntheta = int(r2.integers(5, 15))
        f1 = os.path.join(tmp, 'input.a')
        # a plotting call first (C17: read-only; it must not change what a later export writes either -- numpy print options, rcParams, scratch attributes ...)
        po_ = np.get_printoptions()
        try:
            import matplotlib.pyplot as plt_
            with np.errstate(all='ignore'):
                q.plot_axis(frenet=False, show=False)
            plt_.close('all')
        except Exception:
            pass
        call(q, f1, r, ntheta=ntheta)
        np.set_printoptions(**po_)          # (whatever the call above did to the process is undone for the rest of the harness)
        m, c1 = check_file(q, cfg, f1, r, ntheta, None, 14, bad, stats)
        n += m
        # 2. overrides: mpol / ntor not above the covering ranges, other run-time parameters, ntorMax
        ntheta2 = int(r2.integers(6, 13))
        P = {}
        if r2.random() < 0.7:
            P['mpol'] = int(r2.integers(2, ntheta2 // 2 + 1))
        if r2.random() < 0.7:
            P['ntor'] = int(r2.integers(2, nph // 2 + 1))
        if r2.random() < 0.6:
            P['delt'] = round_sig(rnd(r2, 0.3, 0.8), 2); P['nstep'] = int(r2.integers(50, 400))
        if r2.random() < 0.5:
            P['ns_array'] = [int(x) for x in sorted(r2.integers(5, 99, int(r2.integers(1, 5))))]
            P['ftol_array'] = [float(10.0 ** -int(x)) for x in r2.integers(8, 16, len(P['ns_array']))]
            P['niter_array'] = [int(x) for x in r2.integers(100, 5000, len(P['ns_array']))]
        if r2.random() < 0.3:
            P['tcon0'] = round_sig(rnd(r2, 0.5, 3.0), 2)
        ntm = int(r2.integers(3, 20))
        r_b = r_for(q, r2)
        Pin = json.loads(json.dumps(P))
        f2 = os.path.join(tmp, 'input.b')
        call(q, f2, r_b, ntheta=ntheta2, params=Pin, ntorMax=ntm)
        m, c2 = check_file(q, cfg, f2, r_b, ntheta2, P, ntm, bad, stats)
        n += m
        # 3. call sequence: another object, without params, after the call with params above; must equal the call that passes params={}
        q2, _ = build(other)
        r_c = r_for(q2, r2)
        nth3 = int(r2.integers(5, 11))
        f3, f4 = os.path.join(tmp, 'input.c'), os.path.join(tmp, 'input.d')
        call(q2, f3, r_c, ntheta=nth3)
        m, c3 = check_file(q2, other, f3, r_c, nth3, None, 14, bad, stats)
        n += m
        coefs3 = [np.copy(getattr(q2, k)) for k in ('RBC', 'ZBS')]
        call(q2, f4, r_c, ntheta=nth3, params={})
        with np.errstate(all='ignore'):
            surf = q2.Frenet_to_cylindrical(r_c, nth3)[:2]
        m, c4 = check_file(q2, other, f4, r_c, nth3, {}, 14, bad, stats, surface=surf)
        n += m + 1
        d = same_content(c3, c4)
        if d:
            bad('sequence:default-params', 'to_vmec without params after a call with params differs from the call with params={}: %s' % d, r=r_c, ntheta=nth3, previous=P)
        if not all(np.array_equal(a, getattr(q2, k)) for a, k in zip(coefs3, ('RBC', 'ZBS'))):
            bad('sequence:object-arrays', 'RBC/ZBS left on the object differ between two identical calls', r=r_c, ntheta=nth3)
        # 4. first object again, exactly as in 1.: same content as before the other calls
        f5 = os.path.join(tmp, 'input.e')
        call(q, f5, r, ntheta=ntheta)
        try:
            sc, ix, _ = parse_namelist(open(f5).read())
            c5 = dict(scalars=sc, indexed=ix)
        except NamelistError:
            c5 = None
        n += 1
        d = same_content(c1, c5)
        if d:
            bad('sequence:repeat', 'repeating the first call after calls with other objects/params gives a different file: %s' % d, r=r, ntheta=ntheta, previous=P)
        if thorough:
            # all-default call (r=0.1, ntheta=20) when 0.1 lies in the radius range, else only r is passed (positionally)
            from oracle_C14 import r_range
            f6 = os.path.join(tmp, 'input.f')
            rr = 0.1 if r_range(q) >= 0.1 else r
            with np.errstate(all='ignore'):
                if rr == 0.1:
                    q.to_vmec(f6)
                else:
                    q.to_vmec(f6, rr)
            m, _ = check_file(q, cfg, f6, rr, 20, None, 14, bad, stats)
            n += m
    finally:
        shutil.rmtree(tmp, ignore_errors=True)
    return out, n


def long_axis(cfg, rng):
    """same curve family with many tiny higher harmonics at full double precision: exercises line wrapping and the 8-digit clause"""
    c = dict(cfg)
    nh = int(rng.integers(9, 16))
    for k in ('rc', 'zs', 'rs', 'zc'):
        if k in c:
            base = list(c[k])
            c[k] = base + [float(1e-5 * rng.standard_normal() / (j + 1) ** 2) for j in range(len(base), nh)]
            if k in ('rc', 'zs'):
                c[k][1] = float(c[k][1] * (1 + 1e-3 * rng.standard_normal()))
    return c


def safe_predict(cfg, rng, *a, **kw):
    """an exception inside the implementation while a prediction is being checked is a violation with a replayable input, not a crash"""
    try:
        return predict(cfg, rng, *a, **kw)
    except Exception as e:
        import traceback
        return [dict(key='exception', what='%s raised while the predictions were being checked: %s' % (type(e).__name__, str(e)[:300]), cfg=jsonable(cfg),
                     thorough=bool(kw.get('thorough')), trace=traceback.format_exc()[-1200:])], 0


def main():
    ap = argparse.ArgumentParser()
    for a_ in ('--mode', '--hint', '--file', '--tier'):
        ap.add_argument(a_, default={'--mode': 'check', '--hint': '[]', '--tier': 'quick'}.get(a_))
    ap.add_argument('--seed', type=int, default=1); ap.add_argument('--n', type=int, default=6); ap.add_argument('--budget', type=float, default=60)
    a = ap.parse_args()
    rng = np.random.default_rng(a.seed)
    res = dict(configs=0, programs_validated=0, bindings_compared=0, max_rel_err=0.0, mismatches=[], violations=[], samples=[],
               predictions_checked=0, distribution={})
    dist, stats = {}, {}
    if a.mode == 'replay':
        f = (json.load(open(a.file)).get('failing') or {})
        if f.get('cfg'):
            res['violations'], res['predictions_checked'] = safe_predict(f['cfg'], rng, thorough=bool(f.get('thorough')), sub=f.get('sub'), other=f.get('other'))
        print(json.dumps(res, default=str)); return
    t0 = time.time(); tried = 0
    nn = a.n if a.mode == 'check' else 10 ** 6
    for c_, q_ in corpus_objects():          # distilled regression inputs first
        v, n = safe_predict(c_, rng, q_, thorough=(a.tier == 'thorough'), stats=stats)
        res['predictions_checked'] += n; res['violations'] += v; res['configs'] += 1
        dist['corpus'] = dist.get('corpus', 0) + 1
    while tried < nn and (a.mode == 'check' or (time.time() - t0 < a.budget and not res['violations'])):
        tried += 1
        sg = [(1, 1), (1, -1), (-1, 1), (-1, -1)][int(rng.integers(0, 4))]
        order = ['r1', 'r2', 'r3'][tried % 3]
        nphi = int(2 * rng.integers(7, 14) + 1) if tried % 2 else int(2 * rng.integers(14, 21) + 1)       # <= 27: NTOR not capped; >= 29: capped at 14
        try:
            cfg, q = gen_admissible(rng, order=order, asym=(tried % 2 == 0) ^ (tried % 4 == 3), qh=(tried % 3 == 0) ^ (tried % 2 == 0), signs=sg, nphi=nphi)
            if not q.lasym and tried % 8 == 1:
                c2 = single_knob_variant(cfg, rng)        # exactly one symmetry-breaking input (B2s alone, sigma0 alone, ...)
                q2, msgs = build(c2)
                if admissible(q2, msgs):
                    cfg, q = c2, q2
            if tried % 3 == 2:
                c2 = long_axis(cfg, rng)
                q2, msgs = build(c2)
                if admissible(q2, msgs):
                    cfg, q = c2, q2
        except RuntimeError:
            continue
        key = '%s/%s/%s/nfp%d/nfourier%d' % ('QH' if q.helicity else 'QA', 'asym' if q.lasym else 'sym', cfg['order'], cfg['nfp'], q.nfourier)
        dist[key] = dist.get(key, 0) + 1
        res['configs'] += 1
        v, n = safe_predict(cfg, rng, q, thorough=(a.tier == 'thorough'), stats=stats)
        res['predictions_checked'] += n; res['violations'] += v
        if len(res['samples']) < 3:
            res['samples'].append(dict(cfg=jsonable(cfg)))
    res['distribution'] = dist
    res['summary'] = 'tried %d inputs in %.0f s; %s' % (tried, time.time() - t0, ', '.join('%s=%.3g' % kv for kv in sorted(stats.items())))
    res['violations'] = res['violations'][:20]
    print(json.dumps(res, default=str))


if __name__ == '__main__':
    main()
