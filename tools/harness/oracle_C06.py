"""Numeric oracle for C06 (field-period representation independence).

The same closed curve is declared twice: with nfp = K on nphi points per field period, and with nfp = K/k (k | K, normally
K/k = 1) with the harmonics interleaved with zeros on k*nphi points.

 * k odd: the two toroidal grids coincide point for point, the trigonometric interpolants and hence the pseudospectral
   derivatives coincide, so the two objects solve THE SAME discrete problem: every scalar agrees (relative 1e-8 when the measured
   spectral tail of the solved profiles is <= 1e-2, else 1e-6: badly resolved systems are badly conditioned), every profile of the
   coarse-nfp object is the k-fold repetition of the fine-nfp one (phi, varphi: plus the field-period offsets), helicity multiplies
   by k, iota / iotaN / N_helicity are unchanged, the differentiation matrices act identically on k-fold periodic data, the
   periodic splines and B_mag agree at random angles on the whole torus (both angle conventions).  Up to two isolated branch flips
   of the (discontinuous) quartic root selection behind r_singularity_vs_varphi are tolerated and counted.
 * k even: k*nphi is even and is promoted to k*nphi+1, the grids do not coincide; the two objects are then two discretisations at
   (almost) matched resolution: outputs are compared with max(1e-8, 100 * tail), `tail` being the measured relative size of the last
   Fourier coefficients of the profiles the output is computed from (not asserted, counted as 'unresolved', when tail > 1e-6);
   extrema over grid points with the grid-offset allowance 100/nphi^2 (r_singularity: also 1.5/nphi), iota2 with 50/nphi^2, splines
   and B_mag with the cubic-spline allowance (2 pi/nphi)^4.
 * history: an existing object re-declared in place (change_nfourier / direct assignment of nfp (and nphi) / set_dofs, which
   calls calculate()) must be indistinguishable (1e-11) from a fresh object.
"""
import os, sys
for _v in ('OPENBLAS_NUM_THREADS', 'OMP_NUM_THREADS', 'MKL_NUM_THREADS'):
    os.environ.setdefault(_v, '1')          # 16 BLAS threads on ~100x100 systems are 20x slower on a loaded machine
import json, time, argparse
sys.path.insert(0, os.path.dirname(os.path.abspath(__file__)))
from common import *

TWO_PI = 2 * np.pi
# differ because the declaration differs (inputs, not outputs)
BY_CONSTRUCTION = ('nfp', 'nphi', 'nfourier', 'rc', 'zs', 'rs', 'zc')
# outputs that are maxima / minima over GRID POINTS (no interpolation): only second order on non-coinciding grids,
# r_singularity (a minimum over theta-branches, only Lipschitz in phi) first order
GRID_EXTREMA = ('grad_grad_B_inverse_scale_length', 'B20_variation', 'r_singularity')
SPLINES = ('R0_func', 'Z0_func', 'normal_R_spline', 'normal_phi_spline', 'normal_z_spline', 'binormal_R_spline', 'binormal_phi_spline',
           'binormal_z_spline', 'tangent_R_spline', 'tangent_phi_spline', 'tangent_z_spline', 'nu_spline')
# matched-resolution comparison (k even): smooth solved profiles, compared at common angles on their trigonometric interpolants
SMOOTH_PROFILES = ('R0', 'Z0', 'd_l_d_phi', 'curvature', 'torsion', 'sigma', 'X1c', 'Y1s', 'Y1c', 'elongation', 'L_grad_B', 'X20', 'X2s', 'X2c',
                   'Y20', 'Y2s', 'Y2c', 'Z20', 'Z2s', 'Z2c', 'B20', 'X3c1', 'Y3c1', 'Y3s1')
# ... and scalars that are integrals / solved values / extrema located on the trigonometric interpolant, with the profiles whose
# measured spectral tail gates them ('1' = all first-order profiles, '2' = all profiles up to the object's order)
SMOOTH_SCALARS = dict(iota='1', iotaN='1', axis_length=('d_l_d_phi',), G0=('d_l_d_phi',), abs_G0_over_B0=('d_l_d_phi',), d_l_d_varphi=('d_l_d_phi',),
                      mean_elongation=('elongation',), max_elongation=('elongation',), min_R0=('R0',), min_L_grad_B=('L_grad_B',),
                      B20_mean='2', B20_residual='2', G2='2', beta_1s='2', d2_volume_d_psi2='2', DGeod_times_r2='2', DWell_times_r2='2',
                      DMerc_times_r2='2', N_helicity=(), etabar=(), sigma0=(), B0=(), I2=(), sG=(), spsi=(), B2s=(), B2c=(), p2=(), Bbar=(),
                      min_R0_threshold=())
RSING_FAMILY = ('r_singularity_vs_varphi', 'r_singularity_basic_vs_varphi', 'inv_r_singularity_vs_varphi', 'r_singularity_theta_vs_varphi',
                'r_singularity_residual_sqnorm')


def trig_eval(y, x, period):
    """value at x of the trigonometric interpolant of uniformly spaced samples y of a function of the given period (own FFT version)"""
    y = np.asarray(y, dtype=float)
    N = len(y)
    c = np.fft.rfft(y) / N
    w = np.full(len(c), 2.0); w[0] = 1.0
    if N % 2 == 0:
        w[-1] = 1.0
    E = np.exp(1j * np.outer(np.atleast_1d(x) * (TWO_PI / period), np.arange(len(c))))
    return (E * (w * c)).real.sum(axis=1)


def spec_tail(y):
    """resolution indicator: largest of the last three Fourier coefficients relative to the largest coefficient"""
    s = np.abs(np.fft.rfft(np.asarray(y, dtype=float)))
    if len(s) < 6:
        return 1.0
    s[0] = max(s[0], 0.0)
    top = s.max()
    if top == 0:
        return 0.0
    # a constant profile has only round-off in its harmonics
    if s[1:].max() <= 1e-13 * top:
        return 0.0
    return float(s[-3:].max() / s[1:].max())


# extrema located on the trigonometric interpolant by util.fourier_minimum: output -> (profile, +1 maximum / -1 minimum)
EXTREMA = dict(min_R0=('R0', -1), min_L_grad_B=('L_grad_B', -1), max_elongation=('elongation', 1))
_cache = {}


def _dense(q, name):
    key = (id(q), name)
    if key not in _cache:
        prof, sign = EXTREMA[name]
        y = sign * np.asarray(getattr(q, prof), dtype=float)
        per = TWO_PI / q.nfp
        xd = np.arange(4096) * (per / 4096)
        f = trig_eval(y, xd, per)
        loc = np.where((f >= np.roll(f, 1)) & (f > np.roll(f, -1)))[0]
        tops = np.sort(f[loc])[::-1]
        rivals = tops[tops < tops[0] - 1e-9 * float(np.max(np.abs(f)))]          # equal values: symmetric partners, either one will do
        gap = float(tops[0] - rivals[0]) if len(rivals) else float('inf')
        _cache[key] = (gap, float(np.max(np.abs(fft_derivative(y, per, 2)))))
    return _cache[key]


def extremum_gap(q, name):
    """difference between the best and the second best local extremum of the (finest) trigonometric interpolant"""
    return _dense(q, name)[0]


def extremum_curv(q, name):
    return _dense(q, name)[1]


def fft_derivative(y, period, order=1):
    y = np.asarray(y, dtype=float)
    N = len(y)
    k = np.fft.rfftfreq(N, d=1.0 / N) * (TWO_PI / period)
    c = np.fft.rfft(y) * (1j * k) ** order
    if N % 2 == 0 and order % 2 == 1:
        c[-1] = 0
    return np.fft.irfft(c, N)


def replicated(cfg, k, nphi=None):
    """the same curve declared with nfp/k field periods: harmonic m -> m*k, k times the toroidal resolution"""
    assert cfg['nfp'] % k == 0
    d = dict(cfg)
    for c in ('rc', 'zs', 'rs', 'zc'):
        if c in cfg:
            new = [0.0] * ((len(cfg[c]) - 1) * k + 1)
            for m, v in enumerate(cfg[c]):
                new[m * k] = v
            d[c] = new
    d['nfp'] = cfg['nfp'] // k
    d['nphi'] = (nphi if nphi is not None else cfg['nphi']) * k
    return d


def all_attrs(q):
    f = flat_attrs(q)
    t = getattr(q, 'grad_B_tensor', None)
    if t is not None:
        for kk, v in t.__dict__.items():
            a = np.asarray(v, dtype=float)
            if a.shape == (q.nphi,) or a.ndim == 0:
                f['grad_B_tensor.' + kk] = a
    return f


def close(a, b, rtol, atol=0.0):
    a, b = np.asarray(a, dtype=float), np.asarray(b, dtype=float)
    if a.shape != b.shape:
        return False, float('inf')
    same = (a == b) | (np.isnan(a) & np.isnan(b))
    with np.errstate(all='ignore'):
        d = np.where(same, 0.0, np.abs(a - b))
    if d.size == 0:
        return True, 0.0
    sc = max(float(np.max(np.abs(np.where(np.isfinite(a) & (np.abs(a) < 1e50), a, 0.0)))), 1e-300)
    e = float(np.max(d))
    if not np.isfinite(e):
        return False, float('inf')
    return e <= rtol * sc + atol, e / sc


def compare_exact(qk, q1, k, bad, tag, stats, rtol=1e-8):
    """k odd: coinciding grids, one and the same discrete problem. returns number of predictions checked"""
    n = 0
    fk, f1 = all_attrs(qk), all_attrs(q1)
    nk = qk.nphi
    off = np.repeat(np.arange(k), nk) * (TWO_PI / qk.nfp)
    for name in sorted(set(fk) ^ set(f1)):
        bad(tag + ':attrs', 'attribute %s exists in only one of the two declarations' % name)
    # the quartic root selection behind r_singularity is discontinuous in its data: a round-off level difference can select another
    # branch at an isolated grid point.  Up to two such points are tolerated (then the scalar minimum is not compared either).
    flips = 0
    if 'r_singularity_vs_varphi' in fk and 'r_singularity_vs_varphi' in f1 and f1['r_singularity_vs_varphi'].shape == (k * nk,):
        a, b = np.tile(fk['r_singularity_vs_varphi'], k), f1['r_singularity_vs_varphi']
        with np.errstate(all='ignore'):
            badpts = np.where(~((a == b) | (np.abs(a - b) <= rtol * np.maximum(np.abs(a), np.abs(b)))))[0]
            flips = len(set(int(j_) % nk for j_ in badpts))          # distinct PHYSICAL positions: each of the k copies of a tie can resolve either way
        if 0 < flips <= 2:
            stats['rsing_branch_flips'] = stats.get('rsing_branch_flips', 0) + 1
    for name, a in fk.items():
        if name in BY_CONSTRUCTION or name not in f1:
            continue
        if 0 < flips <= 2 and (name in RSING_FAMILY or name == 'r_singularity'):
            continue
        b = f1[name]
        n += 1
        if a.ndim == 0:
            if name == 'helicity':
                if float(b) != k * float(a):
                    bad(tag + ':helicity', 'helicity %g (nfp=%d) vs %g (nfp=%d): helicity*nfp is not invariant' % (a, qk.nfp, b, q1.nfp))
                continue
            ok, e = close(a, b, rtol, 1e-13 if name in ('iota', 'iotaN') else 0.0)
            if not ok:
                bad(tag + ':scalar:' + name, '%s = %.12g declared with nfp=%d but %.12g declared with nfp=%d (relative difference %.3g, nphi=%d/%d)'
                    % (name, a, qk.nfp, b, q1.nfp, e, nk, q1.nphi), name=name, values=[float(a), float(b)])
        elif a.shape == (nk,) and b.shape == (k * nk,):
            want = np.tile(a, k)
            if name in ('phi', 'varphi'):
                want = want + off
            ok, e = close(want, b, rtol, 1e-12)
            if not ok:
                bad(tag + ':profile:' + name, 'profile %s of the nfp=%d declaration is not the %d-fold repetition of the nfp=%d profile (relative difference %.3g)'
                    % (name, q1.nfp, k, qk.nfp, e), name=name)
        elif a.shape == b.shape:
            ok, e = close(a, b, rtol, 1e-12)
            if not ok:
                bad(tag + ':array:' + name, 'array %s differs between the declarations (relative %.3g)' % (name, e), name=name)
        else:
            bad(tag + ':shape:' + name, 'attribute %s has shapes %s and %s' % (name, a.shape, b.shape), name=name)
    return n


def compare_matrices(qk, q1, k, rng, bad, tag):
    """the differentiation matrices act identically on k-fold periodic data"""
    n = 0
    nk = qk.nphi
    v = np.cos(qk.nfp * qk.phi * int(rng.integers(1, 4)) + rnd(rng, 0, 6)) + rnd(rng, -1, 1) * np.sin(qk.nfp * qk.phi) + rng.standard_normal(nk) * 0.1
    for name in ('d_d_phi', 'd_d_varphi'):
        n += 1
        a = getattr(qk, name) @ v
        b = getattr(q1, name) @ np.tile(v, k)
        ok, e = close(np.tile(a, k), b, 1e-9)
        if not ok:
            bad(tag + ':matrix:' + name, '%s of the nfp=%d declaration applied to %d-fold periodic data differs from the nfp=%d matrix applied to one period (relative %.3g)'
                % (name, q1.nfp, k, qk.nfp, e))
    return n


def compare_splines(qk, q1, rng, bad, tag, tol=1e-9):
    n = 0
    x = rng.random(24) * TWO_PI
    for name in SPLINES:
        n += 1
        a, b = getattr(qk, name)(x), getattr(q1, name)(x)
        ok, e = close(a, b, tol, tol)
        if not ok:
            bad(tag + ':spline:' + name, '%s evaluated at angles on the whole torus differs between the declarations (relative %.3g)' % (name, e))
    return n


def compare_Bmag(qk, q1, rng, bad, tag, tol=1e-9):
    n = 0
    m = 16
    sing = getattr(qk, 'r_singularity', 0.3)
    rmax = 0.1 if not np.isfinite(sing) or sing > 1e10 else min(0.1, 0.5 * sing)
    r = rng.random(m) * rmax
    th = rng.random(m) * TWO_PI
    ph = TWO_PI / qk.nfp + rng.random(m) * (TWO_PI - TWO_PI / qk.nfp)      # beyond the first field period
    for boozer in (False, True):
        n += 1
        with np.errstate(all='ignore'):
            a = np.array([qk.B_mag(r[i], th[i], ph[i], Boozer_toroidal=boozer) for i in range(m)], dtype=float)
            b = np.array([q1.B_mag(r[i], th[i], ph[i], Boozer_toroidal=boozer) for i in range(m)], dtype=float)
            av = np.asarray(qk.B_mag(r, th, ph, Boozer_toroidal=boozer), dtype=float)
        ok, e = close(a - qk.B0, b - qk.B0, tol, tol * qk.B0 * 1e-3)
        if not ok:
            bad(tag + ':B_mag:' + ('boozer' if boozer else 'cylindrical'),
                'B_mag(r,theta,phi%s) - B0 beyond the first field period differs between the nfp=%d and nfp=%d declarations (relative %.3g)'
                % (', Boozer_toroidal=True' if boozer else '', qk.nfp, q1.nfp, e), points=[r.tolist(), th.tolist(), ph.tolist()])
        ok, e = close(a, av, 1e-12)
        if not ok:
            bad(tag + ':B_mag:vectorised', 'B_mag with array arguments differs from point-wise calls (relative %.3g)' % e)
    return n


P1 = ('curvature', 'torsion', 'sigma', 'd_l_d_phi', 'X1c', 'Y1c')
P2 = ('X20', 'X2s', 'X2c', 'Y20', 'Y2s', 'Y2c', 'Z20', 'Z2s', 'Z2c', 'B20')
P3 = ('X3c1', 'Y3c1', 'Y3s1')


def resolution(q):
    """measured resolution indicators: (first-order profiles, all profiles up to the object's order)"""
    t1 = max(spec_tail(getattr(q, p)) for p in P1)
    t2 = t1
    if q.order != 'r1':
        t2 = max([t1] + [spec_tail(getattr(q, p)) for p in P2])
        if q.order == 'r3':
            t2 = max([t2] + [spec_tail(getattr(q, p)) for p in P3])
    return t1, t2


def compare_matched(qk, q1, k, rng, bad, tag, stats):
    """k even: non-coinciding grids of (almost) equal resolution; every tolerance follows a measured spectral tail"""
    n = 0
    _cache.clear()
    t1, t2 = (max(u, v) for u, v in zip(resolution(qk), resolution(q1)))
    nk = qk.nphi
    n += 1
    if float(q1.helicity) != k * float(qk.helicity):
        bad(tag + ':helicity', 'helicity %g (nfp=%d) vs %g (nfp=%d): helicity*nfp is not invariant' % (qk.helicity, qk.nfp, q1.helicity, q1.nfp))
    x = rng.random(12) * (TWO_PI / qk.nfp)
    shift = int(rng.integers(0, k)) * (TWO_PI / qk.nfp)          # compare against another field period of the coarse-nfp object

    def skip():
        stats['unresolved'] = stats.get('unresolved', 0) + 1
    for name, src in SMOOTH_SCALARS.items():
        if not hasattr(qk, name):
            continue
        t = t1 if src == '1' else t2 if src == '2' else max([0.0] + [max(spec_tail(getattr(qk, p)), spec_tail(getattr(q1, p))) for p in src])
        if t > 1e-6:
            skip(); continue
        tol = max(1e-8, 100 * t)
        if name in EXTREMA and extremum_gap(q1, name) <= 2.5 * (TWO_PI / qk.nfp / nk) ** 2 / 8 * extremum_curv(q1, name):
            # fourier_minimum refines the extremum next to the discrete arg-extremum only: two competing local extrema closer in value than
            # the sampling error of the grid can be told apart differently by two different grids
            stats['ambiguous_extremum'] = stats.get('ambiguous_extremum', 0) + 1
            continue
        a, b = float(getattr(qk, name)), float(getattr(q1, name))
        n += 1
        ok, e = close(a, b, tol, 1e-13)
        if not ok:
            bad(tag + ':scalar:' + name, '%s = %.12g (nfp=%d, nphi=%d) but %.12g (nfp=%d, nphi=%d): relative difference %.3g with the spectrum of its source profiles resolved to %.1g'
                % (name, a, qk.nfp, nk, b, q1.nfp, q1.nphi, e, t), name=name, values=[a, b])
    for name in SMOOTH_PROFILES:
        if not hasattr(qk, name):
            continue
        a, b = np.asarray(getattr(qk, name), dtype=float), np.asarray(getattr(q1, name), dtype=float)
        t = max(spec_tail(a), spec_tail(b), t1 if name in P1 else 0.0)
        if t > 1e-6:
            skip(); continue
        tol = max(1e-8, 100 * t)
        n += 1
        va = trig_eval(a, x, TWO_PI / qk.nfp)
        vb = trig_eval(b, x + shift, TWO_PI / q1.nfp)
        e = float(np.max(np.abs(va - vb)) / max(np.max(np.abs(a)), 1e-300))
        if not e <= tol:
            bad(tag + ':profile:' + name, 'profile %s differs between the nfp=%d (nphi=%d) and nfp=%d (nphi=%d) declarations at common angles by a relative %.3g (spectrum resolved to %.1g)'
                % (name, qk.nfp, nk, q1.nfp, q1.nphi, e, t), name=name)
    if qk.order != 'r1':
        if t2 > 1e-6:
            skip()
        else:
            for name in GRID_EXTREMA + (('iota2',) if hasattr(qk, 'iota2') and hasattr(q1, 'iota2') else ()):
                n += 1
                a, b = float(getattr(qk, name)), float(getattr(q1, name))
                # extremum over grid points of a smooth profile: O(h^2) (measured <= 22/nphi^2); r_singularity is a minimum over
                # theta-branches, only Lipschitz in phi: O(h) (measured <= 0.4/nphi); iota2: second order (as in the C19 oracle)
                tol = 100.0 / nk ** 2 if name != 'iota2' else 50.0 / nk ** 2
                if name == 'r_singularity':
                    tol = max(tol, 1.5 / nk)
                if not abs(a - b) <= tol * max(abs(a), 1e-300):
                    bad(tag + ':grid-extremum:' + name, '%s = %.9g (nfp=%d, nphi=%d) but %.9g (nfp=%d, nphi=%d): more than the grid-offset allowance %.3g'
                        % (name, a, qk.nfp, nk, b, q1.nfp, q1.nphi, tol), name=name, values=[a, b])
    return n, t2


def dofs_of(cfg, nfourier):
    pad = lambda l: list(l) + [0.0] * (nfourier - len(l))
    return np.array(pad(cfg['rc']) + pad(cfg['zs']) + pad(cfg.get('rs', [])) + pad(cfg.get('zc', []))
                    + [cfg.get('etabar', 1.0), cfg.get('sigma0', 0.0), cfg.get('B2s', 0.0), cfg.get('B2c', 0.0), cfg.get('p2', 0.0), cfg.get('I2', 0.0), cfg.get('B0', 1.0)])


def history(cfg, c1, q1, bad, tag):
    """re-declare an existing nfp=K object in place as the nfp=K/k declaration c1; compare with the fresh object q1"""
    n = 0
    for variant in ('nfp', 'nfp+nphi'):
        start = dict(cfg)
        if variant == 'nfp':
            start['nphi'] = q1.nphi          # only nfp and the axis are re-declared
        with np.errstate(all='ignore'):
            q, _ = build(start)
            nf = q1.nfourier
            q.change_nfourier(nf)            # growing: no recalculation
            q.nfp = c1['nfp']
            if variant != 'nfp':
                q.nphi = q1.nphi
            import logging as _l
            lg = _l.getLogger('qsc'); old = lg.level; lg.setLevel(_l.ERROR)
            try:
                q.set_dofs(dofs_of(c1, nf))  # calls calculate()
                if hasattr(q1, 'iota2'):
                    q.calculate_shear()
            finally:
                lg.setLevel(old)
        fa, fb = all_attrs(q), all_attrs(q1)
        n += 1
        if set(fa) != set(fb):
            bad(tag + ':history:attrs', 'after re-declaring in place (%s) the attribute sets differ: %s' % (variant, sorted(set(fa) ^ set(fb))[:6]))
        worst, wname = 0.0, None
        for name in fa:
            if name in fb:
                ok, e = close(fb[name], fa[name], 1e-11, 1e-13)
                if not ok and e > worst:
                    worst, wname = e, name
        if wname:
            bad(tag + ':history:' + variant, 'object re-declared in place (%s assigned, change_nfourier, set_dofs) differs from a fresh object: %s by a relative %.3g'
                % (variant, wname, worst), name=wname)
        for name in ('lasym', 'order'):
            if getattr(q, name) != getattr(q1, name):
                bad(tag + ':history:' + name, '%s differs after re-declaring in place' % name)
    return n


def predict(cfg, rng, q=None, thorough=False, sub=None, stats=None):
    out, n = [], 0
    stats = stats if stats is not None else {}
    if sub is None:
        sub = int(rng.integers(0, 2 ** 31 - 1))
    r2 = np.random.default_rng(sub)
    if q is None:
        q, _ = build(cfg, shear=True)
    K = cfg['nfp']
    cfg = dict(cfg); cfg['nphi'] = q.nphi

    def bad(key, what, **kw):
        out.append(dict(key=key, what=what, cfg=jsonable(cfg), sub=sub, thorough=bool(thorough), **kw))
    ks = [K] if K > 1 else []
    if thorough and K == 4:
        ks.append(2)                         # nfp=4 -> nfp=2 (matched resolution)
    for k in ks:
        c1 = replicated(cfg, k)
        tag = 'nfp%d->%d' % (K, K // k)
        try:
            q1, msgs = build(c1, shear=True)
        except Exception as e:
            bad(tag + ':build', 'the nfp=%d declaration of the same curve fails: %r' % (K // k, e)); n += 1
            continue
        if k % 2 == 1:
            # one discrete problem: no continuum statement involved.  On unresolved inputs the linear systems are badly conditioned
            # (measured up to 1.5e-8 at nphi=11), so 1e-8 is asserted on resolved inputs and 1e-6 otherwise.
            t1, t2 = resolution(q)
            resolved = t2 <= 1e-2
            stats['exact' if resolved else 'exact_unresolved'] = stats.get('exact' if resolved else 'exact_unresolved', 0) + 1
            n += compare_exact(q, q1, k, bad, tag, stats, rtol=1e-8 if resolved else 1e-6)
            n += compare_matrices(q, q1, k, r2, bad, tag)
            n += compare_splines(q, q1, r2, bad, tag, tol=1e-9 if resolved else 1e-6)
            n += compare_Bmag(q, q1, r2, bad, tag, tol=1e-8 if resolved else 1e-6)
            n += compare_toRZ(q, q1, r2, bad, tag, tol=1e-8 if resolved else 1e-6)
            if thorough and not resolved and q.nphi <= 61:
                # once more at twice the resolution, where the 1e-8 clause is more likely to apply
                cf = dict(cfg, nphi=2 * q.nphi + 1)
                try:
                    qa, _ = build(cf, shear=True); qb, _ = build(replicated(cf, k), shear=True)
                except Exception as e:
                    bad(tag + ':build', 'building at nphi=%d fails: %r' % (cf['nphi'], e)); n += 1
                    continue
                res2 = resolution(qa)[1] <= 1e-2
                stats['exact_fine' if res2 else 'exact_fine_unresolved'] = stats.get('exact_fine' if res2 else 'exact_fine_unresolved', 0) + 1
                sub_bad = lambda key, what, **kw: bad(key, what + ' [at nphi=%d]' % cf['nphi'], nphi=cf['nphi'], **kw)
                n += compare_exact(qa, qb, k, sub_bad, tag, stats, rtol=1e-8 if res2 else 1e-6)
        else:
            stats['matched'] = stats.get('matched', 0) + 1
            m, t2 = compare_matched(q, q1, k, r2, bad, tag, stats)
            n += m
            if t2 <= 1e-6:
                # cubic splines on two different grids: each carries its own O(h^4) interpolation error
                tol = max(1e-8, 1.0 * (TWO_PI / q.nphi) ** 4)       # measured <= 0.06 (2 pi / nphi)^4
                n += compare_splines(q, q1, r2, bad, tag, tol=tol)
                n += compare_Bmag(q, q1, r2, bad, tag, tol=tol)
            else:
                stats['unresolved'] = stats.get('unresolved', 0) + 2
        if k == K:
            n += history(cfg, c1, q1, bad, tag)
    return out, n


def compare_toRZ(qk, q1, rng, bad, tag, tol=1e-8):
    """the point-wise converter of the two declarations returns the same (R, Z, phi) for the same (r, theta, phi0), in and beyond the first field period"""
    per = TWO_PI / qk.nfp
    pts = [[0.03, float(rng.random() * 6.28), float(rng.random() * per)], [0.03, 2.1, float(per + 0.3 * rng.random() * per)],
           [0.02, 4.0, float(TWO_PI - 0.4 * rng.random() * per)]]
    try:
        A = np.array(qk.to_RZ(pts), dtype=float); B = np.array(q1.to_RZ(pts), dtype=float)
    except Exception as e:
        bad(tag + ':to_RZ', 'to_RZ raised %s' % type(e).__name__); return 1
    sc = max(float(np.max(np.abs(B[0]))), 1e-300)
    err = max(float(np.max(np.abs(A[0] - B[0]))) / sc, float(np.max(np.abs(A[1] - B[1]))) / sc, float(np.max(np.abs(A[2] - B[2]))))
    if not err <= tol:
        bad(tag + ':to_RZ', 'to_RZ of the two declarations differs by %.3g for the same (r, theta, phi0) (R, Z relative to R; phi absolute): phi %s vs %s' % (err, list(np.round(A[2], 6)), list(np.round(B[2], 6))))
    return 1


def compare_vmec(bad):
    """fixed scenario: the VMEC export of an nfp=3 declaration and, IN THE SAME PROCESS afterwards, of its nfp=1 twin describe the same surface:
    mode (m, n) of the former is mode (m, 3 n) of the latter and the twin has no other toroidal mode (nothing may be carried from one export to the next)"""
    import tempfile, shutil
    cfg = dict(rc=[1.0, 0.045], zs=[0.0, -0.045], nfp=3, etabar=-0.9, order='r1', nphi=9, sG=1, spsi=1, B0=1.0, sigma0=0.0, I2=0.0)
    n = 0
    tmp = tempfile.mkdtemp(prefix='c06vmec')
    try:
        qk, _ = build(cfg); q1, _ = build(replicated(cfg, 3))
        with np.errstate(all='ignore'):
            qk.to_vmec(os.path.join(tmp, 'input.k'), r=0.05, ntheta=6)
            q1.to_vmec(os.path.join(tmp, 'input.1'), r=0.05, ntheta=6)
        for name in ('RBC', 'ZBS'):
            A, B = np.asarray(getattr(qk, name)), np.asarray(getattr(q1, name))      # [m, n + ntor]
            ntk, nt1 = (A.shape[1] - 1) // 2, (B.shape[1] - 1) // 2
            n += 1
            if nt1 < 3 * ntk:
                bad('vmec:' + name, 'to_vmec of the nfp=1 twin (nphi=%d) holds toroidal modes up to %d only, the nfp=3 declaration (nphi=%d) up to 3 x %d' % (q1.nphi, nt1, qk.nphi, ntk))
                continue
            sc = max(float(np.max(np.abs(A))), 1e-300)
            want = np.zeros_like(B)
            for nn in range(-ntk, ntk + 1):
                want[:, 3 * nn + nt1] = A[:, nn + ntk]
            err = float(np.max(np.abs(B - want))) / sc
            if not err <= 1e-7:
                bad('vmec:' + name, 'to_vmec: %s of the nfp=1 twin differs from the re-indexed %s of the nfp=3 declaration by %.3g (relative)' % (name, name, err))
        # the boundary returned for plotting: with mode ranges that cover the surface grid of each declaration exactly, both are the trigonometric interpolant of
        # the same surface data at the same physical points, so they agree at EVERY output resolution (here 11 toroidal points: (11 - 1) % 3 != 0)
        with np.errstate(all='ignore'):
            Bk = qk.get_boundary(r=0.05, ntheta=6, nphi=11, ntheta_fourier=6, mpol=3, ntor=(qk.nphi - 1) // 2)
            B1 = q1.get_boundary(r=0.05, ntheta=6, nphi=11, ntheta_fourier=6, mpol=3, ntor=(q1.nphi - 1) // 2)
        n += 1
        errb = max(float(np.max(np.abs(np.asarray(a_) - np.asarray(b_)))) for a_, b_ in zip(Bk, B1))
        if not errb <= 1e-8:
            bad('boundary', 'get_boundary of the nfp=3 declaration and of its nfp=1 twin differ by %.3g at 11 toroidal output points' % errb)
    except Exception as e:
        bad('vmec:raise', 'to_vmec / get_boundary on the two declarations raised %s: %s' % (type(e).__name__, str(e)[:200])); n += 1
    finally:
        shutil.rmtree(tmp, ignore_errors=True)
    return n


def gen_for(rng, want_nfp, order, asym, signs, nphi):
    for _ in range(80):
        cfg, q = gen_admissible(rng, order=order, asym=asym, qh=(True if want_nfp >= 4 else (False if want_nfp <= 2 else None)), signs=signs, nphi=nphi, shear=True)
        if cfg['nfp'] == want_nfp:
            return cfg, q
    raise RuntimeError('no admissible configuration with nfp=%d' % want_nfp)


def safe_predict(cfg, rng, *a, **kw):
    """an exception inside the implementation while a prediction is being checked is a violation with a replayable input, not a crash"""
    try:
        return predict(cfg, rng, *a, **kw)
    except Exception as e:
        import traceback
        return [dict(key='exception', what='%s raised while the predictions were being checked: %s' % (type(e).__name__, str(e)[:300]), cfg=jsonable(cfg),
                     thorough=bool(kw.get('thorough')), trace=traceback.format_exc()[-1200:])], 0


def main():
    ap = argparse.ArgumentParser()
    for a_ in ('--mode', '--hint', '--file', '--tier'):
        ap.add_argument(a_, default={'--mode': 'check', '--hint': '[]', '--tier': 'quick'}.get(a_))
    ap.add_argument('--seed', type=int, default=1); ap.add_argument('--n', type=int, default=6); ap.add_argument('--budget', type=float, default=60)
    a = ap.parse_args()
    rng = np.random.default_rng(a.seed)
    res = dict(configs=0, programs_validated=0, bindings_compared=0, max_rel_err=0.0, mismatches=[], violations=[], samples=[],
               predictions_checked=0, distribution={})
    dist, stats = {}, {}
    if a.mode == 'replay':
        f = (json.load(open(a.file)).get('failing') or {})
        if f.get('fixed') == 'vmec-twin':
            vv = []
            res['predictions_checked'] = compare_vmec(lambda key, what, **kw: vv.append(dict(key=key, what=what, fixed='vmec-twin', **kw)))
            res['violations'] = vv
        elif f.get('cfg'):
            res['violations'], res['predictions_checked'] = safe_predict(f['cfg'], rng, thorough=bool(f.get('thorough')), sub=f.get('sub'))
        print(json.dumps(res, default=str)); return
    t0 = time.time(); tried = 0
    nn = a.n if a.mode == 'check' else 10 ** 6
    vv = []
    res['predictions_checked'] += compare_vmec(lambda key, what, **kw: vv.append(dict(key=key, what=what, fixed='vmec-twin', **kw)))
    res['violations'] += vv; res['configs'] += 1; dist['fixed:vmec-twin'] = 1
    plan = [3, 2, 5, 3, 4, 3]          # declared nfp of the fine declaration; 3, 5: coinciding grids, 2, 4: matched resolution
    while tried < nn and (a.mode == 'check' or (time.time() - t0 < a.budget and not res['violations'])):
        K = plan[tried % len(plan)]
        tried += 1
        sg = [(1, 1), (1, -1), (-1, 1), (-1, -1)][int(rng.integers(0, 4))]
        order = ['r1', 'r2', 'r3', 'r3'][int(rng.integers(0, 4))]
        asym = bool(rng.integers(0, 2))
        if K % 2 == 1:
            nphi = int(2 * rng.integers(10, 31) + 1) if K == 3 else int(2 * rng.integers(10, 26) + 1)      # k*nphi <= 255
        else:
            nphi = int(2 * rng.integers(22, 38) + 1) if K == 2 else int(2 * rng.integers(20, 41) + 1)      # k*nphi+1 <= 325
        try:
            cfg, q = gen_for(rng, K, order, asym, sg, nphi)
        except RuntimeError:
            continue
        key = '%s/%s/%s/nfp%d/sG%+d/spsi%+d' % ('QH' if q.helicity else 'QA', 'asym' if q.lasym else 'sym', cfg['order'], K, cfg['sG'], cfg['spsi'])
        dist[key] = dist.get(key, 0) + 1
        res['configs'] += 1
        v, n = safe_predict(cfg, rng, q, thorough=(a.tier == 'thorough'), stats=stats)
        res['predictions_checked'] += n; res['violations'] += v
        if len(res['samples']) < 3:
            res['samples'].append(dict(cfg=jsonable(cfg), iota=float(q.iota), helicity=float(q.helicity)))
    res['distribution'] = dist
    res['summary'] = 'tried %d inputs in %.0f s; %s' % (tried, time.time() - t0, ', '.join('%s=%d' % kv for kv in sorted(stats.items())))
    res['violations'] = res['violations'][:20]
    print(json.dumps(res, default=str))


if __name__ == '__main__':
    main()
