"""Numeric oracle and correspondence for C08 (dimensional scaling).
modes:  check  -- translator validation + prediction correspondence on generated inputs
        search -- look for an input on which the implementation violates the scaling law
        replay -- re-run one recorded case"""
import sys, os, json, time, argparse
sys.path.insert(0, os.path.dirname(os.path.abspath(__file__)))
from common import *
import transval

DIMS = json.load(open(os.path.join(ROOT, 'tables', 'dims.json')))['dims']
SKIP = {'nphi', 'nfourier', 'min_R0_threshold', 'd_d_phi', 'd_d_varphi'}
THRESHOLDED = ('r_singularity', 'inv_r_singularity')  # absolute float thresholds inside: modelled, not verified


CIRCULAR_ONLY = {'min_R0', 'R0', 'axis_length', 'G0', 'curvature', 'd_l_d_phi', 'd_l_d_varphi', 'abs_G0_over_B0', 'X1c', 'Y1s', 'elongation', 'max_elongation', 'mean_elongation',
                 'L_grad_B', 'min_L_grad_B', 'inv_L_grad_B', 'mean_of_R', 'rms_curvature', 'Bbar', 'B0', 'etabar', 'varphi', 'd_varphi_d_phi'}


def scaled_cfg(cfg, lam, c):
    d = dict(cfg)
    for k in ('rc', 'zs', 'rs', 'zc'):
        if k in d:
            d[k] = [x * lam for x in cfg[k]]
    d['etabar'] = cfg['etabar'] / lam
    d['I2'] = cfg.get('I2', 0.0) / lam * c
    d['B0'] = cfg.get('B0', 1.0) * c
    for k in ('B2c', 'B2s'):
        if k in d:
            d[k] = cfg[k] / lam ** 2 * c
    if 'p2' in d:
        d['p2'] = cfg['p2'] / lam ** 2 * c ** 2
    return d


def predict(cfg, lam, c, tol=1e-6, include_thresholded=False, q0=None, only=None):
    """violations of the scaling law on one input: list of dicts (q0: the original object, possibly reached through a history)"""
    if q0 is None:
        q0, m0 = build(cfg, shear=True)
    elif cfg.get('order') == 'r3' and not hasattr(q0, 'iota2'):
        q0.calculate_shear()
    q1, m1 = build(scaled_cfg(cfg, lam, c), shear=True)
    a0, a1 = flat_attrs(q0), flat_attrs(q1)
    out, checked = [], 0
    for k, v in a0.items():
        if k in SKIP or k not in DIMS or (only is not None and k not in only):
            continue
        if k.startswith(THRESHOLDED) and not include_thresholded:
            continue
        if k not in a1 or a1[k].shape != v.shape:
            out.append(dict(key=k, what='attribute missing or reshaped after scaling'))
            continue
        eL, eB = DIMS[k][0] / 4.0, DIMS[k][1] / 4.0
        want = v * (lam ** eL) * (c ** eB)
        scale = max(float(np.max(np.abs(want))) if want.size else 0.0, 1e-300)
        if not np.all(np.isfinite(want)) or not np.all(np.isfinite(a1[k])):
            continue
        err = float(np.max(np.abs(a1[k] - want))) / scale if want.size else 0.0
        checked += 1
        if err > tol and scale > 1e-200:
            out.append(dict(key=k, what='%s scales by %.6g, dimension requires lambda^%g c^%g' % (k, float(np.max(np.abs(a1[k]))) / max(float(np.max(np.abs(v))), 1e-300), eL, eB),
                            rel_err=err, cfg=jsonable(cfg), lam=lam, c=c))
    return out, checked


def main():
    ap = argparse.ArgumentParser()
    ap.add_argument('--mode', default='check')
    ap.add_argument('--seed', type=int, default=1)
    ap.add_argument('--n', type=int, default=6)
    ap.add_argument('--tier', default='quick')
    ap.add_argument('--budget', type=float, default=60)
    ap.add_argument('--hint', default='[]')
    ap.add_argument('--file')
    a = ap.parse_args()
    rng = np.random.default_rng(a.seed)
    res = dict(configs=0, programs_validated=0, bindings_compared=0, max_rel_err=0.0, mismatches=[], violations=[],
               samples=[], predictions_checked=0, distribution={})
    if a.mode == 'replay':
        rep = json.load(open(a.file))
        f = rep.get('failing') or {}
        if f.get('cfg'):
            v, n = predict(f['cfg'], f['lam'], f['c'], include_thresholded=True)
            res['violations'] = v
            res['predictions_checked'] = n
        print(json.dumps(res, default=str))
        return
    t0 = time.time()
    dist = {}
    def note(cfg, q):
        key = '%s/%s/%s' % (cfg['order'], 'QH' if q.helicity != 0 else 'QA', 'asym' if q.lasym else 'sym')
        dist[key] = dist.get(key, 0) + 1
    # distilled inputs first: a well-converged axis whose last harmonics are of the order of 1e-13, and the shared corpus, under moderate AND extreme changes of
    # unit (an absolute tolerance anywhere in the construction is crossed by one of them; the pinned tree obeys the law to 1e-6 for all of these)
    fixed = [dict(rc=[1.0] + [0.6 * 0.07 ** k for k in range(1, 12)], zs=[0.0] + [0.55 * 0.07 ** k for k in range(1, 12)], nfp=3, etabar=0.9, order='r2',
                  B2c=0.3, p2=-2.0e4, I2=0.1, B0=1.1, nphi=31),
             dict(rc=[1.6], zs=[0.0], nfp=1, etabar=0.9, order='r1', nphi=15)] + [c_ for c_, _ in corpus_objects(histories=False)]      # (second: a circular axis, every profile constant)
    for cfg in fixed:
        if res['violations'] or (a.mode == 'search' and time.time() - t0 > a.budget / 2):
            break
        for lam, c in ((1e-4, 1.0), (1.0, 1e5), (3e3, 1e-3), (0.2, 1.0)):
            try:
                # (circular axis: every toroidal derivative is round-off noise around zero, so only the profiles and scalars that do not vanish are compared)
                v, n = predict(cfg, lam, c, only=CIRCULAR_ONLY if len(cfg['rc']) == 1 else None)
            except Exception:
                continue
            res['predictions_checked'] += n
            res['violations'] += v
            dist['corpus'] = dist.get('corpus', 0) + 1
            if v:
                break
    if a.mode == 'check':
        orders = ['r1', 'r2', 'r3']
        for i in range(a.n):
            cfg, q = gen_admissible(rng, order=orders[i % 3] if i < 3 else None, shear=True)
            note(cfg, q)
            tv = transval.validate(q, rng)
            res['configs'] += 1
            res['programs_validated'] += tv['programs']
            res['bindings_compared'] += tv['bindings'] + tv['equations']
            res['max_rel_err'] = max(res['max_rel_err'], tv['max_rel_err'])
            res['mismatches'] += tv['mismatches']
            lam, c = round_sig(float(np.exp(rnd(rng, np.log(0.2), np.log(5)))), 3), round_sig(float(np.exp(rnd(rng, np.log(0.2), np.log(5)))), 3)
            v, n = predict(cfg, lam, c, q0=q)
            res['predictions_checked'] += n
            res['violations'] += v
            if len(res['samples']) < 3:
                res['samples'].append(dict(cfg=jsonable(cfg), lam=lam, c=c, attributes_compared=n))
    elif a.mode == 'search':
        hint = a.hint
        tried = 0
        while time.time() - t0 < a.budget and not res['violations']:
            simple = tried < 12
            order = 'r3' if tried % 2 == 0 else ['r1', 'r2'][tried % 4 // 2 % 2]
            try:
                cfg, q = gen_admissible(rng, order=order, simple=simple, shear=True)
            except RuntimeError:
                tried += 1
                continue
            note(cfg, q)
            tried += 1
            for lam, c in ((2.0, 1.0), (1.0, 3.0)):
                v, n = predict(cfg, lam, c, include_thresholded='r_singularity' in hint, q0=q)
                res['predictions_checked'] += n
                if v:
                    res['violations'] += v
                    break
        res['summary'] = 'tried %d inputs in %.0fs' % (tried, time.time() - t0)
    res['distribution'] = dist
    res['mismatches'] = res['mismatches'][:20]
    res['violations'] = res['violations'][:20]
    print(json.dumps(res, default=str))


if __name__ == '__main__':
    main()
