"""Numeric oracle and correspondence for the symmetry properties
   C07 (field reversal F, mirror M, toroidal reversal T) and C05 (toroidal origin shift).
modes: check | search | replay      (--prop C07|C05)"""
import sys, os, json, time, argparse
sys.path.insert(0, os.path.dirname(os.path.abspath(__file__)))
from common import *
import transval

SIGNS = json.load(open(os.path.join(ROOT, 'tables', 'signs.json')))['signs']
COVER = json.load(open(os.path.join(ROOT, 'tables', 'shift_cover.json')))
SKIP = {'nphi', 'nfourier', 'min_R0_threshold', 'd_d_phi', 'd_d_varphi', 'phi', 'd_phi', 'nfp',
        'r_singularity_residual_sqnorm', 'r_singularity_theta_vs_varphi'}
COEF = ('rc', 'zs', 'rs', 'zc')


def neg(cfg, keys):
    d = dict(cfg)
    for k in keys:
        if k in d:
            d[k] = [-x for x in d[k]] if isinstance(d[k], list) else -d[k]
        elif k in ('sG', 'spsi'):
            d[k] = -1
    return d


def transform(cfg, g):
    if g == 'F':
        return neg(cfg, ['sG', 'spsi', 'I2'])
    if g == 'M':
        return neg(cfg, ['zs', 'zc', 'sigma0', 'I2', 'B2s'])
    if g == 'T':
        return neg(cfg, ['rs', 'zs', 'I2'])
    raise ValueError(g)


def rev(a):
    return np.roll(a[::-1], 1)


def predict_sign(cfg, g, tol=1e-6, q0=None):
    if q0 is None:
        q0, _ = build(cfg, shear=True)
    q1, _ = build(transform(cfg, g), shear=True)
    if hasattr(q0, 'grad_grad_B_alt') and q1.order != 'r1':
        q1.calculate_grad_grad_B_tensor(two_ways=True)
    a0, a1 = flat_attrs(q0), flat_attrs(q1)
    gi = 'FMT'.index(g)
    out, checked = [], 0
    n = q0.nphi
    # isolated round-off flips of the root selection (see below) also move the scalar minimum when they happen at the minimising grid point: the scalar is
    # judged through the profile in that case
    rs_flips = 0
    try:
        pv, pb = a0['r_singularity_vs_varphi'], a1['r_singularity_vs_varphi']
        pb = rev(pb) if g == 'T' else pb
        if pv.shape == pb.shape == (n,) and np.all(np.isfinite(pv)) and np.all(np.isfinite(pb)):
            rs_flips = int(np.sum(np.abs(pb - pv) / max(float(np.max(np.abs(pv))), 1e-300) > tol))
    except Exception:
        pass
    for k, v in a0.items():
        sg = SIGNS.get(k)
        if k in SKIP or sg is None or sg[gi] is None or k in COEF:
            continue
        if k in ('r_singularity', 'inv_r_singularity') and np.ndim(v) == 0 and n > 10 and 0 < rs_flips <= 2:
            continue
        if k not in a1 or a1[k].shape != v.shape:
            out.append(dict(key='%s:%s' % (g, k), what='attribute %s missing or reshaped under %s' % (k, g)))
            continue
        b = a1[k]
        if g == 'T' and v.ndim == 1 and v.size == n:
            b = rev(b)
        want = sg[gi] * v
        if not (np.all(np.isfinite(want)) and np.all(np.isfinite(b))):
            continue
        scale = max(float(np.max(np.abs(want))), 1e-300)
        dev = np.abs(b - want) / scale
        if 'r_singularity' in k and want.ndim == 1 and want.size == n and n > 10 and int(np.sum(dev > tol)) <= 2:
            # the root selection of r_singularity is discontinuous at round-off level: isolated branch flips at one or two grid points are not a
            # property violation (the scalar minimum and every other point are still compared)
            dev = np.where(dev > tol, 0.0, dev)
        err = float(np.max(dev)) if dev.size else 0.0
        checked += 1
        if err > tol and scale > 1e-200:
            out.append(dict(key='%s:%s' % (g, k), what='%s does not map by sign %+d under %s (rel err %.3g)' % (k, sg[gi], g, err),
                            rel_err=err, cfg=jsonable(cfg), g=g))
    return out, checked


def lasym_check(cfg, q):
    asym = any(abs(x) > 0 for x in cfg.get('rs', [])) or any(abs(x) > 0 for x in cfg.get('zc', [])) \
        or cfg.get('sigma0', 0) != 0 or (cfg['order'] != 'r1' and cfg.get('B2s', 0) != 0)
    out = []
    if bool(q.lasym) != bool(asym):
        out.append(dict(key='lasym', what='lasym reported %s for an input that is %s' % (q.lasym, 'asymmetric' if asym else 'symmetric'), cfg=jsonable(cfg)))
    if not asym:
        a = flat_attrs(q)
        for k, v in a.items():
            sg = SIGNS.get(k)
            if sg is None or sg[1] is None or sg[2] is None or v.ndim != 1 or v.size != q.nphi or k in SKIP:
                continue
            s = sg[1] * sg[2]
            scale = max(float(np.max(np.abs(v))), 1e-300)
            err = float(np.max(np.abs(rev(v) - s * v))) / scale
            if 'r_singularity' in k and q.nphi > 10:
                # the root selection is discontinuous at round-off level (thresholded candidates, sentinel 1e100): isolated flips at one mirror pair are not a
                # parity defect (same rule as in the sign and shift comparisons)
                vv_ = np.where(np.abs(v) > 1e50, 0.0, v); sc_ = max(float(np.max(np.abs(vv_))), 1e-300)
                dpt = np.where((np.abs(v) > 1e50) != (np.abs(rev(v)) > 1e50), 1.0, np.abs(rev(vv_) - s * vv_) / sc_)
                if int(np.sum(dpt > 1e-4)) <= 2:
                    continue
            if err > 1e-6:
                out.append(dict(key='parity:' + k, what='%s of a stellarator-symmetric input has no definite parity (%.3g)' % (k, err), cfg=jsonable(cfg)))
    return out


def shifted_cfg(cfg, q0, k):
    d = dict(cfg)
    nf = max(len(cfg.get(c, [])) for c in COEF)
    pad = lambda l: list(l) + [0.0] * (nf - len(l))
    rc, rs, zc, zs = (pad(cfg.get(c, [])) for c in ('rc', 'rs', 'zc', 'zs'))
    phik = q0.phi[k]
    nrc, nrs, nzc, nzs = [], [], [], []
    for m in range(nf):
        a = m * cfg['nfp'] * phik
        ca, sa = np.cos(a), np.sin(a)
        nrc.append(rc[m] * ca + rs[m] * sa); nrs.append(-rc[m] * sa + rs[m] * ca)
        nzc.append(zc[m] * ca + zs[m] * sa); nzs.append(-zc[m] * sa + zs[m] * ca)
    d.update(rc=nrc, rs=nrs, zc=nzc, zs=nzs, sigma0=float(q0.sigma[k]))
    return d


SHIFT_EXCLUDE = {'iota2', 'varphi'}
FMIN_OUT = dict(min_R0=('R0', -1), min_L_grad_B=('L_grad_B', -1), max_elongation=('elongation', 1))


def multiwell_bracket(q, name, up=32):
    """the trigonometric interpolant of the profile behind a fourier_minimum output has MORE than one local extremum of the searched kind within one grid spacing of
    the best sample (the bracket scipy's bounded search works in): the data is not single-well there and which extremum the golden-section search settles on depends
    on where the bracket sits in absolute terms (property C20 claims the interpolant minimum for single-well data)"""
    prof, sign = FMIN_OUT[name]
    y = -sign * np.asarray(getattr(q, prof), dtype=float)          # minimise
    n = y.size
    if y.ndim != 1 or n < 5 or n % 2 == 0:
        return False
    F = np.fft.rfft(y)
    Fp = np.zeros(n * up // 2 + 1, dtype=complex); Fp[:F.size] = F
    f = np.fft.irfft(Fp, n * up) * up
    j = int(np.argmin(y)) * up
    idx = np.arange(j - up, j + up + 1) % (n * up)
    w = f[idx]
    mins = np.sum((w[1:-1] < w[:-2]) & (w[1:-1] <= w[2:]))
    return bool(mins > 1)


def tied_extremum(q, name):
    """the two best samples of the profile behind a fourier_minimum output agree to 1e-9 relative and are not neighbours"""
    prof, sign = FMIN_OUT[name]
    y = sign * np.asarray(getattr(q, prof), dtype=float)
    if y.ndim != 1 or y.size < 4:
        return False
    order = np.argsort(-y)
    j0, j1 = int(order[0]), int(order[1])
    sep = min((j0 - j1) % y.size, (j1 - j0) % y.size)
    return bool(sep > 1 and abs(y[j0] - y[j1]) <= 1e-9 * max(abs(y[j0]), 1e-300))


def predict_shift(cfg, k, tol=1e-6, q0=None):
    if q0 is None:
        q0, _ = build(cfg, shear=False)
    q1, m1 = build(shifted_cfg(cfg, q0, k), shear=False)
    if any('Newton solve did not get close' in m for m in m1):
        # the property is restricted to inputs on which the first-order solve converges: from the flat initial guess Newton does not reach
        # the shifted solution here (which exists: the shifted original solution has residual ~1e-14), so nothing is claimed
        return [], 0
    if abs(q1.iota - q0.iota) > tol * max(1.0, abs(q0.iota)):
        # the discrete sigma equation can have more than one solution on a coarse grid: if the SHIFTED ORIGINAL solution solves the shifted
        # problem to round-off and Newton (from its flat initial guess) settled on another root, nothing the property claims is contradicted
        try:
            r_ = q1._residual(np.concatenate(([q0.iota], np.roll(q0.sigma, -k)[1:])))
            if float(np.max(np.abs(r_))) < 1e-9 * max(1.0, float(np.max(np.abs(q0.sigma))) ** 2):
                return [], 0
        except Exception:
            pass
    if hasattr(q0, 'grad_grad_B_alt') and q1.order != 'r1':
        q1.calculate_grad_grad_B_tensor(two_ways=True)
    a0, a1 = flat_attrs(q0), flat_attrs(q1)
    n = q0.nphi
    covered = set()
    for p, outs in COVER['cover'].items():
        covered |= set(outs)
    # the root-selection outputs are not covered by the reflective checker (thresholded control code) but are numerically shift-equivariant
    covered |= {'r_singularity_vs_varphi', 'inv_r_singularity_vs_varphi', 'r_singularity_basic_vs_varphi', 'r_singularity'}
    out, checked = [], 0
    for name, v in a0.items():
        if name in SKIP or name in COEF or name in SHIFT_EXCLUDE or name not in covered or name == 'sigma0':
            continue
        if name.endswith('_untwisted') and q0.helicity != 0:
            continue
        if name not in a1 or a1[name].shape != v.shape:
            out.append(dict(key='shift:' + name, what='attribute %s missing or reshaped after origin shift' % name))
            continue
        want = np.roll(v, -k) if (v.ndim == 1 and v.size == n) else v
        b = a1[name]
        if not (np.all(np.isfinite(want)) and np.all(np.isfinite(b))):
            continue
        scale = max(float(np.max(np.abs(want))), 1e-300)
        dev = np.abs(b - want) / scale
        if 'r_singularity' in name:
            if np.any(np.abs(want) > 1e50) or np.any(np.abs(b) > 1e50):
                same_sent = np.array_equal(np.abs(want) > 1e50, np.abs(b) > 1e50)
                dev = np.where((np.abs(want) > 1e50) | (np.abs(b) > 1e50), 0.0 if same_sent else 1.0, np.abs(b - want) / max(float(np.max(np.abs(np.where(np.abs(want) > 1e50, 0.0, want)))), 1e-300))
            dev = np.where(dev > 1e-4, dev, 0.0)         # roots of a quartic: conditioning, not round-off, limits the agreement
            if np.ndim(want) == 1 and np.size(want) == n and n > 10 and int(np.sum(dev > 0)) <= 2:
                dev = np.zeros_like(dev)                 # isolated round-off branch flips of the root selection (see predict_sign)
            elif np.ndim(want) == 0 and n > 10:
                # the scalar is the minimum over the grid: it may move with an isolated flip; judge it through the profile only
                dev = np.zeros_like(dev)
        err = float(np.max(dev)) if np.size(dev) else 0.0
        checked += 1
        if err > tol and name in FMIN_OUT and (tied_extremum(q0, name) or multiwell_bracket(q0, name)):
            # fourier_minimum refines the extremum next to the discrete arg-extremum; when the two best samples are equal to round-off (mirror-image partners of a
            # stellarator-symmetric profile) the choice between them is made by round-off, and on an unresolved profile the two refinements differ: conditioning of
            # the selection, not a dependence on the origin (on exactly shifted data fourier_minimum is shift invariant: theories/Bracket.v, kernels oracle)
            continue
        if err > tol and scale > 1e-200:
            out.append(dict(key='shift:' + name, what='%s is not the cyclic shift of the original after moving the origin by %d grid points (rel err %.3g)' % (name, k, err),
                            rel_err=err, cfg=jsonable(cfg), k=int(k)))
    # the field-strength evaluator of the SHIFTED object returns the prescribed |B| at its own grid nodes, in both angle conventions (its splines are tabulated
    # against the right abscissa whatever the origin: nu = varphi - phi vanishes at the origin only)
    try:
        eb = bmag_node_error(q1); checked += 1
        if eb > 1e-9:
            out.append(dict(key='shift:B_mag', what='after moving the origin by %d grid points B_mag differs from the prescribed |B| at grid nodes by a relative %.3g' % (k, eb), rel_err=eb, cfg=jsonable(cfg), k=int(k)))
    except Exception:
        pass
    # the point-wise converter of the shifted object, in and beyond its first field period (a shifted origin puts every point of the original first period there)
    try:
        ez = toRZ_vs_coefficients(q1, np.random.default_rng(3), npts=4, periods=(0, 1, 0, 2) if q1.nfp >= 3 else ((0, 1) if q1.nfp == 2 else (0,))); checked += 1
        if ez > 1e-9:
            out.append(dict(key='shift:to_RZ', what='after moving the origin by %d grid points to_RZ differs from r0 + X n + Y b + Z t of the object (angle compared modulo 2 pi) by %.3g' % (k, ez), rel_err=ez, cfg=jsonable(cfg), k=int(k)))
    except Exception:
        pass
    # the periodic interpolants of the axis and of the frame follow the shift: f1(x) = f0(x + k dphi)
    xs = np.array([0.0, 0.3, 1.1, 2.9]) * (2 * np.pi / q0.nfp) / 3.0
    dphi = 2 * np.pi / q0.nfp / n
    for sp in ('R0_func', 'Z0_func', 'normal_R_spline', 'normal_phi_spline', 'normal_z_spline', 'binormal_R_spline', 'binormal_phi_spline',
               'binormal_z_spline', 'tangent_R_spline', 'tangent_phi_spline', 'tangent_z_spline'):
        f0, f1 = getattr(q0, sp, None), getattr(q1, sp, None)
        if f0 is None or f1 is None:
            continue
        want, got = np.asarray(f0(xs + k * dphi), dtype=float), np.asarray(f1(xs), dtype=float)
        checked += 1
        # cubic splines through shifted nodes are the same interpolant (the node set is shift invariant)
        if np.max(np.abs(want - got)) > 1e-8 * max(1.0, float(np.max(np.abs(want)))):
            out.append(dict(key='shift:' + sp, what='%s is not the shifted interpolant after moving the origin by %d grid points (%.3g)' % (sp, k, np.max(np.abs(want - got))),
                            cfg=jsonable(cfg), k=int(k)))
    # induced law for the Boozer angle
    per = 2 * np.pi / q0.nfp
    want = np.mod(np.roll(q0.varphi, -k) - q0.varphi[k], per)
    err = float(np.max(np.abs(np.mod(q1.varphi - want + per / 2, per) - per / 2)))
    checked += 1
    if err > tol:
        out.append(dict(key='shift:varphi', what='varphi does not follow the induced origin-shift law (%.3g)' % err, cfg=jsonable(cfg), k=int(k)))
    return out, checked


def main():
    ap = argparse.ArgumentParser()
    ap.add_argument('--prop', required=True)
    ap.add_argument('--mode', default='check')
    ap.add_argument('--seed', type=int, default=1)
    ap.add_argument('--n', type=int, default=6)
    ap.add_argument('--tier', default='quick')
    ap.add_argument('--budget', type=float, default=60)
    ap.add_argument('--hint', default='[]')
    ap.add_argument('--file')
    a = ap.parse_args()
    rng = np.random.default_rng(a.seed)
    res = dict(configs=0, programs_validated=0, bindings_compared=0, max_rel_err=0.0, mismatches=[], violations=[],
               samples=[], predictions_checked=0, distribution={})
    dist = {}

    def note(cfg, q):
        key = '%s/%s/%s/sG%+d/spsi%+d' % (cfg['order'], 'QH' if q.helicity != 0 else 'QA', 'asym' if q.lasym else 'sym', cfg.get('sG', 1), cfg.get('spsi', 1))
        dist[key] = dist.get(key, 0) + 1

    def run_predictions(cfg, q):
        v, n = [], 0
        if a.prop == 'C07':
            for g in 'FMT':
                vv, nn = predict_sign(cfg, g, q0=q)
                v += vv; n += nn
            v += lasym_check(cfg, q)
            n += 1
            # every single symmetry-breaking knob on its own (cheap first-order objects; B2s needs order >= r2)
            base = dict((k_, v_) for k_, v_ in cfg.items() if k_ not in ('rs', 'zc', 'sigma0', 'B2s'))
            nh = len(cfg['rc'])
            knobs = [dict(), dict(rs=[0.0] * (nh - 1) + [1e-3]), dict(zc=[0.0] * (nh - 1) + [1e-3]), dict(sigma0=0.05)]
            if cfg['order'] != 'r1':
                knobs.append(dict(B2s=0.1))
            for kn in knobs:
                c2 = dict(base); c2.update(kn); c2['nphi'] = 15
                try:
                    q2, _ = build(c2)
                except Exception:
                    continue
                v += [x for x in lasym_check(c2, q2) if x['key'] == 'lasym']
                n += 1
        else:
            k = int(rng.integers(1, q.nphi))
            vv, nn = predict_shift(cfg, k, q0=q)
            v += vv; n += nn
            # targeted origins: put the new origin right after a point where the axis normal crosses between the 4th and the 1st quadrant
            # of the (R, Z) plane, so that the periodic closing step of the helicity count is a branch-cut crossing; and the last grid point
            nR, nZ = q.normal_cylindrical[:, 0], q.normal_cylindrical[:, 2]
            quad = np.where(nR >= 0, np.where(nZ >= 0, 1, 4), np.where(nZ >= 0, 2, 3))
            cut = [j for j in range(q.nphi) if {int(quad[j]), int(quad[(j + 1) % q.nphi])} == {1, 4}]
            for k2 in ([(cut[int(rng.integers(0, len(cut)))] + 1) % q.nphi] if cut else []) + [q.nphi - 1]:
                if k2 in (0, k):
                    continue
                vv, nn = predict_shift(cfg, int(k2), q0=q)
                v += vv; n += nn
        return v, n

    if a.mode != 'replay':
        for c_, q_ in corpus_objects(histories=True):          # distilled regression inputs first
            if c_.get('order') == 'r3' and not hasattr(q_, 'iota2'):
                q_.calculate_shear()
            try:
                v, n = run_predictions(c_, q_)
            except Exception:
                continue
            res['predictions_checked'] += n; res['violations'] += v; res['configs'] += 1
            dist['corpus'] = dist.get('corpus', 0) + 1
    if a.mode != 'replay' and a.prop == 'C05' and not res['violations']:
        # shipped configurations whose r_singularity profile holds radii and the sentinel side by side, written out as explicit inputs and moved to origins
        # inside a sentinel run, just after it and far from it (anything that post-processes the profile along the grid must be periodic)
        qsc = import_qsc()
        for name in ('precise QH', 'precise QH+well', '2022 QH nfp2'):
            try:
                import logging
                logging.disable(logging.CRITICAL)
                qp = qsc.Qsc.from_paper(name, nphi=31)
                logging.disable(logging.NOTSET)
                cp = dict(rc=[float(x) for x in qp.rc], zs=[float(x) for x in qp.zs], rs=[float(x) for x in qp.rs], zc=[float(x) for x in qp.zc], nfp=int(qp.nfp),
                          etabar=float(qp.etabar), sigma0=float(qp.sigma0), B0=float(qp.B0), I2=float(qp.I2), sG=int(qp.sG), spsi=int(qp.spsi), nphi=int(qp.nphi),
                          order=qp.order, B2s=float(qp.B2s), B2c=float(qp.B2c), p2=float(qp.p2))
                for cpv in (cp, dict(cp, sigma0=0.08)):          # as shipped (stellarator-symmetric: the two ends of a sentinel run are mirror images) and with sigma0 != 0
                    q_, m_ = build(cpv, shear=False)
                    if any('Newton solve did not get close' in m for m in m_):
                        continue
                    for k2 in (3, 8, 15, 28):
                        vv, nn = predict_shift(cpv, k2, q0=q_)
                        res['predictions_checked'] += nn; res['violations'] += vv
                res['configs'] += 1; dist['preset-with-sentinel'] = dist.get('preset-with-sentinel', 0) + 1
            except Exception:
                logging.disable(logging.NOTSET)
                continue
    if a.mode == 'replay':
        rep = json.load(open(a.file))
        f = rep.get('failing') or {}
        if f.get('cfg'):
            q, _ = build(f['cfg'], shear=True)
            if a.prop == 'C07':
                g = f.get('g')
                v, n = (predict_sign(f['cfg'], g, q0=q) if g else (lasym_check(f['cfg'], q), 1))
            else:
                v, n = predict_shift(f['cfg'], f.get('k', 1), q0=q)
            res['violations'], res['predictions_checked'] = v, n
        print(json.dumps(res, default=str))
        return
    t0 = time.time()
    if a.mode == 'check':
        orders = ['r1', 'r2', 'r3']
        for i in range(a.n):
            cfg, q = gen_admissible(rng, order=orders[i % 3] if i < 3 else None, shear=(a.prop == 'C07'),
                                    asym=(i % 2 == 0) if i < 4 else None)
            note(cfg, q)
            tv = transval.validate(q, rng)
            res['configs'] += 1
            res['programs_validated'] += tv['programs']
            res['bindings_compared'] += tv['bindings'] + tv['equations']
            res['max_rel_err'] = max(res['max_rel_err'], tv['max_rel_err'])
            res['mismatches'] += tv['mismatches']
            v, n = run_predictions(cfg, q)
            res['predictions_checked'] += n
            res['violations'] += v
            if len(res['samples']) < 3:
                res['samples'].append(dict(cfg=jsonable(cfg), predictions=n))
    elif a.mode == 'search':
        tried = 0
        while time.time() - t0 < a.budget and not res['violations']:
            order = 'r3' if tried % 2 == 0 else ['r1', 'r2'][(tried // 2) % 2]
            try:
                cfg, q = gen_admissible(rng, order=order, simple=tried < 12, shear=(a.prop == 'C07'))
            except RuntimeError:
                tried += 1
                continue
            note(cfg, q)
            tried += 1
            v, n = run_predictions(cfg, q)
            res['predictions_checked'] += n
            res['violations'] += v
        res['summary'] = 'tried %d inputs in %.0fs' % (tried, time.time() - t0)
    res['distribution'] = dist
    res['mismatches'] = res['mismatches'][:20]
    res['violations'] = res['violations'][:20]
    print(json.dumps(res, default=str))


if __name__ == '__main__':
    main()
