"""Numeric oracle for C14 (cylindrical surface output and its Fourier coefficients).

 (a) every (R, Z, phi0) returned by Frenet_to_cylindrical(r, ntheta) is re-derived from the object's attributes and periodic
     splines by an own implementation of the point map r0 + X n + Y b + Z t: cylindrical angle == target (mod 2 pi) and (R, Z) equal
     to 1e-12; phi0 inside the +-1/nfp bracket; to_RZ on the same (r, theta, phi0) agrees to round-off;
 (b) [thorough] the same points evaluated on the trigonometric interpolants of the grid data instead of the cubic splines: distance
     below 1e-5 * major radius at nphi >= 31 and decreasing at least like nphi^-3 on the ladder (31, 61, 121), gated on the measured
     spectral tail of the interpolated profiles;
 (c) to_Fourier followed by an own inverse series reproduces the input on the grid: every parity of ntheta and nphi, lasym True and
     (with symmetric data) False, mode ranges exactly covering the grid and larger in the directions where that is alias-free; on real
     surfaces from (a); get_boundary agrees with the own inverse series and, on coinciding grid points, with the surface itself;
 (d) [thorough] fixed corpus: the Fortran reference files shipped with the repository (orders r1, r2, r3): RBC/RBS/ZBC/ZBS and the
     axis shape R0(phi), Z0(phi).
"""
import os, sys
for _v in ('OPENBLAS_NUM_THREADS', 'OMP_NUM_THREADS', 'MKL_NUM_THREADS'):
    os.environ.setdefault(_v, '1')
import json, time, argparse, glob
sys.path.insert(0, os.path.dirname(os.path.abspath(__file__)))
from common import *
from oracle_C06 import trig_eval, spec_tail
from scipy.interpolate import CubicSpline

TWO_PI = 2 * np.pi


# ------------------------------------------------------------------------------------------------------------------------
# own point map
# ------------------------------------------------------------------------------------------------------------------------
def shape_profiles(q, r, theta):
    """X, Y, Z (components along n, b, t) on the phi grid at Boozer poloidal angle theta and radius r, from the attributes"""
    c1, s1 = np.cos(theta), np.sin(theta)
    X = r * (q.X1c_untwisted * c1 + q.X1s_untwisted * s1)
    Y = r * (q.Y1c_untwisted * c1 + q.Y1s_untwisted * s1)
    Z = np.zeros(q.nphi)
    if q.order != 'r1':
        c2, s2 = np.cos(2 * theta), np.sin(2 * theta)
        X = X + r ** 2 * (q.X20_untwisted + q.X2c_untwisted * c2 + q.X2s_untwisted * s2)
        Y = Y + r ** 2 * (q.Y20_untwisted + q.Y2c_untwisted * c2 + q.Y2s_untwisted * s2)
        Z = Z + r ** 2 * (q.Z20_untwisted + q.Z2c_untwisted * c2 + q.Z2s_untwisted * s2)
        if q.order == 'r3':
            c3, s3 = np.cos(3 * theta), np.sin(3 * theta)
            X = X + r ** 3 * (q.X3c1_untwisted * c1 + q.X3s1_untwisted * s1 + q.X3c3_untwisted * c3 + q.X3s3_untwisted * s3)
            Y = Y + r ** 3 * (q.Y3c1_untwisted * c1 + q.Y3s1_untwisted * s1 + q.Y3c3_untwisted * c3 + q.Y3s3_untwisted * s3)
            Z = Z + r ** 3 * (q.Z3c1_untwisted * c1 + q.Z3s1_untwisted * s1 + q.Z3c3_untwisted * c3 + q.Z3s3_untwisted * s3)
    return X, Y, Z


def periodic_spline(q, prof):
    return CubicSpline(np.append(q.phi, TWO_PI / q.nfp), np.append(prof, prof[0]), bc_type='periodic')


def point_map(q, X, Y, Z, phi0, how='spline'):
    """cylindrical (R, Z, angle) of r0 + X n + Y b + Z t at axis angle(s) phi0; how = 'spline' (the object's own periodic
    interpolants of axis and frame, same construction for the shape) or 'trig' (trigonometric interpolant of the grid data)"""
    phi0 = np.atleast_1d(np.asarray(phi0, dtype=float))
    per = TWO_PI / q.nfp
    if how == 'spline':
        R0, Z0 = q.R0_func(phi0), q.Z0_func(phi0)
        n = [q.normal_R_spline(phi0), q.normal_phi_spline(phi0), q.normal_z_spline(phi0)]
        b = [q.binormal_R_spline(phi0), q.binormal_phi_spline(phi0), q.binormal_z_spline(phi0)]
        t = [q.tangent_R_spline(phi0), q.tangent_phi_spline(phi0), q.tangent_z_spline(phi0)]
        x, y, z = periodic_spline(q, X)(phi0), periodic_spline(q, Y)(phi0), periodic_spline(q, Z)(phi0)
    else:
        ev = lambda prof: trig_eval(prof, phi0, per)
        R0, Z0 = ev(q.R0), ev(q.Z0)
        n = [ev(q.normal_cylindrical[:, i]) for i in range(3)]
        b = [ev(q.binormal_cylindrical[:, i]) for i in range(3)]
        t = [ev(q.tangent_cylindrical[:, i]) for i in range(3)]
        x, y, z = ev(X), ev(Y), ev(Z)
    vR = x * n[0] + y * b[0] + z * t[0]
    vp = x * n[1] + y * b[1] + z * t[1]
    vz = x * n[2] + y * b[2] + z * t[2]
    c, s = np.cos(phi0), np.sin(phi0)
    px = (R0 + vR) * c - vp * s
    py = (R0 + vR) * s + vp * c
    return np.sqrt(px * px + py * py), Z0 + vz, np.arctan2(py, px), np.array([px, py, Z0 + vz])


def wrap(d):
    return (np.asarray(d) + np.pi) % TWO_PI - np.pi


def r_range(q):
    """largest radius used: half the singularity radius (orders r2, r3), 0.1 at r1; in both cases small enough for the surface
    to stay inside the +-1/nfp bracket of the root solve and away from the coordinate axis"""
    amp = float(np.max(np.sqrt(q.X1c ** 2 + q.X1s ** 2 + q.Y1c ** 2 + q.Y1s ** 2)))
    rmax = min(0.1, 0.25 * q.min_R0 / (q.nfp * amp), 0.25 * q.min_R0 / amp)
    if q.order != 'r1':
        rs = float(q.r_singularity)
        if np.isfinite(rs) and rs < 1e10:
            rmax = min(rmax, 0.5 * rs)
    return rmax


# ------------------------------------------------------------------------------------------------------------------------
# own inverse series
# ------------------------------------------------------------------------------------------------------------------------
def inverse_series(RBC, RBS, ZBC, ZBS, nfp, theta2d, phi2d):
    """R = sum RBC cos(m theta - n nfp phi) + RBS sin(..), Z = sum ZBC cos + ZBS sin; arrays indexed [n + ntor, m]"""
    ntor = (RBC.shape[0] - 1) // 2
    mpol = RBC.shape[1] - 1
    zero = np.zeros_like(RBC)
    RBS = zero if np.isscalar(RBS) or np.ndim(RBS) == 0 else RBS
    ZBC = zero if np.isscalar(ZBC) or np.ndim(ZBC) == 0 else ZBC
    R = np.zeros(np.shape(theta2d)); Z = np.zeros(np.shape(theta2d))
    for m in range(mpol + 1):
        for n in range(-ntor, ntor + 1):
            if RBC[n + ntor, m] == 0 and RBS[n + ntor, m] == 0 and ZBC[n + ntor, m] == 0 and ZBS[n + ntor, m] == 0:
                continue
            ang = m * theta2d - n * nfp * phi2d
            ca, sa = np.cos(ang), np.sin(ang)
            R += RBC[n + ntor, m] * ca + RBS[n + ntor, m] * sa
            Z += ZBC[n + ntor, m] * ca + ZBS[n + ntor, m] * sa
    return R, Z


def grid(ntheta, nphi, nfp):
    th = np.arange(ntheta) * (TWO_PI / ntheta)
    ph = np.arange(nphi) * (TWO_PI / nfp / nphi)
    p2, t2 = np.meshgrid(ph, th)
    return t2, p2


def random_surface(rng, ntheta, nphi, nfp, sym):
    """smooth random R, Z on the (theta, phi) grid; sym: R(-theta,-phi) = R(theta,phi), Z(-theta,-phi) = -Z(theta,phi).
    Contains every harmonic the grid can carry (including the Nyquist ones, which is what the parity handling is about)."""
    t2, p2 = grid(ntheta, nphi, nfp)
    R = np.full((ntheta, nphi), rnd(rng, 0.8, 1.5)); Z = np.full((ntheta, nphi), 0.0 if sym else rnd(rng, -0.2, 0.2))
    for m in range(0, ntheta // 2 + 1):
        for n in range(-(nphi // 2), nphi // 2 + 1):
            if m == 0 and n <= 0:
                continue
            a = 0.3 * rng.standard_normal(4) / (1 + m * m + n * n)
            ang = m * t2 - n * nfp * p2
            R += a[0] * np.cos(ang); Z += a[1] * np.sin(ang)
            if not sym:
                R += a[2] * np.sin(ang); Z += a[3] * np.cos(ang)
    return R, Z


def roundtrip(R2, Z2, nfp, mpol, ntor, lasym):
    from qsc.util import to_Fourier
    ntheta, nphi = R2.shape
    RBC, RBS, ZBC, ZBS = to_Fourier(R2, Z2, nfp, mpol, ntor, lasym)
    t2, p2 = grid(ntheta, nphi, nfp)
    R, Z = inverse_series(RBC, RBS, ZBC, ZBS, nfp, t2, p2)
    sc = max(np.max(np.abs(R2)), 1e-300)
    return max(np.max(np.abs(R - R2)), np.max(np.abs(Z - Z2))) / sc, (RBC, RBS, ZBC, ZBS)


# ------------------------------------------------------------------------------------------------------------------------
def check_points(q, r, ntheta, rng, bad, stats, label=''):
    """(a): returns n, (R2, Z2, phi0) or None"""
    n = 0
    try:
        with np.errstate(all='ignore'):
            R2, Z2, P0 = q.Frenet_to_cylindrical(r, ntheta)
    except Exception as e:
        bad('F2C:exception' + label, 'Frenet_to_cylindrical(r=%.6g, ntheta=%d) raises %r (r_max of the quantifier %.4g)' % (r, ntheta, e, r_range(q)))
        return 1, None
    nphi = q.nphi
    target = np.arange(nphi) * (TWO_PI / q.nfp / nphi)
    theta = np.arange(ntheta) * (TWO_PI / ntheta)
    sc = float(np.max(np.abs(R2)))
    n += 1
    if R2.shape != (ntheta, nphi) or Z2.shape != (ntheta, nphi) or P0.shape != (ntheta, nphi) or not (np.all(np.isfinite(R2)) and np.all(np.isfinite(Z2)) and np.all(np.isfinite(P0))):
        bad('F2C:shape' + label, 'Frenet_to_cylindrical returns arrays of shape %s / non-finite entries (ntheta=%d, nphi=%d)' % (R2.shape, ntheta, nphi))
        return n, None
    worst = dict(angle=0.0, R=0.0, Z=0.0, bracket=0.0)
    for j in range(ntheta):
        X, Y, Z = shape_profiles(q, r, theta[j])
        Rm, Zm, ang, _ = point_map(q, X, Y, Z, P0[j])
        worst['angle'] = max(worst['angle'], float(np.max(np.abs(wrap(ang - target)))))
        worst['R'] = max(worst['R'], float(np.max(np.abs(Rm - R2[j]))) / sc)
        worst['Z'] = max(worst['Z'], float(np.max(np.abs(Zm - Z2[j]))) / sc)
        worst['bracket'] = max(worst['bracket'], float(np.max(np.abs(P0[j] - target))) * q.nfp)
    n += 4
    if worst['angle'] > 1e-12:
        bad('F2C:angle' + label, 'the point r0 + X n + Y b + Z t at the returned phi0 has a cylindrical angle differing from the target by %.3g (order %s, r=%.4g, ntheta=%d, nphi=%d)'
            % (worst['angle'], q.order, r, ntheta, nphi), r=r, ntheta=ntheta)
    for k in 'RZ':
        if worst[k] > 1e-12:
            bad('F2C:' + k + label, 'returned %s differs from the position evaluated with the object\'s own splines at the returned phi0 by a relative %.3g (order %s, r=%.4g, ntheta=%d)'
                % (k, worst[k], q.order, r, ntheta), r=r, ntheta=ntheta)
    if worst['bracket'] > 1 + 1e-9:
        bad('F2C:bracket' + label, 'a returned phi0 lies %.4g/nfp away from its target angle, outside the bracket of the root solve' % worst['bracket'], r=r, ntheta=ntheta)
    stats['max_angle_err'] = max(stats.get('max_angle_err', 0.0), worst['angle'])
    stats['max_RZ_err'] = max(stats.get('max_RZ_err', 0.0), worst['R'], worst['Z'])
    # to_RZ at a random subset of the very same (r, theta, phi0), and at off-grid points against the own map
    m = 12
    jt, jp = rng.integers(0, ntheta, m), rng.integers(0, nphi, m)
    pts = [[r, theta[jt[i]], P0[jt[i], jp[i]]] for i in range(m)]
    extra = [[r * rnd(rng, 0.2, 1.0), rnd(rng, 0, TWO_PI), rnd(rng, -TWO_PI, 2 * TWO_PI)] for _ in range(6)]
    try:
        with np.errstate(all='ignore'):
            Rl, Zl, Pl = q.to_RZ(pts + extra)
        Rl, Zl, Pl = (np.array([float(np.asarray(v).ravel()[0]) for v in l]) for l in (Rl, Zl, Pl))
    except Exception as e:
        bad('to_RZ:exception' + label, 'to_RZ raises %r' % (e,)); return n + 1, (R2, Z2, P0)
    n += 2
    e1 = max(np.max(np.abs(Rl[:m] - R2[jt, jp])), np.max(np.abs(Zl[:m] - Z2[jt, jp]))) / sc
    e2 = float(np.max(np.abs(wrap(Pl[:m] - target[jp]))))
    if e1 > 1e-12 or e2 > 1e-12:
        bad('to_RZ:surface' + label, 'to_RZ at (r, theta, phi0) taken from Frenet_to_cylindrical differs from its (R, Z) by a relative %.3g, angle by %.3g' % (e1, e2), r=r, ntheta=ntheta)
    e3 = 0.0
    for i, (rr, th, p0) in enumerate(extra):
        X, Y, Z = shape_profiles(q, rr, th)
        Rm, Zm, ang, _ = point_map(q, X, Y, Z, p0)
        e3 = max(e3, abs(Rm[0] - Rl[m + i]) / sc, abs(Zm[0] - Zl[m + i]) / sc, abs(float(wrap(ang[0] - Pl[m + i]))))
    if e3 > 1e-12:
        bad('to_RZ:points' + label, 'to_RZ at arbitrary (r, theta, phi0) differs from the own evaluation of r0 + X n + Y b + Z t by %.3g' % e3, r=r, ntheta=ntheta)
    # the same point again after a full-surface computation at another radius in between (both use the object's scratch splines): same answer
    try:
        with np.errstate(all='ignore'):
            a1 = [float(np.asarray(v).ravel()[0]) for v in q.to_RZ([pts[0]])]
            q.Frenet_to_cylindrical(0.7 * r, ntheta=4)
            a2 = [float(np.asarray(v).ravel()[0]) for v in q.to_RZ([pts[0]])]
        n += 1
        if max(abs(a1[0] - a2[0]), abs(a1[1] - a2[1])) > 1e-12 * sc or abs(float(wrap(a1[2] - a2[2]))) > 1e-12:
            bad('to_RZ:repeat' + label, 'to_RZ at the same (r, theta, phi0) returns a different point after a Frenet_to_cylindrical call in between: (%.6g, %.6g) vs (%.6g, %.6g)' % (a1[0], a1[1], a2[0], a2[1]), r=r, ntheta=ntheta)
    except Exception as e:
        bad('to_RZ:exception' + label, 'to_RZ / Frenet_to_cylindrical raises %r' % (e,))
    return n, (R2, Z2, P0)


def trig_distance(q, r, ntheta, P0, probe=None):
    """(b): largest distance between the spline-evaluated and the trigonometrically interpolated position at the returned phi0
    (and, if given, at the probe angles: sup-norm estimate of the interpolation error), and the spectral tail of the interpolated data"""
    theta = np.arange(ntheta) * (TWO_PI / ntheta)
    d, dsup = 0.0, 0.0
    profs = [q.R0, q.Z0] + [v[:, i] for v in (q.normal_cylindrical, q.binormal_cylindrical, q.tangent_cylindrical) for i in range(3)]
    tail = max(spec_tail(p) for p in profs)
    for j in range(ntheta):
        X, Y, Z = shape_profiles(q, r, theta[j])
        tail = max(tail, spec_tail(X) * np.max(np.abs(X)) / q.min_R0, spec_tail(Y) * np.max(np.abs(Y)) / q.min_R0)
        _, _, _, ps = point_map(q, X, Y, Z, P0[j], 'spline')
        _, _, _, pt = point_map(q, X, Y, Z, P0[j], 'trig')
        d = max(d, float(np.max(np.sqrt(np.sum((ps - pt) ** 2, axis=0)))))
        if probe is not None:
            _, _, _, ps = point_map(q, X, Y, Z, probe, 'spline')
            _, _, _, pt = point_map(q, X, Y, Z, probe, 'trig')
            dsup = max(dsup, float(np.max(np.sqrt(np.sum((ps - pt) ** 2, axis=0)))))
    return d, dsup, tail


def check_trig(cfg, q, r, ntheta, P0, rng, bad, stats):
    n = 0
    Rmaj = float(np.mean(q.R0))
    d, _, tail = trig_distance(q, r, ntheta, P0)
    if q.nphi >= 31:
        if tail > 1e-7:
            stats['trig_unresolved'] = stats.get('trig_unresolved', 0) + 1
        else:
            n += 1
            stats['max_spline_err'] = max(stats.get('max_spline_err', 0.0), d / Rmaj)
            if d > 1e-5 * Rmaj:
                bad('trig:1e-5', 'spline-evaluated surface points are %.3g major radii away from the trigonometric evaluation of the grid data (nphi=%d, order %s, r=%.4g, spectral tail %.1g)'
                    % (d / Rmaj, q.nphi, q.order, r, tail), r=r, ntheta=ntheta)
    # ladder.  The leading error of a cubic spline is f''''/24 h^4 t^2 (1-t)^2 with t the offset from the nearest node in units of h.
    # The returned phi0 sit at a FIXED small distance (set by r) from a node, so there the error only decreases like h^2 (factor 4 per
    # doubling) until h reaches that distance; the nphi^-3 of the property is therefore asserted for the sup-norm over the period
    # (random probe angles; measured factor ~16) and a factor >= 3 for the error at the returned points.
    nt = min(ntheta, 4)
    probe = rng.random(48) * (TWO_PI / q.nfp)
    ds, dsup, tails = [], [], []
    for m in (31, 61, 121):
        c = dict(cfg); c['nphi'] = m
        qm, _ = build(c)
        with np.errstate(all='ignore'):
            _, _, P = qm.Frenet_to_cylindrical(r, nt)
        a, b, t = trig_distance(qm, r, nt, P, probe)
        ds.append(a); dsup.append(b); tails.append(t)
    floor = 1e-11 * Rmaj
    for i in range(2):
        if tails[i] > 1e-6:
            stats['ladder_unresolved'] = stats.get('ladder_unresolved', 0) + 1
            continue
        n += 2
        if dsup[i] > 100 * floor:
            stats['min_ladder_ratio_sup'] = min(stats.get('min_ladder_ratio_sup', 1e9), dsup[i] / max(dsup[i + 1], floor))
        if ds[i] > 100 * floor:
            stats['min_ladder_ratio_pts'] = min(stats.get('min_ladder_ratio_pts', 1e9), ds[i] / max(ds[i + 1], floor))
        if dsup[i + 1] > max(dsup[i] / 6.0, floor):
            bad('trig:ladder', 'cubic-spline interpolation error of the surface (sup over the period) does not decrease like nphi^-3: %s at nphi = (31, 61, 121) (order %s, r=%.4g)'
                % (['%.3g' % v for v in dsup], q.order, r), r=r, ntheta=ntheta, ladder=dsup)
            break
        if ds[i + 1] > max(ds[i] / 3.0, floor):
            bad('trig:ladder-points', 'interpolation error at the returned surface points does not decrease at second order: %s at nphi = (31, 61, 121) (order %s, r=%.4g)'
                % (['%.3g' % v for v in ds], q.order, r), r=r, ntheta=ntheta, ladder=ds)
            break
    return n


def check_fourier_synthetic(rng, bad, stats, count=8):
    """(c) on synthetic data containing every harmonic of the grid, all parities"""
    n = 0
    for it in range(count):
        ntheta = int(rng.integers(3, 12)); nphi = int(rng.integers(3, 14))
        if it < 4:           # every parity combination at least once
            ntheta += (ntheta + it) % 2; nphi += (nphi + it // 2) % 2
        nfp = int(rng.integers(1, 6))
        for lasym in (True, False):
            R2, Z2 = random_surface(rng, ntheta, nphi, nfp, sym=not lasym)
            # exactly covering ranges.  NOT asserted for larger ranges: to_Fourier projects on every requested mode separately, so modes
            # beyond the grid's Nyquist limit receive the amplitude of their aliases a second time and the inverse series is off by O(1)
            # times the near-Nyquist content (measured 5e-2..2 on this data).  The maximum is reported as overcomplete_err, not asserted.
            mpol, ntor = ntheta // 2, nphi // 2
            e, _ = roundtrip(R2, Z2, nfp, mpol, ntor, lasym)
            n += 1
            stats['max_roundtrip'] = max(stats.get('max_roundtrip', 0.0), e)
            if it == 0:
                stats['overcomplete_err(not asserted)'] = max(stats.get('overcomplete_err(not asserted)', 0.0), roundtrip(R2, Z2, nfp, mpol + 1, ntor + 1, lasym)[0])
            if e > 1e-12:
                bad('fourier:roundtrip', 'to_Fourier followed by the inverse series does not reproduce its input: relative %.3g (ntheta=%d, nphi=%d, mpol=%d, ntor=%d, nfp=%d, lasym=%s)'
                    % (e, ntheta, nphi, mpol, ntor, nfp, lasym), grid=[ntheta, nphi, nfp, mpol, ntor, lasym])
    return n


def check_fourier_surface(q, r, R2, Z2, rng, bad, stats):
    """(c) on a real surface, and get_boundary"""
    n = 0
    ntheta, nphi = R2.shape
    mpol, ntor = ntheta // 2, nphi // 2
    e, co = roundtrip(R2, Z2, q.nfp, mpol, ntor, q.lasym)
    n += 1
    # with lasym False the sine/cosine partners are dropped: exact only as far as the surface IS stellarator symmetric, which
    # holds to the accuracy of the root solve
    tol = 1e-12 if q.lasym else 1e-11
    stats['max_roundtrip'] = max(stats.get('max_roundtrip', 0.0), e)
    if e > tol:
        bad('fourier:surface', 'to_Fourier + inverse series does not reproduce the surface of Frenet_to_cylindrical on its grid: relative %.3g (ntheta=%d, nphi=%d, lasym=%s)'
            % (e, ntheta, nphi, q.lasym), r=r, ntheta=ntheta)
    # get_boundary on a plotting grid that contains the surface grid
    ntp, npp = ntheta + 1, q.nfp * nphi + 1
    try:
        with np.errstate(all='ignore'):
            x, y, z, Rn = q.get_boundary(r=r, ntheta=ntp, nphi=npp, ntheta_fourier=ntheta, mpol=mpol, ntor=ntor)
    except Exception as ex:
        bad('get_boundary:exception', 'get_boundary raises %r' % (ex,)); return n + 1
    th = np.linspace(0, TWO_PI, ntp); ph = np.linspace(0, TWO_PI, npp)
    p2, t2 = np.meshgrid(ph, th)
    Ri, Zi = inverse_series(co[0], co[1], co[2], co[3], q.nfp, t2, p2)
    sc = np.max(np.abs(R2))
    n += 2
    e1 = max(np.max(np.abs(Rn - Ri)), np.max(np.abs(z - Zi)), np.max(np.abs(x - Ri * np.cos(ph))), np.max(np.abs(y - Ri * np.sin(ph)))) / sc
    if x.shape != (ntp, npp) or e1 > 1e-11:
        bad('get_boundary:series', 'get_boundary differs from the own inverse series of the coefficients by a relative %.3g' % e1, r=r, ntheta=ntheta)
    jt = np.arange(ntp) % ntheta; jp = np.arange(npp) % nphi
    e2 = max(np.max(np.abs(Rn - R2[np.ix_(jt, jp)])), np.max(np.abs(z - Z2[np.ix_(jt, jp)]))) / sc
    if e2 > 1e-10:
        bad('get_boundary:surface', 'get_boundary evaluated on points of the surface grid (all field periods) differs from Frenet_to_cylindrical by a relative %.3g' % e2, r=r, ntheta=ntheta)
    return n


# ------------------------------------------------------------------------------------------------------------------------
def fortran_corpus(bad, stats):
    """(d) light re-run of the comparison of tests/test_qsc.py, on ALL shipped files (r1, r2 and r3)"""
    from scipy.io import netcdf_file
    from qsc.util import to_Fourier
    n = 0
    files = sorted(glob.glob(os.path.join(REPO, 'qsc', 'tests', 'quasisymmetry_out.*.nc')))
    if len(files) < 13:
        bad('fortran:files', 'expected 13 Fortran reference files, found %d' % len(files))
    for fn in files:
        with warnings.catch_warnings():
            warnings.simplefilter('ignore')
            f = netcdf_file(fn, 'r', mmap=False)
            v = {k: np.array(f.variables[k][()]) for k in f.variables}
            f.close()
        s = lambda k: b''.join(v[k].tolist()).decode().strip()
        order = {'r1': 'r1', 'r2': 'r2', 'r3_flux_constraint': 'r3'}.get(s('order_r_option'))
        if order is None or s('finite_r_option') != 'nonlinear':
            continue
        B0 = float(v['B0'])
        cfg = dict(rc=v['R0c'].tolist(), zs=v['Z0s'].tolist(), rs=v['R0s'].tolist(), zc=v['Z0c'].tolist(), nfp=int(v['nfp']), etabar=float(v['eta_bar']),
                   sigma0=float(v['sigma_initial']), B0=B0, I2=float(v['I2_over_B0']) * B0, sG=int(v['sign_G']), spsi=int(v['sign_psi']),
                   nphi=int(v['N_phi']), order=order)
        if order != 'r1':
            cfg.update(B2c=float(v['B2c']), B2s=float(v['B2s']), p2=float(v['p2']))
        q, _ = build(cfg)
        r, mpol, ntor = float(v['r']), int(v['mpol']), int(v['ntor'])
        name = os.path.basename(fn)[len('quasisymmetry_out.'):-3]
        n += 1
        for k, a in (('iota', q.iota), ('R0', q.R0), ('curvature', q.curvature), ('sigma', q.sigma)):
            if k in v and np.max(np.abs(v[k] - a)) > 1e-9 * max(1.0, np.max(np.abs(v[k]))):
                bad('fortran:' + k, '%s differs from the Fortran reference %s by %.3g' % (k, name, np.max(np.abs(v[k] - a))), file=name)
        if 'z0' in v and np.max(np.abs(v['z0'] - q.Z0)) > 1e-9:
            bad('fortran:Z0', 'Z0 differs from the Fortran reference %s by %.3g' % (name, np.max(np.abs(v['z0'] - q.Z0))), file=name)
        with np.errstate(all='ignore'):
            R2, Z2, _ = q.Frenet_to_cylindrical(r, 20)
        co = to_Fourier(R2, Z2, q.nfp, mpol, ntor, q.lasym)
        n += 1
        worst = 0.0
        for k, a in zip(('RBC', 'RBS', 'ZBC', 'ZBS'), co):
            a = np.zeros((2 * ntor + 1, mpol + 1)) if np.ndim(a) == 0 else a
            worst = max(worst, float(np.max(np.abs(a.T - v[k]))))
        stats['fortran_max_diff'] = max(stats.get('fortran_max_diff', 0.0), worst)
        if worst > 1e-10:
            bad('fortran:coefficients', 'surface Fourier coefficients at r=%.4g differ from the Fortran reference %s (order %s) by %.3g' % (r, name, order, worst), file=name)
        # axis through the spline functions used for plotting
        ph = np.linspace(0, TWO_PI, 9)
        R0f = sum(v['R0c'][j] * np.cos(j * cfg['nfp'] * ph) + v['R0s'][j] * np.sin(j * cfg['nfp'] * ph) for j in range(len(v['R0c'])))
        Z0f = sum(v['Z0c'][j] * np.cos(j * cfg['nfp'] * ph) + v['Z0s'][j] * np.sin(j * cfg['nfp'] * ph) for j in range(len(v['R0c'])))
        n += 1
        if max(np.max(np.abs(q.R0_func(ph) - R0f)), np.max(np.abs(q.Z0_func(ph) - Z0f))) > 1e-7:
            bad('fortran:axis', 'R0_func / Z0_func differ from the axis series of %s' % name, file=name)
    stats['fortran_files'] = len(files)
    return n


# ------------------------------------------------------------------------------------------------------------------------
def predict(cfg, rng, q=None, thorough=False, sub=None, stats=None):
    out, n = [], 0
    stats = stats if stats is not None else {}
    if sub is None:
        sub = int(rng.integers(0, 2 ** 31 - 1))
    r2 = np.random.default_rng(sub)
    if q is None:
        q, _ = build(cfg)

    def bad(key, what, **kw):
        out.append(dict(key=key, what=what, cfg=jsonable(cfg), sub=sub, thorough=bool(thorough), **kw))
    # the object's periodic interpolants pass through the grid data they are built from (node values), on and beyond the first field period
    pairs = (('R0_func', q.R0), ('Z0_func', q.Z0), ('normal_R_spline', q.normal_cylindrical[:, 0]), ('normal_phi_spline', q.normal_cylindrical[:, 1]),
             ('normal_z_spline', q.normal_cylindrical[:, 2]), ('binormal_R_spline', q.binormal_cylindrical[:, 0]), ('binormal_phi_spline', q.binormal_cylindrical[:, 1]),
             ('binormal_z_spline', q.binormal_cylindrical[:, 2]), ('tangent_R_spline', q.tangent_cylindrical[:, 0]), ('tangent_phi_spline', q.tangent_cylindrical[:, 1]),
             ('tangent_z_spline', q.tangent_cylindrical[:, 2]), ('nu_spline', q.varphi - q.phi))
    for nm, data in pairs:
        f = getattr(q, nm, None)
        if f is None:
            continue
        n += 1
        for shift in (0.0, 2 * np.pi / q.nfp):
            e = float(np.max(np.abs(np.asarray(f(q.phi + shift), dtype=float) - data)))
            if e > 1e-11 * max(1.0, float(np.max(np.abs(data)))):
                bad('spline:nodes:' + nm, '%s does not pass through its grid data (%.3g, evaluated %s)' % (nm, e, 'on the first period' if shift == 0 else 'one period later'))
                break
    rmax = r_range(q)
    r = round_sig(rmax * rnd(r2, 0.1, 1.0), 4)
    ntheta = int(r2.integers(4, 12))
    m, surf = check_points(q, r, ntheta, r2, bad, stats)
    n += m
    if surf is not None:
        n += check_fourier_surface(q, r, surf[0], surf[1], r2, bad, stats)
        if thorough:
            n += check_trig(cfg, q, r, ntheta, surf[2], r2, bad, stats)
    n += check_fourier_synthetic(r2, bad, stats, count=8 if thorough else 4)
    return out, n


def safe_predict(cfg, rng, *a, **kw):
    """an exception inside the implementation while a prediction is being checked is a violation with a replayable input, not a crash"""
    try:
        return predict(cfg, rng, *a, **kw)
    except Exception as e:
        import traceback
        return [dict(key='exception', what='%s raised while the predictions were being checked: %s' % (type(e).__name__, str(e)[:300]), cfg=jsonable(cfg),
                     thorough=bool(kw.get('thorough')), trace=traceback.format_exc()[-1200:])], 0


def main():
    ap = argparse.ArgumentParser()
    for a_ in ('--mode', '--hint', '--file', '--tier'):
        ap.add_argument(a_, default={'--mode': 'check', '--hint': '[]', '--tier': 'quick'}.get(a_))
    ap.add_argument('--seed', type=int, default=1); ap.add_argument('--n', type=int, default=6); ap.add_argument('--budget', type=float, default=60)
    a = ap.parse_args()
    rng = np.random.default_rng(a.seed)
    res = dict(configs=0, programs_validated=0, bindings_compared=0, max_rel_err=0.0, mismatches=[], violations=[], samples=[],
               predictions_checked=0, distribution={})
    dist, stats = {}, {}
    if a.mode == 'replay':
        f = (json.load(open(a.file)).get('failing') or {})
        if f.get('cfg'):
            res['violations'], res['predictions_checked'] = safe_predict(f['cfg'], rng, thorough=bool(f.get('thorough')), sub=f.get('sub'))
        elif f.get('file'):
            out = []
            res['predictions_checked'] = fortran_corpus(lambda key, what, **kw: out.append(dict(key=key, what=what, **kw)), stats)
            res['violations'] = out
        print(json.dumps(res, default=str)); return
    t0 = time.time(); tried = 0
    nn = a.n if a.mode == 'check' else 10 ** 6
    if a.mode == 'check' and a.tier == 'thorough':
        out = []
        res['predictions_checked'] += fortran_corpus(lambda key, what, **kw: out.append(dict(key=key, what=what, **kw)), stats)
        res['violations'] += out
    for c_, q_ in corpus_objects():          # distilled regression inputs first
        v, n = safe_predict(c_, rng, q_, thorough=False, stats=stats)
        res['predictions_checked'] += n; res['violations'] += v; res['configs'] += 1
        dist['corpus'] = dist.get('corpus', 0) + 1
    while tried < nn and (a.mode == 'check' or (time.time() - t0 < a.budget and not res['violations'])):
        tried += 1
        sg = [(1, 1), (1, -1), (-1, 1), (-1, -1)][int(rng.integers(0, 4))]
        order = ['r1', 'r2', 'r3'][tried % 3]
        nphi = int(2 * rng.integers(7, 23) + 1) if tried % 2 else int(2 * rng.integers(15, 31) + 1)
        try:
            cfg, q = gen_admissible(rng, order=order, asym=bool(rng.integers(0, 2)), qh=(tried % 3 == 0) ^ (tried % 2 == 0), signs=sg, nphi=nphi)
            if not q.lasym and tried % 4 == 1:
                c2 = single_knob_variant(cfg, rng)        # exactly one symmetry-breaking input (B2s alone, sigma0 alone, ...)
                q2, msgs = build(c2)
                if admissible(q2, msgs):
                    cfg, q = c2, q2
        except RuntimeError:
            continue
        key = '%s/%s/%s/nfp%d' % ('QH' if q.helicity else 'QA', 'asym' if q.lasym else 'sym', cfg['order'], cfg['nfp'])
        dist[key] = dist.get(key, 0) + 1
        res['configs'] += 1
        v, n = safe_predict(cfg, rng, q, thorough=(a.tier == 'thorough' and tried <= 12), stats=stats)
        res['predictions_checked'] += n; res['violations'] += v
        if len(res['samples']) < 3:
            res['samples'].append(dict(cfg=jsonable(cfg), r_max=r_range(q)))
    res['distribution'] = dist
    res['summary'] = 'tried %d inputs in %.0f s; %s' % (tried, time.time() - t0, ', '.join('%s=%.3g' % kv for kv in sorted(stats.items())))
    res['violations'] = res['violations'][:20]
    print(json.dumps(res, default=str))


if __name__ == '__main__':
    main()
