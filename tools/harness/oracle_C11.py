"""Numeric oracle for C11 (algebraic clauses): an independent Python reading of props/C11_spec.v on live objects."""
import sys, os, json, time, argparse
sys.path.insert(0, os.path.dirname(os.path.abspath(__file__)))
from common import *
import transval
MU0 = 4 * np.pi * 1e-7


def predict(cfg, q=None):
    if q is None:
        q, _ = build(cfg)
    if q.order == 'r1':
        return [], 0
    out = []
    pi = np.pi
    B0, G0, p2, eta = q.B0, q.G0, q.p2, q.etabar
    V2 = 4 * pi * pi * abs(G0) / B0 ** 3 * (3 * eta * eta - 4 * q.B20_mean / B0 + 2 * (q.G2 + q.iota * q.I2) / G0)
    well = (MU0 * p2 * abs(G0) / (8 * pi ** 4 * B0 ** 3)) * (q.d2_volume_d_psi2 - 8 * pi * pi * MU0 * p2 * abs(G0) / B0 ** 5)
    k, s = q.curvature, q.sigma
    integrand = q.d_l_d_phi * (eta ** 4 + k ** 4 * s * s + eta * eta * k * k) / (eta ** 4 + k ** 4 * (1 + s * s) + 2 * eta * eta * k * k)
    integral = np.sum(integrand) * q.d_phi * q.nfp * 2 * pi / q.axis_length
    geod = -(2 * MU0 ** 2 * p2 ** 2 * G0 ** 4 * eta ** 2 / (pi ** 3 * B0 ** 10 * q.iotaN ** 2)) * integral
    checks = [('V2_closed', q.d2_volume_d_psi2, V2), ('DWell_closed', q.DWell_times_r2, well), ('DGeod_closed', q.DGeod_times_r2, geod),
              ('DMerc_sum', q.DMerc_times_r2, q.DWell_times_r2 + q.DGeod_times_r2)]
    for name, got, want in checks:
        sc = max(abs(want), abs(got), 1e-300)
        if not np.isfinite(got) or abs(got - want) > 1e-9 * sc:
            out.append(dict(key=name, what='%s: reported %.12g, closed form %.12g' % (name, got, want), cfg=jsonable(cfg)))
    if q.DGeod_times_r2 > 0:
        out.append(dict(key='DGeod_sign', what='DGeod_times_r2 = %g > 0' % q.DGeod_times_r2, cfg=jsonable(cfg)))
    if p2 == 0 and (q.DWell_times_r2 != 0 or q.DGeod_times_r2 != 0 or q.DMerc_times_r2 != 0):
        out.append(dict(key='p2zero', what='Mercier terms do not vanish for p2 = 0', cfg=jsonable(cfg)))
    # V' = 4 pi^2 |G0| / B0^2 with |G0| = B0 L / (2 pi), L the length of the axis (independent quadrature of the returned arclength element)
    L = float(np.sum(q.d_l_d_phi) * q.d_phi * q.nfp)
    if abs(abs(G0) - B0 * L / (2 * pi)) > 1e-10 * abs(G0):
        out.append(dict(key='G0_axis_length', what='|G0| = %.12g but B0 * (axis length) / (2 pi) = %.12g' % (abs(G0), B0 * L / (2 * pi)), cfg=jsonable(cfg)))
    ngeo = 0
    if q.order == 'r3':
        # the point-wise converter returns the SAME position vector whose Jacobian is integrated below (assembled here from the helical-angle coefficients)
        try:
            dev = toRZ_vs_coefficients(q, np.random.default_rng(7))
            ngeo += 1
            if not dev <= 1e-9:
                out.append(dict(key='toRZ_position', what='to_RZ differs from r0 + X n + Y b + Z t assembled from the returned coefficients by %.3g (relative to R)' % dev, cfg=jsonable(cfg)))
            else:
                # ... and again at the SAME (r, theta) points after the shape has been changed and recalculated (a copy of the object: the checks below use q itself)
                import copy
                q2 = copy.deepcopy(q)
                q2.B2c = q2.B2c + 0.15
                q2.calculate()
                dev2 = toRZ_vs_coefficients(q2, np.random.default_rng(7))
                ngeo += 1
                if not dev2 <= 1e-9:
                    out.append(dict(key='toRZ_position', what='after changing B2c and recalculating, to_RZ still returns the old surface: it differs from r0 + X n + Y b + Z t of the current coefficients by %.3g' % dev2, cfg=jsonable(cfg)))
        except Exception as e:
            out.append(dict(key='toRZ_position', what='to_RZ raised %s' % type(e).__name__, cfg=jsonable(cfg)))
        # geometric clause: V' and V'' from the Jacobian of the RETURNED position vector (series algebra of oracle_C01; props/C11_volume.v)
        import oracle_C01
        tail = oracle_C01.spectral_tail(q)
        if tail < 1e-10:
            res_, _ = oracle_C01.residuals(q, np.random.default_rng(0))
            sg = res_['sqrtg'].c                                  # (order, theta samples, phi)
            a1, a3 = np.mean(sg[1], axis=0), np.mean(sg[3], axis=0)
            wmean = lambda f: float(np.sum(f * q.d_l_d_phi) / np.sum(q.d_l_d_phi))
            sgn = q.sG * q.spsi
            Vp = 2 * pi / B0 * (2 * pi * wmean(sgn * a1))
            Vpp = 2 * pi / B0 * (2 / B0) * (2 * pi * wmean(sgn * a3))
            ngeo = 2
            if abs(Vp - 4 * pi * pi * abs(G0) / B0 ** 2) > 1e-8 * abs(Vp):
                out.append(dict(key='Vprime_geometric', what="V' from the Jacobian of the returned surfaces is %.12g, 4 pi^2 |G0|/B0^2 = %.12g" % (Vp, 4 * pi * pi * abs(G0) / B0 ** 2), cfg=jsonable(cfg)))
            terms = 4 * pi * pi * abs(G0) / B0 ** 3 * (3 * eta * eta + 4 * abs(q.B20_mean) / B0 + 2 * (abs(q.G2) + abs(q.iota * q.I2)) / abs(G0))
            if abs(Vpp - q.d2_volume_d_psi2) > 1e-7 * max(terms, abs(Vpp)):
                out.append(dict(key='V2_geometric', what="reported d2_volume_d_psi2 = %.12g but the second psi-derivative of the volume enclosed by the returned surfaces is %.12g" % (q.d2_volume_d_psi2, Vpp), cfg=jsonable(cfg)))
    return out, len(checks) + 2 + ngeo


def named_p2_zero():
    """'all three vanish identically when p2 = 0', also when p2 = 0 is REQUESTED from a named configuration whose own pressure is not zero"""
    out = []
    import logging
    qsc_ = import_qsc()
    for name in ('r2 section 5.3', 'r2 section 5.5'):
        try:
            logging.disable(logging.CRITICAL)
            qn = qsc_.Qsc.from_paper(name, nphi=31, p2=0.0)
            logging.disable(logging.NOTSET)
        except Exception:
            logging.disable(logging.NOTSET)
            continue
        if float(qn.p2) != 0.0 or qn.DMerc_times_r2 != 0 or qn.DWell_times_r2 != 0 or qn.DGeod_times_r2 != 0:
            out.append(dict(key='p2zero-named', what='from_paper(%r, p2=0): p2 = %r, DMerc r^2 = %r, DWell r^2 = %r, DGeod r^2 = %r' % (name, float(qn.p2), float(qn.DMerc_times_r2), float(qn.DWell_times_r2), float(qn.DGeod_times_r2)),
                            cfg=dict(preset=name, p2=0.0)))
    return out


def main():
    ap = argparse.ArgumentParser()
    for a_ in ('--mode', '--hint', '--file', '--tier'):
        ap.add_argument(a_, default={'--mode': 'check', '--hint': '[]', '--tier': 'quick'}.get(a_))
    ap.add_argument('--seed', type=int, default=1); ap.add_argument('--n', type=int, default=6); ap.add_argument('--budget', type=float, default=60)
    a = ap.parse_args()
    rng = np.random.default_rng(a.seed)
    res = dict(configs=0, programs_validated=0, bindings_compared=0, max_rel_err=0.0, mismatches=[], violations=[], samples=[],
               predictions_checked=0, distribution={})
    dist = {}
    if a.mode == 'replay':
        f = (json.load(open(a.file)).get('failing') or {})
        if f.get('key') == 'p2zero-named':
            res['violations'], res['predictions_checked'] = named_p2_zero(), 2
        elif f.get('cfg'):
            res['violations'], res['predictions_checked'] = predict(f['cfg'])
        print(json.dumps(res, default=str)); return
    t0 = time.time(); tried = 0
    nn = a.n if a.mode == 'check' else 10 ** 6
    res['violations'] += named_p2_zero(); res['predictions_checked'] += 2; dist['fixed:named-p2-zero'] = 1
    for c_, q_ in corpus_objects(('r2', 'r3')):          # distilled regression inputs first
        v, n = predict(c_, q_)
        res['predictions_checked'] += n; res['violations'] += v; res['configs'] += 1
        dist['corpus'] = dist.get('corpus', 0) + 1
    while tried < nn and (a.mode == 'check' or (time.time() - t0 < a.budget and not res['violations'])):
        tried += 1
        try:
            cfg, q = gen_admissible(rng, order=['r2', 'r3'][tried % 2], nphi=(int(2 * rng.integers(30, 50) + 1) if tried % 2 else None), simple=(tried % 4 == 1))
        except RuntimeError:
            continue
        key = '%s/sG%+d/p2%s/B0%s' % (cfg['order'], cfg['sG'], '=0' if not cfg.get('p2') else '!=0', '=1' if cfg.get('B0', 1) == 1 else '!=1')
        dist[key] = dist.get(key, 0) + 1
        if a.mode == 'check':
            tv = transval.validate(q, rng, only=('mercier',))
            res['programs_validated'] += tv['programs']; res['bindings_compared'] += tv['bindings']
            res['max_rel_err'] = max(res['max_rel_err'], tv['max_rel_err']); res['mismatches'] += tv['mismatches']
        res['configs'] += 1
        v, n = predict(cfg, q)
        res['predictions_checked'] += n; res['violations'] += v
        if len(res['samples']) < 3:
            res['samples'].append(dict(cfg=jsonable(cfg)))
    res['distribution'] = dist; res['summary'] = 'tried %d inputs' % tried
    res['mismatches'] = res['mismatches'][:20]; res['violations'] = res['violations'][:20]
    print(json.dumps(res, default=str))


if __name__ == '__main__':
    main()
