"""Numeric oracle for C18 (convergence with the toroidal resolution; promotion of even nphi).

 (a) Qsc(..., nphi=2m) is attribute-for-attribute BITWISE identical to Qsc(..., nphi=2m+1): scalars, profiles, tensors, matrices,
     the periodic splines (sampled), iota2 at order r3.
 (b) ladder nphi = 31, 61, 121, 241 (thorough: + 15, 45, 91, 181) on smooth inputs.
     SPECTRAL outputs (solved profiles and everything computed from them by spectral differentiation, arclength integrals, extrema located on
     the trigonometric interpolant, iota2 on its stellarator-symmetric branch): for every pair of consecutive rungs the change - profiles are
     compared at common random angles on their trigonometric interpolants - is below max(1e-8, K * tail) relative (K = 30 for scalars, 150 for profiles), where `tail` is the MEASURED
     relative size of the last Fourier coefficients of the profile(s) the output is computed from, at the coarser rung of the pair; pairs with
     tail > 1e-6 are counted as 'unresolved' and not asserted.  For the two finest rungs of a resolved input this is the 1e-8 of the property.
     SECOND-ORDER outputs:
       - maxima/minima over GRID POINTS of a smooth profile (grad_grad_B_inverse_scale_length, B20_variation): the offset of the true extremum
         from the nearest grid point is pseudo-random, so successive differences do not decrease monotonically; asserted instead is the
         second-order ENVELOPE |v_n - v_finest| <= 1.25 (h_n^2 + h_finest^2)/8 max|f''| with f'' from the finest rung (explicit constant);
       - r_singularity (minimum over grid points of a profile that is only piecewise smooth): first-order envelope with the measured
         Lipschitz constant of the finest profile;
       - the Boozer angle (varphi - phi at common angles; cumulative trapezoid): Euler-Maclaurin envelope h^2/12 * 2 max|d2l/dphi2| * 2pi/L, and
         successive differences decreasing by a factor >= 3 per doubling of nphi (or below 1e-8);
       - iota2 on its non-symmetric branch (cumulative trapezoid integrals): successive differences decreasing by a factor >= 3 per doubling.
"""
import os, sys
for _v in ('OPENBLAS_NUM_THREADS', 'OMP_NUM_THREADS', 'MKL_NUM_THREADS'):
    os.environ.setdefault(_v, '1')
import json, time, argparse
sys.path.insert(0, os.path.dirname(os.path.abspath(__file__)))
from common import *
from oracle_C06 import trig_eval, spec_tail, all_attrs, SPLINES, P1, P2, P3, EXTREMA, _cache, extremum_gap, extremum_curv, fft_derivative

TWO_PI = 2 * np.pi
QUICK = (31, 61, 121, 241)
THOROUGH = (15, 31, 45, 61, 91, 121, 181, 241)
K_TAIL = 30.0          # scalars: measured change / tail <= 2
K_PROFILE = 150.0      # profiles at common angles: measured change / tail <= 42 (derived profiles with slowly decaying spectra)
# profiles that are not smooth functions of phi (branch selection, sentinels) or that are not periodic
NOT_SMOOTH = ('phi', 'varphi', 'r_singularity_vs_varphi', 'r_singularity_basic_vs_varphi', 'inv_r_singularity_vs_varphi',
              'r_singularity_theta_vs_varphi', 'r_singularity_residual_sqnorm')
# scalar -> profiles whose spectrum gates it ('1': first-order profiles, '2': all profiles up to the object's order)
SPECTRAL_SCALARS = dict(iota='1', iotaN='1', axis_length=('d_l_d_phi',), G0=('d_l_d_phi',), abs_G0_over_B0=('d_l_d_phi',), d_l_d_varphi=('d_l_d_phi',),
                        mean_elongation=('elongation',), max_elongation=('elongation',), min_R0=('R0',), min_L_grad_B=('L_grad_B',),
                        B20_mean='2', B20_residual='2', G2='1', beta_1s='1', d2_volume_d_psi2='2', DGeod_times_r2='1', DWell_times_r2='2',
                        DMerc_times_r2='2')
INVARIANT = ('helicity', 'N_helicity', 'nfp', 'nfourier', 'etabar', 'sigma0', 'B0', 'I2', 'sG', 'spsi', 'B2s', 'B2c', 'p2', 'Bbar', 'min_R0_threshold')


def tails(q):
    t1 = max(spec_tail(getattr(q, p)) for p in P1)
    t2 = t1
    if q.order != 'r1':
        t2 = max([t1] + [spec_tail(getattr(q, p)) for p in P2])
        if q.order == 'r3':
            t2 = max([t2] + [spec_tail(getattr(q, p)) for p in P3])
    return t1, t2


def natural_scale(q, name, v):
    """scale against which a change of a scalar is measured: |v|, or the size of the terms it is a (possibly cancelling) sum of"""
    s = abs(float(v))
    mu0 = 4e-7 * np.pi
    if name in ('iota', 'iotaN'):
        s = max(abs(q.iota), abs(q.iotaN))
    elif name == 'B20_mean':
        s = max(s, float(np.max(np.abs(q.B20))))
    elif name == 'G2':
        s = max(s, abs(mu0 * q.p2 * q.G0 / q.B0 ** 2) + abs(q.iota * q.I2))
    elif name in ('d2_volume_d_psi2', 'DWell_times_r2', 'DMerc_times_r2'):
        d2 = 4 * np.pi ** 2 * abs(q.G0) / q.B0 ** 3 * (3 * q.etabar ** 2 + 4 * float(np.max(np.abs(q.B20))) / q.B0 + 2 * abs(mu0 * q.p2 / q.B0 ** 2))
        if name == 'd2_volume_d_psi2':
            s = max(s, d2)
        else:
            w = abs(mu0 * q.p2 * q.G0 / (8 * np.pi ** 4 * q.B0 ** 3)) * (d2 + abs(8 * np.pi ** 2 * mu0 * q.p2 * q.G0 / q.B0 ** 5))
            s = max(s, w + (abs(q.DGeod_times_r2) if name == 'DMerc_times_r2' else 0.0))
    return max(s, 1e-300)


def extremum_check(cfg, q, bad, shifted=True):
    """the three extrema located on the trigonometric interpolant: compared with the minimum of a dense evaluation of that interpolant in the
    cell around the discrete arg-extremum (what fourier_minimum refines).  With shifted=True the toroidal origin is then moved so that the
    continuous extremum lies JUST BEFORE phi = 0 (between the last and the first grid point) and the comparison is repeated."""
    from oracle_sym import shifted_cfg
    n = 0
    per = TWO_PI / q.nfp
    for name, (prof, sign) in EXTREMA.items():
        if not hasattr(q, name):
            continue
        y = -sign * np.asarray(getattr(q, prof), dtype=float)            # a minimisation problem in every case
        if (np.max(y) - np.min(y)) < 1e-9 * max(abs(np.mean(y)), 1e-300):
            continue
        N = len(y)
        j = int(np.argmin(y))
        xd = (j + np.linspace(-1.0, 1.0, 4001)) * (per / N)
        f = trig_eval(y, xd, per)
        want = float(np.min(f))
        got = -sign * float(getattr(q, name))
        n += 1
        sc = max(float(np.max(np.abs(y))), 1e-300)
        if abs(got - want) > 1e-7 * sc + 4e-7 * (float(np.max(y)) - float(np.min(y))):
            bad('extremum:' + name, '%s = %.12g but the extremum of the trigonometric interpolant of %s next to its discrete extremum (index %d of %d) is %.12g'
                % (name, float(getattr(q, name)), prof, j, N, -sign * want), name=name)
        if shifted and isinstance(cfg, dict) and q.lasym:
            xs = xd[int(np.argmin(f))]
            k = int(np.floor(xs / (per / N))) + 1                        # new origin = first grid point AFTER the continuous extremum
            k %= N
            if k == 0:
                continue
            try:
                q2, m2 = build(shifted_cfg(cfg, q, k), shear=False)
            except Exception:
                continue
            if any('Newton solve did not get close' in m for m in m2) or abs(q2.iota - q.iota) > 1e-6 * max(1.0, abs(q.iota)):
                continue
            n += extremum_check(None, q2, lambda key, what, **kw: bad(key, what + ' [after moving the origin by %d grid points]' % k, shift=k, **kw), shifted=False)
    return n


# ------------------------------------------------------------------------------------------------------------------------
# (a) even nphi
# ------------------------------------------------------------------------------------------------------------------------
def bitwise_equal(a, b):
    a, b = np.asarray(a), np.asarray(b)
    if a.shape != b.shape:
        return False
    if a.dtype.kind in 'fc' or b.dtype.kind in 'fc':
        return bool(np.all((a == b) | (np.isnan(a) & np.isnan(b))))
    return bool(np.array_equal(a, b))


def even_promotion(cfg, rng, bad):
    n = 0
    m = int(rng.integers(7, 45))
    # the request may arrive as any integer type (a plain int, or a numpy integer e.g. out of np.arange)
    typ = [int, np.int64, np.int32, int][int(rng.integers(0, 4))]
    ce, co = dict(cfg, nphi=typ(2 * m)), dict(cfg, nphi=2 * m + 1)
    qo, _ = build(co, shear=True)
    n += 1
    try:
        qe, _ = build(ce, shear=True)
    except Exception as e:
        bad('even:exception', 'Qsc(nphi=%d) raises %s: %s although nphi=%d works' % (2 * m, type(e).__name__, str(e)[:200], 2 * m + 1), nphi=2 * m)
        return n
    if qe.nphi != 2 * m + 1:
        bad('even:nphi', 'nphi=%d was requested and the object has nphi=%d, expected %d' % (2 * m, qe.nphi, 2 * m + 1), nphi=2 * m)
        return n
    fe, fo = all_attrs(qe), all_attrs(qo)
    for k in ('d_d_phi', 'd_d_varphi'):
        fe[k], fo[k] = getattr(qe, k), getattr(qo, k)
    x = rng.random(16) * TWO_PI
    for k in SPLINES:
        fe[k + '(x)'], fo[k + '(x)'] = getattr(qe, k)(x), getattr(qo, k)(x)
    for k, v in qe.__dict__.items():
        if isinstance(v, (bool, np.bool_, str, list)):
            fe[k] = v; fo[k] = qo.__dict__.get(k)
    n += 1
    if set(fe) != set(fo):
        bad('even:attrs', 'attribute sets differ between nphi=%d and nphi=%d: %s' % (2 * m, 2 * m + 1, sorted(set(fe) ^ set(fo))[:6]), nphi=2 * m)
    diff = []
    for k in fe:
        if k in fo:
            n += 1
            same = (fe[k] == fo[k]) if isinstance(fe[k], (bool, np.bool_, str, list)) else bitwise_equal(fe[k], fo[k])
            if not same:
                diff.append(k)
    if diff:
        bad('even:bitwise', 'Qsc(nphi=%d) is not bitwise identical to Qsc(nphi=%d): %d attributes differ, e.g. %s' % (2 * m, 2 * m + 1, len(diff), diff[:5]), nphi=2 * m, names=diff[:20])
    return n


# ------------------------------------------------------------------------------------------------------------------------
# (b) ladder
# ------------------------------------------------------------------------------------------------------------------------
def ladder_check(cfg, rungs, rng, bad, stats):
    n = 0
    qs = []
    for m in rungs:
        q, msgs = build(dict(cfg, nphi=m), shear=True)
        qs.append(q)
    per = TWO_PI / qs[0].nfp
    x = rng.random(32) * per
    tl = [tails(q) for q in qs]
    fl = [all_attrs(q) for q in qs]
    _cache.clear()
    sym_branch = (cfg.get('sigma0', 0.0) == 0 and not np.any(np.asarray(cfg.get('rs', [0.0]))) and not np.any(np.asarray(cfg.get('zc', [0.0]))))

    def count(key):
        stats[key] = stats.get(key, 0) + 1

    def ladder_of(name):
        return [float(getattr(q, name)) if hasattr(q, name) and np.ndim(getattr(q, name)) == 0 else None for q in qs]
    # ---- invariants of the discretisation
    for name in INVARIANT:
        if hasattr(qs[0], name):
            n += 1
            v = [getattr(q, name) for q in qs]
            if any(float(a) != float(v[0]) for a in v):
                bad('ladder:invariant:' + name, '%s depends on nphi: %r at nphi=%r' % (name, [float(a) for a in v], list(rungs)), name=name, ladder=[float(a) for a in v])
    # ---- SPECTRAL scalars, every consecutive pair
    spectral = dict(SPECTRAL_SCALARS)
    if hasattr(qs[0], 'iota2') and sym_branch:
        spectral['iota2'] = '2'
    for name, src in spectral.items():
        if not hasattr(qs[0], name):
            continue
        for i in range(len(rungs) - 1):
            qa, qb = qs[i], qs[i + 1]
            t = tl[i][0] if src == '1' else tl[i][1] if src == '2' else max(spec_tail(getattr(qa, p)) for p in src)
            if t > 1e-6:
                count('unresolved'); continue
            tol = max(1e-8, (K_PROFILE if name in EXTREMA else K_TAIL) * t)
            if name in EXTREMA and extremum_gap(qs[-1], name) <= 2.5 * (per / rungs[i]) ** 2 / 8 * extremum_curv(qs[-1], name):
                # fourier_minimum refines the extremum next to the discrete arg-extremum only: with two competing local extrema closer in value
                # than the sampling error of the grid it returns the wrong one until the grid separates them - not a convergence failure
                count('ambiguous_extremum'); continue
            a, b = float(getattr(qa, name)), float(getattr(qb, name))
            n += 1
            e = abs(a - b) / natural_scale(qb, name, b)
            stats['worst_scalar_ratio'] = max(stats.get('worst_scalar_ratio', 0.0), e / tol)
            if not e <= tol:
                bad('ladder:spectral:' + name, '%s changes by a relative %.3g between nphi=%d and nphi=%d although the spectrum of its source profiles is resolved to %.1g at nphi=%d; ladder %s at nphi=%s'
                    % (name, e, rungs[i], rungs[i + 1], t, rungs[i], ['%.12g' % v for v in ladder_of(name)], list(rungs)), name=name, ladder=ladder_of(name), rungs=list(rungs))
                break
    # ---- SPECTRAL profiles at common angles, every consecutive pair
    qf = qs[-1]
    hf = per / qf.nphi
    d2l = float(np.max(np.abs(fft_derivative(qf.d_l_d_phi, per, 1))))
    em = lambda h: 1.25 * h * h / 12 * 2 * d2l * TWO_PI / float(qf.axis_length)      # Euler-Maclaurin envelope of the cumulative trapezoid
    N = abs(float(qf.helicity) * qf.nfp)
    first_order = set(all_attrs(build(dict(cfg, order='r1', nphi=15))[0]))
    for name, a0 in fl[0].items():
        if a0.shape != (qs[0].nphi,) or name in NOT_SMOOTH or name.startswith('r_singularity'):
            continue
        twist = 0
        if name.endswith('_untwisted') and N != 0:
            # rotated by the angle -N*varphi (times the poloidal harmonic): inherits the second-order error of the Boozer angle
            core = name[1:-len('_untwisted')]            # '1c', '20', '2s', '3c1', '3s3'
            twist = 0 if core.endswith('0') else int(core[-1]) if len(core) == 3 else int(core[0])
        for i in range(len(rungs) - 1):
            j = len(rungs) - 1 if twist else i + 1
            a, b = fl[i].get(name), fl[j].get(name)
            if a is None or b is None or a.shape != (rungs[i],) or b.shape != (rungs[j],):
                continue
            if not (np.all(np.isfinite(a)) and np.all(np.isfinite(b))):
                count('unresolved'); continue
            t = max(spec_tail(a), tl[i][0] if name in first_order else tl[i][1])
            if t > 1e-6:
                count('unresolved'); continue
            tol = max(1e-8, K_PROFILE * t)
            if name == 'elongation':
                # only Lipschitz where a cross-section is circular: its coefficients decay like k^-2, so the unresolved remainder sum_{k > n/2} |c_k| exceeds the last
                # resolved coefficient (what the tail measures) by a factor ~ n/2 (the property singles the elongation out for this reason)
                tol = max(1e-8, K_PROFILE * t * rungs[i] / 4.0)
            n += 1
            sc = max(float(np.max(np.abs(b))), 1e-300)
            e = float(np.max(np.abs(trig_eval(a, x, per) - trig_eval(b, x, per)))) / sc
            if twist:
                partner = name.replace('s', 'c', 1) if 's' in core else name.replace('c', 's', 1)
                amp = 2 * max(float(np.max(np.abs(b))), float(np.max(np.abs(fl[j].get(partner, b)))))
                allow = twist * N * (em(per / rungs[i]) + em(hf)) * amp / sc + tol
                stats['worst_untwisted_ratio'] = max(stats.get('worst_untwisted_ratio', 0.0), e / allow)
                if not e <= allow:
                    bad('ladder:second-order:' + name, 'profile %s (rotated by the trapezoid-integrated Boozer angle) differs between nphi=%d and nphi=%d by a relative %.3g, more than the second-order envelope %.3g'
                        % (name, rungs[i], rungs[j], e, allow), name=name, rungs=[rungs[i], rungs[j]])
                    break
                continue
            stats['worst_profile_ratio'] = max(stats.get('worst_profile_ratio', 0.0), e / tol)
            if not e <= tol:
                bad('ladder:profile:' + name, 'profile %s changes by a relative %.3g at common angles between nphi=%d and nphi=%d although its spectrum is resolved to %.1g at nphi=%d'
                    % (name, e, rungs[i], rungs[i + 1], t, rungs[i]), name=name, rungs=[rungs[i], rungs[i + 1]])
                break
    # ---- SECOND-ORDER outputs
    if qf.order != 'r1' and tl[-1][1] <= 1e-6:
        for name, prof, fac in (('grad_grad_B_inverse_scale_length', 'grad_grad_B_inverse_scale_length_vs_varphi', 1.0), ('B20_variation', 'B20', 2.0)):
            pf = np.asarray(getattr(qf, prof), dtype=float)
            if spec_tail(pf) > 1e-6:
                count('unresolved'); continue
            M2 = float(np.max(np.abs(fft_derivative(pf, per, 2))))
            vf = float(getattr(qf, name))
            vals = ladder_of(name)
            for i in range(len(rungs) - 1):
                t = max(tl[i][1], spec_tail(getattr(qs[i], prof)))
                if t > 1e-4:
                    count('unresolved'); continue
                h = per / rungs[i]
                bound = 1.25 * fac * (h * h + hf * hf) / 8 * M2 + K_TAIL * t * float(np.max(np.abs(pf))) * fac + 1e-8 * abs(vf)
                n += 1
                e = abs(vals[i] - vf)
                stats['worst_envelope_ratio'] = max(stats.get('worst_envelope_ratio', 0.0), e / bound)
                if not e <= bound:
                    bad('ladder:second-order:' + name, '%s at nphi=%d differs from its value at nphi=%d by %.3g, more than the second-order envelope %.3g (h^2/8 max|f\'\'|); ladder %s at nphi=%s'
                        % (name, rungs[i], rungs[-1], e, bound, ['%.10g' % v for v in vals], list(rungs)), name=name, ladder=vals, rungs=list(rungs))
                    break
        # r_singularity: first-order envelope with the Lipschitz constant measured on the finest grid
        pf = np.asarray(qf.r_singularity_vs_varphi, dtype=float)
        ok = pf < 1e20
        vals = ladder_of('r_singularity')
        if np.all(ok) and np.isfinite(vals[-1]):
            lip = float(np.max(np.abs(np.diff(np.append(pf, pf[0]))))) / hf
            for i in range(len(rungs) - 1):
                if tl[i][1] > 1e-4:
                    count('unresolved'); continue
                h = per / rungs[i]
                bound = 1.25 * (h + hf) / 2 * lip + K_TAIL * tl[i][1] * vals[-1] * 10 + 1e-8 * vals[-1]
                n += 1
                e = abs(vals[i] - vals[-1])
                stats['worst_rsing_ratio'] = max(stats.get('worst_rsing_ratio', 0.0), e / bound)
                if not e <= bound:
                    bad('ladder:first-order:r_singularity', 'r_singularity at nphi=%d differs from its value at nphi=%d by %.3g, more than the Lipschitz envelope %.3g; ladder %s at nphi=%s'
                        % (rungs[i], rungs[-1], e, bound, ['%.10g' % v for v in vals], list(rungs)), name='r_singularity', ladder=vals, rungs=list(rungs))
                    break
        else:
            count('unresolved')
    # Boozer angle: nu = varphi - phi at common angles
    nu = [trig_eval(q.varphi - q.phi, x, per) for q in qs]
    for i in range(len(rungs) - 1):
        t = max(spec_tail(qs[i].d_l_d_phi), spec_tail(qs[i].varphi - qs[i].phi))
        if t > 1e-6:
            count('unresolved'); continue
        n += 1
        e = float(np.max(np.abs(nu[i] - nu[-1])))
        bound = em(per / rungs[i]) + em(hf) + K_TAIL * t * per + 1e-10
        stats['worst_varphi_ratio'] = max(stats.get('worst_varphi_ratio', 0.0), e / bound)
        if not e <= bound:
            bad('ladder:second-order:varphi', 'varphi - phi at common angles differs between nphi=%d and nphi=%d by %.3g, more than the trapezoid envelope %.3g' % (rungs[i], rungs[-1], e, bound),
                name='varphi', rungs=list(rungs))
            break
    # successive differences over doublings (systematic second-order errors: cumulative trapezoid)
    doubling = [i for i, m in enumerate(rungs) if m in (31, 61, 121, 241)]
    series = [('varphi', [nu[i] for i in doubling], per)]
    if hasattr(qf, 'iota2') and not sym_branch:
        series.append(('iota2', [np.array([float(qs[i].iota2)]) for i in doubling], abs(float(qf.iota2))))
    for name, vs, scale in series:
        d = [float(np.max(np.abs(vs[i + 1] - vs[i]))) for i in range(len(vs) - 1)]
        for i in range(len(d) - 1):
            j = doubling[i]
            if tl[j][1] > 1e-6 or (name == 'varphi' and spec_tail(qs[j].d_l_d_phi) > 1e-6):
                count('unresolved'); continue
            n += 1
            if d[i] > 0:
                stats['worst_doubling_ratio_' + name] = max(stats.get('worst_doubling_ratio_' + name, 0.0), d[i + 1] / max(d[i], 1e-300))
            if not (d[i + 1] <= d[i] / 3.0 or d[i + 1] <= (1e-6 if name == 'iota2' else 1e-8) * scale):      # (iota2: below 1e-6 of its size the differences are dominated by the conditioning of the O(r^2) / O(r^3) solves, not by quadrature)
                bad('ladder:second-order:' + name + ':differences', 'successive differences of %s over doublings of nphi do not decrease by a factor 3: %s at nphi=(31,61,121,241)%s'
                    % (name, ['%.3g' % v for v in d], '; values %s' % ['%.12g' % v[0] for v in vs] if name == 'iota2' else ''), name=name, differences=d,
                    ladder=[float(v[0]) for v in vs] if name == 'iota2' else None)
                break
    return n


def predict(cfg, rng, q=None, thorough=False, sub=None, stats=None):
    out, n = [], 0
    stats = stats if stats is not None else {}
    if sub is None:
        sub = int(rng.integers(0, 2 ** 31 - 1))
    r2 = np.random.default_rng(sub)

    def bad(key, what, **kw):
        out.append(dict(key=key, what=what, cfg=jsonable(cfg), sub=sub, thorough=bool(thorough), **kw))
    n += even_promotion(cfg, r2, bad)
    if q is not None:
        n += extremum_check(cfg, q, bad)
    n += ladder_check(cfg, THOROUGH if thorough else QUICK, r2, bad, stats)
    return out, n


def safe_predict(cfg, rng, *a, **kw):
    """an exception inside the implementation while a prediction is being checked is a violation with a replayable input, not a crash"""
    try:
        return predict(cfg, rng, *a, **kw)
    except Exception as e:
        import traceback
        return [dict(key='exception', what='%s raised while the predictions were being checked: %s' % (type(e).__name__, str(e)[:300]), cfg=jsonable(cfg),
                     thorough=bool(kw.get('thorough')), trace=traceback.format_exc()[-1200:])], 0


def main():
    ap = argparse.ArgumentParser()
    for a_ in ('--mode', '--hint', '--file', '--tier'):
        ap.add_argument(a_, default={'--mode': 'check', '--hint': '[]', '--tier': 'quick'}.get(a_))
    ap.add_argument('--seed', type=int, default=1); ap.add_argument('--n', type=int, default=6); ap.add_argument('--budget', type=float, default=60)
    a = ap.parse_args()
    rng = np.random.default_rng(a.seed)
    res = dict(configs=0, programs_validated=0, bindings_compared=0, max_rel_err=0.0, mismatches=[], violations=[], samples=[],
               predictions_checked=0, distribution={})
    dist, stats = {}, {}
    if a.mode == 'replay':
        f = (json.load(open(a.file)).get('failing') or {})
        if f.get('cfg'):
            res['violations'], res['predictions_checked'] = safe_predict(f['cfg'], rng, thorough=bool(f.get('thorough')), sub=f.get('sub'))
        print(json.dumps(res, default=str)); return
    t0 = time.time(); tried = 0
    nn = a.n if a.mode == 'check' else 10 ** 6
    for c_, q_ in corpus_objects(histories=False):          # distilled regression inputs first (extrema on the interpolant, incl. origins just after the extremum)
        vv = []
        n = extremum_check(c_, q_, lambda key, what, **kw: vv.append(dict(key=key, what=what, cfg=jsonable(c_), **kw)))
        # the Cartesian variants are point-wise rotations of the cylindrical ones by the GRID angle phi_j (so they converge exactly like them: no quadrature, no
        # other angle enters); checked on the grid of every corpus object
        try:
            cph, sph = np.cos(q_.phi), np.sin(q_.phi); zz, oo = np.zeros_like(cph), np.ones_like(cph)
            Qr = np.array([[cph, -sph, zz], [sph, cph, zz], [zz, zz, oo]])
            for (rr, tt) in ((0.0, 0.0), (0.03, 1.1)):
                Bc, Bx = q_.Bfield_cylindrical(rr, tt), q_.Bfield_cartesian(rr, tt); n += 1
                if np.max(np.abs(Bx - np.einsum('ain,in->an', Qr, Bc))) > 1e-12 * max(np.max(np.abs(Bc)), 1e-300):
                    vv.append(dict(key='cartesian-B', what='Bfield_cartesian(r=%g) is not the rotation of Bfield_cylindrical by the grid angle (max deviation %.3g at nphi=%d): its convergence with nphi is not that of the cylindrical field'
                                   % (rr, float(np.max(np.abs(Bx - np.einsum('ain,in->an', Qr, Bc)))), q_.nphi), cfg=jsonable(c_))); break
            if q_.order != 'r1':
                Tc, Tx = np.asarray(q_.grad_grad_B_tensor_cylindrical()), np.asarray(q_.grad_grad_B_tensor_cartesian()); n += 1
                rot = np.einsum('ain,bjn,ckn,ijkn->abcn', Qr, Qr, Qr, Tc)
                if np.max(np.abs(Tx - rot)) > 1e-10 * max(np.max(np.abs(Tc)), 1e-300):
                    vv.append(dict(key='cartesian-ggB', what='grad_grad_B_tensor_cartesian is not the rotation of the cylindrical variant by the grid angle (max deviation %.3g relative, nphi=%d)'
                                   % (float(np.max(np.abs(Tx - rot))) / max(float(np.max(np.abs(Tc))), 1e-300), q_.nphi), cfg=jsonable(c_)))
        except Exception:
            pass
        # the integer that decides which branch of iota the sequence over nphi converges to: helicity = sG * spsi * (turns of the normal) on every grid that resolves the normal
        try:
            import oracle_C13
            w_ = oracle_C13.winding(q_); n += 1
            if normal_resolved(q_) and q_.helicity != q_.sG * q_.spsi * w_:
                vv.append(dict(key='helicity', what='helicity %r but the normal makes %d turn(s) per field period at nphi=%d: iota is off by a multiple of nfp, the sequence over nphi cannot converge'
                               % (q_.helicity, w_, q_.nphi), cfg=jsonable(c_)))
        except Exception:
            pass
        res['predictions_checked'] += n; res['violations'] += vv; res['configs'] += 1
        dist['corpus'] = dist.get('corpus', 0) + 1
    # fixed resolution ladder: a quasi-helically symmetric axis with a NON-symmetric sigma (sigma0 != 0) at order r3 -- the only combination in which
    # calculate_shear() integrates with the trapezoid rule AND iotaN differs from iota
    FIXED = [dict(rc=[1.0, 0.17, 0.01804, 0.001409, 5.877e-05], zs=[0.0, 0.1581, 0.0182, 0.001548, 7.772e-05], nfp=4, etabar=1.569, sigma0=0.2, B2c=0.1348,
                  order='r3', sG=1, spsi=1, B0=1.0, I2=0.0, p2=0.0, B2s=0.0, nphi=61)]
    for c_ in FIXED:
        if res['violations']:
            break
        v, n = safe_predict(c_, rng, None, thorough=(a.tier == 'thorough'), stats=stats, sub=12345)
        res['predictions_checked'] += n; res['violations'] += v; res['configs'] += 1
        dist['fixed-ladder'] = dist.get('fixed-ladder', 0) + 1
    while tried < nn and (a.mode == 'check' or (time.time() - t0 < a.budget and not res['violations'])):
        tried += 1
        sg = [(1, 1), (1, -1), (-1, 1), (-1, -1)][int(rng.integers(0, 4))]
        order = ['r3', 'r1', 'r2'][tried % 3] if tried % 4 else 'r3'
        try:
            # smooth inputs: QA / QH axes with one or two harmonics (plus sine/cosine partners when not symmetric), admissible at nphi=61
            cfg, q = gen_admissible(rng, order=order, asym=(tried % 2 == 0), qh=(tried % 3 == 0), signs=sg, nphi=61, shear=True)
            if not q.lasym and tried % 4 == 1:
                c2 = single_knob_variant(cfg, rng)        # exactly one symmetry-breaking input (B2s alone, sigma0 alone, ...)
                q2, msgs2 = build(c2, shear=True)
                if admissible(q2, msgs2):
                    cfg, q = c2, q2
        except RuntimeError:
            continue
        key = '%s/%s/%s/nfp%d/sG%+d/spsi%+d' % ('QH' if q.helicity else 'QA', 'asym' if q.lasym else 'sym', cfg['order'], cfg['nfp'], cfg['sG'], cfg['spsi'])
        dist[key] = dist.get(key, 0) + 1
        res['configs'] += 1
        v, n = safe_predict(cfg, rng, q, thorough=(a.tier == 'thorough'), stats=stats)
        res['predictions_checked'] += n; res['violations'] += v
        if len(res['samples']) < 3:
            res['samples'].append(dict(cfg=jsonable(cfg), iota=float(q.iota)))
    res['distribution'] = dist
    res['summary'] = 'tried %d inputs in %.0f s; %s' % (tried, time.time() - t0, ', '.join('%s=%.3g' % kv for kv in sorted(stats.items())))
    res['violations'] = res['violations'][:20]
    print(json.dumps(res, default=str))


if __name__ == '__main__':
    main()
