"""Numeric oracle for C04: evaluates the O(r^2) system in its full form, the two algebraic
constraints and the closed forms directly from the public attributes of a live object
(an independent Python reading of props/C04_spec.v)."""
import sys, os, json, time, argparse
sys.path.insert(0, os.path.dirname(os.path.abspath(__file__)))
from common import *
import transval

MU0 = 4 * np.pi * 1e-7


def residuals(q):
    """dict name -> (max |residual|, scale)"""
    D = lambda f: dvarphi_indep(q, f)
    sG, spsi, B0, G0, I2, p2 = q.sG, q.spsi, q.B0, q.G0, q.I2, q.p2
    lp = abs(G0) / B0
    k, t, s, eta, iN = q.curvature, q.torsion, q.sigma, q.etabar, q.iotaN
    X1c, Y1s, Y1c = q.X1c, q.Y1s, q.Y1c
    X20, X2s, X2c, Y20, Y2s, Y2c, Z20, Z2s, Z2c = q.X20, q.X2s, q.X2c, q.Y20, q.Y2s, q.Y2c, q.Z20, q.Z2s, q.Z2c
    b = q.beta_1s
    IB = I2 / B0
    fX0 = D(X20) - t * lp * Y20 + k * lp * Z20 - 4 * sG * spsi * lp * (Y2c * Z2s - Y2s * Z2c) \
        - spsi * IB * (k * sG * spsi / 2 - 2 * Y20) * lp + lp * b * Y1c / 2
    fXs = D(X2s) - 2 * iN * X2c - t * lp * Y2s + k * lp * Z2s - 4 * spsi * sG * lp * (Y2c * Z20 - Y20 * Z2c) \
        - spsi * IB * (k * spsi * sG / 2 - 2 * Y2s) * lp - lp * b * Y1s / 2
    fXc = D(X2c) + 2 * iN * X2s - t * lp * Y2c + k * lp * Z2c - 4 * spsi * sG * lp * (Y20 * Z2s - Y2s * Z20) \
        - spsi * IB * (k * sG * spsi / 2 - 2 * Y2c) * lp - lp * b * Y1c / 2
    fY0 = D(Y20) + t * lp * X20 - 4 * spsi * sG * lp * (X2s * Z2c - X2c * Z2s) \
        - spsi * IB * (-k * X1c * X1c / 2 + 2 * X20) * lp - lp * b * X1c / 2
    fYs = D(Y2s) - 2 * iN * Y2c + t * lp * X2s - 4 * spsi * sG * lp * (X20 * Z2c - X2c * Z20) - 2 * spsi * IB * X2s * lp
    fYc = D(Y2c) + 2 * iN * Y2s + t * lp * X2c - 4 * spsi * sG * lp * (X2s * Z20 - X20 * Z2s) \
        - spsi * IB * (-k * X1c * X1c / 2 + 2 * X2c) * lp + lp * b * X1c / 2
    out = {}
    terms1 = [X1c * fXs, Y1s * fY0, Y1c * fYs, Y1s * fYc]
    terms2 = [X1c * fX0, X1c * fXc, Y1c * fY0, Y1s * fYs, Y1c * fYc]
    # scale: size of the individual contributions that cancel
    sc = max(np.max(np.abs(D(X20))), np.max(np.abs(D(Y20))), np.max(np.abs(X20)) * abs(iN), np.max(np.abs(Y20)) * abs(iN),
             np.max(np.abs(D(Y2s))), np.max(np.abs(D(Y2c))), 1e-300) * max(np.max(np.abs(X1c)), np.max(np.abs(Y1s)), np.max(np.abs(Y1c)))
    out['ode1'] = (float(np.max(np.abs(terms1[0] - terms1[1] + terms1[2] - terms1[3]))), float(sc))
    out['ode2'] = (float(np.max(np.abs(-terms2[0] + terms2[1] - terms2[2] + terms2[3] + terms2[4]))), float(sc))
    a_s = sG * spsi * (-k / 2 + k * k / (eta * eta) * (-X2c + X2s * s)) - sG * spsi * k * k / (eta * eta) * X20
    a_c = sG * spsi * k * k / (eta * eta) * (X2s + X2c * s) - sG * spsi * k * k * s / (eta * eta) * X20 + Y20
    out['alg_Y2s'] = (float(np.max(np.abs(Y2s - a_s))), float(max(np.max(np.abs(Y2s)), 1e-300)))
    out['alg_Y2c'] = (float(np.max(np.abs(Y2c - a_c))), float(max(np.max(np.abs(Y2c)), 1e-300)))
    G2c = -MU0 * p2 * G0 / (B0 * B0) - q.iota * I2
    out['G2'] = (abs(q.G2 - G2c), max(abs(G2c), abs(MU0 * p2 * G0 / B0 ** 2), abs(q.iota * I2), 1e-300))
    bc = -4 * spsi * sG * MU0 * p2 * eta * abs(G0) / (iN * B0 ** 3)
    out['beta_1s'] = (abs(b - bc), max(abs(bc), 1e-300) if bc != 0 else 1.0)
    dl = q.d_l_d_phi
    mean = np.sum(q.B20 * dl) / np.sum(dl)
    out['B20_mean'] = (abs(q.B20_mean - mean), max(np.max(np.abs(q.B20)), 1e-300))
    resid = np.sqrt(np.sum((q.B20 - mean) ** 2 * dl) / np.sum(dl)) / B0
    out['B20_residual'] = (abs(q.B20_residual - resid) * 1e6, max(np.max(np.abs(q.B20)) / B0, 1e-300))      # a pure statistic of the returned profile: exact to 1e-13 of the profile's size
    out['B20_variation'] = (abs(q.B20_variation - (np.max(q.B20) - np.min(q.B20))), max(np.max(np.abs(q.B20)), 1e-300))
    return out


def predict(cfg, q=None, tol=1e-7):
    if q is None:
        q, _ = build(cfg)
    if q.order == 'r1':
        return [], 0
    out = []
    # evaluation entry points are read-only (C17): calling them first must not change what is checked below (Z20_untwisted IS Z20 on quasi-axisymmetric objects, ...)
    try:
        with np.errstate(all='ignore'):
            q.to_RZ([[0.03, 0.5, 0.2], [0.02, 2.0, 1.1]])
            q.B_mag(0.03, 0.4, 0.3)
            q.Bfield_cylindrical(0.02, 0.7)
    except Exception:
        pass
    r = residuals(q)
    # closed form of B20: the poloidally averaged O(r^2) part of |B|^2 (w . e_phi) = G (G + iota I), evaluated from the returned geometry
    try:
        import oracle_C01
        tail_ = oracle_C01.spectral_tail(q)
        if tail_ < 1e-4:
            # the identity holds up to the discretisation error of the profiles; observed residual / scale ~ 0.02 * (spectral tail) on the pinned tree
            res_, scale_ = oracle_C01.residuals(q, np.random.default_rng(0))
            c2 = res_['modB'].c[2]
            r['B20_closed'] = (float(np.max(np.abs(np.mean(c2, axis=0)))) , float(scale_['modB'][2]) * 1e-2 * max(1.0, 10 * tail_ / tol))
    except Exception:
        pass
    for name, (res, sc) in r.items():
        if not np.isfinite(res) or res > tol * sc:
            out.append(dict(key=name, what='%s: residual %.3g vs scale %.3g' % (name, res, sc), cfg=jsonable(cfg)))
    return out, len(r)


def main():
    ap = argparse.ArgumentParser()
    ap.add_argument('--mode', default='check')
    ap.add_argument('--seed', type=int, default=1)
    ap.add_argument('--n', type=int, default=6)
    ap.add_argument('--tier', default='quick')
    ap.add_argument('--budget', type=float, default=60)
    ap.add_argument('--hint', default='[]')
    ap.add_argument('--file')
    a = ap.parse_args()
    rng = np.random.default_rng(a.seed)
    res = dict(configs=0, programs_validated=0, bindings_compared=0, max_rel_err=0.0, mismatches=[], violations=[],
               samples=[], predictions_checked=0, distribution={})
    dist = {}

    def note(cfg, q):
        key = '%s/%s/%s/sG%+d/spsi%+d' % (cfg['order'], 'QH' if q.helicity != 0 else 'QA', 'asym' if q.lasym else 'sym', cfg.get('sG', 1), cfg.get('spsi', 1))
        dist[key] = dist.get(key, 0) + 1
    if a.mode == 'replay':
        rep = json.load(open(a.file))
        f = rep.get('failing') or {}
        if f.get('cfg'):
            res['violations'], res['predictions_checked'] = predict(f['cfg'])
        print(json.dumps(res, default=str))
        return
    t0 = time.time()
    for c_, q_ in corpus_objects(('r2', 'r3')):          # distilled regression inputs first (fresh and history-built objects)
        v, n = predict(c_, q_)
        res['predictions_checked'] += n; res['violations'] += v; res['configs'] += 1
        dist['corpus'] = dist.get('corpus', 0) + 1
    if a.mode == 'check':
        for i in range(a.n):
            cfg, q = gen_admissible(rng, order=['r2', 'r3'][i % 2], qh=(i % 3 == 0) if i < 6 else None)
            note(cfg, q)
            tv = transval.validate(q, rng, only=('calculate_r2_h0', 'calculate_r2_hN'))
            res['configs'] += 1
            res['programs_validated'] += tv['programs']
            res['bindings_compared'] += tv['bindings'] + tv['equations']
            res['max_rel_err'] = max(res['max_rel_err'], tv['max_rel_err'])
            res['mismatches'] += tv['mismatches']
            v, n = predict(cfg, q)
            res['predictions_checked'] += n
            res['violations'] += v
            if len(res['samples']) < 3:
                res['samples'].append(dict(cfg=jsonable(cfg), residuals={k: '%.2e / %.2e' % v for k, v in residuals(q).items()}))
    elif a.mode == 'search':
        tried = 0
        while time.time() - t0 < a.budget and not res['violations']:
            try:
                cfg, q = gen_admissible(rng, order=['r2', 'r3'][tried % 2], simple=tried < 10)
            except RuntimeError:
                tried += 1
                continue
            note(cfg, q)
            tried += 1
            v, n = predict(cfg, q)
            res['predictions_checked'] += n
            res['violations'] += v
        res['summary'] = 'tried %d inputs in %.0fs' % (tried, time.time() - t0)
    res['distribution'] = dist
    res['mismatches'] = res['mismatches'][:20]
    res['violations'] = res['violations'][:20]
    print(json.dumps(res, default=str))


if __name__ == '__main__':
    main()
