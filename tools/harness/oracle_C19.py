"""Numeric oracle for C19 (magnetic shear iota2): scaling, mirror / toroidal-reversal sign, field reversal, origin shift,
field-period representation, continuity under infinitesimal symmetry breaking, convergence in nphi."""
import sys, os, json, time, argparse
sys.path.insert(0, os.path.dirname(os.path.abspath(__file__)))
from common import *
import transval
from oracle_sym import transform, shifted_cfg
from oracle_C08 import scaled_cfg


class NotConverged(Exception):
    pass


def iota2_of(cfg):
    q, msgs = build(cfg, shear=True)
    if any('Newton solve did not get close' in m for m in msgs):
        raise NotConverged()
    return float(q.iota2), q


def nfp_replicated(cfg, k):
    d = dict(cfg)
    for c in ('rc', 'zs', 'rs', 'zc'):
        if c in cfg:
            new = [0.0] * ((len(cfg[c]) - 1) * k + 1)
            for m, v in enumerate(cfg[c]):
                new[m * k] = v
            d[c] = new
    d['nfp'] = cfg['nfp'] // k
    d['nphi'] = cfg['nphi'] * k
    return d


def predict(cfg, rng, q=None, thorough=False, even_k=False):
    out, n = [], 0
    if q is None:
        q, _ = build(cfg, shear=True)
    i0 = float(q.iota2)
    ref = max(abs(i0), 1e-300)
    nphi = q.nphi
    def bad(key, what, **kw):
        out.append(dict(key=key, what=what, cfg=jsonable(cfg), **kw))
    lam, c = 1.7, 0.6
    v, _ = iota2_of(scaled_cfg(cfg, lam, 1.0)); n += 1
    if abs(v - i0 / lam ** 2) > 1e-8 * ref / lam ** 2:
        bad('iota2:length', 'iota2 scales by %.9g under lengths x%.2g, expected %.9g' % (v / i0, lam, lam ** -2))
    v, _ = iota2_of(scaled_cfg(cfg, 1.0, c)); n += 1
    if abs(v - i0) > 1e-8 * ref:
        bad('iota2:field-unit', 'iota2 changes by a relative %.3g under a change of the field-strength unit' % (abs(v - i0) / ref))
    for g in 'MT':
        v, _ = iota2_of(transform(cfg, g)); n += 1
        if abs(v + i0) > 1e-8 * ref:
            bad('iota2:' + g, 'iota2 does not change sign under %s: %.9g -> %.9g' % ({'M': 'mirror reflection', 'T': 'toroidal reversal'}[g], i0, v))
    v, _ = iota2_of(transform(cfg, 'F')); n += 1
    if abs(v - i0) > 1e-6 * ref:
        bad('iota2:field-reversal', 'iota2 is not invariant under field reversal (sG, spsi, I2 negated): %.6g -> %.6g' % (i0, v))
    k = int(rng.integers(1, nphi))
    try:
        v, _ = iota2_of(shifted_cfg(cfg, q, k)); n += 1
    except NotConverged:
        v = i0
    if abs(v - i0) > max(50.0 / nphi ** 2, 1e-6) * ref:
        bad('iota2:origin-shift', 'iota2 depends on the toroidal origin: %.6g -> %.6g after a shift by %d grid points (nphi=%d)' % (i0, v, k, nphi))
    if not q.lasym:
        # for a stellarator-symmetric input, reversing the sign of G alone reverses iota and iota2
        c2 = dict(cfg); c2['sG'] = -cfg.get('sG', 1)
        try:
            v, q2 = iota2_of(c2); n += 1
            if abs(q2.iota + q.iota) <= 1e-9 * max(1.0, abs(q.iota)) and abs(v + i0) > 1e-7 * ref:
                bad('iota2:sG-flip', 'for a stellarator-symmetric input iota changes sign exactly under sG -> -sG but iota2 does not: %.9g -> %.9g' % (i0, v))
        except NotConverged:
            pass
    symmetric_axis = cfg.get('sigma0', 0) == 0 and not any(cfg.get('rs', [])) and not any(cfg.get('zc', []))
    if symmetric_axis:
        # symmetric axis and sigma (B2s may be non-zero): iota2 is computed without quadrature, so it is resolution independent once sigma is resolved
        spec = np.abs(np.fft.rfft(q.sigma + q.curvature)); tail = spec[-3:].max() / max(spec.max(), 1e-300)
        if tail < 1e-10:
            cc = dict(cfg); cc['nphi'] = 2 * nphi + 1
            try:
                v, _ = iota2_of(cc); n += 1
                if abs(v - i0) > 1e-6 * ref:
                    bad('iota2:resolution', 'symmetric axis, sigma0 = 0: iota2 changes from %.9g (nphi=%d) to %.9g (nphi=%d) although the profiles are resolved to %.1g' % (i0, nphi, v, 2 * nphi + 1, tail))
            except NotConverged:
                pass
    if not q.lasym:
        c2 = dict(cfg); c2['sigma0'] = 1e-12
        v, _ = iota2_of(c2); n += 1
        if abs(v - i0) > (50.0 / nphi ** 2) * ref:
            bad('iota2:continuity', 'iota2 jumps from %.9g to %.9g when stellarator symmetry is broken by sigma0 = 1e-12 (nphi=%d)' % (i0, v, nphi))
    for kk in (3,):
        if cfg['nfp'] % kk == 0 and cfg['nphi'] * kk <= 200:
            v, _ = iota2_of(nfp_replicated(cfg, kk)); n += 1
            if abs(v - i0) > 1e-6 * ref:
                bad('iota2:nfp', 'iota2 depends on the declared number of field periods: %.9g (nfp=%d) vs %.9g (nfp=%d)' % (i0, cfg['nfp'], v, cfg['nfp'] // kk))
    # even replication factor: the two declarations are different discretisations (k*nphi is even and promoted to k*nphi + 1) of the same continuous
    # problem; on a resolved input they agree to the discretisation error (measured on the pinned tree: <= 2/nphi^2 relative; a lost factor nfp is O(1))
    if even_k and cfg['nfp'] % 2 == 0 and cfg['nphi'] * 2 <= 200:       # (only on inputs known to be resolved: generated QH inputs are often not)
        try:
            v, _ = iota2_of(nfp_replicated(cfg, 2)); n += 1
            if abs(v - i0) > max(1e-6, 200.0 / nphi ** 2) * ref:
                bad('iota2:nfp', 'iota2 depends on the declared number of field periods: %.9g (nfp=%d) vs %.9g (nfp=%d, matched resolution)' % (i0, cfg['nfp'], v, cfg['nfp'] // 2), even_k=True)
        except NotConverged:
            pass
    if thorough:
        vals = []
        for m in (61, 121, 241):
            cc = dict(cfg); cc['nphi'] = m
            vals.append(iota2_of(cc)[0])
        n += 1
        d1, d2 = abs(vals[1] - vals[0]), abs(vals[2] - vals[1])
        if d2 > max(0.6 * d1, 1e-7 * abs(vals[2])):
            bad('iota2:convergence', 'iota2 does not converge with nphi: %r' % vals)
    return out, n


def main():
    ap = argparse.ArgumentParser()
    for a_ in ('--mode', '--hint', '--file', '--tier'):
        ap.add_argument(a_, default={'--mode': 'check', '--hint': '[]', '--tier': 'quick'}.get(a_))
    ap.add_argument('--seed', type=int, default=1); ap.add_argument('--n', type=int, default=6); ap.add_argument('--budget', type=float, default=60)
    a = ap.parse_args()
    rng = np.random.default_rng(a.seed)
    res = dict(configs=0, programs_validated=0, bindings_compared=0, max_rel_err=0.0, mismatches=[], violations=[], samples=[],
               predictions_checked=0, distribution={})
    dist = {}
    if a.mode == 'replay':
        f = (json.load(open(a.file)).get('failing') or {})
        if f.get('cfg'):
            res['violations'], res['predictions_checked'] = predict(f['cfg'], rng, even_k=bool(f.get('even_k')))
        print(json.dumps(res, default=str)); return
    t0 = time.time(); tried = 0
    nn = a.n if a.mode == 'check' else 10 ** 6
    if a.mode == 'check':
        # recorded findings are re-derived on their recorded inputs first
        try:
            kf = json.load(open(os.path.join(ROOT, 'known_findings.json')))['findings']
        except Exception:
            kf = []
        for k in kf:
            if k.get('property') == 'C19' and k.get('replay', {}).get('cfg'):
                v, n = predict(k['replay']['cfg'], rng)
                res['predictions_checked'] += n
                res['violations'] += [x for x in v if x['key'] == k['key']]
    # fixed input: a quasi-helically symmetric nfp = 4 axis WITH current at order r3 (helicity * nfp and helicity differ; I2 multiplies iotaN in the O(r^2) profile functions)
    for c_ in [dict(rc=[1.0, 0.17, 0.01804, 0.001409, 5.877e-05], zs=[0.0, 0.1581, 0.0182, 0.001548, 7.772e-05], nfp=4, etabar=1.569, sigma0=0.0, B2c=0.1348, B2s=0.0,
                    order='r3', sG=1, spsi=1, B0=1.0, I2=0.5, p2=0.0, nphi=41)]:
        try:
            q_, m_ = build(c_, shear=True)
            v, n = predict(c_, rng, q_, even_k=True)
            res['predictions_checked'] += n; res['violations'] += v; res['configs'] += 1; dist['fixed:QH-with-current'] = 1
        except Exception:
            pass
    while tried < nn and (a.mode == 'check' or (time.time() - t0 < a.budget and not [v for v in res['violations'] if v['key'] not in ('iota2:field-reversal', 'iota2:origin-shift')])):
        tried += 1
        sg = [(1, 1), (1, -1), (-1, 1), (-1, -1)][tried % 4]
        try:
            cfg, q = gen_admissible(rng, order='r3', asym=(tried % 2 == 0), qh=(tried % 3 == 0), signs=sg, nphi=int(2 * rng.integers(15, 31) + 1), shear=True)
            if not q.lasym and tried % 4 == 1:
                c2 = single_knob_variant(cfg, rng)        # exactly one symmetry-breaking input (B2s alone, sigma0 alone, ...)
                q2, msgs2 = build(c2, shear=True)
                if admissible(q2, msgs2):
                    cfg, q = c2, q2
        except RuntimeError:
            continue
        key = '%s/%s/sG%+d/spsi%+d/nfp%d' % ('QH' if q.helicity else 'QA', 'asym' if q.lasym else 'sym', cfg['sG'], cfg['spsi'], cfg['nfp'])
        dist[key] = dist.get(key, 0) + 1
        if a.mode == 'check':
            tv = transval.validate(q, rng, only=('calculate_shear_sym', 'calculate_shear_nonsym'))
            res['programs_validated'] += tv['programs']; res['bindings_compared'] += tv['bindings'] + tv['equations']
            res['max_rel_err'] = max(res['max_rel_err'], tv['max_rel_err']); res['mismatches'] += tv['mismatches']
        res['configs'] += 1
        v, n = predict(cfg, rng, q, thorough=(a.tier == 'thorough' and tried <= 6))
        res['predictions_checked'] += n; res['violations'] += v
        if len(res['samples']) < 3:
            res['samples'].append(dict(cfg=jsonable(cfg), iota2=float(q.iota2)))
    # de-duplicate the known classes (one representative each), keep everything else
    seen, vs = set(), []
    for v in res['violations']:
        if v['key'] in ('iota2:field-reversal', 'iota2:origin-shift'):
            if v['key'] in seen:
                continue
            seen.add(v['key'])
        vs.append(v)
    res['violations'] = vs[:20]
    res['distribution'] = dist; res['summary'] = 'tried %d inputs' % tried
    res['mismatches'] = res['mismatches'][:20]
    print(json.dumps(res, default=str))


if __name__ == '__main__':
    main()
