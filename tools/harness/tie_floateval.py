"""Tie "generated program == what the Python code computes", evaluated INSIDE Coq.

For live Qsc objects (small grids) and every applicable generated program, the input environment, the matrix
d_d_phi and the values the implementation computed are written as hexadecimal float literals into a Coq case
file; `coqc` evaluates the very `prog` terms of coq/gen/G_*.v with `FloatEval.F.checkF` (PrimFloat, vm_compute)
and compares every output binding (relative 1e-9).  `FloatEval.runG_correct` states that the evaluator, taken
over R, is Expr.run.  Unlike evalback.py no Python reading of the emitted Coq text takes part in the comparison:
Python only supplies numbers.

  PYTHONPATH=/repo /venv/bin/python tools/harness/tie_floateval.py --seed S --n NOBJ [--mode check|search] [--only p1,p2]

Prints ONE JSON object.  Exit status 0 unless the harness itself crashes."""
import sys, os, json, time, argparse, subprocess, re, glob, shutil, atexit, tempfile
from concurrent.futures import ThreadPoolExecutor
sys.path.insert(0, os.path.dirname(os.path.abspath(__file__)))
from common import *
import transval, evalback

COQ = os.path.join(ROOT, 'coq')
GPROPS = os.path.join(COQ, 'gprops')
os.makedirs(GPROPS, exist_ok=True)          # (a fresh checkout has no generated-obligation directory yet)
TOL = 1e-9
_tmp = []          # files / directories to remove at exit


def _cleanup():
    for p in _tmp:
        try:
            if os.path.isdir(p):
                shutil.rmtree(p, ignore_errors=True)
            elif os.path.exists(p):
                os.remove(p)
        except OSError:
            pass


atexit.register(_cleanup)


def fl(x):
    x = float(x)
    if x != x:
        return 'nan'
    if x == float('inf'):
        return 'infinity'
    if x == float('-inf'):
        return 'neg_infinity'
    h = x.hex()
    return '(%s)' % h if h.startswith('-') else h


def vec(v, n):
    """a scalar is the replicated list (Expr.eval treats scalars as constant functions); None if the shape is not () or (n,)"""
    a = np.asarray(v, dtype=float)
    if a.ndim == 0:
        a = np.full(n, float(a))
    if a.shape != (n,):
        return None
    return '[' + '; '.join(fl(x) for x in a) + ']'


def assoc(d, n, bad):
    items = []
    for k, v in d.items():
        s = vec(v, n)
        if s is None:
            bad.append(k)
            continue
        items.append('("%s", %s)' % (k, s))
    return '[' + ';\n   '.join(items) + ']'


# ------------------------------------------------------------------ objects
DESIGNATED = [
    # quasi-helical (helicity != 0), order r3, spsi = -1, current and pressure, non-unit B0
    dict(rc=[1.0, 0.17, 0.01804, 0.001409], zs=[0.0, 0.1581, 0.01820, 0.001548], nfp=4, etabar=1.569, order='r3', B2c=0.1348, B0=1.3, I2=0.4,
         p2=-50000.0, sG=1, spsi=-1, nphi=11),
    # not stellarator symmetric (rs, zc, sigma0, B2s), order r2, sG = -1
    dict(rc=[1.0, 0.06], zs=[0.0, 0.05], rs=[0.0, 0.006], zc=[0.0, 0.02], nfp=3, etabar=-0.8, sigma0=0.1, order='r2', B2c=0.2, B2s=-0.1, B0=0.8,
         I2=-0.3, sG=-1, spsi=1, nphi=9),
    # order r1
    dict(rc=[1.0, 0.045], zs=[0.0, -0.045], nfp=3, etabar=-0.9, order='r1', B0=1.1, I2=0.2, sG=1, spsi=-1, nphi=7),
    # order r3, not stellarator symmetric: calculate_shear takes its quadrature branch, calculate_r3 its helicity-0 variant
    dict(rc=[1.0, 0.08], zs=[0.0, 0.07], rs=[0.0, 0.006], zc=[0.0, 0.009], nfp=2, etabar=0.9, sigma0=0.15, order='r3', B2c=0.2, B2s=-0.15, B0=1.2,
         I2=0.3, p2=-40000.0, sG=1, spsi=1, nphi=9),
    # quasi-helical, order r2, sG = spsi = -1
    dict(rc=[1.0, 0.155, 0.0102], zs=[0.0, 0.154, 0.0111], nfp=4, etabar=1.47, order='r2', B2c=-0.5, sG=-1, spsi=-1, nphi=9),
]


def objects(a, rng):
    out = []
    if a.mode == 'check':
        for cfg in DESIGNATED[:a.n]:
            try:
                q, msgs = build(dict(cfg))
                out.append((dict(cfg), q))
            except Exception as e:
                sys.stderr.write('designated object failed: %r\n' % (e,))
    i = 0
    while len(out) < a.n and i < 10 * a.n + 20:
        i += 1
        try:
            cfg, q = gen_admissible(rng, order=['r1', 'r2', 'r3'][i % 3], nphi=int([5, 7, 9, 11][int(rng.integers(0, 4))]),
                                    qh=(i % 4 == 0) if a.mode == 'check' else None)
        except RuntimeError:
            continue
        out.append((cfg, q))
    return out


# ------------------------------------------------------------------ generated files
def program_files(gen_dir):
    """program name -> module name of the G_ file that defines it (found in the file text by its Definition line)"""
    m = {}
    for f in sorted(glob.glob(os.path.join(gen_dir, 'G_*.v'))):
        for name in re.findall(r'^Definition\s+(\w+)\s*:\s*prog\s*:=', open(f).read(), flags=re.M):
            m[name] = os.path.basename(f)[:-2]
    return m


def fresh_vo(gen_dir, mods):
    """every needed module has a .vo that is newer than its source and than the theory it was compiled against"""
    expr_vo = os.path.join(COQ, 'theories', 'Expr.vo')
    for mod in mods:
        v, vo = os.path.join(gen_dir, mod + '.v'), os.path.join(gen_dir, mod + '.vo')
        if not os.path.exists(vo) or os.path.getmtime(vo) < os.path.getmtime(v) or \
                (os.path.exists(expr_vo) and os.path.getmtime(vo) < os.path.getmtime(expr_vo)):
            return False
    return True


def run_coqc(args, cwd, timeout=600):
    t = time.time()
    try:
        p = subprocess.run(['timeout', str(timeout), 'coqc'] + args, cwd=cwd, capture_output=True, text=True)
        return p.returncode == 0, p.stdout, p.stderr, time.time() - t
    except Exception as e:
        return False, '', repr(e), time.time() - t


def private_gen(gen_dir, mods, jobs):
    """copy the needed G_*.v to a private directory and compile them there (they only need Expr.vo)"""
    d = tempfile.mkdtemp(prefix='fe_gen_%d_' % os.getpid())
    _tmp.append(d)
    for mod in mods:
        shutil.copy(os.path.join(gen_dir, mod + '.v'), d)
    errs, failed = [], set()

    def one(mod):
        ok, out, err, _ = run_coqc(['-Q', os.path.join(COQ, 'theories'), 'QSC', '-Q', d, 'QSCGen', os.path.join(d, mod + '.v')], d)
        if not ok:
            errs.append('%s.v does not compile: %s' % (mod, ' '.join((err or out).split())[-400:]))
            failed.add(mod)
    with ThreadPoolExecutor(max_workers=jobs) as ex:
        list(ex.map(one, mods))
    return d, errs, failed


# ------------------------------------------------------------------ cases
class Case:
    def __init__(self, tag, pname, oi, cfg, cost):
        self.tag, self.pname, self.oi, self.cfg, self.cost = tag, pname, oi, cfg, cost
        self.defs, self.evals = [], []
        self.equations = None


def make_cases(man, pfiles, objs, rng, only, res):
    cases, Ddefs = [], {}
    for oi, (cfg, q) in enumerate(objs):
        n = q.nphi
        with np.errstate(all='ignore'):
            if q.order == 'r3' and not hasattr(q, 'iota2'):
                q.calculate_shear()
            if q.order != 'r1' and not hasattr(q, 'grad_grad_B_alt'):
                q.calculate_grad_grad_B_tensor(two_ways=True)
        Ddefs[oi] = 'Definition D_%d : list (list float) :=\n  [%s].' % (oi, ';\n   '.join(vec(row, n) for row in np.asarray(q.d_d_phi, dtype=float)))
        for pname, info in man['programs'].items():
            if only and pname not in only:
                continue
            if not transval.variant_ok(pname, info, q):
                continue
            if pname not in pfiles:
                res['mismatches'].append(dict(program=pname, name='<program>', rel_err=None, cfg=jsonable(cfg), what='program missing from the generated Coq files'))
                continue
            tag = '%s@%d' % (pname, oi)
            c = Case(tag, pname, oi, cfg, info.get('nodes', 100) * n)
            ident = 'c_%s_%d' % (pname, oi)
            bad = []
            if info.get('auxiliary'):
                # init_axis_term: one run per Fourier harmonic; the sums of the *_term bindings are the axis arrays
                runs = []
                for k in range(q.nfourier):
                    env = {'jn': float(k), 'nfp': float(q.nfp), 's.nfp': float(q.nfp), 'phi': q.phi, 's.phi': q.phi,
                           'rc_jn': float(q.rc[k]), 'rs_jn': float(q.rs[k]), 'zc_jn': float(q.zc[k]), 'zs_jn': float(q.zs[k])}
                    missing = [x for x in info['inputs'] if x not in env]
                    if missing:
                        res['unbound'].append(dict(program=pname, names=missing, source='harness: no value for declared inputs', cfg=jsonable(cfg)))
                        runs = None
                        break
                    runs.append(assoc(env, n, bad))
                if runs is None:
                    continue
                want = {}
                for nm in info.get('bindings', []):
                    if isinstance(nm, str) and nm.endswith('_term'):
                        base = nm[:-5]
                        want[nm] = getattr(q, base)(q.phi) if base.endswith('_func') else getattr(q, base)
                c.defs.append('Definition %s_runs : list (list (string * list float)) :=\n  [%s].' % (ident, ';\n  '.join(runs)))
                c.defs.append('Definition %s_want : list (string * list float) :=\n  %s.' % (ident, assoc(want, n, bad)))
                c.evals.append('Eval vm_compute in ("CASE:%s", F.checkF_sum %d D_%d %s_runs %s %s_want tol).' % (tag, n, oi, ident, pname, ident))
                c.nwant = len(want)
            else:
                with np.errstate(all='ignore'):
                    ex = transval.extra_inputs(pname, info, q, rng)
                    env, missing = evalback.base_env(q, info['inputs'], ex)
                if missing:
                    res['unbound'].append(dict(program=pname, names=missing[:8], source='harness: no value for declared inputs', cfg=jsonable(cfg)))
                    continue
                with np.errstate(all='ignore'):
                    ref = transval.reference_outputs(pname, info, q, ex)
                c.defs.append('Definition %s_in : list (string * list float) :=\n  %s.' % (ident, assoc(env, n, bad)))
                c.defs.append('Definition %s_want : list (string * list float) :=\n  %s.' % (ident, assoc(ref, n, bad)))
                c.evals.append('Eval vm_compute in ("CASE:%s", F.checkF %d D_%d %s_in %s %s_want tol).' % (tag, n, oi, ident, pname, ident))
                c.nwant = len(ref)
                eqs = [e for sv in info.get('solves', {}).values() for e in sv.get('equations', [])]
                unk = [u for sv in info.get('solves', {}).values() if sv.get('equations') for u in sv.get('unknowns', [])]
                if eqs and all(u in env for u in unk):
                    env2 = dict(env)
                    for u in unk:
                        env2[u] = 2.0 * np.asarray(env[u], dtype=float)
                    c.defs.append('Definition %s_in2 : list (string * list float) :=\n  %s.' % (ident, assoc(env2, n, bad)))
                    names = '[' + '; '.join('"%s"' % e for e in eqs) + ']'
                    c.evals.append('Eval vm_compute in ("EQNS:%s", F.valuesF %d D_%d %s_in %s %s, F.valuesF %d D_%d %s_in2 %s %s).'
                                   % (tag, n, oi, ident, pname, names, n, oi, ident, pname, names))
                    c.equations = eqs
                    c.cost *= 3
            if bad:
                res['mismatches'].append(dict(program=pname, name=','.join(bad[:6]), rel_err=None, cfg=jsonable(cfg),
                                              what='value is neither a scalar nor an array over the grid'))
                continue
            cases.append(c)
    return cases, Ddefs


def write_shard(path, cases, Ddefs, pfiles):
    mods = sorted(set(pfiles[c.pname] for c in cases))
    L = ['(* GENERATED by tools/harness/tie_floateval.py -- removed at exit *)',
         'From Coq Require Import String List Floats.PrimFloat.',
         'From QSC Require Import Expr FloatEval.',
         ('From QSCGen Require Import %s.' % ' '.join(mods)) if mods else '',
         'Import ListNotations.', 'Open Scope string_scope.', 'Open Scope float_scope.', '',
         'Definition tol : float := %s.' % fl(TOL), '']
    for oi in sorted(set(c.oi for c in cases)):
        L.append(Ddefs[oi])
    for c in cases:
        L += c.defs
    L.append('')
    for c in cases:
        L += c.evals
    open(path, 'w').write('\n'.join(L) + '\n')


# ------------------------------------------------------------------ reading coqc's output
def pfloat(s):
    s = s.strip()
    s = s.replace('%float', '')
    if s.startswith('(') and s.endswith(')'):
        s = s[1:-1].strip()
    if s in ('nan', '-nan'):
        return float('nan')
    if s == 'infinity':
        return float('inf')
    if s == 'neg_infinity':
        return float('-inf')
    if s.startswith('0x') or s.startswith('-0x'):
        return float.fromhex(s)
    return float(s)


STR = r'"([^"]*)"(?:%string)?'
NUM = r'\(?-?(?:nan|infinity|neg_infinity|0x[0-9a-fA-F.]+p[-+]?\d+|[0-9.]+(?:e[-+]?\d+)?)\)?(?:%float)?'


def parse_output(out):
    """{'CASE:tag': dict, 'EQNS:tag': (values, values)}; every Eval prints `= ("KIND:tag", ...)`; Coq wraps long lines"""
    txt = ' '.join(out.split())
    res = {}
    marks = [(m.start(), m.group(1), m.group(2)) for m in re.finditer(r'= \("(CASE|EQNS):([^"]*)"(?:%string)?,', txt)]
    for i, (pos, kind, tag) in enumerate(marks):
        body = txt[pos:marks[i + 1][0] if i + 1 < len(marks) else len(txt)]
        if kind == 'CASE':
            m = re.search(r'r_mismatch := \[(.*?)\]; (?:F\.)?r_ncompared := (\d+)(?:%nat)?; (?:F\.)?r_nskipped := (\d+)(?:%nat)?; (?:F\.)?r_worst := (' + NUM +
                          r'); (?:F\.)?r_unbound := \[(.*?)\]; (?:F\.)?r_notbound := \[(.*?)\]; (?:F\.)?r_wellformed := (true|false)', body)
            if not m:
                res['CASE:' + tag] = None
                continue
            mis = [(a, pfloat(b)) for a, b in re.findall(r'\(' + STR + r', (' + NUM + r')\)', m.group(1))]
            res['CASE:' + tag] = dict(mismatch=mis, ncompared=int(m.group(2)), nskipped=int(m.group(3)), worst=pfloat(m.group(4)),
                                      unbound=re.findall(STR, m.group(5)), notbound=re.findall(STR, m.group(6)), wellformed=m.group(7) == 'true')
        else:
            vals = []
            body = body[body.index(',') + 1:]          # (drop the marker)
            for name, lst in re.findall(r'\(' + STR + r', \[([^\[\]]*)\]\)', body):
                vals.append((name, [pfloat(x) for x in lst.split(';') if x.strip()]))
            half = len(vals) // 2
            res['EQNS:' + tag] = (dict(vals[:half]), dict(vals[half:]))
    return res


# ------------------------------------------------------------------ main
def main():
    ap = argparse.ArgumentParser()
    ap.add_argument('--seed', type=int, default=1)
    ap.add_argument('--n', type=int, default=5)
    ap.add_argument('--mode', default='check', choices=['check', 'search'])
    ap.add_argument('--only', default='')
    ap.add_argument('--gen-dir', default=os.environ.get('VERIF_GEN_DIR', os.path.join(COQ, 'gen')))
    ap.add_argument('--jobs', type=int, default=min(8, os.cpu_count() or 2))
    ap.add_argument('--private', action='store_true', help='always compile a private copy of the G_*.v files')
    ap.add_argument('--keep', action='store_true', help='keep the case files (debugging)')
    ap.add_argument('--max-objects', type=int, default=60, help='cap on --n (the driver passes up to 300 in the thorough tier)')
    ap.add_argument('--tier', default='quick')          # accepted for the driver's calling convention; not used
    ap.add_argument('--budget', type=float, default=0)  # idem
    a = ap.parse_args()
    t0 = time.time()
    a.n = max(1, min(a.n, a.max_objects))
    rng = np.random.default_rng(a.seed)
    gen_dir = os.path.abspath(a.gen_dir)
    res = dict(programs=0, cases=0, bindings_compared=0, bindings_skipped_oracle=0, worst_rel_err=0.0, mismatches=[], unbound=[],
               equations_checked=0, skipped_programs=[], coq_errors=[], objects=[], gen_dir=gen_dir, tol=TOL)

    transval.GEN = gen_dir                       # (load_model reads the manifest from there)
    transval._cache.clear()
    try:
        man, _ = transval.load_model()
    except Exception as e:                       # the text parser of evalback is not needed here: only the manifest is
        man = json.load(open(os.path.join(gen_dir, 'gen_manifest.json')))
        res['note'] = 'transval.load_model failed (%r); manifest read directly' % (e,)
    pfiles = program_files(gen_dir)
    only = set(x for x in a.only.split(',') if x)

    objs = objects(a, rng)
    for cfg, q in objs:
        res['objects'].append('%s/%s/%s/nphi%d' % (q.order, 'QH' if q.helicity != 0 else 'QA', 'asym' if q.lasym else 'sym', q.nphi))
    cases, Ddefs = make_cases(man, pfiles, objs, rng, only, res)

    # the theory and the generated modules
    if not os.path.exists(os.path.join(COQ, 'theories', 'FloatEval.vo')) or \
            os.path.getmtime(os.path.join(COQ, 'theories', 'FloatEval.vo')) < os.path.getmtime(os.path.join(COQ, 'theories', 'FloatEval.v')):
        ok, out, err, _ = run_coqc(['-Q', 'theories', 'QSC', 'theories/FloatEval.v'], COQ)
        if not ok:
            res['coq_errors'].append('theories/FloatEval.v: ' + (err or out)[-600:])
    mods = sorted(set(pfiles[c.pname] for c in cases))
    qgen = gen_dir
    if a.private or not fresh_vo(gen_dir, mods):
        qgen, errs, failed = private_gen(gen_dir, mods, a.jobs)
        res['coq_errors'] += errs
        res['gen_compiled_privately'] = True
        cases = [c for c in cases if pfiles[c.pname] not in failed]          # (the other modules are still evaluated)
    mkflags = lambda g: ['-Q', 'theories', 'QSC', '-Q', g, 'QSCGen', '-Q', 'gprops', 'QSCGProps', '-Q', 'props', 'QSCProps']
    qflags = mkflags(qgen)

    # shards of balanced cost, compiled in parallel
    nsh = max(1, min(a.jobs, len(cases)))
    shards = [[] for _ in range(nsh)]
    load = [0] * nsh
    for c in sorted(cases, key=lambda c: -c.cost):
        j = load.index(min(load))
        shards[j].append(c); load[j] += c.cost
    paths = []
    for j, sh in enumerate(shards):
        base = 'K_floateval_%d_cases' % os.getpid() if nsh == 1 else 'K_floateval_%d_%d_cases' % (os.getpid(), j)
        p = os.path.join(GPROPS, base + '.v')
        if not a.keep:
            _tmp.extend([p, p[:-2] + '.vo', p[:-2] + '.glob', p[:-2] + '.vok', p[:-2] + '.vos', os.path.join(GPROPS, '.' + base + '.aux')])
        write_shard(p, sh, Ddefs, pfiles)
        paths.append(p)

    def compile_shard(p):
        return run_coqc(qflags + [os.path.relpath(p, COQ)], COQ)
    with ThreadPoolExecutor(max_workers=nsh) as ex:
        results = list(ex.map(compile_shard, paths))
    if qgen == gen_dir and not all(r[0] for r in results):
        # compiled modules found in place but unusable (rebuilt concurrently, other Expr.vo, ...): once more against a private copy
        qgen, errs, failed = private_gen(gen_dir, mods, a.jobs)
        res['coq_errors'] += errs
        res['gen_compiled_privately'] = True
        qflags = mkflags(qgen)
        if failed:
            cases = [c for c in cases if pfiles[c.pname] not in failed]
            shards = [[c for c in sh if pfiles[c.pname] not in failed] for sh in shards]
            for p_, sh in zip(paths, shards):
                write_shard(p_, sh, Ddefs, pfiles)
        with ThreadPoolExecutor(max_workers=nsh) as ex:
            results = list(ex.map(compile_shard, paths))

    parsed = {}
    for p, sh, (ok, out, err, secs) in zip(paths, shards, results):
        if not ok:
            res['coq_errors'].append('%s (%d cases: %s): %s' % (os.path.basename(p), len(sh), ' '.join(c.tag for c in sh)[:300], ' '.join((err or out).split())[-600:]))
            continue
        parsed.update(parse_output(out))

    progs_seen = set()
    worst = 0.0
    for c in cases:
        r = parsed.get('CASE:' + c.tag)
        if r is None:
            if not res['coq_errors']:
                res['coq_errors'].append('no result parsed for case %s' % c.tag)
            continue
        res['cases'] += 1
        progs_seen.add(c.pname)
        res['bindings_compared'] += r['ncompared']
        res['bindings_skipped_oracle'] += r['nskipped']
        if r['worst'] == r['worst'] and r['worst'] != float('inf'):
            worst = max(worst, r['worst'])
        for name, e in r['mismatch']:
            res['mismatches'].append(dict(program=c.pname, name=name, rel_err=(None if e != e else e), cfg=jsonable(c.cfg), what='differs from the implementation'))
        for name in r['notbound']:
            res['mismatches'].append(dict(program=c.pname, name=name, rel_err=None, cfg=jsonable(c.cfg), what='output not bound by the model'))
        if r['unbound']:
            res['unbound'].append(dict(program=c.pname, names=r['unbound'], source='FloatEval.unbound_inputs', cfg=jsonable(c.cfg)))
        if not r['wellformed']:
            res['mismatches'].append(dict(program=c.pname, name='<shape>', rel_err=None, cfg=jsonable(c.cfg), what='shapes / At index outside the grid'))
        if r['ncompared'] + r['nskipped'] + len(r['notbound']) != c.nwant:
            res['coq_errors'].append('case %s: %d wanted names but %d accounted for' % (c.tag, c.nwant, r['ncompared'] + r['nskipped'] + len(r['notbound'])))
        if c.equations:
            ev = parsed.get('EQNS:' + c.tag)
            if not ev:
                res['coq_errors'].append('no equation values parsed for case %s' % c.tag)
                continue
            for eq in c.equations:
                va, vb = np.asarray(ev[0].get(eq, [np.nan])), np.asarray(ev[1].get(eq, [np.nan]))
                resid, scale = np.max(np.abs(va)), np.max(np.abs(vb - va))
                res['equations_checked'] += 1
                if eq.endswith('_pin'):
                    if resid != 0:
                        res['mismatches'].append(dict(program=c.pname, name=eq, rel_err=float(resid), cfg=jsonable(c.cfg), what='pin equation violated'))
                elif not (resid <= 1e-8 * max(scale, 1e-300)):
                    res['mismatches'].append(dict(program=c.pname, name=eq, rel_err=float(resid / max(scale, 1e-300)), cfg=jsonable(c.cfg),
                                                  what='oracle solution does not satisfy the residual equation'))
    # a driver that only reads `mismatches` must still see unbound names and Coq failures
    for u in res['unbound']:
        res['mismatches'].append(dict(program=u['program'], name=','.join(u['names']), rel_err=None, cfg=u['cfg'],
                                      what='read by the program but neither bound earlier nor given as an input (%s)' % u['source']))
    for e in res['coq_errors']:
        res['mismatches'].append(dict(program='<coqc>', name='', rel_err=None, cfg=None, what=e))
    res['programs'] = len(progs_seen)
    res['configs'] = len(objs); res['programs_validated'] = res['cases']; res['max_rel_err'] = worst      # (names used by the other harnesses)
    res['program_names'] = sorted(progs_seen)
    res['worst_rel_err'] = worst
    res['mismatches'] = res['mismatches'][:40]
    res['ok'] = not (res['mismatches'] or res['unbound'] or res['coq_errors'])
    res['seconds'] = round(time.time() - t0, 2)
    print(json.dumps(res, default=str))


if __name__ == '__main__':
    main()
