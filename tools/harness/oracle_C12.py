"""Numeric oracle / correspondence for C12 (r_singularity):
 * the hand-written root-selection model (theories/RootSelect.v) is evaluated inside Coq (PrimFloat, vm_compute) on the per-grid-point data of real
   objects and must reproduce r_singularity_vs_varphi bit for bit (sentinel points included);
 * the Jacobian coefficients g0, g1c, g1s(=0), g20, g2s, g2c used by the code are compared with the triple product e_r . (e_theta x e_phi) of the
   O(r^2) position vector, rebuilt here from the public attributes in the moving Frenet frame;
 * the reported radius is compared with a brute-force search for the first zero of the truncated Jacobian."""
import sys, os, json, time, argparse, subprocess, re
sys.path.insert(0, os.path.dirname(os.path.abspath(__file__)))
from common import *
import transval, evalback
from kernels import fl, coq_list
COQ = os.path.join(ROOT, 'coq')


def locals_of_rsing(q, rng):
    man, progs = transval.load_model()
    info = man['programs']['calculate_r_singularity']
    env, missing = evalback.base_env(q, info['inputs'], {})
    if missing:
        raise RuntimeError('no value for inputs %s' % missing)
    with np.errstate(all='ignore'):
        evalback.run_prog(q, progs['calculate_r_singularity'], env)
    lv = info['last_version']
    g = {k: np.asarray(env[lv.get(k, k)], dtype=float) for k in ('g0', 'g1c', 'g20', 'g2s', 'g2c', 'K0', 'K2s', 'K2c', 'K4s', 'K4c')}
    coef = np.array([np.asarray(env[lv.get('coefficients_%d' % k, 'coefficients_%d' % k)], dtype=float) * np.ones(q.nphi) for k in range(5)]).T
    return g, coef


def triple_product_coeffs(q):
    """coefficients of sqrt(g)/r = g0 + r (g1c cos + g1s sin) + r^2 (g20 + g2c cos2 + g2s sin2), from the geometry"""
    M = 16
    th = 2 * np.pi * np.arange(M) / M
    lp = q.abs_G0_over_B0
    k, t = q.curvature, q.torsion
    D = lambda f: dvarphi_indep(q, f)
    z = np.zeros(q.nphi)
    # series coefficients in r (index 1, 2) of X, Y, Z as functions of theta; shape (M, nphi)
    def ser(c1, s1, c20, c2c, c2s):
        a1 = np.outer(np.cos(th), c1) + np.outer(np.sin(th), s1)
        a2 = np.outer(np.ones(M), c20) + np.outer(np.cos(2 * th), c2c) + np.outer(np.sin(2 * th), c2s)
        d1 = -np.outer(np.sin(th), c1) + np.outer(np.cos(th), s1)
        d2 = -2 * np.outer(np.sin(2 * th), c2c) + 2 * np.outer(np.cos(2 * th), c2s)
        p1 = np.outer(np.cos(th), D(c1)) + np.outer(np.sin(th), D(s1))
        p2 = np.outer(np.ones(M), D(c20)) + np.outer(np.cos(2 * th), D(c2c)) + np.outer(np.sin(2 * th), D(c2s))
        return (a1, a2), (d1, d2), (p1, p2)
    X, Xt, Xp = ser(q.X1c, q.X1s, q.X20, q.X2c, q.X2s)
    Y, Yt, Yp = ser(q.Y1c, q.Y1s, q.Y20, q.Y2c, q.Y2s)
    Z, Zt, Zp = ser(z, z, q.Z20, q.Z2c, q.Z2s)
    # polynomials in r as dict power -> array; vectors in (n, b, t) components
    def poly(c):  # c = (c1, c2) -> {1: c1, 2: c2}
        return {1: c[0], 2: c[1]}
    def padd(a, b):
        o = dict(a)
        for p, v in b.items():
            o[p] = o.get(p, 0) + v
        return o
    def pmul(a, b):
        o = {}
        for p, v in a.items():
            for pq, w in b.items():
                if p + pq <= 4:
                    o[p + pq] = o.get(p + pq, 0) + v * w
        return o
    def pscale(a, s):
        return {p: v * s for p, v in a.items()}
    def pder(a):  # d/dr
        return {p - 1: p * v for p, v in a.items() if p >= 1}
    Xs, Ys, Zs = poly(X), poly(Y), poly(Z)
    e_r = (pder(Xs), pder(Ys), pder(Zs))
    e_t = (poly(Xt), poly(Yt), poly(Zt))
    # d/dvarphi at fixed theta: coefficient derivatives + frame rotation + axis motion lp*t
    Xp_, Yp_, Zp_ = poly(Xp), poly(Yp), poly(Zp)
    e_p = (padd(Xp_, padd(pscale(Ys, -lp * t), pscale(Zs, lp * k))),          # n component: dX - lp tau Y ... careful with signs below
           padd(Yp_, pscale(Xs, lp * t)),
           padd(padd(Zp_, pscale(Xs, -lp * k)), {0: lp * np.ones((M, q.nphi))}))
    # frame derivatives: n' = lp(-k t + tau b), b' = -lp tau n, t' = lp k n  =>  d(X n + Y b + Z t) = (dX - lp tau Y + lp k Z) n + (dY + lp tau X) b + (dZ - lp k X) t
    def cross(a, b):
        return (padd(pmul(a[1], b[2]), pscale(pmul(a[2], b[1]), -1)), padd(pmul(a[2], b[0]), pscale(pmul(a[0], b[2]), -1)), padd(pmul(a[0], b[1]), pscale(pmul(a[1], b[0]), -1)))
    def dot(a, b):
        return padd(padd(pmul(a[0], b[0]), pmul(a[1], b[1])), pmul(a[2], b[2]))
    sg = dot(e_r, cross(e_t, e_p))      # (n, b, t) right-handed: n x b = t
    out = {}
    F = lambda a, m, kind: (2.0 if m else 1.0) / M * np.sum(a * (np.cos(m * th) if kind == 'c' else np.sin(m * th))[:, None], axis=0)
    out['g0'] = F(sg.get(1, 0) * np.ones((M, q.nphi)), 0, 'c')
    out['g1c'] = F(sg[2], 1, 'c'); out['g1s'] = F(sg[2], 1, 's')
    out['g20'] = F(sg[3], 0, 'c'); out['g2c'] = F(sg[3], 2, 'c'); out['g2s'] = F(sg[3], 2, 's')
    return out


def brute_force_radius(g, j, ntheta=720):
    """smallest r > 0 with g0 + r g1c cos + r^2 (g20 + g2s sin2 + g2c cos2) = 0 for some theta (dense scan + local refinement)"""
    th = np.linspace(0, 2 * np.pi, ntheta, endpoint=False)
    def rmin(thv):
        A = g['g20'][j] + g['g2s'][j] * np.sin(2 * thv) + g['g2c'][j] * np.cos(2 * thv)
        B = g['g1c'][j] * np.cos(thv); C = g['g0'][j]
        with np.errstate(all='ignore'):
            disc = B * B - 4 * A * C
            r1 = np.where(disc >= 0, (-B - np.sqrt(np.abs(disc))) / (2 * A), np.inf)
            r2 = np.where(disc >= 0, (-B + np.sqrt(np.abs(disc))) / (2 * A), np.inf)
        r1 = np.where(r1 > 0, r1, np.inf); r2 = np.where(r2 > 0, r2, np.inf)
        return np.minimum(r1, r2)
    r = rmin(th)
    k = int(np.argmin(r))
    if not np.isfinite(r[k]):
        return np.inf
    lo, hi = th[k] - 2 * np.pi / ntheta, th[k] + 2 * np.pi / ntheta
    for _ in range(60):
        m1, m2 = lo + (hi - lo) / 3, hi - (hi - lo) / 3
        if rmin(np.array([m1]))[0] < rmin(np.array([m2]))[0]:
            hi = m2
        else:
            lo = m1
    return float(min(r[k], rmin(np.array([(lo + hi) / 2]))[0]))


def model_cases(objs_data):
    lines = ['From Coq Require Import List Floats.PrimFloat.', 'From QSC Require Import RootSelect.', 'Import ListNotations.', 'Open Scope float_scope.']
    names = []
    for k, (re_, im_, vals, want) in enumerate(objs_data):
        lines.append('Definition c%d := PrimFloat.eqb (select_rc_float %s %s %s) %s.' % (k, coq_list([fl(x) for x in re_]), coq_list([fl(x) for x in im_]),
                                                                                   ' '.join(fl(v) for v in vals), fl(want)))
        names.append('c%d' % k)
    lines.append('Eval vm_compute in %s.' % coq_list(names))
    path = os.path.join(COQ, 'gprops', 'K_rsing_cases_%d.v' % os.getpid())
    open(path, 'w').write('\n'.join(lines) + '\n')
    p = subprocess.run(['coqc', '-Q', 'theories', 'QSC', '-Q', 'gprops', 'QSCGProps', 'gprops/K_rsing_cases_%d.v' % os.getpid()], cwd=COQ, capture_output=True, text=True, timeout=900)
    m = re.search(r'=\s*\[(.*?)\]\s*:\s*list bool', p.stdout, flags=re.S)
    if p.returncode != 0 or not m:
        return None, (p.stdout + p.stderr)[-500:]
    return re.findall(r'true|false', m.group(1)), ''


def predict(cfg, rng, q=None, collect=None):
    out, n = [], 0
    if q is None:
        q, _ = build(cfg) if isinstance(cfg, dict) and 'preset' not in cfg else (None, None)
    if q.order == 'r1':
        return out, n
    def bad(key, what):
        out.append(dict(key=key, what=what, cfg=jsonable(cfg)))
    tp = triple_product_coeffs(q)
    try:
        g, coef = locals_of_rsing(q, rng)
        g = dict((k_, np.broadcast_to(np.asarray(v_, dtype=float), (q.nphi,)).copy() if np.ndim(v_) == 0 else v_) for k_, v_ in g.items())
    except Exception:
        # the translated model of the coefficient part is not available (the translator rejected the current source): fall back on the
        # independently computed triple-product coefficients so that the reported radii can still be compared with a brute-force search
        g, coef = dict(tp), None
        collect = None
    spec = np.abs(np.fft.rfft(q.X20)); tail = spec[-3:].max() / max(spec.max(), 1e-300)
    if tail < 1e-9 and coef is not None:
        for name in ('g0', 'g1c', 'g20', 'g2s', 'g2c'):
            n += 1
            sc = max(np.max(np.abs(tp[name])), np.max(np.abs(tp['g20'])), 1e-300)
            if np.max(np.abs(g[name] - tp[name])) > 1e-6 * sc:
                bad('coef:' + name, 'Jacobian coefficient %s differs from the triple product of the position vector by %.3g (scale %.3g)' % (name, np.max(np.abs(g[name] - tp[name])), sc))
        n += 1
        if np.max(np.abs(tp['g1s'])) > 1e-6 * max(np.max(np.abs(tp['g1c'])), 1e-300):
            bad('coef:g1s', 'the omitted coefficient g1s does not vanish: %.3g' % np.max(np.abs(tp['g1s'])))
    # reported radius vs brute force (well conditioned points only)
    for j in range(0, q.nphi, max(1, q.nphi // 6)):
        rb = brute_force_radius(tp, j)          # (the INDEPENDENT coefficients: the translated model's g would inherit an error of the source)
        rc = q.r_singularity_vs_varphi[j]
        n += 1
        if np.isfinite(rb) and rc < 1e99:
            if abs(rc - rb) > 1e-4 * rb:
                bad('radius', 'r_singularity_vs_varphi[%d] = %.9g but the first zero of the truncated Jacobian is at r = %.9g' % (j, rc, rb))
        elif np.isfinite(rb) != (rc < 1e99) and (not np.isfinite(rb) or rb < 1e3 * max(abs(q.R0[0]), 1e-300)):
            bad('sentinel', 'r_singularity_vs_varphi[%d] = %.6g but brute force gives %.6g' % (j, rc, rb))
    n += 2
    if q.r_singularity != np.min(q.r_singularity_vs_varphi):
        bad('min', 'r_singularity is not the minimum over the grid')
    if np.max(np.abs(q.inv_r_singularity_vs_varphi * q.r_singularity_vs_varphi - 1)) > 1e-12:
        bad('inv', 'inv_r_singularity_vs_varphi is not the reciprocal')
    # the optional higher-order coefficients (high_order=True) are extra output: the reported radii do not depend on that flag
    if isinstance(cfg, dict) and 'preset' not in cfg and not getattr(predict, '_nested', False):
        try:
            qh, _ = build(cfg)
            qh.calculate_r_singularity(high_order=True)
            n += 1
            a_, b_ = np.asarray(qh.r_singularity_vs_varphi, dtype=float), np.asarray(q.r_singularity_vs_varphi, dtype=float)
            if a_.shape != b_.shape or not np.array_equal(a_, b_):
                bad('high_order', 'calculate_r_singularity(high_order=True) changes r_singularity_vs_varphi (largest relative change %.3g)'
                    % (float(np.max(np.abs(a_ - b_) / np.maximum(np.abs(b_), 1e-300))) if a_.shape == b_.shape else float('nan')))
        except Exception as e:
            bad('high_order', 'calculate_r_singularity(high_order=True) raised %s' % type(e).__name__)
    # the minimum must be found wherever it sits on the grid: move the origin so that it lands on the LAST and on the FIRST grid point
    if isinstance(cfg, dict) and 'preset' not in cfg and not getattr(predict, '_nested', False):
        from oracle_sym import shifted_cfg
        jmin = int(np.argmin(q.r_singularity_vs_varphi))
        for k in sorted(set([(jmin + 1) % q.nphi, jmin])):
            if k == 0:
                continue
            try:
                q2, m2 = build(shifted_cfg(cfg, q, k))
            except Exception:
                continue
            if any('Newton solve did not get close' in m for m in m2):
                continue
            n += 1
            if q2.r_singularity != np.min(q2.r_singularity_vs_varphi):
                bad('min', 'r_singularity (%.9g) is not the minimum over the grid (%.9g at index %d of %d) after moving the toroidal origin by %d points'
                    % (q2.r_singularity, np.min(q2.r_singularity_vs_varphi), int(np.argmin(q2.r_singularity_vs_varphi)), q2.nphi, k))
    if collect is not None:
        for j in range(0, q.nphi, max(1, q.nphi // 8)):
            roots = np.polynomial.polynomial.polyroots(coef[j, :])
            if len(roots) == 4:
                collect.append((np.real(roots), np.imag(roots), [g[k][j] for k in ('g0', 'g1c', 'g20', 'g2s', 'g2c', 'K0', 'K2s', 'K2c', 'K4s', 'K4c')], q.r_singularity_vs_varphi[j]))
    return out, n


def main():
    ap = argparse.ArgumentParser()
    for a_ in ('--mode', '--hint', '--file', '--tier'):
        ap.add_argument(a_, default={'--mode': 'check', '--hint': '[]', '--tier': 'quick'}.get(a_))
    ap.add_argument('--seed', type=int, default=1); ap.add_argument('--n', type=int, default=6); ap.add_argument('--budget', type=float, default=60)
    a = ap.parse_args()
    rng = np.random.default_rng(a.seed)
    res = dict(configs=0, programs_validated=0, bindings_compared=0, max_rel_err=0.0, mismatches=[], violations=[], samples=[],
               predictions_checked=0, distribution={})
    dist = {}
    if a.mode == 'replay':
        f = (json.load(open(a.file)).get('failing') or {})
        if f.get('cfg'):
            q, _ = build(f['cfg'])
            res['violations'], res['predictions_checked'] = predict(f['cfg'], rng, q)
        print(json.dumps(res, default=str)); return
    t0 = time.time(); tried = 0; collect = []
    nn = a.n if a.mode == 'check' else 10 ** 6
    qsc = import_qsc()
    presets = ['precise QH', '2022 QH nfp7', 'r2 section 5.5', '2022 QH nfp4 well']
    for c_, q_ in corpus_objects(('r2', 'r3')):          # distilled regression inputs first
        v, n = predict(c_, rng, q_, None)
        res['predictions_checked'] += n; res['violations'] += v; res['configs'] += 1
        dist['corpus'] = dist.get('corpus', 0) + 1
    # shipped configurations whose profile holds genuine radii and the sentinel SIDE BY SIDE (a run of grid points without any positive zero after a run with one),
    # and one with no zero anywhere
    for name in ('precise QH+well', '2022 QH nfp2', '2022 QH nfp3 vacuum', '2022 QH nfp7'):
        if res['violations']:
            break
        try:
            q_ = qsc.Qsc.from_paper(name, nphi=31); c_ = dict(preset=name, nphi=31, sG=1, spsi=1)
        except Exception:
            continue
        v, n = predict(c_, rng, q_, collect if a.mode == 'check' else None)
        res['predictions_checked'] += n; res['violations'] += v; res['configs'] += 1
        dist['preset-with-sentinel'] = dist.get('preset-with-sentinel', 0) + 1
    while tried < nn and (a.mode == 'check' or (time.time() - t0 < a.budget and not res['violations'])):
        tried += 1
        sg = [(1, 1), (1, -1), (-1, 1), (-1, -1)][tried % 4]
        try:
            if a.mode == 'check' and tried <= 2:
                name = presets[(a.seed + tried) % len(presets)]
                q = qsc.Qsc.from_paper(name, nphi=31, sG=sg[0], spsi=sg[1]); cfg = dict(preset=name, nphi=31, sG=sg[0], spsi=sg[1])
            else:
                cfg, q = gen_admissible(rng, order=['r2', 'r3'][tried % 2], signs=sg, qh=(tried % 3 == 0), nphi=int(2 * rng.integers(15, 30) + 1))
        except RuntimeError:
            continue
        key = '%s/sG%+d/spsi%+d/%s' % ('QH' if q.helicity else 'QA', q.sG, q.spsi, 'sentinel' if np.any(q.r_singularity_vs_varphi > 1e99) else 'finite')
        dist[key] = dist.get(key, 0) + 1
        if a.mode == 'check':
            tv = transval.validate(q, rng, only=('calculate_r_singularity',))
            res['programs_validated'] += tv['programs']; res['bindings_compared'] += tv['bindings']
            res['mismatches'] += tv['mismatches']
        res['configs'] += 1
        v, n = predict(cfg, rng, q, collect if a.mode == 'check' else None)
        res['predictions_checked'] += n; res['violations'] += v
        if len(res['samples']) < 3:
            res['samples'].append(dict(cfg=jsonable(cfg), r_singularity=float(q.r_singularity)))
    if a.mode == 'check' and collect:
        vals, err = model_cases(collect)
        if vals is None:
            res['mismatches'].append('RootSelect model could not be evaluated: ' + err)
        else:
            res['programs_validated'] += len(vals)
            for (re_, im_, vv, want), ok in zip(collect, vals):
                if ok != 'true':
                    res['mismatches'].append('RootSelect.select_rc_float differs from r_singularity_vs_varphi = %r (roots %s)' % (want, list(re_)))
    res['distribution'] = dist; res['summary'] = 'tried %d inputs, %d grid points through the Coq model' % (tried, len(collect))
    res['mismatches'] = res['mismatches'][:20]; res['violations'] = res['violations'][:20]
    print(json.dumps(res, default=str))


if __name__ == '__main__':
    main()
