"""Numeric oracle for C10: independent Python reading of props/C10_spec.v on live objects (grad grad B tensor).
Continuum clauses are asserted only on grids that resolve the second-order solution (measured spectral tail)."""
import sys, os, json, time, argparse
sys.path.insert(0, os.path.dirname(os.path.abspath(__file__)))
from common import *
import transval

PROGS = ('calculate_grad_grad_B_tensor', 'grad_grad_B_tensor_cylindrical', 'grad_grad_B_tensor_cartesian', 'calculate_grad_B_tensor',
         'calculate_r2_h0', 'calculate_r2_hN', 'init_axis', 'r1_diagnostics_h0', 'r1_diagnostics_hN', 'residual')


def spectral_tail(q):
    worst = 0.0
    for name in ('X20', 'Y20', 'B20', 'sigma', 'curvature', 'torsion'):
        v = np.asarray(getattr(q, name), dtype=float)
        s = np.abs(np.fft.rfft(v))
        worst = max(worst, s[-3:].max() / max(s.max(), 1e-300))
    return worst


def frame(q):
    """e[c] = cylindrical components (R, phi, Z) of n, b, t; shape (3, nphi, 3)"""
    return np.array([q.normal_cylindrical, q.binormal_cylindrical, q.tangent_cylindrical])


def predict(cfg, rng, q=None):
    out, n = [], 0
    if q is None:
        q, _ = build(cfg)
    stored = np.array(q.grad_grad_B, dtype=float, copy=True) if hasattr(q, 'grad_grad_B') else None
    stored_L = float(q.L_grad_grad_B[0]) if hasattr(q, 'L_grad_grad_B') and np.ndim(q.L_grad_grad_B) else None
    q.calculate_grad_grad_B_tensor(two_ways=True)
    G = np.asarray(q.grad_grad_B); Ga = np.asarray(q.grad_grad_B_alt)
    def bad(key, what, **kw):
        d = dict(key=key, what=what, cfg=jsonable(cfg)); d.update(kw); out.append(d)
    # the tensor the object carried when it was handed over (other objects of the same resolution were built after it) is the tensor of THIS object
    if stored is not None:
        n += 1
        if stored.shape != G.shape or np.max(np.abs(stored - G)) > 1e-12 * max(np.max(np.abs(G)), 1e-300):
            bad('stored', 'the grad grad B tensor stored on the object differs from the one computed from the object now (by %.3g relative): it was overwritten or stale'
                % (float(np.max(np.abs(stored - G))) / max(float(np.max(np.abs(G))), 1e-300) if stored.shape == G.shape else float('nan')))
    sc = max(np.max(np.abs(G)), 1e-300)
    tail = spectral_tail(q)
    ctol = max(1e-7, 1e4 * tail)
    resolved = tail < 1e-10
    if resolved:
        n += 3
        e = np.max(np.abs(G - G.transpose(0, 2, 1, 3)))
        if e > ctol * sc:
            bad('sym12', 'grad grad B is not symmetric in its two derivative indices: %.3g (scale %.3g)' % (e, sc))
        e = np.max(np.abs(np.einsum('pabb->pa', G)))
        if e > ctol * sc:
            bad('divfree', 'contraction of the component index with a derivative index does not vanish: %.3g (scale %.3g)' % (e, sc))
        e = np.max(np.abs(G - Ga))
        if e > ctol * sc:
            i = np.unravel_index(np.argmax(np.abs(G - Ga)), G.shape)
            bad('two_ways', 'the two derivations disagree: %.3g at component %s (scale %.3g)' % (e, i[1:], sc))
        if cfg.get('I2', 0) == 0 and cfg.get('p2', 0) == 0:
            n += 2
            e = np.max(np.abs(G - G.transpose(0, 1, 3, 2)))
            if e > ctol * sc:
                bad('vacuum-sym', 'vacuum tensor is not fully symmetric: %.3g (scale %.3g)' % (e, sc))
            e = np.max(np.abs(np.einsum('paac->pc', G)))
            if e > ctol * sc:
                bad('vacuum-harmonic', 'vacuum tensor is not harmonic: %.3g (scale %.3g)' % (e, sc))
        # tangent contraction = d/dl of the grad B tensor incl. rotation of the frame
        T = q.grad_B_tensor
        z = np.zeros(q.nphi)
        def arr(x):
            return np.asarray(x, dtype=float) + z
        Tm = np.array([[arr(T.nn), arr(T.nb), arr(T.nt)], [arr(T.bn), arr(T.bb), z], [arr(T.tn), z, arr(T.tt)]])     # [direction][component]
        lp = abs(q.G0) / q.B0
        ddl = lambda f: dvarphi_indep(q, f) / lp
        k, tau = q.curvature, q.torsion
        W = np.zeros((3, 3, q.nphi))            # d e_c / dl = sum_a W[c][a] e_a
        W[0][2] = -k; W[0][1] = tau; W[1][0] = -tau; W[2][0] = k
        dT = np.zeros((3, 3, q.nphi))
        for a_ in range(3):
            for b_ in range(3):
                dT[a_][b_] = ddl(Tm[a_][b_]) + sum(Tm[c][b_] * W[c][a_] + Tm[a_][c] * W[c][b_] for c in range(3))
        n += 1
        e = max(np.max(np.abs(G[:, 2, a_, b_] - dT[a_][b_])) for a_ in range(3) for b_ in range(3))
        if e > ctol * sc:
            bad('tangent-contraction', 't . grad grad B differs from d(grad B)/dl by %.3g (scale %.3g)' % (e, sc))
    # scale length (algebraic)
    n += 2
    fro = np.sqrt(np.sum(G * G, axis=(1, 2, 3)))
    inv = np.sqrt(fro / (4 * q.B0))
    if np.max(np.abs(q.grad_grad_B_inverse_scale_length_vs_varphi - inv)) > 1e-10 * np.max(inv) or np.max(np.abs(q.L_grad_grad_B * inv - 1)) > 1e-10:
        bad('scale-length', 'L_grad_grad_B is not (4 B0/||grad grad B||)^(1/2)')
    if abs(q.grad_grad_B_inverse_scale_length - np.max(inv)) > 1e-10 * np.max(inv):
        bad('scale-length-max', 'grad_grad_B_inverse_scale_length is not the maximum of the profile')
    # API variants
    E = frame(q)                                                     # (3 frame vectors, nphi, 3 cylindrical comps)
    want_cyl = np.einsum('ipa,jpb,kpc,pijk->abcp', E, E, E, G)
    got_cyl = np.asarray(q.grad_grad_B_tensor_cylindrical())
    fren = np.transpose(G, (1, 2, 3, 0))
    n += 3
    dc = np.max(np.abs(got_cyl - want_cyl))
    if dc > 1e-9 * sc:
        if np.max(np.abs(got_cyl - fren)) <= 1e-12 * sc:
            bad('cylindrical:frenet-frame', 'grad_grad_B_tensor_cylindrical() returns the Frenet-frame (n,b,t) components, not (R,phi,Z) components: differs from the rotated tensor by %.3g (scale %.3g)' % (dc, sc))
        else:
            bad('cylindrical:other', 'grad_grad_B_tensor_cylindrical() is neither the cylindrical nor the Frenet-frame tensor (%.3g)' % dc)
    c, s = np.cos(q.phi), np.sin(q.phi); zz, oo = np.zeros_like(c), np.ones_like(c)
    Q = np.array([[c, -s, zz], [s, c, zz], [zz, zz, oo]])
    got_car = np.asarray(q.grad_grad_B_tensor_cartesian())
    rot_of_returned = np.einsum('aip,bjp,ckp,ijkp->abcp', Q, Q, Q, got_cyl)
    if np.max(np.abs(got_car - rot_of_returned)) > 1e-10 * sc:
        bad('cartesian:rotation', 'grad_grad_B_tensor_cartesian() is not the rotation about Z of what grad_grad_B_tensor_cylindrical() returns (%.3g)' % np.max(np.abs(got_car - rot_of_returned)))
    want_car = np.einsum('aip,bjp,ckp,ijkp->abcp', Q, Q, Q, want_cyl)
    dk = np.max(np.abs(got_car - want_car))
    if dk > 1e-9 * sc:
        if np.max(np.abs(got_car - np.einsum('aip,bjp,ckp,ijkp->abcp', Q, Q, Q, fren))) <= 1e-10 * sc:
            bad('cartesian:frenet-frame', 'grad_grad_B_tensor_cartesian() rotates the Frenet-frame components as if they were cylindrical: differs from the Cartesian tensor by %.3g (scale %.3g)' % (dk, sc))
        else:
            bad('cartesian:other', 'grad_grad_B_tensor_cartesian() is not the Cartesian tensor (%.3g)' % dk)
    return out, n, resolved


def main():
    ap = argparse.ArgumentParser()
    for a_ in ('--mode', '--hint', '--file', '--tier'):
        ap.add_argument(a_, default={'--mode': 'check', '--hint': '[]', '--tier': 'quick'}.get(a_))
    ap.add_argument('--seed', type=int, default=1); ap.add_argument('--n', type=int, default=6); ap.add_argument('--budget', type=float, default=60)
    a = ap.parse_args()
    rng = np.random.default_rng(a.seed)
    res = dict(configs=0, programs_validated=0, bindings_compared=0, max_rel_err=0.0, mismatches=[], violations=[], samples=[],
               predictions_checked=0, distribution={})
    dist = {}
    if a.mode == 'replay':
        f = (json.load(open(a.file)).get('failing') or {})
        if f.get('cfg'):
            v, n, _ = predict(f['cfg'], rng)
            res['violations'], res['predictions_checked'] = v, n
        print(json.dumps(res, default=str)); return
    t0 = time.time(); tried = 0; nres = 0
    nn = a.n if a.mode == 'check' else 10 ** 6
    for c_, q_ in corpus_objects(('r2', 'r3')):          # distilled regression inputs first
        v, n, r_ = predict(c_, rng, q_)
        res['predictions_checked'] += n; res['violations'] += v; res['configs'] += 1
        dist['corpus'] = dist.get('corpus', 0) + 1
    while tried < nn and (a.mode == 'check' or (time.time() - t0 < a.budget and not [v for v in res['violations'] if not v['key'].endswith('frenet-frame')])):
        tried += 1
        sg = [(1, 1), (1, -1), (-1, 1), (-1, -1)][tried % 4]
        try:
            cfg = None
            cfg, q = gen_admissible(rng, qh=(tried % 3 == 0), order=['r2', 'r3'][tried % 2], signs=sg, nphi=int(2 * rng.integers(35, 60) + 1), simple=(tried % 2 == 0))
        except RuntimeError:
            continue
        if tried % 3 == 1:      # vacuum case
            cfg['I2'] = 0.0; cfg['p2'] = 0.0
            try:
                q, msgs = build(cfg)
            except Exception:
                continue
            if not admissible(q, msgs):
                continue
        key = '%s/%s/sG%+d/spsi%+d/%s' % ('QH' if q.helicity else 'QA', cfg['order'], cfg['sG'], cfg['spsi'], 'vacuum' if (cfg.get('I2') == 0 and cfg.get('p2', 0) == 0) else 'current-or-pressure')
        dist[key] = dist.get(key, 0) + 1
        if a.mode == 'check':
            tv = transval.validate(q, rng, only=PROGS)
            res['programs_validated'] += tv['programs']; res['bindings_compared'] += tv['bindings']
            res['max_rel_err'] = max(res['max_rel_err'], tv['max_rel_err']); res['mismatches'] += tv['mismatches']
        res['configs'] += 1
        v, n, r_ = predict(cfg, rng, q)
        nres += bool(r_)
        res['predictions_checked'] += n; res['violations'] += v
        if len(res['samples']) < 3:
            res['samples'].append(dict(cfg=jsonable(cfg)))
    dist['resolved_for_continuum_clauses'] = nres
    res['distribution'] = dist; res['summary'] = 'tried %d inputs, %d resolved' % (tried, nres)
    res['mismatches'] = res['mismatches'][:20]
    # one entry per key (the known API findings fire on every input)
    seen, vv = set(), []
    for v in res['violations']:
        if v['key'] not in seen:
            seen.add(v['key']); vv.append(v)
    res['violations'] = vv[:20]
    print(json.dumps(res, default=str))


if __name__ == '__main__':
    main()
