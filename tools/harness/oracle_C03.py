"""Numeric oracle for C03: independent Cartesian evaluation of the axis curve from its Fourier coefficients."""
import sys, os, json, time, argparse
sys.path.insert(0, os.path.dirname(os.path.abspath(__file__)))
from common import *
import transval


def curve(cfg, phi):
    """Cartesian r, r', r'', r''' (derivatives with respect to phi), analytic"""
    nfp = cfg['nfp']
    nf = max(len(cfg.get(c, [])) for c in ('rc', 'zs', 'rs', 'zc'))
    pad = lambda l: list(l) + [0.0] * (nf - len(l))
    rc, rs, zc, zs = (pad(cfg.get(c, [])) for c in ('rc', 'rs', 'zc', 'zs'))
    R = [np.zeros_like(phi) for _ in range(4)]; Z = [np.zeros_like(phi) for _ in range(4)]
    for m in range(nf):
        n = m * nfp
        c, s = np.cos(n * phi), np.sin(n * phi)
        for d in range(4):
            # d-th derivative of cos(n phi), sin(n phi)
            dc = [c, -n * s, -n * n * c, n ** 3 * s][d]; ds = [s, n * c, -n * n * s, -n ** 3 * c][d]
            R[d] += rc[m] * dc + rs[m] * ds; Z[d] += zc[m] * dc + zs[m] * ds
    cp, sp = np.cos(phi), np.sin(phi)
    # x = R cos phi, y = R sin phi via Leibniz
    def xy(d):
        from math import comb
        x = sum(comb(d, k) * R[d - k] * [cp, -sp, -cp, sp][k] for k in range(d + 1))
        y = sum(comb(d, k) * R[d - k] * [sp, cp, -sp, -cp][k] for k in range(d + 1))
        return np.array([x, y, Z[d]])
    return [xy(d) for d in range(4)], R, Z


def to_cart(vec_cyl, phi):
    vR, vp, vz = vec_cyl[:, 0], vec_cyl[:, 1], vec_cyl[:, 2]
    return np.array([vR * np.cos(phi) - vp * np.sin(phi), vR * np.sin(phi) + vp * np.cos(phi), vz])


def dip_cfgs():
    """axes with an almost straight point (curvature 4e-4 .. 8e-4 of its rms value) sitting exactly ON a grid node: the Frenet frame is still well defined there
    (conditioning 1/curvature ~ 1e3), the first-order solution is not -- only the axis clauses are evaluated on these"""
    out = []
    for a, nfp, nphi in ((0.1999, 2, 31), (0.19995, 2, 41)):
        d = np.pi / nphi
        out.append(dict(rc=[1.0, float(a * np.cos(d))], rs=[0.0, float(-a * np.sin(d))], zs=[0.0, float(0.02 * np.cos(d))], zc=[0.0, float(0.02 * np.sin(d))],
                        nfp=nfp, etabar=0.9, order='r1', nphi=nphi))
    return out


def ragged_cfgs():
    """coefficient lists of DIFFERENT lengths (the constructor pads the shorter ones with zeros): zs two entries shorter than rc, a one-entry zc, rs absent"""
    return [dict(rc=[1.0, 0.1, 0.01, 0.002], zs=[0.0, 0.1], zc=[0.05], nfp=2, etabar=1.0, order='r1', nphi=31),
            dict(rc=[1.0, 0.06], zs=[0.0, 0.05, 0.004, 0.001], rs=[0.0, 0.003, 0.001], nfp=3, etabar=1.1, order='r1', nphi=31),
            # more harmonics than the grid resolves (9 on 11 points): the axis arrays are still the values of the INPUT curve at the grid points
            dict(rc=[1.0] + [0.09 * 0.45 ** k for k in range(8)], zs=[0.0] + [0.08 * 0.45 ** k for k in range(8)], nfp=2, etabar=1.0, order='r1', nphi=11)]


def predict(cfg, rng, q=None, axis_only=False):
    out, n = [], 0
    if q is None:
        q, _ = build(cfg)
    def bad(key, what):
        out.append(dict(key=key, what=what, cfg=jsonable(cfg)))
    phi = q.phi
    (r0, r1, r2, r3), R, Z = curve(cfg, phi)
    sp = np.sqrt(np.sum(r1 * r1, axis=0))
    cr = np.cross(r1.T, r2.T).T
    kap = np.sqrt(np.sum(cr * cr, axis=0)) / sp ** 3
    tau = np.sum(cr * r3, axis=0) / np.sum(cr * cr, axis=0)
    t = r1 / sp
    nvec = np.cross(cr.T, r1.T).T; nvec = nvec / np.sqrt(np.sum(nvec * nvec, axis=0))
    b = np.cross(t.T, nvec.T).T
    tol = 1e-9
    for name, got, want in (('curvature', q.curvature, kap), ('torsion', q.torsion, tau), ('d_l_d_phi', q.d_l_d_phi, sp),
                            ('R0', q.R0, R[0]), ('Z0', q.Z0, Z[0]), ('R0p', q.R0p, R[1]), ('Z0p', q.Z0p, Z[1]), ('R0pp', q.R0pp, R[2]), ('Z0pp', q.Z0pp, Z[2]),
                            ('R0ppp', q.R0ppp, R[3]), ('Z0ppp', q.Z0ppp, Z[3]),
                            ('tangent', to_cart(q.tangent_cylindrical, phi), t), ('normal', to_cart(q.normal_cylindrical, phi), nvec),
                            ('binormal', to_cart(q.binormal_cylindrical, phi), b)):
        n += 1
        sc = max(np.max(np.abs(want)), 1e-300)
        if np.max(np.abs(got - want)) > tol * max(sc, 1.0 if name == 'torsion' else sc):
            bad('geom:' + name, '%s differs from an independent evaluation of the curve by %.3g' % (name, np.max(np.abs(got - want))))
    # frame: orthonormal, right handed (cylindrical components), tangent towards increasing phi
    T, N, B = q.tangent_cylindrical, q.normal_cylindrical, q.binormal_cylindrical
    n += 1
    for a_, b_, w in ((T, T, 1), (N, N, 1), (B, B, 1), (T, N, 0), (T, B, 0), (N, B, 0)):
        if np.max(np.abs(np.sum(a_ * b_, axis=1) - w)) > 1e-12:
            bad('frame:orthonormal', 'frame is not orthonormal'); break
    n += 1
    if np.max(np.abs(np.cross(T, N) - B)) > 1e-12 or np.any(T[:, 1] <= 0):
        bad('frame:orientation', 'b != t x n in (R,phi,Z) or the tangent does not point towards increasing phi')
    # lengths, G0, varphi
    n += 4
    L = np.sum(sp) * (2 * np.pi / q.nfp / q.nphi) * q.nfp
    if abs(q.axis_length - L) > 1e-12 * L:
        bad('axis_length', 'axis_length differs from the periodic trapezoid sum of |dr/dphi|')
    if abs(q.G0 - q.sG * q.B0 * q.axis_length / (2 * np.pi)) > 1e-12 * abs(q.G0):
        bad('G0', 'G0 != sG*B0*L/(2 pi)')
    vp = q.varphi
    if vp[0] != 0 or np.any(np.diff(vp) <= 0) or abs(vp[-1] + (sp[-1] + sp[0]) * 0.5 * q.d_phi * 2 * np.pi / q.axis_length - 2 * np.pi / q.nfp) > 1e-12:
        bad('varphi', 'varphi is not zero at phi=0 / increasing / spanning one field period')
    if np.max(np.abs(q.d_varphi_d_phi / sp - q.d_varphi_d_phi[0] / sp[0])) > 1e-12 * abs(q.d_varphi_d_phi[0] / sp[0]):
        bad('dvarphi', 'd_varphi_d_phi is not proportional to the arclength element')
    if axis_only:
        return out, n
    # min_R0 against a dense evaluation
    dense = np.linspace(0, 2 * np.pi / q.nfp, 4001)
    _, Rd, _ = curve(cfg, dense)
    n += 1
    if abs(q.min_R0 - np.min(Rd[0])) > 1e-6 * abs(np.min(Rd[0])) + 5e-7:
        bad('min_R0', 'min_R0 = %.9g but the curve has min R = %.9g' % (q.min_R0, np.min(Rd[0])))
    # elongation = ratio of singular values
    n += 1
    for j in range(0, q.nphi, max(1, q.nphi // 7)):
        M = np.array([[q.X1s[j], q.X1c[j]], [q.Y1s[j], q.Y1c[j]]])
        sv = np.linalg.svd(M, compute_uv=False)
        if abs(q.elongation[j] - sv[0] / sv[1]) > 1e-9 * sv[0] / sv[1] or q.elongation[j] < 1 - 1e-12:
            bad('elongation', 'elongation != ratio of singular values at grid point %d' % j); break
    # Frenet-Serret through the spectral derivative (continuum clause: only on resolved grids)
    spec = np.abs(np.fft.rfft(q.curvature)); tail = spec[-3:].max() / max(spec.max(), 1e-300)
    if tail < 1e-10:
        n += 1
        def ddl(v):   # covariant d/dl of cylindrical components (FFT derivative, independent of the object's matrices)
            dv = np.stack([dphi_indep(q, v[:, c]) for c in range(3)], axis=1)
            return np.array([dv[:, 0] - v[:, 1], dv[:, 1] + v[:, 0], dv[:, 2]]).T / q.d_l_d_phi[:, None]
        k_, t_ = q.curvature[:, None], q.torsion[:, None]
        e = max(np.max(np.abs(ddl(T) - k_ * N)), np.max(np.abs(ddl(N) + k_ * T - t_ * B)), np.max(np.abs(ddl(B) + t_ * N)))
        if e > 1e-6 * max(1.0, np.max(np.abs(q.curvature)), np.max(np.abs(q.torsion))):
            bad('frenet-serret', 'Frenet-Serret equations violated by %.3g' % e)
    return out, n


def main():
    ap = argparse.ArgumentParser()
    for a_ in ('--mode', '--hint', '--file', '--tier'):
        ap.add_argument(a_, default={'--mode': 'check', '--hint': '[]', '--tier': 'quick'}.get(a_))
    ap.add_argument('--seed', type=int, default=1); ap.add_argument('--n', type=int, default=6); ap.add_argument('--budget', type=float, default=60)
    a = ap.parse_args()
    rng = np.random.default_rng(a.seed)
    res = dict(configs=0, programs_validated=0, bindings_compared=0, max_rel_err=0.0, mismatches=[], violations=[], samples=[],
               predictions_checked=0, distribution={})
    dist = {}
    if a.mode == 'replay':
        f = (json.load(open(a.file)).get('failing') or {})
        if f.get('cfg'):
            res['violations'], res['predictions_checked'] = predict(f['cfg'], rng)
        print(json.dumps(res, default=str)); return
    t0 = time.time(); tried = 0
    nn = a.n if a.mode == 'check' else 10 ** 6
    for c_ in dip_cfgs() + ragged_cfgs():
        try:
            import logging, warnings
            logging.disable(logging.CRITICAL)
            with warnings.catch_warnings(), np.errstate(all='ignore'):
                warnings.simplefilter('ignore')
                q_, _ = build(c_)
            logging.disable(logging.NOTSET)
        except Exception:
            logging.disable(logging.NOTSET)
            continue
        v, n = predict(c_, rng, q_, axis_only=True)
        res['predictions_checked'] += n; res['violations'] += v; res['configs'] += 1
        dist['axis-only'] = dist.get('axis-only', 0) + 1
    for c_, q_ in corpus_objects():          # distilled regression inputs first
        v, n = predict(c_, rng, q_)
        res['predictions_checked'] += n; res['violations'] += v; res['configs'] += 1
        dist['corpus'] = dist.get('corpus', 0) + 1
    while tried < nn and (a.mode == 'check' or (time.time() - t0 < a.budget and not res['violations'])):
        tried += 1
        sg = [(1, 1), (1, -1), (-1, 1), (-1, -1)][tried % 4]
        try:
            cfg, q = gen_admissible(rng, qh=(tried % 3 == 0), order=['r1', 'r3', 'r1', 'r2'][tried % 4], signs=sg, asym=(tried % 2 == 0), nphi=int(2 * rng.integers(20, 45) + 1))
        except RuntimeError:
            continue
        key = '%s/%s/sG%+d/nfp%d' % ('QH' if q.helicity else 'QA', 'asym' if q.lasym else 'sym', cfg['sG'], cfg['nfp'])
        dist[key] = dist.get(key, 0) + 1
        if a.mode == 'check':
            tv = transval.validate(q, rng, only=('init_axis', 'init_axis_term', 'r1_diagnostics_h0', 'r1_diagnostics_hN'))
            res['programs_validated'] += tv['programs']; res['bindings_compared'] += tv['bindings']
            res['max_rel_err'] = max(res['max_rel_err'], tv['max_rel_err']); res['mismatches'] += tv['mismatches']
        res['configs'] += 1
        v, n = predict(cfg, rng, q)
        res['predictions_checked'] += n; res['violations'] += v
        if len(res['samples']) < 3:
            res['samples'].append(dict(cfg=jsonable(cfg)))
    res['distribution'] = dist; res['summary'] = 'tried %d inputs' % tried
    res['mismatches'] = res['mismatches'][:20]; res['violations'] = res['violations'][:20]
    print(json.dumps(res, default=str))


if __name__ == '__main__':
    main()
