#!/usr/bin/env python3
"""check.py <PROPERTY> [--tier quick|thorough] [--replay FILE]

Decides one property on /repo's current working tree:
  1. regenerate the Coq model of the anchored code (tools/gen.py, run under /venv/bin/python);
  2. regenerate and re-check the property's proof obligations (full coqc builds);
  3. validate the translator / oracle specifications against the running implementation;
  4. on any broken obligation or correspondence: search for a concrete failing input with the
     property's numeric oracle, write the replay file, print the VIOLATION line, exit 1;
  5. otherwise write evidence/<id>.json and exit 0.
"""
import sys, os, json, time, subprocess, argparse, traceback

HERE = os.path.dirname(os.path.abspath(__file__))
ROOT = os.path.dirname(HERE)
sys.path.insert(0, HERE)
import coqbuild
from coqbuild import COQ

REPO = os.environ.get('VERIF_REPO', '/repo')
PY = '/venv/bin/python'
ENV = dict(os.environ, PYTHONPATH=REPO, PYTHONHASHSEED='0', MPLBACKEND='Agg', VERIF_REPO=REPO,
           OMP_NUM_THREADS='1', OPENBLAS_NUM_THREADS='1', MKL_NUM_THREADS='1')
ENV.pop('PYQSC_VERIF', None)

TRUSTED_BASE = [
    'Coq 8.16.1 kernel and vm_compute (no native_compute); full .vo builds',
    'axioms (standard library, via Reals): ClassicalDedekindReals.sig_forall_dec, ClassicalDedekindReals.sig_not_dec, FunctionalExtensionality.functional_extensionality_dep',
    'translator tools/py2coq.py + tools/gen.py (fail-closed symbolic interpreter of the Python AST); validated each run (a) by evaluating the generated `prog` terms INSIDE Coq (theories/FloatEval.v: generic list evaluator proved equal to the model semantics Expr.eval/run on the reals, run on PrimFloat by vm_compute) on the data of live objects and comparing every output binding and oracle residual equation with the implementation to 1e-9 relative, and (b) by an independent parse-back evaluation of the generated Coq text with numpy',
    'real arithmetic stands for float arithmetic; np.matmul(d_d_varphi, .) is modelled as (D_phi .)/d_varphi_d_phi',
    'committed tables/*.json (dimension / sign of each public attribute)',
    'the real-analysis files theories/SpectralConv.v (C18), theories/SecondOrder.v (C03, C18), theories/NewtonConv.v (C20), props/C12_firstzero.v and props/C12_bridge.v (C12) import Coquelicot and the standard library\'s continuity_ab_min / MVT and therefore also depend on the standard-library axiom Classical_Prop.classic (excluded middle); no other obligation does',
    'checks whose obligations include theories/FloatOrder.v (C02, C12, C20) additionally rely on the standard library\'s specification axioms of primitive floats (Coq.Floats.FloatAxioms: ltb_spec, leb_spec, eqb_spec; in its RealSemantics module also abs_spec, Prim2SF_valid, SF2Prim_Prim2SF, Prim2SF_SF2Prim and, through Flocq/Reals, Classical_Prop.classic); the evidence field `axioms` lists what Print Assumptions reported',
]


def run(cmd, timeout=3600, **kw):
    return subprocess.run(cmd, capture_output=True, text=True, timeout=timeout, env=ENV, **kw)


def regenerate():
    """returns (ok, output)"""
    p = run([PY, os.path.join(HERE, 'gen.py'), '--repo', REPO])
    # digests of the hand-modelled functions (coq/gen/G_pins.v); a function that has disappeared is a translator error like any other
    pp = run(['python3', os.path.join(HERE, 'gen_pins.py'), '--repo', REPO])
    return p.returncode == 0 and pp.returncode == 0, (p.stdout + p.stderr + (pp.stdout + pp.stderr if pp.returncode else '')).strip()


def harness(module, args, timeout=7200):
    """run a harness module under the repository's interpreter; it prints one JSON object last"""
    p = run([PY, os.path.join(HERE, 'harness', module + '.py')] + args, timeout=timeout)
    out = p.stdout.strip().splitlines()
    try:
        res = json.loads(out[-1])
    except Exception:
        res = {'error': 'harness %s produced no JSON (exit %s): %s' % (module, p.returncode, (p.stdout + p.stderr)[-2000:])}
    return res


def violation(prop, replay_obj, found):
    os.makedirs(os.path.join(ROOT, 'work', 'replays'), exist_ok=True)
    path = os.path.join(ROOT, 'work', 'replays', '%s_%d.json' % (prop, int(time.time())))
    json.dump(replay_obj, open(path, 'w'), indent=1, default=str)
    print('VIOLATION property=%s replay=%s%s' % (prop, path, '' if found else ' no-failing-input-found'))
    return path


def load_known():
    p = os.path.join(ROOT, 'known_findings.json')
    if os.path.exists(p):
        return json.load(open(p))
    return {'findings': [], 'fixed': []}


# ----------------------------------------------------------------------------------------------
# reflective-checker properties (C08, C07, C05): shared flow
# ----------------------------------------------------------------------------------------------
def reflective(prop, tier, seed, oracle_module, level_note, extra_obligations=None, ncorr=None, oracle_args=None, gprops=True, seq_obligations=None, theorems=None, theory_obligations=None, gprops_from=None, pre_cmds=None, extra_harness=None, nthorough=None):
    t0 = time.time()
    problems = []       # broken obligations / correspondences (strings)
    for d_ in ('gprops', 'gen'):          # generated directories do not exist in a fresh checkout
        os.makedirs(os.path.join(COQ, d_), exist_ok=True)
    os.makedirs(os.path.join(ROOT, 'work'), exist_ok=True)
    with coqbuild.Lock():
        ok, gen_out = regenerate()
        if not ok:
            problems.append('translator: ' + gen_out[-1500:])
        for pc in (pre_cmds or []):
            pp = run(pc)
            if pp.returncode != 0:
                problems.append('front-end %s: %s' % (os.path.basename(pc[1]), (pp.stdout + pp.stderr).strip()[-1200:]))
        if gprops:
            p = run(['python3', os.path.join(HERE, 'mkprops.py'), prop])
            if p.returncode != 0:
                problems.append('mkprops: ' + (p.stdout + p.stderr)[-1500:])
        th = coqbuild.build_theories((NEEDS.get(prop) or []) + ['Expr', 'FloatEval'] if NEEDS.get(prop) else None)
        for r in th:
            if not r['ok']:
                problems.append('theory %s does not compile: %s' % (r['file'], r['out'][-800:]))
        man = json.load(open(os.path.join(COQ, 'gen', 'gen_manifest.json')))
        gens = sorted('gen/' + f for f in os.listdir(os.path.join(COQ, 'gen')) if f.endswith('.v'))
        gres = coqbuild.build_many(gens)
        for r in gres:
            if not r['ok']:
                problems.append('generated model %s does not compile: %s' % (r['file'], r['out'][-800:]))
        obl = []
        for (gp, progs_) in (gprops_from or []):
            pp = run(['python3', os.path.join(HERE, 'mkprops.py'), gp])
            if pp.returncode != 0:
                problems.append('mkprops %s: %s' % (gp, (pp.stdout + pp.stderr)[-800:]))
            obl += ['gprops/%s_%s.v' % (gp, x) for x in progs_]
        if gprops:
            obl = sorted('gprops/' + f for f in os.listdir(os.path.join(COQ, 'gprops')) if f.startswith(prop + '_') and f.endswith('.v'))
        if extra_obligations:
            obl += extra_obligations
        ores = coqbuild.build_many(obl)
        if theory_obligations:
            for r in th:
                if os.path.basename(r['file'])[:-2] in theory_obligations:
                    ores.append(r)
                    obl.append(r['file'])
        # hand-written property files with dependencies between them: built in the given order
        for f in (seq_obligations or []):
            if isinstance(f, (list, tuple)):          # a group of mutually independent files: built in parallel
                for r in coqbuild.build_many(list(f), timeout=2400):
                    ores.append(r)
                obl += list(f)
                continue
            r = coqbuild.build_one(f, timeout=1800)
            ores.append(r)
            obl.append(f)
        # source pins of the hand-modelled functions this property's theorems and correspondences rely on
        pin_files = ['props/Pin_%s.v' % nm for nm in PINS_FOR.get(prop, []) + OBJECT_PINS]
        for r in coqbuild.build_many(pin_files):
            ores.append(r)
        obl += pin_files
        gate = coqbuild.grep_gate()
        chk = None
        if tier == 'thorough' and all(r['ok'] for r in ores):
            chk = coqbuild.coqchk([r['file'] for r in ores])
    if gate:
        problems.append('forbidden vernacular: ' + '; '.join(gate))
    axioms, failed, discharged = set(), [], 0
    for r in ores:
        if r['ok']:
            discharged += 1
            axioms |= coqbuild.axioms_of(r['out'])
        else:
            failed.append(r['file'])
            problems.append('obligation %s fails: %s' % (r['file'], r['out'].strip()[-400:]))
    prims = axioms & coqbuild.PRIMITIVES
    axioms = axioms - coqbuild.PRIMITIVES
    allowed = set(coqbuild.ALLOWED_AXIOMS)
    if 'FloatOrder' in (theory_obligations or []):
        allowed |= coqbuild.FLOAT_AXIOMS      # standard-library specification axioms of the primitive floats (Coq.Floats.FloatAxioms), FloatOrder.v only
    # files that use Coquelicot / continuity_ab_min / MVT (real analysis over the standard library): Classical_Prop.classic, a standard-library axiom, is named in their trusted base
    if any(o in CLASSIC_USERS for o in obl):
        allowed |= {'Classical_Prop.classic', 'classic'}
    bad_ax = axioms - allowed
    if bad_ax:
        problems.append('unexpected axioms: ' + ', '.join(sorted(bad_ax)))
    coqchk_info = None
    if chk is not None:
        ok_c, ax_c, tail_c, secs_c = chk
        lib_ax = sorted(a for a in ax_c)
        coqchk_info = dict(ok=ok_c, seconds=round(secs_c, 1), axioms_of_all_loaded_libraries=lib_ax)
        if not ok_c:
            problems.append('coqchk rejects the compiled obligations: ' + tail_c[-600:])
    report = {}
    rp = os.path.join(COQ, 'gprops', prop + '_report.json')
    if os.path.exists(rp):
        report = json.load(open(rp))
    # translator validation + prediction correspondence
    n = (ncorr if tier == 'quick' and ncorr else None) or (6 if tier == 'quick' else (nthorough or 300))
    oargs = oracle_args or []
    corr = harness(oracle_module, oargs + ['--mode', 'check', '--seed', str(seed), '--n', str(n), '--tier', tier])
    if 'error' in corr:
        problems.append('correspondence harness: ' + corr['error'])
    else:
        for m in corr.get('mismatches', []):
            problems.append('correspondence: ' + m)
    ties = {}
    extra_harness = list(extra_harness or [])
    if prop not in NO_FLOAT_TIE:
        extra_harness.append(('tie_floateval', []))
    for (tmod, targs) in extra_harness:
        tr = harness(tmod, targs + ['--mode', 'check', '--seed', str(seed), '--n', str(n), '--tier', tier])
        if 'error' in tr:
            problems.append('correspondence harness %s: %s' % (tmod, tr['error']))
        else:
            for m in tr.get('mismatches', []):
                problems.append('correspondence (%s): %s' % (tmod, m if isinstance(m, str) else json.dumps(m, default=str)[:400]))
            if isinstance(corr, dict) and 'error' not in corr:
                corr.setdefault('violations', []).extend(tr.get('violations', []))
                corr['programs_validated'] = corr.get('programs_validated', 0) + tr.get('programs_validated', 0)
            ties[tmod] = dict((k, tr.get(k)) for k in ('configs', 'programs', 'cases', 'programs_validated', 'bindings_compared', 'bindings_skipped_oracle', 'worst_rel_err', 'max_rel_err', 'distribution', 'predictions_checked', 'summary', 'seconds') if tr.get(k) is not None)
    known = [k for k in load_known()['findings'] if k['property'] == prop]
    known_hits = []
    viol = corr.get('violations', []) if isinstance(corr, dict) else []
    new_viol = []
    for v in viol:
        kk = [k for k in known if k['key'] == v.get('key')]
        if kk:
            known_hits.append(kk[0])
        else:
            new_viol.append(v)
    for k in {k['key']: k for k in known_hits}.values():
        print('KNOWN-FINDING: property=%s %s' % (prop, k['what']))
    coverage = dict(
        obligations=len(ores), discharged=discharged, theorems=theorems or [],
        checker_cmd='./check %s --tier %s   (regenerates the model from /repo with tools/gen.py [+ mkprops.py / gen_obj.py / gen_eff.py], then full coqc builds of the files listed in obligation_files against coq/theories, Print Assumptions gate, harness)' % (prop, tier),
        obligation_files=[o for o in obl],
        trusted_base=TRUSTED_BASE + [level_note],
        axioms=sorted(axioms), primitive_float_operations=sorted(prims), coqchk=coqchk_info, programs=len(man.get('programs', {})),
        model_nodes=sum(v['nodes'] for v in man.get('programs', {}).values()),
        per_program=report,
        traces_validated_against_impl=corr.get('programs_validated', 0) if isinstance(corr, dict) else 0,
        correspondence=dict((k, corr.get(k)) for k in ('configs', 'programs_validated', 'bindings_compared', 'max_rel_err', 'distribution', 'predictions_checked') if isinstance(corr, dict)),
        model_ties=ties,
        samples=(corr.get('samples', []) if isinstance(corr, dict) else [])[:3] + [{'obligation': o} for o in obl[:3]],
    )
    wall = time.time() - t0
    from_h = os.path.join(HERE, 'harness')
    sys.path.insert(0, from_h)
    nviol = 0
    rc = 0
    if new_viol:
        nviol = len(new_viol)
        violation(prop, dict(kind='implementation-violates-prediction', property=prop, failing=new_viol[0], all=new_viol[:10],
                             broken=problems[:20]), True)
        rc = 1
    elif problems:
        # search for a concrete failing input
        os.environ['VERIF_HISTORY_FRACTION'] = '0.5'        # the search for a failing input leans more on history-built objects
        ENV['VERIF_HISTORY_FRACTION'] = '0.5'
        s = harness(oracle_module, oargs + ['--mode', 'search', '--seed', str(seed), '--budget', '60' if tier == 'quick' else '600',
                                    '--hint', json.dumps(failed)])
        found = [v for v in s.get('violations', []) if not any(k['key'] == v.get('key') for k in known)]
        nviol = max(1, len(found))
        violation(prop, dict(kind='broken-obligation', property=prop, broken=problems[:20],
                             failing=found[0] if found else None, search=s.get('summary')), bool(found))
        rc = 1
    coverage['broken'] = problems[:20]
    ev = write_evidence(prop, tier, seed, 'proof', coverage, time.time() - t0, nviol,
                        assumptions=[level_note])
    return rc


def write_evidence(prop, tier, seed, level, coverage, wall, violations=0, assumptions=None):
    ev = dict(property_id=prop, tier=tier, seed=int(seed), level=level, coverage=coverage,
              wall_s=round(float(wall), 2), violations=int(violations))
    if assumptions:
        ev['assumptions'] = assumptions
    evdir = os.environ.get('VERIF_EVIDENCE_DIR') or os.path.join(ROOT, 'evidence')
    os.makedirs(evdir, exist_ok=True)
    p = os.path.join(evdir, prop + '.json')
    with open(p, 'w') as f:
        json.dump(ev, f, indent=1, default=str)
    return p


def check_C08(tier, seed):
    return reflective('C08', tier, seed, 'oracle_C08',
                      'absolute thresholds inside r_singularity / fourier_minimum are modelled, not verified; '
                      'Newton and the dense solve enter through their residual equations (scale-covariance of the '
                      'equations is proved, uniqueness of the numerical solution is assumed); fourier_minimum is assumed '
                      'positively homogeneous (validated against scipy each run)')


def check_C07(tier, seed):
    return reflective('C07', tier, seed, 'oracle_sym',
                      'Each generator is proved to map every typed output of every translated stage by the fixed sign of tables/signs.json, '
                      'for every grid size and every differentiation matrix that commutes (F, M) or anticommutes (T) with the grid action '
                      '(proved of the spectral_diff_matrix model in DiffMat.v). Not derivable syntactically and therefore not covered: '
                      'second row of the O(r^2) system under M (needs a cancellation between fX0 and fXc), *_untwisted under T, '
                      'Cartesian converters; thresholded root selection in r_singularity and iota2 under F are outside the theorem. '
                      'Newton/linear solves enter through their residual equations. Definite parity (last clause): for the composition S of mirror and toroidal reversal '
                      '(the symmetry OF a stellarator-symmetric input; sign = product of the M and T signs, grid reversal, anticommuting matrix) each stage has a theorem '
                      'C07_parity_<stage> (Sign.parity_law): if every typed input of the stage satisfies v(j) = s*v(n-j) then every typed output does, for every grid size; '
                      'for the oracle solutions (sigma, iota; X20, Y20) the hypothesis follows from the covariance of their equations when the solution is unique (uniqueness not proved).',
                      oracle_args=['--prop', 'C07'], seq_obligations=['props/C07_lasym.v', 'props/Actions.v', 'props/Axis.v'])


def check_C05(tier, seed):
    return reflective('C05', tier, seed, 'oracle_sym',
                      'Every covered output (tables/shift_cover.json) of every translated stage is proved cyclic-shift equivariant for every '
                      'grid size and every circulant differentiation matrix; the sigma pin is handled by stating the law for the unpinned '
                      'residual. Origin-dependent by definition (excluded): *_untwisted on helical axes, varphi (induced law checked by the '
                      'harness), Cartesian components. Not proved: that Newton reaches the shifted solution (uniqueness).',
                      oracle_args=['--prop', 'C05'], seq_obligations=['props/Actions.v', 'props/Axis.v'])


def check_C04(tier, seed):
    return reflective('C04', tier, seed, 'oracle_C04',
                      'Proved for every index type and every LINEAR differentiation operator (hence every grid size and matrix), for every '
                      'input environment, on the program regenerated from calculate_r2: the residuals of the two block rows of the assembled '
                      'linear system are identically the two O(r^2) differential equations written in full form (props/C04_spec.v), the two '
                      'algebraic constraints hold identically, and G2, beta_1s, B20 mean/residual/variation equal their closed forms. '
                      'Closed form of B20 (the property names no formula; the independent statement is the one of C01): the r^2, theta-averaged coefficient of |B|^2 (w . e_phi) - G (G + iota I) built from the '
                      'returned geometry alone vanishes with the returned B20 (props/C01_r2b.v: modB2, over the facts extracted from the regenerated calculate_r2 in props/C01_facts2.v). '
                      'Assumed (validated by the harness each run): np.linalg.solve returns a solution of the assembled system. Not proved: '
                      'size of the float residual relative to conditioning.',
                      gprops=False, seq_obligations=['props/C04_spec.v', ['props/C04.v', 'props/C01_spec.v'], 'props/C01_common.v', ['props/C01_facts2.v', 'props/C01_r1.v'], 'props/C01_r2base.v', 'props/C01_r2b.v'],
                      theorems=['C04_system_h0', 'C04_system_hN', 'C04_closed_h0', 'C04_closed_hN', 'C01_facts2.r2_facts_of_stage_h0', 'C01_facts2.r2_facts_of_stage_hN', 'C01_r2b.modB2'])


def check_C02(tier, seed):
    return reflective('C02', tier, seed, 'oracle_C02',
                      'Proved: (1) on the control model of newton() (theories/Newton.v, agrees with the implementation decision-for-decision on '
                      'every generated trace incl. NaN norms): the returned iterate is x0 or an accepted strictly-decreasing iterate, and '
                      'no warning implies residual(x_best) <= 1e4*tol = 1e-9, for every stream of norms (NaN included, after the fix); '
                      '(2) on the programs regenerated from _residual/_jacobian: residual(x+eps h) = residual(x) + eps J(x)h + eps^2 A + eps^3 B '
                      'for every state, direction, eps and linear differentiation operator; (3) sigma[0] = sigma0 and iotaN = iota + helicity*nfp '
                      'from the regenerated glue of solve_sigma_equation; (4) the discretised equation IS the sigma equation of the construction: from the regenerated _residual, init_axis and r1_diagnostics programs, a solution of the residual makes the poloidally averaged O(r^2) Boozer condition of the geometry vanish, and that condition is (spsi B0 kappa^2 / 2 etabar^2) times the sigma equation written independently in props/C01_spec.v (props/C01_r1.v: sigma_residual_zero, pol3_avg_identity; part of this check). NOT proved: agreement of iota with a shooting solution of the continuous '
                      'ODE as nphi grows (a convergence theorem for pseudo-spectral collocation; the harness compares with an independent DOP853 shooting solution and an independent winding number). The order facts about IEEE comparisons '
                      '(ltb transitive / irreflexive, ltb-leb transitivity) that the generic Newton theorems assume are PROVED for binary64 primitive floats including NaN, infinities and signed zeros (theories/FloatOrder.v, from the '
                      'standard library\'s specification axioms ltb_spec, leb_spec, eqb_spec of Coq.Floats.FloatAxioms), and the Newton theorems are instantiated on PrimFloat with no premise left.',
                      gprops=False, seq_obligations=[['props/C02.v', 'props/C04_spec.v'], 'props/C01_spec.v', 'props/C01_common.v', 'props/C01_r1.v'], theory_obligations=['Newton', 'FloatOrder'],
                      theorems=['C02_jacobian_exact', 'C02_sigma0_pinned', 'C01_r1.sigma_residual_zero', 'C01_r1.pol3_avg_identity', 'C01_r1.C01_r1_h0', 'C01_r1.C01_r1_hN', 'Newton.never_worse_than_initial', 'Newton.no_warning_means_best_small',
                                'Newton.accepted_chain_decreasing', 'Newton.nan_always_warns',
                                'FloatOrder.float_ltb_trans', 'FloatOrder.float_ltb_irrefl', 'FloatOrder.float_ltb_leb_trans', 'FloatOrder.newton_never_worse_float',
                                'FloatOrder.newton_accepted_chain_decreasing_float', 'FloatOrder.newton_no_warning_means_best_small_float', 'FloatOrder.newton_nan_initial_float'])


def check_C20(tier, seed):
    return reflective('C20', tier, seed, 'kernels',
                      'Proved for every grid size n and every interval, on the hand-written list model of spectral_diff_matrix (bitwise equal to '
                      'the implementation on every generated size): antisymmetric; for odd n circulant, zero row sums, commutes with cyclic shifts and '
                      'anticommutes with reversal (even n: the same under the stated condition that the Nyquist entry 1/tan(pi/2) is exactly 0). '
                      'Newton control laws as in C02. fourier_minimum bracket logic and interpolation-weight identities in theories/Bracket.v. '
                      'Exact differentiation (theories/DiffKernel.v, odd n -- the only parity Qsc uses): with topc the exact cosecants the matrix entry is s/2 (-1)^d / sin(pi d/n), it is the derivative of the '
                      'Dirichlet kernel, and applied to cos(p x_j), sin(p x_j) for every p <= n/2 (hence to every trigonometric polynomial of that degree) it returns the exact derivative at the nodes; '
                      'the matrices of the nfp = k and nfp = 1 declarations replicate (Dspec_replicates, odd k). '
                      'Interpolation (theories/InterpKernel.v, odd n): off the nodes the barycentric formula of fourier_interpolation IS the Dirichlet-kernel interpolant, it reproduces cos(p x), sin(p x), p <= n/2 and every trigonometric '
                      'polynomial of that degree exactly at every x, takes the sample values at the nodes and is continuous; the interpolants of the nfp = k and nfp = 1 declarations have the same range. '
                      'Even n (theories/EvenKernel.v): over the reals 1/tan(pi/2) = 0, so the conditional even-n structure theorems hold outright; entry formula with cot, kernel form, exact differentiation of cos(p x) for p <= n/2 and sin(p x) for p < n/2, '
                      'exact interpolation of the same; the Nyquist sine (identically 0 on the grid) is annihilated by both, which is inherent to an even grid and stated explicitly (Dspec_even_nyquist_sin, interp_even_nyquist_sin). '
                      'Newton convergence (theories/NewtonConv.v, over the reals): (A) on the control model, if every first line-search trial from a point with norm >= tol contracts the norm by q < 1 (satisfiable: Example halving), '
                      'every iteration accepts its first trial, norms decay geometrically, and if q^m |f x0| < tol for some m < niter the run ends with tolerance achieved, NO warning, best = the first index below tol '
                      '(newton_converges_ctl); (B) for a scalar f with |f\'| >= m > 0, |f\'\'| <= M on [a,b] the full Newton step satisfies |f(x\')| <= M/(2 m^2) f(x)^2 (Taylor-Lagrange), hence the contraction hypothesis holds '
                      'once M/(2m^2)|f x0| <= q, and the control model run on the stream |f x_k| of the real iteration converges as in (A) (newton_converges_scalar; newton_converges_scalar_ball discharges "iterates stay in [a,b]" '
                      'from a Kantorovich ball condition; Example sqrt 2). The corner m = niter is REFUTED as a convergence report: tolerance first met at the last allowed evaluation => achieved flag false and the warning is decided by the norm '
                      'BEFORE the last step (corner_hit_at_niter; reproduced on the real code: f(x)=x, x0=100, niter=1 returns 0 and warns "Final residual: 100") -- a spurious warning, allowed by the property (it only forbids silent failure). '
                      'NOT proved: the n-dimensional Newton-Kantorovich theorem; floats are idealised as reals in the exactness and convergence statements.',
                      gprops=False, seq_obligations=[], theory_obligations=['Newton', 'DiffMat', 'Bracket', 'TrigSum', 'DiffKernel', 'InterpKernel', 'EvenKernel', 'FloatOrder', 'NewtonConv'],
                      theorems=['NewtonConv.newton_converges_ctl', 'NewtonConv.every_first_trial_accepted', 'NewtonConv.newton_step_quadratic', 'NewtonConv.newton_converges_scalar', 'NewtonConv.newton_converges_scalar_ball', 'NewtonConv.corner_hit_at_niter', 'FloatOrder.newton_never_worse_float', 'FloatOrder.newton_no_warning_means_best_small_float', 'FloatOrder.min_le_samples_float', 'FloatOrder.shift_invariance_of_decisions_float', 'EvenKernel.Dspec_even_entry', 'EvenKernel.Dspec_even_exact_trigpoly', 'EvenKernel.Dspec_even_nyquist_sin', 'EvenKernel.interp_even_is_kernel', 'EvenKernel.interp_even_exact_trigpoly', 'InterpKernel.interp_is_kernel', 'InterpKernel.interp_exact_trigpoly', 'InterpKernel.kinterp_node', 'InterpKernel.kinterp_continuous', 'InterpKernel.interp_replicates', 'DiffKernel.Dspec_entry', 'DiffKernel.Dspec_kernel', 'DiffKernel.Dspec_exact_cos', 'DiffKernel.Dspec_exact_sin', 'DiffKernel.Dspec_exact_trigpoly', 'DiffKernel.trigpoly_derive',
                                'DiffKernel.Dspec_replicates', 'DiffMat.DR_antisym', 'DiffMat.DR_circulant', 'DiffMat.DR_rowsum', 'DiffMat.DR_shift', 'DiffMat.DR_rev',
                                'Newton.never_worse_than_initial', 'Newton.accepted_chain_decreasing', 'Newton.no_warning_means_best_small'])


def check_C11(tier, seed):
    return reflective('C11', tier, seed, 'oracle_C11',
                      'Proved on the program regenerated from mercier(), for every index type / operator structure / environment: '
                      'DMerc = DWell + DGeod; DWell and d2_volume_d_psi2 equal their closed forms; all three vanish when p2 = 0; and on the '
                      'discrete grid (every n) DGeod <= 0 under positivity of d_l_d_phi, d_phi, nfp, axis_length and non-vanishing etabar, B0, iotaN. '
                      'Geometric clause (props/C11_volume.v, order r3): with sqrt g the Jacobian series of the returned position vector (props/C01_spec.v, attribute values only), the poloidal averages of its r and r^3 '
                      'coefficients are spsi G0/B0 and spsi G0/(2 B0) (3 etabar^2 - 4 B20/B0 + 2 (G2 + iota I2)/G0) at every grid point (from the Jacobian identities proved in C01), and their grid quadrature over varphi gives '
                      'V\' = 4 pi^2 |G0|/B0^2 and V\'\' = the reported d2_volume_d_psi2, for every grid size. Left as definitions: V(r) is the triple integral of |sqrt g|; the grid quadrature stands for the varphi integral.',
                      gprops=False, seq_obligations=['props/C11_spec.v', 'props/C11.v'] + C01_SEQ + ['props/C11_volume.v'], theory_obligations=['Series'],
                      theorems=['C11_merc_sum', 'C11_well_closed', 'C11_V2_closed', 'C11_vanish_without_pressure', 'C11_geod_nonpositive',
                                'C11_volume.avg_sqrtg1', 'C11_volume.avg_sqrtg3', 'C11_volume.C11_volume_h0', 'C11_volume.C11_volume_hN'])


def check_C13(tier, seed):
    return reflective('C13', tier, seed, 'oracle_C13',
                      'Proved on the regenerated programs, for every index type / environment: the untwisted coefficients of harmonics m = 1, 2, 3 describe the same '
                      'function of the poloidal angle under theta = vartheta - helicity*nfp*varphi (all of r1, r2, r3; identity when helicity = 0); '
                      'iotaN = iota + helicity*nfp; B_mag returns the prescribed quasisymmetric |B| in the helical angle in both toroidal-angle conventions '
                      'and the two conventions agree when varphi = phi + nu(phi) and the B20 interpolants agree. Helicity: on the hand-written quadrant model '
                      '(evaluated inside Coq on the sign pattern of real objects and compared with the code every run) the counter is a multiple of 4 '
                      '(helicity is an integer), is negated by mirror and by reversal, is rotation invariant and equals 4*(signed 4->1 crossings). '
                      'theories/Winding.v (axiom-free): on a RESOLVED grid -- lifted quadrant indices exist whose consecutive values differ by at most one and which close after w turns -- the counter equals 4 w exactly, '
                      'so helicity = sG spsi w is the winding number; steps of a continuous angle smaller than a quarter turn give such a lift (floor_step). '
                      'NOT proved: that a given grid is resolved (checked numerically against an unwrapped-angle winding number); spline interpolation error off the nodes.',
                      gprops=False, seq_obligations=['props/C13_spec.v', 'props/C13.v'], theory_obligations=['Quadrant', 'Winding'], ncorr=(8 if tier == 'quick' else 48),
                      theorems=['C13_untwist_r1', 'C13_untwist_r2', 'C13_untwist_r3', 'C13_untwist_id_r1', 'C13_untwist_id_r2', 'C13_untwist_id_r3',
                                'C13_bmag_r1_cyl', 'C13_bmag_r1_boozer', 'C13_bmag_r2_cyl', 'C13_bmag_r2_boozer', 'C13_cyl_boozer_r2', 'C13_iotaN',
                                'Quadrant.counter_mod4', 'Quadrant.counter_mirror', 'Quadrant.counter_reverse', 'Quadrant.counter_winding', 'Quadrant.counter_rotate', 'Winding.counter_is_winding', 'Winding.helicity_is_winding', 'Winding.floor_step'])


def check_C09(tier, seed):
    return reflective('C09', tier, seed, 'oracle_C09',
                      'Proved on the regenerated programs (init_axis, r1_diagnostics, calculate_grad_B_tensor, Bfield_cylindrical, grad_B_tensor_cartesian, _residual) '
                      'sharing one object state, for every index type: in the CONTINUUM model (d/dphi a derivation) the tensor is trace-free and its antisymmetric part is '
                      '2*sG*spsi*I2 (the latter from the sigma equation); algebraically (every linear operator) its contraction with X1 n + Y1 b is the first-order field '
                      'vector of Bfield_cylindrical in Frenet components, sG*B0*B1_t = B0^2*etabar*cos(theta) (|B| to first order), the Cartesian tensor is Q T Q^T with '
                      'equal Frobenius norm, the cylindrical Frobenius norm equals grad_B_colon_grad_B for an orthonormal frame, L_grad_B = B0*sqrt(2/||grad B||^2). '
                      'Hypotheses: admissibility (sG^2 = spsi^2 = 1, non-vanishing curvature/etabar/B0/...), the sigma equation holds at the returned solution, orthonormal frame (C03). '
                      'NOT proved: size of the discrete trace / curl defect (discretisation), min_L_grad_B (spectral-minimum oracle).',
                      gprops=False, seq_obligations=[['props/C09_spec.v', 'props/C13_spec.v'], ['props/C09.v', 'props/C13.v'], 'props/Pipeline_qsc.v'], ncorr=(8 if tier == 'quick' else 48),
                      theorems=['C13.C13_run_bmag_r1_cyl', 'C13.C13_run_bmag_r1_boozer', 'C13.C13_run_bmag_r2_cyl', 'C13.C13_run_bmag_r2_boozer', 'C09_trace_free_h0', 'C09_trace_free_hN', 'C09_curl_h0', 'C09_curl_hN', 'C09_contraction_h0', 'C09_contraction_hN', 'C09_magnitude',
                                'C09_cartesian_rotated', 'C09_frobenius_cartesian', 'C09_frobenius_frenet', 'C09_scale_length'])


def check_C19(tier, seed):
    sh = ['calculate_shear_sym', 'calculate_shear_nonsym']
    return reflective('C19', tier, seed, 'oracle_C19',
                      'Proved by the reflective checkers on both branches of the regenerated calculate_shear: iota2 has dimension length^-2 field^0 '
                      '(every grid size and input, incl. B0**0.25 and the reduced solve / trapezoid oracles through their defining equations); iota2 changes sign under mirror '
                      '(both branches) and under toroidal reversal (symmetric branch; the non-symmetric branch uses varphi, which has no pointwise reversal law). '
                      'REFUTED on the real code and recorded as known findings: invariance under field reversal, independence of the toroidal origin for '
                      'non-symmetric input. Harness only: field-period representation, continuity under infinitesimal symmetry breaking (jump <= 50/nphi^2), convergence in nphi.',
                      gprops=False, gprops_from=[('C08', sh), ('C07', sh)], ncorr=(8 if tier == 'quick' else 40),
                      theorems=['C08_calculate_shear_sym', 'C08_calculate_shear_nonsym', 'C07_M_calculate_shear_sym', 'C07_T_calculate_shear_sym', 'C07_M_calculate_shear_nonsym'])


def check_C03(tier, seed):
    return reflective('C03', tier, seed, 'oracle_C03',
                      'Proved on the program regenerated from init_axis (axis jets = its inputs), for every index type: right-handed orthonormal frame, tangent = (dr/dphi)/(dl/dphi) '
                      'with positive phi-component, curvature >= 0, X1c = etabar/curvature, G0 = sG*B0*L/(2 pi), d_varphi_d_phi proportional to d_l_d_phi; in the CONTINUUM model '
                      '(d/dphi a derivation, jets consistent, rotating cylindrical basis) all three Frenet-Serret equations with the code\'s curvature and torsion; on the discrete grid '
                      '(every n) varphi[0] = 0, strictly increasing, closing one field period, from the recorded trapezoid recurrence; elongation^2 = s1^2/s2^2 (singular values) and >= 1. '
                      'Hypotheses: R0 > 0, non-vanishing curvature, the harmonic sums R0.. are the derivatives of each other (jets_consistent: proved term by term and for the finite sums in props/Axis.v, axis_sums_are_derivatives). '
                      'Quadrature (theories/SecondOrder.v): the cumulative trapezoid recurrence by which varphi is built differs from the integral of the arclength element by at most (phi_j - phi_0) M h^2 / 12 at every grid point, M a bound of the second derivative of the integrand (cumulative_trapezoid_uniform; sharp) -- the property\'s "up to second-order quadrature error". '
                      'NOT proved: min_R0 / max_elongation (spectral-minimum oracle: Brent spec).',
                      gprops=False, seq_obligations=['props/C03_spec.v', 'props/C03.v', 'props/Pipeline_qsc.v', 'props/Axis.v'], theory_obligations=['SecondOrder'], ncorr=(8 if tier == 'quick' else 48),
                      theorems=['C03_T1', 'C03_frenet_serret', 'C03_T3', 'C03_varphi', 'C03_elongation_h0', 'C03_elongation_hN', 'Axis.axis_sums_are_derivatives', 'SecondOrder.trapezoid_panel', 'SecondOrder.cumulative_trapezoid_uniform'])


def check_C17(tier, seed):
    return reflective('C17', tier, seed, 'oracle_C17',
                      'A read-only effect checker is proved sound in Coq (theories/Effects.v, axiom-free: if the checker accepts a sequence of method calls then every '
                      'protected attribute still refers to the same object and that object (and anything sharing memory with it) is unmodified, for every heap and every execution). '
                      'tools/gen_eff.py abstracts the CURRENT sources of the 19 entry points and the 10 helpers they reach into the effect IR (flow-insensitive may-alias; fail-closed) '
                      'and the checker is run by vm_compute on that IR for all entry points twice in both orders, plus a closure check that the tainted set is stable under any further call. '
                      'Protected = every attribute of a constructed r3 object except the four that calculate_grad_grad_B_tensor legitimately recomputes (value identity of those is checked dynamically). '
                      'Trusted: the front-end (validated each run: observed writes and memory sharing must be within its prediction) and its purity summaries for numpy / scipy / matplotlib. '
                      'to_vmec writes default-valued keys into its mutable default dict (recorded, not protected state).',
                      gprops=False, extra_obligations=['gprops/C17_check.v'], theory_obligations=['Effects'],
                      pre_cmds=[[PY, os.path.join(HERE, 'gen_eff.py'), '--repo', REPO]], ncorr=(5 if tier == 'quick' else 12),
                      theorems=['Effects.check_method_sound', 'Effects.readonly_sequence_sound', 'Effects.accepts_sound', 'C17_accepts', 'C17_closed', 'C17_protected_unchanged'])


def check_C16(tier, seed):
    return reflective('C16', tier, seed, 'oracle_C16',
                      'Proved (theories/ObjModel.v, axiom-free, for every value type, every calculate function and EVERY finite history of set_dofs / change_nfourier / calculate / get_dofs): '
                      'names and DOFs have length 4*nfourier+7 in the advertised order with distinct names, set_dofs(get_dofs()) leaves the parameters unchanged, get_dofs after set_dofs(x) is x, '
                      'and after any history the whole state equals a fresh construction from the current parameters -- exactly when calculate is invariant under zero-padding of the '
                      'coefficient arrays (hypothesis calc_pad, shown necessary and sufficient; validated numerically on every history). tools/gen_obj.py extracts the slice layout, name order, '
                      'resize sources, recalculation condition, constructor checks and the preset table from the CURRENT sources and Coq checks by computation that they equal what the model assumes '
                      '(gprops/C16_layout.v), that no object attribute aliases a caller array after any order of mutators (verified effect checker), and the preset facts '
                      '(advertised names accepted, else raises ValueError, defaults only if missing, branches disjoint). The model is also replayed inside Coq on every generated history and '
                      'compared with the real object. Known finding: 12 accepted-but-unadvertised names.',
                      gprops=False, extra_obligations=['gprops/C16_layout.v', 'gprops/C16_presets.v'], theory_obligations=['ObjModel', 'Effects'], seq_obligations=['props/Axis.v'],
                      pre_cmds=[[PY, os.path.join(HERE, 'gen_obj.py'), '--repo', REPO]],
                      theorems=['ObjModel.wf_preserved', 'ObjModel.names_dofs_aligned', 'ObjModel.set_get_id', 'ObjModel.get_set_id', 'ObjModel.history_fresh',
                                'ObjModel.calc_pad_necessary', 'C16_layout.no_caller_alias_any_order', 'C16_presets.advertised_accepted', 'C16_presets.defaults_only_if_missing'])


def check_C12(tier, seed):
    rs = ['calculate_r_singularity']
    return reflective('C12', tier, seed, 'oracle_C12',
                      'Proved: (1) on the program regenerated from the coefficient part of calculate_r_singularity: if the truncated Jacobian g0 + r g1c cos + r^2 (g20 + g2s sin2 + g2c cos2) and its '
                      'theta-derivative vanish then sin(2 theta) is a root of the quartic whose coefficients the code hands to polyroots (explicit certificate, no side conditions), and the quartic '
                      'coefficients are homogeneous / sign-covariant (reflective checkers); (2) on the hand-written model of the per-grid-point root selection (theories/RootSelect.v; reproduces '
                      'r_singularity_vs_varphi bit for bit on every generated grid point, sentinels included): the result is the sentinel 1e100 or an accepted candidate, accepted candidates are > 0, '
                      'no accepted selected candidate lies below the result, no candidate => sentinel, the grid value is the minimum; over the reals every accepted quadratic candidate is an exact zero of the '
                      'truncated Jacobian and every accepted linear candidate an exact zero of its theta-derivative. Harness: the code\'s g coefficients equal the triple product e_r.(e_theta x e_phi) of '
                      'the position vector rebuilt from the attributes, and the reported radius equals a brute-force first-zero search. NOT proved: completeness under the float thresholds (1e-7, 1e-8, 1e-13, 1e-5): '
                      'the model shows that an accepted LINEAR candidate smaller than the accepted quadratic one of the same iteration is discarded (synthetic witness only); '
                      'Jacobian coefficients (props/C12_jacobian.v): the code\'s g0, g1c, g20, g2c, g2s ARE the coefficients of the triple product e_r.(e_theta x e_phi) of the second-order position vector '
                      '(series algebra of C01_spec; pure algebra), no other harmonic occurs through r^3 except g1s, and g1s vanishes by the O(r^2) Jacobian identity of C01. For order-r3 objects the code still uses the '
                      'second-order position vector (the r^3 average of the full Jacobian is g20 + 4 lambda g0: C12_coefficients_r3), as the property states. '
                      'Completeness of the double-root characterisation (props/C12_firstzero.v, pure real analysis with the standard library and Coquelicot; props/C12_bridge.v over the regenerated program): '
                      'for g0 <> 0, if the truncated Jacobian vanishes for some r > 0 then the set of such r has a least element rc > 0, the zero at rc is a double root in theta '
                      '("smallest positive zero radius" = "smallest positive double-root radius", both unique), hence sin(2 theta) at the first zero is a root of the quartic the program solves at that grid point; '
                      'with no positive zero there is no double root (sentinel case). The optional branch high_order=True is translated as a second variant; props/C12_highorder.v shows it binds every quantity of the default variant by the same expression (fresh names otherwise), so each of its runs is a model of the default program and all theorems above hold for it. The two analysis files additionally use Classical_Prop.classic (through continuity_ab_min and Coquelicot).',
                      gprops=False, gprops_from=[('C08', rs), ('C07', rs)], seq_obligations=[['props/C12_quartic.v', 'props/C12_firstzero.v']] + C01_SEQ_R2 + [['props/C12_jacobian.v', 'props/C12_bridge.v', 'props/C12_highorder.v']], theory_obligations=['RootSelect', 'Series', 'FloatOrder'],
                      theorems=['C12_quartic', 'C12_K_relation', 'C12_firstzero.first_zero_exists_and_is_double', 'C12_firstzero.first_zero_iff_least_double', 'C12_bridge.C12_first_zero_is_quartic_root', 'C12_highorder.ho_models_default', 'C12_highorder.C12_quartic_run_ho', 'RootSelect.rc_is_sentinel_or_candidate', 'RootSelect.rc_minimal', 'RootSelect.no_candidate_sentinel',
                                'RootSelect.rsing_min_le', 'RootSelect.quadratic_candidate_exact', 'RootSelect.linear_candidate_exact',
                                'C12_jacobian.C12_coefficients_r2', 'C12_jacobian.C12_coefficients_r3', 'C12_jacobian.C12_jacobian_h0', 'C12_jacobian.C12_jacobian_hN', 'C12_jacobian.g1s_vanishes',
                                'FloatOrder.rc_minimal_float', 'FloatOrder.rc_minimal_quadratic_float', 'FloatOrder.r_singularity_minimal_float', 'FloatOrder.rsing_min_le_float', 'FloatOrder.rc_not_nan_float',
                                'FloatOrder.float_ltb_negtrans', 'FloatOrder.float_ltb_negtrans_fails_with_nan'])


def check_C06(tier, seed):
    return reflective('C06', tier, seed, 'oracle_C06',
                      'Proved by the reflective Replicate checker (theories/Replicate.v, sound for every base grid n, every replication factor k >= 1 and every input) on every covered output '
                      '(tables/rep_cover.json) of every translated physics stage: re-declaring nfp -> nfp/k on a k times longer grid replicates every profile k times, multiplies grid sums and helicity by k '
                      'and leaves iota, iotaN = iota + helicity*nfp and all scale lengths / Mercier / tensor quantities unchanged; the residual equations of the sigma and O(r^2) solves are preserved. '
                      'The premise on the differentiation matrices (long-grid matrix applied to a replicated profile = replication of the short-grid derivative) is PROVED for the spectral matrix with exact cosecants, '
                      'odd n and odd k (theories/DiffKernel.v: Dspec_replicates, C06_checked, via the Dirichlet-kernel form of the matrix and discrete orthogonality). The interpolants searched by fourier_minimum have the same set of values and the same lower bounds (theories/InterpKernel.v: interp_replicates, interp_same_lower_bounds), so the remaining premise fmin_replicates '
                      'reduces to "minimize_scalar returns the global minimum of the interpolant". Not covered: quantities built from phi / varphi (untwisted coefficients on helical axes, '
                      'Cartesian components, B_mag at a given angle), the sigma pin, iota2; k even (grids do not coincide); Newton uniqueness.',
                      theory_obligations=['Replicate', 'DiffKernel', 'InterpKernel'], theorems=['Replicate.rep_check_sound', 'DiffKernel.Dspec_replicates', 'DiffKernel.C06_checked', 'InterpKernel.interp_replicates', 'InterpKernel.interp_same_lower_bounds'],
                      ncorr=(5 if tier == 'quick' else 20))


def check_C14(tier, seed):
    return reflective('C14', tier, seed, 'oracle_C14',
                      'Proved on the programs regenerated from Frenet_to_cylindrical.py (all order variants): the residual handed to the root finder and the final converter evaluate the SAME point r0 + X n + Y b (+ Z t) in '
                      'Cartesian components from the same spline values, the returned R is its cylindrical radius, Z its height, and the residual is atan2 of exactly that point minus the target; the series X, Y, Z assembled '
                      'at a poloidal angle by Frenet_to_cylindrical and by to_RZ are the prescribed r, r^2, r^3 harmonics of the untwisted coefficients and coincide. With the oracle premise "root_scalar returns a zero of the residual" '
                      'this is the clause "each returned (R,Z) is the position at phi0 whose own cylindrical angle is the target". Harness only: the 1e-12 / 1e-5 / nphi^-3 accuracy clauses, the to_Fourier round trip '
                      '(props/C14_fourier.v when present), agreement with the shipped Fortran files.',
                      gprops=False, seq_obligations=[['props/C14.v', 'props/C07_lasym.v'], 'props/C14_fourier.v', 'props/C14_weights.v'], theory_obligations=['TrigSum'],
                      extra_harness=[('tie_fourier', [])],
                      theorems=['C14_fourier.roundtrip_2d', 'C14_fourier.roundtrip_R_lasym', 'C14_fourier.roundtrip_Z_lasym', 'C14_fourier.roundtrip_R_sym', 'C14_fourier.roundtrip_Z_sym',
                                'C14_fourier.overresolved_mpol_fails', 'C14_weights.coefC_weight', 'C14_weights.coefS_weight', 'TrigSum.dirichlet_diff', 'C14_point_r1', 'C14_point_r2', 'C14_point_R_r1', 'C14_point_R_r2', 'C14_residual_r1', 'C14_residual_r2',
                                'C14_series_F_r1', 'C14_series_F_r2', 'C14_series_F_r3', 'C14_series_T_r1', 'C14_series_T_r2', 'C14_series_T_r3'])


def check_C15(tier, seed):
    return reflective('C15', tier, seed, 'oracle_C15',
                      'Proved on the program regenerated from the scalar part of to_vmec: PHIEDGE = pi r^2 B0 (given spsi^2 = 1, Bbar from init_axis), CURTOR = 2 pi I2 r^2/mu0, AM = [-p2 r^2, p2 r^2] i.e. p(s) = -p2 r^2 (1-s). '
                      'Boundary section (theories/VmecEmit.v, a model of the mode-line loop on an abstract scalar with a zero test, evaluated inside Coq on zero patterns and compared with the real file every run; props/C15_file.v): '
                      'a namelist reader recovers every in-range RBC/ZBS entry (zeros come back as zeros), with lasym=False no RBS/ZBC line exists, every written index lies in 0..mpol, -ntor..ntor, and with the default ranges '
                      '(mpol = ntheta/2, ntor = nphi/2, proved to be the defaults up to 201 points) the read-back coefficients summed with cos/sin(m theta - n nfp phi) reproduce the transformed surface on its grid -- '
                      'for symmetric surfaces unconditionally, for non-symmetric ones under the stated guard (a mode with RBC = ZBS = 0 but RBS or ZBC nonzero is NOT written: model witness unguarded_asym_entry_lost; not reachable from generic float data). '
                      'NTOR header = min(ntor, ntorMax) equals ntor iff ntor <= ntorMax. '
                      'Everything else is translation-validation level: the written file is parsed back with an independent namelist reader and compared with the object and the surface on every run '
                      '(NFP, LASYM, MPOL, NTOR cap, mode lines with VMEC\'s m*theta - n*nfp*phi convention, axis arrays to 8 digits, coefficient arrays left on the object, no state leaking through the mutable default argument).',
                      gprops=False, seq_obligations=[['props/C15.v', 'props/C07_lasym.v', 'props/C15_axis.v'], 'props/C14_fourier.v', 'props/C15_file.v'], theory_obligations=['VmecEmit', 'TrigSum'],
                      extra_harness=[('tie_vmec', []), ('tie_fourier', [])], nthorough=120,
                      theorems=['C15_phiedge', 'C15_curtor', 'C15_pressure', 'C15_file.C15_file_surface_sym', 'C15_file.C15_file_surface_asym', 'C15_file.C15_file_ranges',
                                'C15_file.C15_default_ranges', 'C15_file.C15_ntor_header', 'VmecEmit.read_RBC', 'VmecEmit.read_ZBS', 'VmecEmit.read_RBS', 'VmecEmit.read_ZBC',
                                'VmecEmit.read_sym_no_asym', 'VmecEmit.emit_in_range', 'VmecEmit.unguarded_asym_entry_lost'])


def check_C18(tier, seed):
    return reflective('C18', tier, seed, 'oracle_C18',
                      'Proved: requesting an even nphi builds exactly the object of nphi + 1 (the constructor rule `if np.mod(nphi, 2) == 0: nphi += 1` is extracted from the current source by gen_obj.py and pinned; '
                      'everything computed is a function of the stored parameters: ObjModel). The convergence clauses (spectral decay of solved profiles, second-order convergence of grid extrema and of the trapezoid Boozer angle) '
                      'are statements of numerical analysis about the exact solution of a nonlinear periodic ODE; they are exercised by the harness on resolution ladders gated by measured spectral tails and are NOT proved for the solved profiles. '
                      'What IS proved about "converges once the Fourier spectrum is resolved to that level" (theories/SpectralConv.v, over the exact kernels of DiffKernel / InterpKernel, any finite trigonometric sum of ANY degree K): '
                      'on an n-point grid mode k is sampled as mode fold(n,k) <= n/2 (aliasing_identity); the spectral derivative differs from the true derivative at every node by at most |s| * sum_{k > n/2} (k + n/2)(|a_k| + |b_k|) '
                      '(Dspec_aliasing_bound; sharp, attained by sin 2x on 3 points), the interpolant from the function at every real x by at most 2 * sum_{k > n/2} (|a_k| + |b_k|) (kinterp_aliasing_bound, attained), and the periodic trapezoid sum '
                      'equals L*(a_0 + a_n + a_2n + ...) -- exactly the integral (is_RInt) when K < n (trapezoid_rule, trapezoid_exact_RInt); resolved to eps at n0 implies within eps at every larger odd n (Dspec_resolved_onwards, '
                      'kinterp_resolved_onwards), and a band-limited profile gives an eventually constant sequence (band_limited_exact). Even-n variants included. The four RInt statements use Classical_Prop.classic through Coquelicot. Second order (theories/SecondOrder.v, for any twice differentiable profile with |f\'\'| <= M): the extremum over the grid points differs from the true extremum by at most M h^2 / 8 (grid_max_second_order, grid_min_second_order; sharp), and the cumulative trapezoid sum -- the recurrence by which init_axis builds the Boozer angle, pinned as source text -- differs from the integral by at most (x_j - a) M h^2 / 12 at EVERY grid point, uniform and non-uniform abscissae (cumulative_trapezoid_uniform, cumulative_trapezoid_nonuniform; single panel: trapezoid_panel, sharp).',
                      gprops=False, extra_obligations=['gprops/C16_layout.v'], seq_obligations=[['props/C18.v', 'props/C18_extrema.v']], theory_obligations=['TrigSum', 'DiffKernel', 'InterpKernel', 'SpectralConv', 'SecondOrder'],
                      pre_cmds=[[PY, os.path.join(HERE, 'gen_obj.py'), '--repo', REPO]], nthorough=60,
                      theorems=['C18_even_is_next_odd', 'C18_always_odd', 'C18_same_object', 'C18_extrema.min_R0_on_interpolant', 'C18_extrema.max_elongation_on_interpolant_h0', 'C18_extrema.min_L_grad_B_on_interpolant', 'C18_extrema.B20_variation_on_grid_h0', 'C18_extrema.inverse_scale_length_on_grid', 'SpectralConv.aliasing_identity', 'SpectralConv.Dspec_aliasing_bound', 'SpectralConv.Dspec_resolved_onwards', 'SpectralConv.kinterp_aliasing_bound', 'SpectralConv.interp_aliasing_bound', 'SpectralConv.trapezoid_rule', 'SpectralConv.trapezoid_exact_RInt', 'SpectralConv.band_limited_exact', 'SecondOrder.grid_max_second_order', 'SecondOrder.grid_min_second_order', 'SecondOrder.trapezoid_panel', 'SecondOrder.cumulative_trapezoid_uniform', 'SecondOrder.cumulative_trapezoid_nonuniform', 'DiffKernel.Dspec_exact_trigpoly', 'InterpKernel.interp_exact_trigpoly'])


def check_C01(tier, seed):
    return reflective('C01', tier, seed, 'oracle_C01',
                      'Proved (props/C01.v over theories/Series.v, a verified series algebra: trigonometric-polynomial product teval_tmul, theta-derivative teval_tdth_derive, Cauchy product seval_smul) on the programs '
                      'regenerated from init_axis, r1_diagnostics, calculate_r2, calculate_r3 (both helicity variants) and the residual equations of the Newton and linear solves, in the continuum model: '
                      'the residual series of "contravariant = covariant field" built from ATTRIBUTE VALUES ONLY (props/C01_spec.v: tangent vectors of r0 + X n + Y b + Z t with the Frenet-Serret rotation, Jacobian '
                      'e_r.(e_theta x e_phi), prescribed |B|, G0 + r^2 (G2 + (iota - iotaN) I2), I = r^2 I2, beta = r beta_1s sin) have vanishing coefficients -- order r1: pol[r^0..2], tor[r^0..1], rad[r^0], jac[r^0..1], '
                      'modB[r^0..1], crl[r^0] in every harmonic, and the poloidally averaged O(r^2) condition avg pol[r^3] = 0, crl[r^1] = 0 (= the sigma equation), for ARBITRARY values of all higher-order attributes; '
                      'order r2: pol[r^3], tor[r^2], rad[r^1], jac[r^2], modB[r^2], crl[r^2] in every harmonic (crl[r^2] = the two O(r^2) ODEs; rad includes the pressure-driven beta_1s term), arbitrary third-order attributes; '
                      'order r3: avg tor[r^3] = avg jac[r^3] = 0. Hypotheses: admissibility (sG^2 = spsi^2 = 1, constants, etabar, curvature, d_varphi_d_phi non-zero, B0 > 0, |G0|/B0 > 0), sigma equation and O(r^2) system solved '
                      '(oracle residuals, measured each run). Not claimed because they contain coefficients the code sets to zero (Z3, X3c3, ...): rad[r^2], pol[r^4], the second harmonics of tor[r^3], jac[r^3]. '
                      'The harness evaluates the same claims on live objects with an independent numpy series algebra (FFT in the angle), all orders, both signs, symmetric and non-symmetric, fresh and history-built objects.',
                      gprops=False, seq_obligations=C01_SEQ + ['props/Axis.v'], theory_obligations=['Series'], ncorr=(8 if tier == 'quick' else 60),
                      theorems=['C01_r1_h0', 'C01_r1_hN', 'C01_r2_h0', 'C01_r2_hN', 'C01_r3_h0', 'C01_r3_hN', 'pol3_avg_identity', 'crl1_identity', 'Series.teval_tmul', 'Series.teval_tdth_derive', 'Series.seval_smul'])


def check_C10(tier, seed):
    return reflective('C10', tier, seed, 'oracle_C10',
                      'Proved on the regenerated programs (init_axis, r1_diagnostics, calculate_r2, calculate_grad_B_tensor, calculate_grad_grad_B_tensor, the two API variants, _residual) sharing one object state, '
                      'in the CONTINUUM model (d/dphi a derivation), for every index type: the tensor is symmetric in its two derivative indices (9 identities), the contraction of the component index with a derivative index '
                      'vanishes (3), the two derivations of the code agree in all 27 components, the contraction with the tangent equals d/dl of the grad B tensor including the Frenet-Serret rotation of the frame (9), '
                      'the a = t slice is symmetric up to the explicit current term 2 sG spsi I2 kappa (from the sigma equation), L_grad_grad_B * inverse = 1, inverse^2 * 4 B0 = Frobenius norm, the scalar is the maximum of the profile; '
                      'grad_grad_B_tensor_cartesian is the rotation about Z of what grad_grad_B_tensor_cylindrical returns. '
                      'REFUTED as stated and recorded as known findings: grad_grad_B_tensor_cylindrical() returns the Frenet-frame array (theorem C10_cylindrical_is_frenet; the only test of it pins exactly that), so the Cartesian variant '
                      'is the rotation of Frenet components. In vacuum (I2 = p2 = 0) the tensor is fully symmetric and harmonic (props/C10_vacuum*.v: from the sigma equation, its derivative, and the two O(r^2) ODEs entering as explicit certificates a*E1 + b*E2). '
                      'Hypotheses: admissibility (sG^2 = spsi^2 = 1, etabar, curvature, d_varphi_d_phi non-zero, B0 > 0, |G0|/B0 > 0), constant scalar inputs, sigma equation solved.',
                      gprops=False, seq_obligations=['props/C10_spec.v', 'props/C10_common.v', ['props/C10_two_a.v', 'props/C10_two_b.v', 'props/C10_sym_div.v', 'props/C10_tangent.v', 'props/C10_scale_api.v', 'props/C10_vacuum_common.v'],
                                                     ['props/C10.v', 'props/C10_vacuum_Bt_a.v', 'props/C10_vacuum_Bt_b.v', 'props/C10_vacuum_Bt_c.v', 'props/C10_vacuum_ode_a.v', 'props/C10_vacuum_ode_b.v'], 'props/C10_vacuum.v'],
                      ncorr=(6 if tier == 'quick' else 40),
                      theorems=['C10_two_ways', 'C10_sym12', 'C10_divfree', 'C10_tangent_contraction', 'C10_scale_length', 'C10_cylindrical_is_frenet', 'C10_cartesian_is_rotation_of_that',
                                'C10_cartesian_rotates_frenet', 'C10_tangent_slice_curl', 'C10_vacuum_tangent_slice_symmetric', 'C10_vacuum.C10_vacuum', 'C10_vacuum.C10_sym23', 'C10_vacuum.C10_harmonic'])


C01_SEQ_R2 = ['props/C04_spec.v', 'props/C01_spec.v', 'props/C01_common.v', ['props/C01_facts2.v', 'props/C01_r1.v'], 'props/C01_r2base.v', ['props/C01_r2a.v', 'props/C01_r2b.v', 'props/C01_r2c.v'], 'props/C01_r2.v']      # the part of C01 that C12 needs (no O(r^3) files)
C01_SEQ = ['props/C04_spec.v', 'props/C01_spec.v', 'props/C01_common.v', ['props/C01_facts2.v', 'props/C01_facts3.v', 'props/C01_r1.v'], 'props/C01_r2base.v', ['props/C01_r2a.v', 'props/C01_r2b.v', 'props/C01_r2c.v', 'props/C01_r3a.v', 'props/C01_r3b.v'], 'props/C01_r2.v', 'props/C01_r3.v', 'props/C01.v']


# constructor and mutators of the object: every property quantifies over objects built (and, through the history-built inputs of the oracles, changed) through them
OBJECT_PINS = ['qsc_init', 'qsc_calculate', 'qsc_set_dofs', 'qsc_change_nfourier', 'qsc_get_dofs']
CLASSIC_USERS = {'theories/SpectralConv.v', 'theories/NewtonConv.v', 'theories/SecondOrder.v', 'props/C12_firstzero.v', 'props/C12_bridge.v'}
# hand-modelled functions (tools/gen_pins.py) whose models carry theorems or oracle assumptions of each property
PINS_FOR = {
    'C02': ['newton', 'determine_helicity'], 'C20': ['newton', 'spectral_diff_matrix', 'fourier_interpolation', 'fourier_minimum'],
    'C13': ['determine_helicity', 'convert_to_spline'], 'C12': ['r_singularity_selection'], 'C14': ['to_Fourier', 'get_boundary', 'convert_to_spline'],
    'C15': ['to_vmec', 'to_Fourier'], 'C05': ['spectral_diff_matrix', 'determine_helicity', 'fourier_minimum'],
    'C06': ['spectral_diff_matrix', 'determine_helicity', 'fourier_minimum', 'fourier_interpolation'], 'C07': ['spectral_diff_matrix', 'determine_helicity', 'fourier_minimum'],
    'C03': ['spectral_diff_matrix', 'fourier_minimum'], 'C08': ['fourier_minimum'], 'C09': ['fourier_minimum'], 'C18': ['spectral_diff_matrix', 'fourier_interpolation', 'fourier_minimum', 'determine_helicity'],
}
# checks whose obligations do not read the translated formula programs (object / effect / kernel models): the in-Coq float evaluation of the programs is not part of them
NO_FLOAT_TIE = {'C16', 'C17', 'C20'}
# hand-written theories each check depends on (others are not built, so work in progress elsewhere cannot disturb it)
NEEDS = {
    'C08': ['Expr', 'Equiv', 'Dim'], 'C07': ['Expr', 'Equiv', 'Sign', 'Shift', 'Shallow', 'DiffMat'], 'C05': ['Expr', 'Equiv', 'Sign', 'Shift', 'Shallow', 'DiffMat'],
    'C04': ['Expr', 'Shallow', 'Series'], 'C11': ['Expr', 'Shallow', 'Series'], 'C13': ['Expr', 'Shallow', 'Quadrant', 'Winding'], 'C19': ['Expr', 'Equiv', 'Dim', 'Sign'], 'C17': ['Expr', 'Effects'], 'C12': ['Expr', 'Equiv', 'Dim', 'Sign', 'Shallow', 'RootSelect', 'Series', 'Newton', 'Bracket', 'FloatOrder'], 'C16': ['Expr', 'Effects', 'ObjModel'], 'C09': ['Expr', 'Shallow', 'Pipeline'], 'C03': ['Expr', 'Shallow', 'Pipeline', 'SecondOrder'], 'C06': ['Expr', 'Equiv', 'Sign', 'Shift', 'Replicate', 'DiffMat', 'TrigSum', 'DiffKernel', 'Bracket', 'InterpKernel'], 'C14': ['Expr', 'Shallow', 'TrigSum'], 'C15': ['Expr', 'Shallow', 'TrigSum', 'VmecEmit'], 'C18': ['Expr', 'Shallow', 'ObjModel', 'Equiv', 'Sign', 'Shift', 'Replicate', 'DiffMat', 'Bracket', 'TrigSum', 'DiffKernel', 'InterpKernel', 'EvenKernel', 'SpectralConv', 'SecondOrder'], 'C10': ['Expr', 'Shallow'], 'C01': ['Expr', 'Shallow', 'Series'], 'C02': ['Expr', 'Shallow', 'Series', 'Newton', 'RootSelect', 'Bracket', 'FloatOrder'],
    'C20': ['Expr', 'Equiv', 'Sign', 'Shift', 'Replicate', 'DiffMat', 'Newton', 'Bracket', 'RootSelect', 'TrigSum', 'DiffKernel', 'InterpKernel', 'EvenKernel', 'FloatOrder', 'NewtonConv'],
}
CHECKS = {'C01': check_C01, 'C10': check_C10, 'C06': check_C06, 'C14': check_C14, 'C15': check_C15, 'C18': check_C18, 'C12': check_C12, 'C16': check_C16, 'C17': check_C17, 'C03': check_C03, 'C19': check_C19, 'C09': check_C09, 'C13': check_C13, 'C11': check_C11, 'C02': check_C02, 'C20': check_C20, 'C04': check_C04, 'C08': check_C08, 'C07': check_C07, 'C05': check_C05}


def main():
    ap = argparse.ArgumentParser()
    ap.add_argument('prop')
    ap.add_argument('--tier', default=os.environ.get('VERIF_TIER', 'quick'))
    ap.add_argument('--replay')
    a = ap.parse_args()
    seed = int(os.environ.get('VERIF_SEED', '20240930'))
    if a.replay:
        rep = json.load(open(a.replay))
        mod = {'C08': 'oracle_C08', 'C07': 'oracle_sym', 'C05': 'oracle_sym', 'C04': 'oracle_C04', 'C02': 'oracle_C02', 'C20': 'kernels', 'C11': 'oracle_C11', 'C13': 'oracle_C13', 'C09': 'oracle_C09', 'C19': 'oracle_C19', 'C03': 'oracle_C03', 'C17': 'oracle_C17', 'C16': 'oracle_C16', 'C12': 'oracle_C12', 'C06': 'oracle_C06', 'C14': 'oracle_C14', 'C15': 'oracle_C15', 'C18': 'oracle_C18', 'C10': 'oracle_C10', 'C01': 'oracle_C01'}.get(a.prop)
        res = harness(mod, (['--prop', a.prop] if mod == 'oracle_sym' else []) + ['--mode', 'replay', '--file', a.replay])
        known = [k for k in load_known()['findings'] if k['property'] == a.prop]
        new_v = [v for v in res.get('violations', []) if not any(k['key'] == v.get('key') for k in known)]
        for k in {k['key']: k for k in known if any(k['key'] == v.get('key') for v in res.get('violations', []))}.values():
            print('KNOWN-FINDING: property=%s %s' % (a.prop, k['what']))
        res['violations'] = new_v
        print(json.dumps(res, indent=1))
        if new_v:
            print('VIOLATION property=%s replay=%s' % (a.prop, a.replay))
        return 1 if new_v else 0
    if a.prop not in CHECKS:
        print('no check registered for', a.prop)
        return 2
    try:
        return CHECKS[a.prop](a.tier, seed)
    except Exception:
        traceback.print_exc()
        violation(a.prop, dict(kind='checker-crash', trace=traceback.format_exc()), False)
        return 1


if __name__ == '__main__':
    sys.exit(main())
