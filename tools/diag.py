#!/usr/bin/env python3
"""diag.py <gprops file>: for a failing reflective obligation, print which outputs / equations fail
and which bindings are the first untyped ones (JSON)."""
import sys, os, re, subprocess, json, tempfile
ROOT = os.path.dirname(os.path.dirname(os.path.abspath(__file__)))
COQ = os.path.join(ROOT, 'coq')

def main():
    f = sys.argv[1]
    src = open(os.path.join(COQ, f)).read()
    out = {}
    prog = re.search(r'program (\w+) \*\)', src).group(1)
    head = src[:src.index('Definition eqs')] if 'C07' in f or 'C05' in f else src[:src.index('Lemma chk')]
    cmds = []
    if os.path.basename(f).startswith('C06'):
        body = src[:src.index('Lemma chk')]
        body += 'Eval vm_compute in rep_failures Gin P outs eqs.\n'
        body += 'Eval vm_compute in (let G := infer_prog (RepT 1) (assoc_env Gin) P in filter (fun x => match G x with None => true | _ => false end) (map fst P)).\n'
        labels = ['failing', 'untyped']
    elif os.path.basename(f).startswith('C05'):
        body = src[:src.index('Lemma chk')]
        body += 'Eval vm_compute in shift_failures Gin P outs eqs.\n'
        body += 'Eval vm_compute in (let G := infer_prog ShiftT (assoc_env Gin) P in filter (fun x => match G x with None => true | _ => false end) (map fst P)).\n'
        labels = ['failing', 'untyped']
    elif os.path.basename(f).startswith('C08'):
        body = src[:src.index('Lemma chk')]
        body += 'Eval vm_compute in dim_failures Gin %s outs eqs.\n' % prog
        body += 'Eval vm_compute in (let G := infer_prog (DimT 1 1) (assoc_env Gin) %s in filter (fun x => match G x with None => true | _ => false end) (map fst %s)).\n' % (prog, prog)
        labels = ['failing', 'untyped']
    else:
        # keep all definitions, drop lemmas/theorems
        body = re.sub(r'(?s)Lemma chk_\w+.*?Qed\.\n', '', src)
        body = re.sub(r'(?s)Theorem .*?Qed\.\n', '', body)
        body = re.sub(r'Print Assumptions.*\n', '', body)
        labels = []
        T = 'SignT' if 'C07' in f else None
        for g, flip in (('F', 'false'), ('M', 'false'), ('T', 'true')):
            if ('Gin_%s ' % g) not in body:
                continue
            body += 'Eval vm_compute in sign_failures %s Gin_%s %s outs_%s eqs_%s.\n' % (flip, g, prog, g, g)
            body += 'Eval vm_compute in (let G := infer_prog (SignT %s) (assoc_env Gin_%s) %s in filter (fun x => match G x with None => true | _ => false end) (map fst %s)).\n' % (flip, g, prog, prog)
            labels += ['failing_' + g, 'untyped_' + g]
    tmp = os.path.join(COQ, 'gprops', '_diag_%d.v' % os.getpid())
    open(tmp, 'w').write(body)
    p = subprocess.run(['coqc', '-Q', 'theories', 'QSC', '-Q', 'gen', 'QSCGen', '-Q', 'gprops', 'QSCGProps', 'gprops/' + os.path.basename(tmp)],
                       cwd=COQ, capture_output=True, text=True)
    for ext in ('.v', '.vo', '.glob', '.vok', '.vos'):
        try: os.remove(tmp[:-2] + ext)
        except FileNotFoundError: pass
    try: os.remove(os.path.join(COQ, 'gprops', '.' + os.path.basename(tmp)[:-2] + '.aux'))
    except FileNotFoundError: pass
    blocks = re.findall(r'(?s)=\s*(\[.*?\])\s*:\s*list string', p.stdout)
    for lab, b in zip(labels, blocks):
        out[lab] = re.findall(r'"([^"]*)"', b)
    if not blocks:
        out['error'] = (p.stdout + p.stderr)[-500:]
    print(json.dumps(out))

main()
