#!/venv/bin/python
"""Structural front-end for property C16 (object = fresh construction after any call history; presets).

usage: gen_obj.py [--repo /repo] [--out /verif/coq]

Parses <repo>/qsc/qsc.py and <repo>/qsc/configurations.py with `ast` (the package is never imported) and writes
    coq/gen/G_obj.v            the extracted layout / resize / constructor / preset data and the alias IR (Effects.v)
    coq/gen/obj_manifest.json  the same data as JSON (read by tools/harness/oracle_C16.py)
    coq/gprops/C16_layout.v    vm_compute proofs that the extracted data is what theories/ObjModel.v assumes,
                               and that no object attribute ends up sharing memory with a caller-owned array
    coq/gprops/C16_presets.v   vm_compute proofs about the preset table (advertised names accepted, else raises,
                               defaults only if missing, branches disjoint) and the list accepted-but-not-advertised

FAIL-CLOSED: every statement of the anchored methods must match a recognised form; anything else prints
    OBJ-ERROR <file>:<line>: <why>
and exits with status 2.  A recognised form whose CONTENT differs from what the model assumes (a slice bound, a
copy dropped, a resize source swapped, a changed recalculation condition, ...) is extracted faithfully; then the
generated C16_layout.v / C16_presets.v no longer compile.

Modelling assumptions of the alias IR (documented in the manifest under "assumptions"):
  A1 the caller-owned arrays are the constructor arguments rc, zs, rs, zc and set_dofs' x; every other argument is
     an immutable scalar / string (the front-end rejects any array-like use of such an argument: subscript, len(),
     in-place store, iteration);
  A2 x is one-dimensional, so x[<integer expression>] is a scalar (a fresh immutable value) while x[a:b] is a VIEW;
  A3 self.calculate() and self._set_names() receive no argument, hence cannot see a caller array except through an
     attribute; they are not part of the IR table (Effects.check_call rejects unknown callees), instead C16_layout.v
     proves that at every such call site no attribute is tainted (`no_taint_at_self_calls`), so whatever they bind
     cannot alias a caller array;
  A4 external functions len, np.max, np.min, np.mod, np.zeros, str.format, logger.* do not write through and do not
     retain their arguments (trusted summaries, listed in the manifest).
"""
import sys, os, ast, json, argparse, re

HERE = os.path.dirname(os.path.abspath(__file__))
ROOT = os.path.dirname(HERE)

CALLER_ARRAYS = ['rc', 'zs', 'rs', 'zc', 'x']          # A1
SELF_CALLS_OK = ['calculate', '_set_names']            # A3
FRESH_FUNCS = {'np.zeros', 'np.ones', 'np.empty', 'np.full', 'np.arange', 'np.linspace', 'np.max', 'np.min', 'np.mod',
               'np.abs', 'np.sum', 'len', 'int', 'float', 'abs', 'min', 'max', 'range', 'str', 'bool'}
COPY_FUNCS = {'np.copy'}
VIEW_FUNCS = {'np.asarray', 'np.asanyarray', 'np.ascontiguousarray', 'np.atleast_1d', 'np.reshape', 'np.ravel', 'np.transpose',
              'np.squeeze', 'np.flip', 'np.real', 'np.imag'}
VIEW_METHODS = {'reshape', 'ravel', 'view', 'transpose', 'squeeze', 'swapaxes'}
VIEW_ATTRS = {'T', 'real', 'imag', 'flat'}
SCALAR_ATTRS = {'shape', 'size', 'ndim', 'dtype'}
PURE_EXPR_CALL_PREFIX = ('logger.', 'logging.')          # A4: statement-level calls


class ObjError(Exception):
    def __init__(self, file, node, why):
        self.file, self.line, self.why = file, getattr(node, 'lineno', 0) if node is not None else 0, why
        Exception.__init__(self, '%s:%s: %s' % (file, self.line, why))


def src(n):
    return ast.unparse(n)


def is_self_attr(n):
    return isinstance(n, ast.Attribute) and isinstance(n.value, ast.Name) and n.value.id == 'self'


def const_int(n):
    if isinstance(n, ast.Constant) and isinstance(n.value, int) and not isinstance(n.value, bool):
        return n.value
    return None


def strip_doc(body):
    if body and isinstance(body[0], ast.Expr) and isinstance(body[0].value, ast.Constant) and isinstance(body[0].value.value, str):
        return body[1:]
    return body


def func_name(call):
    """dotted name of the callee of a Call, or None"""
    f = call.func
    parts = []
    while isinstance(f, ast.Attribute):
        parts.append(f.attr)
        f = f.value
    if isinstance(f, ast.Name):
        parts.append(f.id)
        return '.'.join(reversed(parts))
    return None


# ======================================================================================================
#  Effects.v IR
# ======================================================================================================
class IR:
    """Straight-line translation of one method into Effects.stmt (flow-sensitive: the verified checker does strong updates)."""

    def __init__(self, file, fn, arrays):
        self.file, self.fn = file, fn
        self.stmts = []           # list of tuples ('Bind', x, rhs) ...
        self.locals = set()
        self.self_calls = []      # (callee, index in self.stmts at the call)
        self.ntemp = 0
        self.arrays = set()
        self.scalars = set()
        a = fn.args
        if a.vararg or a.kwarg or a.posonlyargs or a.kwonlyargs:
            raise ObjError(file, fn, 'unsupported signature of %s' % fn.name)
        names = [x.arg for x in a.args]
        if not names or names[0] != 'self':
            raise ObjError(file, fn, '%s: first argument is not self' % fn.name)
        for p in names[1:]:
            self.locals.add(p)
            if p in arrays:
                self.arrays.add(p)
                self.emit('Bind', p, ('AttrOf', 'caller:' + p))
            else:
                self.scalars.add(p)
                self.emit('Bind', p, ('Fresh',))

    def emit(self, *t):
        self.stmts.append(t)

    def err(self, node, why):
        raise ObjError(self.file, node, '%s: %s' % (self.fn.name, why))

    def temp(self, rhs):
        self.ntemp += 1
        t = '%%t%d' % self.ntemp
        self.locals.add(t)
        self.emit('Bind', t, rhs)
        return t

    def scalar_guard(self, n, what):
        if isinstance(n, ast.Name) and n.id in self.scalars:
            self.err(n, 'scalar argument %s used as an array (%s); only %s are modelled as caller arrays' % (n.id, what, CALLER_ARRAYS))

    # ---- expressions -------------------------------------------------------------------------
    def view_of(self, base, node):
        """rhs for a view (slice / reshape / transpose) of the object denoted by expression base"""
        if isinstance(base, ast.Name):
            if base.id not in self.locals:
                self.err(node, 'view of unknown name %s' % base.id)
            self.scalar_guard(base, 'view')
            return ('ViewOfVar', base.id)
        if is_self_attr(base):
            return ('ViewOfAttr', base.attr)
        r = self.classify(base)
        if r == ('Fresh',):
            return ('Fresh',)
        return ('ViewOfVar', self.temp(r))

    def pure_reads(self, n):
        """n is only READ (argument of a trusted pure function, operand of arithmetic): check it contains nothing unknown"""
        if isinstance(n, (ast.List, ast.Tuple)):
            for e in n.elts:
                self.pure_reads(e)
        elif isinstance(n, ast.Name):
            if n.id not in self.locals:
                self.err(n, 'unknown name %s' % n.id)
        elif is_self_attr(n):
            pass
        else:
            self.classify(n)

    def classify(self, n):
        if isinstance(n, ast.Constant):
            return ('Fresh',)
        if isinstance(n, ast.Name):
            if n.id in self.locals:
                return ('VarOf', n.id)
            self.err(n, 'value of unknown (global?) name %s' % n.id)
        if is_self_attr(n):
            return ('AttrOf', n.attr)
        if isinstance(n, ast.Attribute):
            if n.attr in VIEW_ATTRS:
                return self.view_of(n.value, n)
            if n.attr in SCALAR_ATTRS:
                self.pure_reads(n.value)
                return ('Fresh',)
            self.err(n, 'unsupported attribute access %s' % src(n))
        if isinstance(n, ast.Subscript):
            sl = n.slice
            parts = sl.elts if isinstance(sl, ast.Tuple) else [sl]
            sliced = any(isinstance(p, ast.Slice) or (isinstance(p, ast.Constant) and p.value is Ellipsis) for p in parts)
            self.index_reads(sl)
            if sliced:
                return self.view_of(n.value, n)
            # A2: integer / mask / fancy index of a 1-D array: a fresh value
            if isinstance(n.value, ast.Name):
                self.scalar_guard(n.value, 'subscript')
            self.pure_reads(n.value)
            return ('Fresh',)
        if isinstance(n, (ast.BinOp,)):
            self.pure_reads(n.left); self.pure_reads(n.right)
            return ('Fresh',)
        if isinstance(n, ast.UnaryOp):
            self.pure_reads(n.operand)
            return ('Fresh',)
        if isinstance(n, ast.Compare):
            self.pure_reads(n.left)
            for c in n.comparators:
                self.pure_reads(c)
            return ('Fresh',)
        if isinstance(n, ast.BoolOp):
            # `a or b` RETURNS one of its operands
            rs = [self.classify(v) for v in n.values]
            if all(r == ('Fresh',) for r in rs):
                return ('Fresh',)
            self.err(n, 'boolean operator returning a possibly shared object: %s' % src(n))
        if isinstance(n, (ast.List, ast.Tuple)):
            for e in n.elts:
                if self.classify(e) != ('Fresh',):
                    self.err(n, 'container display keeping a reference to %s' % src(e))
            return ('Fresh',)
        if isinstance(n, ast.ListComp):
            if len(n.generators) != 1 or n.generators[0].ifs or not isinstance(n.generators[0].target, ast.Name):
                self.err(n, 'unsupported comprehension')
            g = n.generators[0]
            self.pure_reads(g.iter)
            if isinstance(g.iter, ast.Name):
                self.scalar_guard(g.iter, 'iteration')
                if g.iter.id in self.arrays:
                    self.err(n, 'iteration over a caller array')
            v = g.target.id
            fresh_local = v not in self.locals
            self.locals.add(v)
            r = self.classify(n.elt)
            if fresh_local:
                self.locals.discard(v)
            if r != ('Fresh',):
                self.err(n, 'comprehension element keeps a reference: %s' % src(n.elt))
            return ('Fresh',)
        if isinstance(n, ast.Call):
            name = func_name(n)
            if any(isinstance(a, ast.Starred) for a in n.args) or any(k.arg is None for k in n.keywords):
                self.err(n, 'star-arguments in call %s' % src(n))
            kw = {k.arg: k.value for k in n.keywords}
            if name in COPY_FUNCS and len(n.args) == 1 and not kw:
                self.pure_reads(n.args[0])
                return ('Fresh',)
            if name == 'np.array' and len(n.args) == 1 and set(kw) <= {'copy', 'dtype'}:
                self.pure_reads(n.args[0])
                if 'copy' in kw and not (isinstance(kw['copy'], ast.Constant) and kw['copy'].value is True):
                    return self.view_of(n.args[0], n)
                return ('Fresh',)
            if name in FRESH_FUNCS and 'out' not in kw:
                for a in n.args:
                    if isinstance(a, ast.Name):
                        if a.id not in self.locals:
                            self.err(a, 'unknown name %s' % a.id)
                        if name == 'len':
                            self.scalar_guard(a, 'len()')
                        self.emit('PassVar', a.id, True)
                    else:
                        self.pure_reads(a)
                for v in kw.values():
                    self.pure_reads(v)
                return ('Fresh',)
            if name in VIEW_FUNCS and n.args and 'out' not in kw:
                for a in n.args[1:]:
                    self.pure_reads(a)
                return self.view_of(n.args[0], n)
            if isinstance(n.func, ast.Attribute):
                recv, m = n.func.value, n.func.attr
                if m == 'copy' and not n.args and not kw:
                    self.pure_reads(recv)
                    return ('Fresh',)
                if m in VIEW_METHODS and name is not None and not name.startswith('np.'):
                    for a in n.args:
                        self.pure_reads(a)
                    return self.view_of(recv, n)
                if m == 'format' and isinstance(recv, ast.Constant) and isinstance(recv.value, str):
                    for a in list(n.args) + list(kw.values()):
                        self.pure_reads(a)
                        if isinstance(a, ast.Name) and a.id in self.locals:
                            self.emit('PassVar', a.id, True)
                    return ('Fresh',)
            self.err(n, 'no summary for call %s' % src(n))
        self.err(n, 'unsupported expression %s (%s)' % (src(n), type(n).__name__))

    # ---- statements --------------------------------------------------------------------------
    def store_target(self, t, node, subscripted=False):
        """in-place write through the object denoted by t"""
        if isinstance(t, ast.Name):
            if t.id not in self.locals:
                self.err(node, 'store through unknown name %s' % t.id)
            if subscripted:
                self.scalar_guard(t, 'element store')
            self.emit('StoreVar', t.id)
        elif is_self_attr(t):
            self.emit('StoreAttr', t.attr)
        elif isinstance(t, ast.Subscript):
            self.index_reads(t.slice)
            self.store_target(t.value, node, True)
        else:
            self.err(node, 'unsupported store target %s' % src(t))

    def index_reads(self, sl):
        for p in (sl.elts if isinstance(sl, ast.Tuple) else [sl]):
            for q in ([p.lower, p.upper, p.step] if isinstance(p, ast.Slice) else [p]):
                if q is not None:
                    self.pure_reads(q)

    def stmt(self, s, conditional):
        if isinstance(s, ast.Expr):
            v = s.value
            if isinstance(v, ast.Constant):
                return True
            if isinstance(v, ast.Call):
                name = func_name(v)
                if isinstance(v.func, ast.Attribute) and isinstance(v.func.value, ast.Name) and v.func.value.id == 'self':
                    if v.func.attr not in SELF_CALLS_OK:
                        self.err(s, 'call of self.%s: not in the modelled set %s' % (v.func.attr, SELF_CALLS_OK))
                    if v.args or v.keywords:
                        self.err(s, 'self.%s called with arguments (A3 needs argument-free calls)' % v.func.attr)
                    self.self_calls.append((v.func.attr, len(self.stmts)))
                    return True
                if name and name.startswith(PURE_EXPR_CALL_PREFIX):
                    for a in list(v.args) + [k.value for k in v.keywords]:
                        self.pure_reads(a)
                        if isinstance(a, ast.Name) and a.id in self.locals:
                            self.emit('PassVar', a.id, True)
                    return True
                self.err(s, 'no summary for statement-level call %s' % src(v))
            self.err(s, 'unsupported expression statement')
        if isinstance(s, ast.Assert):
            self.pure_reads(s.test)
            return True
        if isinstance(s, ast.Assign):
            if len(s.targets) != 1:
                self.err(s, 'chained assignment')
            t = s.targets[0]
            if isinstance(t, ast.Name):
                if conditional:
                    self.err(s, 'conditional re-binding of local %s (Effects.v M4c)' % t.id)
                r = self.classify(s.value)
                self.locals.add(t.id)
                self.scalars.discard(t.id)
                self.emit('Bind', t.id, r)
                return True
            if is_self_attr(t):
                if conditional:
                    self.err(s, 'conditional re-binding of attribute %s (Effects.v M4c)' % t.attr)
                r = self.classify(s.value)
                self.emit('SetAttr', t.attr, r)
                return True
            if isinstance(t, ast.Subscript):
                self.pure_reads(s.value)
                self.store_target(t, s)
                return True
            self.err(s, 'unsupported assignment target %s' % src(t))
        if isinstance(s, ast.AugAssign):
            self.pure_reads(s.value)
            self.store_target(s.target, s)      # ndarray / list augmented assignment is in place
            return True
        if isinstance(s, ast.If):
            self.pure_reads(s.test)
            for b in s.body:
                if not self.stmt(b, True):
                    break
            for b in s.orelse:
                if not self.stmt(b, True):
                    break
            return True
        if isinstance(s, ast.Raise):
            if s.exc is not None:
                self.pure_reads_call(s.exc)
            return False      # Effects.v M9: every prefix of an accepted body is accepted
        if isinstance(s, ast.Pass):
            return True
        self.err(s, 'unsupported statement %s' % type(s).__name__)

    def pure_reads_call(self, e):
        if isinstance(e, ast.Call) and isinstance(e.func, ast.Name) and e.func.id.endswith(('Error', 'Exception')):
            for a in e.args:
                self.pure_reads(a)
            return
        if isinstance(e, ast.Name):
            return
        self.err(e, 'unsupported raise operand %s' % src(e))

    def run(self):
        for s in strip_doc(self.fn.body):
            if not self.stmt(s, False):
                break
        return self


def coq_str(s):
    return '"' + s.replace('"', '""') + '"'


def coq_rhs(r):
    return 'Fresh' if r[0] == 'Fresh' else '(%s %s)' % (r[0], coq_str(r[1]))


def coq_stmt(t):
    k = t[0]
    if k in ('Bind', 'SetAttr'):
        return '%s %s %s' % (k, coq_str(t[1]), coq_rhs(t[2]))
    if k in ('StoreVar', 'StoreAttr'):
        return '%s %s' % (k, coq_str(t[1]))
    if k == 'PassVar':
        return 'PassVar %s %s' % (coq_str(t[1]), 'true' if t[2] else 'false')
    raise ValueError(k)


def json_stmt(t):
    return [t[0]] + [list(x) if isinstance(x, tuple) else x for x in t[1:]]


# ======================================================================================================
#  qsc.py : layout, resize, constructor
# ======================================================================================================
class QscFile:
    def __init__(self, path, rel):
        self.path, self.file = path, rel
        self.text = open(path).read()
        try:
            self.tree = ast.parse(self.text, filename=path)
        except SyntaxError as e:
            raise ObjError(rel, None, 'syntax error: %s' % e)
        cls = [n for n in self.tree.body if isinstance(n, ast.ClassDef) and n.name == 'Qsc']
        if len(cls) != 1:
            raise ObjError(rel, self.tree, 'expected exactly one class Qsc')
        self.cls = cls[0]
        self.methods = {}
        for n in self.cls.body:
            if isinstance(n, ast.FunctionDef):
                if n.name in self.methods:
                    raise ObjError(rel, n, 'method %s defined twice' % n.name)
                self.methods[n.name] = n
        for m in ('__init__', 'change_nfourier', 'calculate', 'get_dofs', 'set_dofs', '_set_names'):
            if m not in self.methods:
                raise ObjError(rel, self.cls, 'method %s not found' % m)
            if self.methods[m].decorator_list:
                raise ObjError(rel, self.methods[m], 'method %s is decorated' % m)
        # a module-level or class-level re-binding of one of the anchored names after the class would invalidate everything
        for n in ast.walk(self.tree):
            if isinstance(n, ast.Assign):
                for t in n.targets:
                    if isinstance(t, ast.Attribute) and isinstance(t.value, ast.Name) and t.value.id == 'Qsc':
                        raise ObjError(rel, n, 'monkey-patching of Qsc.%s' % t.attr)
            if isinstance(n, ast.Call) and func_name(n) == 'setattr':
                a0 = n.args[0] if n.args else None
                if isinstance(a0, ast.Name) and a0.id in ('Qsc', 'self', 'cls'):
                    raise ObjError(rel, n, 'setattr on %s' % a0.id)

    def err(self, node, why):
        raise ObjError(self.file, node, why)

    # ---- helpers ---------------------------------------------------------------------------------
    def nf_times(self, n):
        """self.nfourier * k  or  k * self.nfourier  ->  k"""
        if isinstance(n, ast.BinOp) and isinstance(n.op, ast.Mult):
            for a, b in ((n.left, n.right), (n.right, n.left)):
                if is_self_attr(a) and a.attr == 'nfourier' and const_int(b) is not None and const_int(b) >= 0:
                    return const_int(b)
        if is_self_attr(n) and n.attr == 'nfourier':
            return 1
        return None

    def nf_affine(self, n):
        """self.nfourier * a + b -> (a, b)"""
        if isinstance(n, ast.BinOp) and isinstance(n.op, ast.Add):
            a, b = self.nf_times(n.left), const_int(n.right)
            if a is not None and b is not None and b >= 0:
                return a, b
        a = self.nf_times(n)
        if a is not None:
            return a, 0
        return None

    def is_self_call(self, s, name):
        return (isinstance(s, ast.Expr) and isinstance(s.value, ast.Call) and is_self_attr(s.value.func)
                and s.value.func.attr == name and not s.value.args and not s.value.keywords)

    # ---- get_dofs -------------------------------------------------------------------------------
    def get_dofs(self):
        fn = self.methods['get_dofs']
        if [a.arg for a in fn.args.args] != ['self'] or fn.args.vararg or fn.args.kwarg:
            self.err(fn, 'get_dofs: unexpected signature')
        body = strip_doc(fn.body)
        if len(body) != 1 or not isinstance(body[0], ast.Return) or not isinstance(body[0].value, ast.Call):
            self.err(fn, 'get_dofs: body is not a single return of a call')
        c = body[0].value
        if func_name(c) != 'np.concatenate' or len(c.args) != 1 or c.keywords or not isinstance(c.args[0], (ast.Tuple, ast.List)):
            self.err(c, 'get_dofs: expected np.concatenate((...))')
        arrays, scalars = [], None
        for e in c.args[0].elts:
            if scalars is not None:
                self.err(e, 'get_dofs: entries after the scalar block')
            if is_self_attr(e):
                arrays.append(e.attr)
            elif isinstance(e, ast.Call) and func_name(e) == 'np.array' and len(e.args) == 1 and not e.keywords \
                    and isinstance(e.args[0], (ast.List, ast.Tuple)) and all(is_self_attr(x) for x in e.args[0].elts):
                scalars = [x.attr for x in e.args[0].elts]
            else:
                self.err(e, 'get_dofs: unrecognised block %s' % src(e))
        if scalars is None:
            self.err(c, 'get_dofs: no scalar block np.array([self.a, ...])')
        return arrays, scalars

    # ---- set_dofs -------------------------------------------------------------------------------
    def set_dofs(self):
        fn = self.methods['set_dofs']
        if [a.arg for a in fn.args.args] != ['self', 'x'] or fn.args.vararg or fn.args.kwarg or fn.args.defaults:
            self.err(fn, 'set_dofs: unexpected signature')
        out = dict(slices=[], scalars=[], asserts=[], recalculates=False)
        last_assign, calc_pos = -1, []
        for i, s in enumerate(strip_doc(fn.body)):
            if isinstance(s, ast.Assert):
                t = s.test
                ok = (isinstance(t, ast.Compare) and len(t.ops) == 1 and isinstance(t.ops[0], ast.Eq)
                      and isinstance(t.left, ast.Call) and func_name(t.left) == 'len' and len(t.left.args) == 1
                      and isinstance(t.left.args[0], ast.Name) and t.left.args[0].id == 'x')
                ab = self.nf_affine(t.comparators[0]) if ok else None
                if ab is None:
                    self.err(s, 'set_dofs: unrecognised assertion %s' % src(t))
                if last_assign >= 0:
                    self.err(s, 'set_dofs: length assertion after an assignment')
                out['asserts'].append(list(ab))
            elif isinstance(s, ast.Assign) and len(s.targets) == 1 and is_self_attr(s.targets[0]):
                attr, v = s.targets[0].attr, s.value
                copied = False
                if isinstance(v, ast.Call):
                    name = func_name(v)
                    kw = {k.arg: k.value for k in v.keywords}
                    if name == 'np.copy' and len(v.args) == 1 and not kw:
                        copied, v = True, v.args[0]
                    elif name == 'np.array' and len(v.args) == 1 and set(kw) <= {'copy'}:
                        copied = ('copy' not in kw) or (isinstance(kw['copy'], ast.Constant) and kw['copy'].value is True)
                        v = v.args[0]
                    elif isinstance(v.func, ast.Attribute) and v.func.attr == 'copy' and not v.args and not kw:
                        copied, v = True, v.func.value
                    else:
                        self.err(s, 'set_dofs: unrecognised right-hand side %s' % src(s.value))
                if not (isinstance(v, ast.Subscript) and isinstance(v.value, ast.Name) and v.value.id == 'x'):
                    self.err(s, 'set_dofs: right-hand side is not taken from x: %s' % src(s.value))
                sl = v.slice
                if isinstance(sl, ast.Slice):
                    if sl.step is not None or sl.lower is None or sl.upper is None:
                        self.err(s, 'set_dofs: slice with step / open bound: %s' % src(v))
                    lo, hi = self.nf_times(sl.lower), self.nf_times(sl.upper)
                    if lo is None or hi is None:
                        self.err(s, 'set_dofs: slice bounds are not multiples of self.nfourier: %s' % src(v))
                    out['slices'].append([attr, lo, hi, bool(copied)])
                else:
                    ab = self.nf_affine(sl)
                    if ab is None:
                        self.err(s, 'set_dofs: index is not self.nfourier*a + b: %s' % src(v))
                    out['scalars'].append([attr, ab[0], ab[1]])
                last_assign = i
            elif self.is_self_call(s, 'calculate'):
                calc_pos.append(i)
            elif isinstance(s, ast.Expr) and isinstance(s.value, ast.Call) and (func_name(s.value) or '').startswith(PURE_EXPR_CALL_PREFIX):
                pass
            else:
                self.err(s, 'set_dofs: unrecognised statement %s' % src(s).split('\n')[0])
        if len(out['asserts']) != 1:
            self.err(fn, 'set_dofs: expected exactly one length assertion, found %d' % len(out['asserts']))
        targets = [a[0] for a in out['slices']] + [a[0] for a in out['scalars']]
        if len(set(targets)) != len(targets):
            self.err(fn, 'set_dofs: an attribute is assigned twice')
        out['recalculates'] = bool(calc_pos) and calc_pos[-1] > last_assign
        return out

    # ---- _set_names -----------------------------------------------------------------------------
    def set_names(self):
        fn = self.methods['_set_names']
        if [a.arg for a in fn.args.args] != ['self']:
            self.err(fn, '_set_names: unexpected signature')
        body = strip_doc(fn.body)
        if len(body) < 2:
            self.err(fn, '_set_names: body too short')
        s0 = body[0]
        if not (isinstance(s0, ast.Assign) and len(s0.targets) == 1 and isinstance(s0.targets[0], ast.Name)
                and isinstance(s0.value, ast.List) and not s0.value.elts):
            self.err(s0, '_set_names: expected `names = []`')
        var = s0.targets[0].id
        sl = body[-1]
        if not (isinstance(sl, ast.Assign) and len(sl.targets) == 1 and is_self_attr(sl.targets[0]) and sl.targets[0].attr == 'names'
                and isinstance(sl.value, ast.Name) and sl.value.id == var):
            self.err(sl, '_set_names: expected `self.names = %s` as last statement' % var)
        prefixes, scalars = [], None
        for s in body[1:-1]:
            if not (isinstance(s, ast.AugAssign) and isinstance(s.op, ast.Add) and isinstance(s.target, ast.Name) and s.target.id == var):
                self.err(s, '_set_names: expected `%s += ...`' % var)
            if scalars is not None:
                self.err(s, '_set_names: entries after the scalar names')
            v = s.value
            if isinstance(v, ast.ListComp):
                g = v.generators
                ok = (len(g) == 1 and not g[0].ifs and isinstance(g[0].target, ast.Name) and isinstance(g[0].iter, ast.Call)
                      and func_name(g[0].iter) == 'range' and len(g[0].iter.args) == 1 and is_self_attr(g[0].iter.args[0])
                      and g[0].iter.args[0].attr == 'nfourier')
                e = v.elt
                ok = ok and (isinstance(e, ast.Call) and isinstance(e.func, ast.Attribute) and e.func.attr == 'format'
                             and isinstance(e.func.value, ast.Constant) and isinstance(e.func.value.value, str)
                             and len(e.args) == 1 and not e.keywords and isinstance(e.args[0], ast.Name) and e.args[0].id == g[0].target.id)
                m = re.fullmatch(r'([A-Za-z_][A-Za-z_0-9]*)\(\{\}\)', e.func.value.value) if ok else None
                if not m:
                    self.err(s, "_set_names: expected ['<prefix>({})'.format(j) for j in range(self.nfourier)]")
                prefixes.append(m.group(1))
            elif isinstance(v, ast.List) and v.elts and all(isinstance(x, ast.Constant) and isinstance(x.value, str) for x in v.elts):
                scalars = [x.value for x in v.elts]
            else:
                self.err(s, '_set_names: unrecognised entry %s' % src(v))
        if scalars is None:
            self.err(fn, '_set_names: no scalar names')
        return prefixes, scalars

    # ---- change_nfourier ------------------------------------------------------------------------
    def change_nfourier(self, arrays):
        fn = self.methods['change_nfourier']
        if len(fn.args.args) != 2 or fn.args.vararg or fn.args.kwarg or fn.args.defaults:
            self.err(fn, 'change_nfourier: unexpected signature')
        new = fn.args.args[1].arg
        env = {new: ('new',)}       # symbolic values of locals
        attrs = {}                   # symbolic values of re-bound attributes
        cond, names_after_nf, done_calc = 'never', False, False
        body = strip_doc(fn.body)

        def val(n):
            if isinstance(n, ast.Name) and n.id in env:
                return env[n.id]
            if is_self_attr(n):
                return attrs.get(n.attr, ('old', n.attr))
            return None

        def bound(n):
            """symbolic value of the index bound"""
            if isinstance(n, ast.Call) and func_name(n) in ('np.min', 'min', 'np.minimum'):
                a = n.args[0].elts if (len(n.args) == 1 and isinstance(n.args[0], (ast.Tuple, ast.List))) else n.args
                vs = sorted(str(val(x)) for x in a)
                if len(a) == 2 and not n.keywords and vs == sorted([str(('new',)), str(('old', 'nfourier'))]):
                    return ('bound', 'min')
            return ('bound', 'other:' + src(n))

        for i, s in enumerate(body):
            if done_calc and not isinstance(s, ast.Pass):
                # statements after the (conditional) recalculation would make the outputs stale
                if isinstance(s, ast.Assign):
                    cond = 'other:assignment after the recalculation'
            if isinstance(s, ast.Assign) and len(s.targets) == 1 and isinstance(s.targets[0], ast.Name):
                v = val(s.value)
                if v is None:
                    v = bound(s.value) if isinstance(s.value, ast.Call) else None
                if v is None:
                    self.err(s, 'change_nfourier: unrecognised right-hand side %s' % src(s.value))
                env[s.targets[0].id] = v
            elif isinstance(s, ast.Assign) and len(s.targets) == 1 and is_self_attr(s.targets[0]):
                a, v = s.targets[0].attr, s.value
                if isinstance(v, ast.Call) and func_name(v) == 'np.zeros' and len(v.args) == 1 and not v.keywords and val(v.args[0]) == ('new',):
                    attrs[a] = ('zeros', None)
                elif val(v) == ('new',) and a == 'nfourier':
                    attrs[a] = ('new',)
                else:
                    self.err(s, 'change_nfourier: unrecognised assignment %s' % src(s))
            elif isinstance(s, ast.Assign) and len(s.targets) == 1 and isinstance(s.targets[0], ast.Subscript) and is_self_attr(s.targets[0].value):
                t, v = s.targets[0], s.value
                a = t.value.attr
                if attrs.get(a) != ('zeros', None):
                    self.err(s, 'change_nfourier: store into self.%s which is not a fresh zero array without earlier stores' % a)

                def upto(sl):
                    if isinstance(sl, ast.Slice) and sl.lower is None and sl.step is None and sl.upper is not None:
                        return val(sl.upper) or ('bound', 'other:' + src(sl.upper))
                    return None
                b1 = upto(t.slice)
                if not (isinstance(v, ast.Subscript) and b1 is not None):
                    self.err(s, 'change_nfourier: expected self.%s[:k] = old[:k], got %s' % (a, src(s)))
                b2, sv = upto(v.slice), val(v.value)
                if b2 is None or sv is None or sv[0] != 'old':
                    self.err(s, 'change_nfourier: source %s is not a prefix of an array the object held on entry' % src(v))
                bd = b1[1] if (b1 == b2 and b1[0] == 'bound') else 'other:%s/%s' % (src(t.slice), src(v.slice))
                attrs[a] = ('padded', sv[1], bd)
            elif self.is_self_call(s, '_set_names'):
                names_after_nf = attrs.get('nfourier') == ('new',)
            elif self.is_self_call(s, 'calculate'):
                cond, done_calc = 'always', True
            elif isinstance(s, ast.If) and not s.orelse and len(s.body) == 1 and self.is_self_call(s.body[0], 'calculate'):
                t = s.test
                c = None
                if isinstance(t, ast.Compare) and len(t.ops) == 1:
                    l, r = val(t.left), val(t.comparators[0])
                    op = type(t.ops[0]).__name__
                    if (l, op, r) in ((('new',), 'Lt', ('old', 'nfourier')), (('old', 'nfourier'), 'Gt', ('new',))):
                        c = 'new<old'
                cond, done_calc = (c or 'other:' + src(t)), True
            else:
                self.err(s, 'change_nfourier: unrecognised statement %s' % src(s).split('\n')[0])
            if done_calc and cond in ('always', 'new<old'):
                # the recalculation must see the final arrays and nfourier
                pending = [a for a in arrays if attrs.get(a, ('old',))[0] != 'padded'] + ([] if attrs.get('nfourier') == ('new',) else ['nfourier'])
                if pending and (self.is_self_call(s, 'calculate') or isinstance(s, ast.If)):
                    cond = 'other:recalculation before %s is final' % ','.join(pending)
        sources = []
        for a in arrays:
            v = attrs.get(a)
            if v is None:
                sources.append([a, a, 'other:not resized'])
            elif v[0] == 'padded':
                sources.append([a, v[1], v[2]])
            else:
                sources.append([a, '', 'other:zeros only'])
        extra = sorted(k for k in attrs if k not in arrays and k != 'nfourier')
        if extra:
            self.err(fn, 'change_nfourier: re-binds unexpected attributes %s' % extra)
        return dict(sources=sources, cond=cond, sets_nfourier=attrs.get('nfourier') == ('new',), names_after=names_after_nf)

    # ---- __init__ -------------------------------------------------------------------------------
    def init(self, arrays):
        fn = self.methods['__init__']
        a = fn.args
        if a.vararg or a.kwarg or a.kwonlyargs or a.posonlyargs:
            self.err(fn, '__init__: unexpected signature')
        params = [x.arg for x in a.args][1:]
        defaults = [None] * (len(params) - len(a.defaults)) + [src(d) for d in a.defaults]
        out = dict(params=[[p, d if d is not None else ''] for p, d in zip(params, defaults)])
        nf_var, nf_kind = None, 'other:absent'
        zeros, pads, scal, consts = {}, [], [], []
        even, even_pos, signs = 'none', None, []
        sets_nf, names_pos, calc_pos, nphi_pos, last_assign = False, None, [], None, -1
        bound_attrs = set()
        body = strip_doc(fn.body)
        for i, s in enumerate(body):
            if isinstance(s, ast.Assign) and len(s.targets) == 1 and isinstance(s.targets[0], ast.Name):
                v = s.value
                if nf_var is None and isinstance(v, ast.Call) and func_name(v) in ('np.max', 'max') and len(v.args) == 1 and not v.keywords \
                        and isinstance(v.args[0], (ast.List, ast.Tuple)):
                    ls = []
                    for e in v.args[0].elts:
                        if isinstance(e, ast.Call) and func_name(e) == 'len' and len(e.args) == 1 and isinstance(e.args[0], ast.Name):
                            ls.append(e.args[0].id)
                        else:
                            ls = None
                            break
                    nf_var = s.targets[0].id
                    nf_kind = 'max-of-lengths' if ls is not None and sorted(ls) == sorted(arrays) else 'other:' + src(v)
                else:
                    self.err(s, '__init__: unrecognised local assignment %s' % src(s))
            elif isinstance(s, ast.Assign) and len(s.targets) == 1 and is_self_attr(s.targets[0]):
                attr, v = s.targets[0].attr, s.value
                last_assign = i
                if attr in bound_attrs:
                    self.err(s, '__init__: attribute %s is bound twice' % attr)
                bound_attrs.add(attr)
                if isinstance(v, ast.Call) and func_name(v) == 'np.zeros' and len(v.args) == 1 and not v.keywords \
                        and isinstance(v.args[0], ast.Name) and v.args[0].id == nf_var:
                    zeros[attr] = True
                elif isinstance(v, ast.Name) and v.id == nf_var and attr == 'nfourier':
                    sets_nf = True
                elif isinstance(v, ast.Name) and v.id in params:
                    scal.append([attr, v.id])
                    if v.id == 'nphi':
                        nphi_pos = i
                elif isinstance(v, ast.Constant):
                    consts.append([attr, src(v)])
                else:
                    self.err(s, '__init__: unrecognised attribute assignment %s' % src(s))
            elif isinstance(s, ast.Assign) and len(s.targets) == 1 and isinstance(s.targets[0], ast.Subscript) and is_self_attr(s.targets[0].value):
                t, v = s.targets[0], s.value
                attr = t.value.attr
                last_assign = i
                sl = t.slice
                ok = (zeros.get(attr) is True and isinstance(v, ast.Name) and v.id in params
                      and isinstance(sl, ast.Slice) and sl.lower is None and sl.step is None
                      and isinstance(sl.upper, ast.Call) and func_name(sl.upper) == 'len' and len(sl.upper.args) == 1
                      and isinstance(sl.upper.args[0], ast.Name) and sl.upper.args[0].id == v.id)
                if not ok:
                    self.err(s, '__init__: expected self.%s[:len(a)] = a on a fresh zero array, got %s' % (attr, src(s)))
                zeros[attr] = 'stored'
                pads.append([attr, v.id])
            elif isinstance(s, ast.If) and not s.orelse and len(s.body) == 1:
                t, b = s.test, s.body[0]
                if isinstance(b, ast.AugAssign):
                    # if np.mod(nphi, 2) == 0: nphi += 1
                    ok = (isinstance(b.target, ast.Name) and b.target.id == 'nphi' and isinstance(b.op, ast.Add) and const_int(b.value) == 1
                          and isinstance(t, ast.Compare) and len(t.ops) == 1 and isinstance(t.ops[0], ast.Eq) and const_int(t.comparators[0]) == 0)
                    l = t.left if ok else None
                    ok = ok and ((isinstance(l, ast.Call) and func_name(l) in ('np.mod', 'np.remainder') and len(l.args) == 2
                                  and isinstance(l.args[0], ast.Name) and l.args[0].id == 'nphi' and const_int(l.args[1]) == 2)
                                 or (isinstance(l, ast.BinOp) and isinstance(l.op, ast.Mod) and isinstance(l.left, ast.Name)
                                     and l.left.id == 'nphi' and const_int(l.right) == 2))
                    even = 'plus-one' if ok else 'other:' + src(s).replace('\n', ' ')
                    even_pos = i
                elif isinstance(b, ast.Raise):
                    # if sG != 1 and sG != -1: raise ValueError(..)
                    ok = (isinstance(t, ast.BoolOp) and isinstance(t.op, ast.And) and len(t.values) == 2
                          and isinstance(b.exc, ast.Call) and func_name(b.exc) == 'ValueError')
                    var, seen = None, []
                    if ok:
                        for c in t.values:
                            if isinstance(c, ast.Compare) and len(c.ops) == 1 and isinstance(c.ops[0], ast.NotEq) and isinstance(c.left, ast.Name):
                                k = c.comparators[0]
                                kv = const_int(k)
                                if kv is None and isinstance(k, ast.UnaryOp) and isinstance(k.op, ast.USub):
                                    kv = -const_int(k.operand) if const_int(k.operand) is not None else None
                                var = c.left.id if var in (None, c.left.id) else False
                                seen.append(kv)
                            else:
                                ok = False
                    if ok and var and sorted(seen, key=str) == sorted([1, -1], key=str):
                        signs.append(var)
                    else:
                        self.err(s, '__init__: unrecognised validation %s' % src(t))
                else:
                    self.err(s, '__init__: unrecognised conditional %s' % src(t))
            elif self.is_self_call(s, '_set_names'):
                names_pos = i
            elif self.is_self_call(s, 'calculate'):
                calc_pos.append(i)
            else:
                self.err(s, '__init__: unrecognised statement %s' % src(s).split('\n')[0])
        if even == 'plus-one' and not (nphi_pos is not None and even_pos < nphi_pos):
            even = 'other:nphi is stored before it is made odd'
        # every sign check must precede the recalculation, otherwise an object could escape half-validated
        out.update(nfourier=nf_kind, sets_nfourier=sets_nf,
                   pads=bool(pads) and sorted(pads) == sorted([a, a] for a in arrays) and all(zeros.get(a) == 'stored' for a in arrays),
                   pad_sources=pads, scalar_params=scal, constants=consts, even_nphi=even, sign_checks=signs,
                   calculates=bool(calc_pos) and calc_pos[-1] > last_assign and calc_pos[-1] == len(body) - 1,
                   sets_names=names_pos is not None and sets_nf and (not calc_pos or names_pos < calc_pos[-1]))
        return out

    # ---- calculate ------------------------------------------------------------------------------
    def calculate(self):
        fn = self.methods['calculate']
        if [a.arg for a in fn.args.args] != ['self']:
            self.err(fn, 'calculate: unexpected signature')
        out = []

        def walk(body, guard):
            for s in body:
                if isinstance(s, ast.Expr) and isinstance(s.value, ast.Call) and is_self_attr(s.value.func) \
                        and not s.value.args and not s.value.keywords:
                    out.append([s.value.func.attr, ' and '.join(guard)])
                elif isinstance(s, ast.If) and not s.orelse and all(
                        (is_self_attr(n) and n.attr == 'order') or isinstance(n, (ast.Compare, ast.Constant, ast.Eq, ast.NotEq, ast.Load))
                        or (isinstance(n, ast.Name) and n.id == 'self') for n in ast.walk(s.test)):
                    walk(s.body, guard + [src(s.test)])
                else:
                    self.err(s, 'calculate: unrecognised statement %s' % src(s).split('\n')[0])
        walk(strip_doc(fn.body), [])
        return out


# ======================================================================================================
#  configurations.py : presets
# ======================================================================================================
ADVERTISED_TEMPLATE = '''
configurations = []
docstring = from_paper.__func__.__doc__.split("\\n")
startline = 'HOLE'
for line in docstring:
    if line[:len(startline)] == startline:
        configurations.append(line[len(startline) : -1])
'''

DEFAULTS_TEMPLATE = '''
for key in NEW:
    if key not in OLD:
        OLD[key] = NEW[key]
'''


def interpreter_docstring(text):
    """the __doc__ the running interpreter would attach for this docstring literal (Python >= 3.13 strips indentation at
    compile time): compile a function whose only statement is that literal"""
    mod = ast.Module(body=[ast.FunctionDef(name='f', args=ast.arguments(posonlyargs=[], args=[], kwonlyargs=[], kw_defaults=[], defaults=[]),
                                           body=[ast.Expr(value=ast.Constant(value=text))], decorator_list=[], type_params=[])], type_ignores=[])
    ast.fix_missing_locations(mod)
    ns = {}
    exec(compile(mod, '<docstring>', 'exec'), ns)
    return ns['f'].__doc__


class ConfFile:
    def __init__(self, path, rel):
        self.path, self.file = path, rel
        self.text = open(path).read()
        try:
            self.tree = ast.parse(self.text, filename=path)
        except SyntaxError as e:
            raise ObjError(rel, None, 'syntax error: %s' % e)

    def err(self, node, why):
        raise ObjError(self.file, node, why)

    def value_text(self, v):
        seg = ast.get_source_segment(self.text, v)
        if seg is None:
            self.err(v, 'no source text for a preset value')
        if not (isinstance(v, ast.Constant) and isinstance(v.value, str)):
            seg = ' '.join(seg.split())
        try:
            ast.literal_eval(seg)
        except Exception:
            self.err(v, 'preset value is not a literal: %s' % seg[:60])
        return seg

    def run(self):
        body = list(self.tree.body)
        fns = [n for n in body if isinstance(n, ast.FunctionDef) and n.name == 'from_paper']
        if len(fns) != 1:
            self.err(self.tree, 'expected exactly one from_paper')
        fn = fns[0]
        if [src(d) for d in fn.decorator_list] != ['classmethod']:
            self.err(fn, 'from_paper: expected exactly the decorator @classmethod')
        a = fn.args
        if [x.arg for x in a.args] != ['cls', 'name'] or a.vararg or a.defaults or a.kwonlyargs or a.kwarg is None:
            self.err(fn, 'from_paper: expected signature (cls, name, **kwargs)')
        kwname = a.kwarg.arg
        doc = ast.get_docstring(fn, clean=False)
        if doc is None:
            self.err(fn, 'from_paper: no docstring')
        fb = strip_doc(fn.body)
        if len(fb) != 3 or not isinstance(fb[0], ast.FunctionDef) or not isinstance(fb[1], ast.If) or not isinstance(fb[2], ast.Return):
            self.err(fn, 'from_paper: expected <helper def>, <if/elif chain>, <return>')
        # --- helper
        h = fb[0]
        ha = h.args
        if len(ha.args) != 1 or ha.kwarg is None or ha.vararg or ha.defaults or ha.kwonlyargs or h.decorator_list:
            self.err(h, '%s: expected signature (kwargs_old, **kwargs_new)' % h.name)
        old, new = ha.args[0].arg, ha.kwarg.arg
        tmpl = ast.parse(DEFAULTS_TEMPLATE.replace('OLD', old).replace('NEW', new)).body
        hb = strip_doc(h.body)
        same = len(hb) == len(tmpl) and all(ast.dump(x) == ast.dump(y) for x, y in zip(hb, tmpl))
        semantics = 'only-if-missing' if same else 'other:' + ' ; '.join(' '.join(src(x).split()) for x in hb)
        # --- chain
        branches, else_raises = [], False
        node = fb[1]
        while True:
            names = self.accepted(node.test)
            bb = strip_doc(node.body)
            if len(bb) != 1 or not (isinstance(bb[0], ast.Expr) and isinstance(bb[0].value, ast.Call)):
                self.err(node, 'from_paper: branch body is not a single call of %s' % h.name)
            c = bb[0].value
            if not (isinstance(c.func, ast.Name) and c.func.id == h.name and len(c.args) == 1 and isinstance(c.args[0], ast.Name)
                    and c.args[0].id == kwname and all(k.arg is not None for k in c.keywords)):
                self.err(c, 'from_paper: expected %s(%s, key=value, ...)' % (h.name, kwname))
            keys = [k.arg for k in c.keywords]
            if len(set(keys)) != len(keys):
                self.err(c, 'from_paper: repeated keyword')
            branches.append([names, [[k.arg, self.value_text(k.value)] for k in c.keywords]])
            if len(node.orelse) == 1 and isinstance(node.orelse[0], ast.If):
                node = node.orelse[0]
                continue
            if node.orelse:
                eb = strip_doc(node.orelse)
                else_raises = (len(eb) == 1 and isinstance(eb[0], ast.Raise) and isinstance(eb[0].exc, ast.Call)
                               and func_name(eb[0].exc) == 'ValueError')
                if not else_raises:
                    self.err(node.orelse[0], 'from_paper: unrecognised else branch')
            break
        # --- return
        r = fb[2].value
        calls_cls = (isinstance(r, ast.Call) and isinstance(r.func, ast.Name) and r.func.id == 'cls' and not r.args
                     and len(r.keywords) == 1 and r.keywords[0].arg is None and isinstance(r.keywords[0].value, ast.Name)
                     and r.keywords[0].value.id == kwname)
        # --- the advertised list, computed as the module does
        i = body.index(fn)
        tail = [n for n in body[i + 1:]]
        start = None
        for n in tail:
            if isinstance(n, ast.Assign) and len(n.targets) == 1 and isinstance(n.targets[0], ast.Name) and n.targets[0].id == 'startline' \
                    and isinstance(n.value, ast.Constant) and isinstance(n.value.value, str):
                start = n.value.value
        if start is None:
            self.err(fn, 'module: `startline = <string>` not found after from_paper')
        tmpl = ast.parse(ADVERTISED_TEMPLATE).body
        tmpl[2].value = ast.Constant(value=start)
        if len(tail) != len(tmpl) or any(ast.dump(x) != ast.dump(y) for x, y in zip(tail, tmpl)):
            self.err(tail[0] if tail else fn, 'module: the code deriving `configurations` from the docstring is not the recognised loop')
        for n in body[:i]:
            if not isinstance(n, (ast.Import, ast.ImportFrom)) and not (isinstance(n, ast.Expr) and isinstance(n.value, ast.Constant)):
                self.err(n, 'module: unexpected statement before from_paper')
        advertised = []
        for line in interpreter_docstring(doc).split('\n'):
            if line[:len(start)] == start:
                advertised.append(line[len(start):-1])
        return dict(branches=branches, else_raises=else_raises, semantics=semantics, calls_cls=bool(calls_cls),
                    advertised=advertised, helper=h.name)

    def accepted(self, t):
        """name == lit  or  name == lit or name == lit ... -> rendered literals"""
        parts = t.values if (isinstance(t, ast.BoolOp) and isinstance(t.op, ast.Or)) else [t]
        out = []
        for p in parts:
            ok = (isinstance(p, ast.Compare) and len(p.ops) == 1 and isinstance(p.ops[0], ast.Eq) and isinstance(p.left, ast.Name)
                  and p.left.id == 'name' and isinstance(p.comparators[0], ast.Constant))
            if not ok:
                self.err(p, 'from_paper: unrecognised branch condition %s' % src(p))
            v = p.comparators[0].value
            if isinstance(v, str):
                if v.startswith('int:'):
                    self.err(p, 'from_paper: name literal clashes with the int: rendering')
                out.append(v)
            elif isinstance(v, int) and not isinstance(v, bool):
                out.append('int:%d' % v)
            else:
                self.err(p, 'from_paper: unsupported name literal %r' % (v,))
        return out


# ======================================================================================================
#  Coq output
# ======================================================================================================
def L(items):
    return '[' + '; '.join(items) + ']'


def Ls(strs):
    return L([coq_str(s) for s in strs])


def coq_bool(b):
    return 'true' if b else 'false'


def wrap_list(items, indent='    '):
    if not items:
        return '[]'
    return '[\n' + ';\n'.join(indent + i for i in items) + ' ]'


def g_obj(d, repo):
    o = []
    o.append('(* GENERATED by tools/gen_obj.py from %s/qsc/qsc.py and %s/qsc/configurations.py -- do not edit. *)' % (repo, repo))
    o.append('From Coq Require Import List String Bool Arith.')
    o.append('From QSC Require Import Effects.')
    o.append('Import ListNotations.')
    o.append('Open Scope string_scope.')
    o.append('')
    o.append('(* a) get_dofs *)')
    o.append('Definition dofs_arrays : list string := %s.' % Ls(d['dofs_arrays']))
    o.append('Definition dofs_scalars : list string := %s.' % Ls(d['dofs_scalars']))
    o.append('')
    o.append('(* b) set_dofs: (attribute, k_lo, k_hi, copied) for x[self.nfourier*k_lo : self.nfourier*k_hi] *)')
    o.append('Definition setdofs_slices : list (string * nat * nat * bool) := %s.' %
             L(['(%s, %d, %d, %s)' % (coq_str(a), lo, hi, coq_bool(c)) for a, lo, hi, c in d['setdofs_slices']]))
    o.append('(* (attribute, a, j) for x[self.nfourier*a + j] *)')
    o.append('Definition setdofs_scalars_full : list (string * nat * nat) := %s.' %
             L(['(%s, %d, %d)' % (coq_str(a), m, j) for a, m, j in d['setdofs_scalars_full']]))
    o.append('Definition setdofs_scalars : list (string * nat) := %s.' %
             L(['(%s, %d)' % (coq_str(a), j) for a, j in d['setdofs_scalars']]))
    o.append('Definition setdofs_assert : nat * nat := (%d, %d).' % tuple(d['setdofs_assert']))
    o.append('Definition setdofs_recalculates : bool := %s.' % coq_bool(d['setdofs_recalculates']))
    o.append('')
    o.append('(* c) _set_names *)')
    o.append('Definition names_prefixes : list string := %s.' % Ls(d['names_prefixes']))
    o.append('Definition names_scalars : list string := %s.' % Ls(d['names_scalars']))
    o.append('')
    o.append('(* d) change_nfourier: (attribute, old array its values come from, bound) *)')
    o.append('Definition resize_sources : list (string * string * string) := %s.' %
             L(['(%s, %s, %s)' % (coq_str(a), coq_str(s), coq_str(b)) for a, s, b in d['resize_sources']]))
    o.append('Definition resize_recalc_condition : string := %s.' % coq_str(d['resize_recalc_condition']))
    o.append('Definition resize_sets_nfourier : bool := %s.' % coq_bool(d['resize_sets_nfourier']))
    o.append('Definition resize_sets_names : bool := %s.' % coq_bool(d['resize_sets_names']))
    o.append('')
    o.append('(* e) __init__ *)')
    o.append('Definition init_params : list (string * string) := %s.' %
             L(['(%s, %s)' % (coq_str(p), coq_str(v)) for p, v in d['init_params']]))
    o.append('Definition init_nfourier : string := %s.' % coq_str(d['init_nfourier']))
    o.append('Definition init_pads : bool := %s.' % coq_bool(d['init_pads']))
    o.append('Definition init_pad_sources : list (string * string) := %s.' %
             L(['(%s, %s)' % (coq_str(a), coq_str(p)) for a, p in d['init_pad_sources']]))
    o.append('Definition init_scalar_params : list (string * string) := %s.' %
             L(['(%s, %s)' % (coq_str(a), coq_str(p)) for a, p in d['init_scalar_params']]))
    o.append('Definition init_even_nphi : string := %s.' % coq_str(d['init_even_nphi']))
    o.append('Definition init_sign_checks : list string := %s.' % Ls(d['init_sign_checks']))
    o.append('Definition init_sets_names : bool := %s.' % coq_bool(d['init_sets_names']))
    o.append('Definition init_calculates : bool := %s.' % coq_bool(d['init_calculates']))
    o.append('')
    o.append('(* f) presets: for every if/elif branch of from_paper the accepted names and the default kwargs (source text) *)')
    br = []
    for names, kws in d['preset_branches']:
        br.append('(%s,\n     %s)' % (Ls(names), L(['(%s, %s)' % (coq_str(k), coq_str(v)) for k, v in kws])))
    o.append('Definition preset_branches : list (list string * list (string * string)) := %s.' % wrap_list(br))
    o.append('Definition preset_else_raises : bool := %s.' % coq_bool(d['preset_else_raises']))
    o.append('Definition preset_advertised : list string := %s.' % wrap_list([coq_str(s) for s in d['preset_advertised']]))
    o.append('Definition preset_defaults_semantics : string := %s.' % coq_str(d['preset_defaults_semantics']))
    o.append('Definition preset_calls_cls : bool := %s.' % coq_bool(d['preset_calls_cls']))
    o.append('')
    o.append('(* g) alias IR (Effects.v); caller-owned arrays are the pseudo-attributes "caller:<arg>" *)')
    for m in ('init', 'set_dofs', 'change_nfourier'):
        o.append('Definition %s_ir : method := %s.' % (m, wrap_list([coq_stmt(t) for t in d['ir'][m]['stmts']])))
        o.append('(* the IR prefixes executed before each argument-free self-call (assumption A3) *)')
        o.append('Definition %s_self_calls : list (string * nat) := %s.' %
                 (m, L(['(%s, %d)' % (coq_str(c), k) for c, k in d['ir'][m]['self_calls']])))
    o.append('Definition caller_arrays : list string := %s.' % Ls(['caller:' + a for a in CALLER_ARRAYS]))
    o.append('Definition obj_table : table := [("init", init_ir); ("set_dofs", set_dofs_ir); ("change_nfourier", change_nfourier_ir)].')
    o.append('Definition obj_self_calls : list (string * list (string * nat)) :=')
    o.append('  [("init", init_self_calls); ("set_dofs", set_dofs_self_calls); ("change_nfourier", change_nfourier_self_calls)].')
    return '\n'.join(o) + '\n'


C16_LAYOUT = r'''(* GENERATED by tools/gen_obj.py -- do not edit.
   The data extracted from the CURRENT qsc/qsc.py (QSCGen.G_obj) is exactly what theories/ObjModel.v assumes,
   and no attribute of the object ends up sharing memory with a caller-owned array.  Every proof is a computation. *)
From Coq Require Import List String Bool Arith.
From QSC Require Import ObjModel Effects.
From QSCGen Require Import G_obj.
Import ListNotations.
Open Scope string_scope.

(* ---- small generic part ---- *)
Definition subset (a b : list string) : bool := forallb (fun x => Effects.mem x b) a.
Definition same_set (a b : list string) : bool := subset a b && subset b a.
Fixpoint lookup2 (k : string) (l : list (string * string)) : option string :=
  match l with [] => None | (a, b) :: r => if String.eqb k a then Some b else lookup2 k r end.

(* ---- a) get_dofs order : ObjModel.get_dofs is rc ++ zs ++ rs ++ zc ++ [etabar; sigma0; B2s; B2c; p2; I2; B0] ---- *)
Lemma dofs_arrays_ok : G_obj.dofs_arrays = ["rc"; "zs"; "rs"; "zc"].
Proof. vm_compute; reflexivity. Qed.
Lemma dofs_scalars_ok : G_obj.dofs_scalars = ["etabar"; "sigma0"; "B2s"; "B2c"; "p2"; "I2"; "B0"].
Proof. vm_compute; reflexivity. Qed.
Lemma dofs_scalars_are_model_names : G_obj.dofs_scalars = ObjModel.scalar_names.
Proof. vm_compute; reflexivity. Qed.

(* ---- b) set_dofs : ObjModel.set_dofs slices (n*k) (n*(k+1)), scalars at n*4+j, assertion n*4+7, value semantics ---- *)
Lemma setdofs_slices_ok :
  G_obj.setdofs_slices = [("rc", 0, 1, true); ("zs", 1, 2, true); ("rs", 2, 3, true); ("zc", 3, 4, true)].
Proof. vm_compute; reflexivity. Qed.
Lemma setdofs_slices_follow_get_dofs :
  map (fun t => fst (fst (fst t))) G_obj.setdofs_slices = G_obj.dofs_arrays.
Proof. vm_compute; reflexivity. Qed.
Lemma setdofs_scalars_ok :
  G_obj.setdofs_scalars = combine G_obj.dofs_scalars (seq 0 7).
Proof. vm_compute; reflexivity. Qed.
Lemma setdofs_scalars_base_ok :
  G_obj.setdofs_scalars_full = map (fun t => (fst t, 4, snd t)) G_obj.setdofs_scalars.
Proof. vm_compute; reflexivity. Qed.
Lemma setdofs_assert_ok : G_obj.setdofs_assert = (4, 7).
Proof. vm_compute; reflexivity. Qed.
Lemma setdofs_assert_is_layout_length :
  G_obj.setdofs_assert = (List.length G_obj.dofs_arrays, List.length G_obj.dofs_scalars).
Proof. vm_compute; reflexivity. Qed.
Lemma setdofs_recalculates_ok : G_obj.setdofs_recalculates = true.
Proof. vm_compute; reflexivity. Qed.

(* ---- c) _set_names : ObjModel.set_names ---- *)
Lemma names_prefixes_ok : G_obj.names_prefixes = ["rc"; "zs"; "rs"; "zc"].
Proof. vm_compute; reflexivity. Qed.
Lemma names_scalars_ok : G_obj.names_scalars = G_obj.dofs_scalars.
Proof. vm_compute; reflexivity. Qed.
Lemma names_follow_get_dofs : G_obj.names_prefixes = G_obj.dofs_arrays.
Proof. vm_compute; reflexivity. Qed.
(* the model's name list, rebuilt from the extracted prefixes, is ObjModel.set_names (instances) *)
Fixpoint slist_eqb (a b : list string) : bool :=
  match a, b with
  | [], [] => true
  | x :: a', y :: b' => String.eqb x y && slist_eqb a' b'
  | _, _ => false
  end.
Lemma names_model_instances :
  forallb (fun n => slist_eqb (flat_map (fun p => idx_names p n) G_obj.names_prefixes ++ G_obj.names_scalars)
                              (ObjModel.set_names n)) (seq 0 12) = true.
Proof. vm_compute; reflexivity. Qed.

(* ---- d) change_nfourier : ObjModel.resize / change_nfourier ---- *)
Lemma resize_sources_ok :
  G_obj.resize_sources = map (fun a => (a, a, "min")) G_obj.dofs_arrays.
Proof. vm_compute; reflexivity. Qed.
Lemma resize_recalc_condition_ok : G_obj.resize_recalc_condition = "new<old".
Proof. vm_compute; reflexivity. Qed.
Lemma resize_sets_nfourier_ok : G_obj.resize_sets_nfourier = true.
Proof. vm_compute; reflexivity. Qed.
Lemma resize_sets_names_ok : G_obj.resize_sets_names = true.
Proof. vm_compute; reflexivity. Qed.

(* ---- e) __init__ : ObjModel.init ---- *)
Lemma init_nfourier_ok : G_obj.init_nfourier = "max-of-lengths".
Proof. vm_compute; reflexivity. Qed.
Lemma init_pads_ok : G_obj.init_pads = true.
Proof. vm_compute; reflexivity. Qed.
Lemma init_pad_sources_ok : same_set (map fst G_obj.init_pad_sources) G_obj.dofs_arrays = true
  /\ forallb (fun t => String.eqb (fst t) (snd t)) G_obj.init_pad_sources = true.
Proof. split; vm_compute; reflexivity. Qed.
Lemma init_even_nphi_ok : G_obj.init_even_nphi = "plus-one".
Proof. vm_compute; reflexivity. Qed.
Lemma init_sign_checks_ok : same_set G_obj.init_sign_checks ["sG"; "spsi"] = true.
Proof. vm_compute; reflexivity. Qed.
(* every scalar DOF and every remaining constructor argument is stored under its own name *)
Lemma init_scalar_params_ok :
  forallb (fun s => match lookup2 s G_obj.init_scalar_params with Some p => String.eqb p s | None => false end)
          (G_obj.dofs_scalars ++ ["nfp"; "sG"; "spsi"; "nphi"; "order"]) = true.
Proof. vm_compute; reflexivity. Qed.
Lemma init_params_ok :
  same_set (map fst G_obj.init_params)
           (G_obj.dofs_arrays ++ G_obj.dofs_scalars ++ ["nfp"; "sG"; "spsi"; "nphi"; "order"]) = true.
Proof. vm_compute; reflexivity. Qed.
Lemma init_sets_names_ok : G_obj.init_sets_names = true.
Proof. vm_compute; reflexivity. Qed.
Lemma init_calculates_ok : G_obj.init_calculates = true.
Proof. vm_compute; reflexivity. Qed.

(* ---- g) aliasing : after construction, set_dofs, change_nfourier, set_dofs no attribute may share memory with a
        caller-owned array (the tainted set returned by the verified checker is exactly the protected set) ---- *)
Definition alias_result : option (list string) :=
  check_calls [("init", init_ir); ("set_dofs", set_dofs_ir); ("change_nfourier", change_nfourier_ir)]
              ["caller:rc"; "caller:zs"; "caller:rs"; "caller:zc"; "caller:x"]
              ["init"; "set_dofs"; "change_nfourier"; "set_dofs"].
Eval vm_compute in alias_result.
Lemma no_caller_alias :
  match alias_result with
  | Some ta => same_set ta ["caller:rc"; "caller:zs"; "caller:rs"; "caller:zc"; "caller:x"]
  | None => false
  end = true.
Proof. vm_compute; reflexivity. Qed.
Lemma caller_arrays_ok : G_obj.caller_arrays = ["caller:rc"; "caller:zs"; "caller:rs"; "caller:zc"; "caller:x"].
Proof. vm_compute; reflexivity. Qed.
(* the same for every call order of length <= 3 of the two mutators after construction *)
Definition mutator_orders : list (list string) :=
  let m := ["set_dofs"; "change_nfourier"] in
  [[]] ++ map (fun a => [a]) m ++ flat_map (fun a => map (fun b => [a; b]) m) m
       ++ flat_map (fun a => flat_map (fun b => map (fun c => [a; b; c]) m) m) m.
Lemma no_caller_alias_any_order :
  forallb (fun o => match check_calls G_obj.obj_table G_obj.caller_arrays ("init" :: o) with
                    | Some ta => same_set ta G_obj.caller_arrays | None => false end) mutator_orders = true.
Proof. vm_compute; reflexivity. Qed.
(* assumption A3 of the front-end: at every argument-free self.calculate() / self._set_names() call site inside the
   three methods the tainted attributes are exactly the protected ones, so the callee cannot reach a caller array *)
Definition prefixes_ok (m : string * list (string * nat)) : bool :=
  match Effects.lookup G_obj.obj_table (fst m) with
  | None => false
  | Some body =>
      forallb (fun c => match check_method G_obj.obj_table G_obj.caller_arrays 3 G_obj.caller_arrays (firstn (snd c) body) with
                        | Some ta => same_set ta G_obj.caller_arrays | None => false end) (snd m)
  end.
Lemma no_taint_at_self_calls : forallb prefixes_ok G_obj.obj_self_calls = true.
Proof. vm_compute; reflexivity. Qed.
'''

C16_PRESETS = r'''(* GENERATED by tools/gen_obj.py -- do not edit.
   Facts about the preset table of the CURRENT qsc/configurations.py (QSCGen.G_obj), by computation. *)
From Coq Require Import List String Bool Arith.
From QSC Require Import Effects.
From QSCGen Require Import G_obj.
Import ListNotations.
Open Scope string_scope.

Definition smem (x : string) (l : list string) : bool := existsb (String.eqb x) l.
Definition accepted_by (n : string) (b : list string * list (string * string)) : bool := smem n (fst b).
Definition accepted_names : list string := flat_map (fun b => fst b) preset_branches.

(* every advertised name is accepted by some branch *)
Lemma advertised_accepted :
  forallb (fun n => existsb (accepted_by n) preset_branches) preset_advertised = true.
Proof. vm_compute; reflexivity. Qed.

(* an unknown name reaches the final else, which raises ValueError *)
Lemma else_raises : preset_else_raises = true.
Proof. vm_compute; reflexivity. Qed.

(* add_default_args adds a preset value only if the caller did not give that key: caller overrides win *)
Lemma defaults_only_if_missing : preset_defaults_semantics = "only-if-missing".
Proof. vm_compute; reflexivity. Qed.

(* from_paper returns cls( **kwargs ): the named configuration IS the explicit constructor call *)
Lemma calls_cls : preset_calls_cls = true.
Proof. vm_compute; reflexivity. Qed.

(* no name is accepted by two different branches (so the first-match order of the elif chain is immaterial) *)
Fixpoint disjoint_branches (bs : list (list string * list (string * string))) : bool :=
  match bs with
  | [] => true
  | b :: r => forallb (fun n => negb (existsb (accepted_by n) r)) (fst b) && disjoint_branches r
  end.
Lemma names_disjoint : disjoint_branches preset_branches = true.
Proof. vm_compute; reflexivity. Qed.

(* the advertised names are pairwise distinct *)
Fixpoint nodupb (l : list string) : bool :=
  match l with [] => true | x :: r => negb (smem x r) && nodupb r end.
Lemma advertised_nodup : nodupb preset_advertised = true.
Proof. vm_compute; reflexivity. Qed.

(* every preset keyword is an argument of the constructor *)
Lemma preset_keys_are_ctor_args :
  forallb (fun b => forallb (fun kv => smem (fst kv) (map fst init_params)) (snd b)) preset_branches = true.
Proof. vm_compute; reflexivity. Qed.

(* the names the code accepts although they are not advertised (compared by the check driver with the committed
   known findings) *)
Definition accepted_not_advertised : list string :=
  filter (fun n => negb (smem n preset_advertised)) accepted_names.
Eval vm_compute in accepted_not_advertised.
Eval vm_compute in (List.length preset_branches, List.length preset_advertised, List.length accepted_names).
'''


def extract(repo):
    qf = QscFile(os.path.join(repo, 'qsc', 'qsc.py'), 'qsc/qsc.py')
    cf = ConfFile(os.path.join(repo, 'qsc', 'configurations.py'), 'qsc/configurations.py')
    arrays, scalars = qf.get_dofs()
    sd = qf.set_dofs()
    prefixes, nscal = qf.set_names()
    rz = qf.change_nfourier(arrays)
    ini = qf.init(arrays)
    calc = qf.calculate()
    pr = cf.run()
    ir = {}
    for key, m in (('init', '__init__'), ('set_dofs', 'set_dofs'), ('change_nfourier', 'change_nfourier')):
        t = IR(qf.file, qf.methods[m], CALLER_ARRAYS).run()
        ir[key] = dict(stmts=t.stmts, self_calls=t.self_calls, array_args=sorted(t.arrays), scalar_args=sorted(t.scalars))
    d = dict(
        dofs_arrays=arrays, dofs_scalars=scalars,
        setdofs_slices=sd['slices'], setdofs_scalars_full=sd['scalars'], setdofs_scalars=[[a, j] for a, m, j in sd['scalars']],
        setdofs_assert=sd['asserts'][0], setdofs_recalculates=sd['recalculates'],
        names_prefixes=prefixes, names_scalars=nscal,
        resize_sources=rz['sources'], resize_recalc_condition=rz['cond'], resize_sets_nfourier=rz['sets_nfourier'],
        resize_sets_names=rz['names_after'],
        init_params=ini['params'], init_nfourier=ini['nfourier'], init_pads=ini['pads'], init_pad_sources=ini['pad_sources'],
        init_scalar_params=ini['scalar_params'], init_constants=ini['constants'], init_even_nphi=ini['even_nphi'],
        init_sign_checks=ini['sign_checks'], init_sets_names=ini['sets_names'], init_calculates=ini['calculates'],
        calculate_calls=calc,
        preset_branches=pr['branches'], preset_else_raises=pr['else_raises'], preset_advertised=pr['advertised'],
        preset_defaults_semantics=pr['semantics'], preset_calls_cls=pr['calls_cls'], preset_helper=pr['helper'],
        ir=ir,
    )
    return d


def main():
    ap = argparse.ArgumentParser()
    ap.add_argument('--repo', default=os.environ.get('VERIF_REPO', '/repo'))
    ap.add_argument('--out', default=os.path.join(ROOT, 'coq'))
    a = ap.parse_args()
    try:
        d = extract(a.repo)
    except ObjError as e:
        print('OBJ-ERROR %s:%s: %s' % (e.file, e.line, e.why))
        sys.exit(2)
    except (OSError, RecursionError) as e:
        print('OBJ-ERROR %s:0: %r' % (a.repo, e))
        sys.exit(2)
    os.makedirs(os.path.join(a.out, 'gen'), exist_ok=True)
    os.makedirs(os.path.join(a.out, 'gprops'), exist_ok=True)
    man = dict(d)
    man['ir'] = {k: dict(stmts=[json_stmt(t) for t in v['stmts']], self_calls=[list(c) for c in v['self_calls']],
                         array_args=v['array_args'], scalar_args=v['scalar_args']) for k, v in d['ir'].items()}
    man['repo'] = a.repo
    man['caller_arrays'] = ['caller:' + x for x in CALLER_ARRAYS]
    man['assumptions'] = [
        'A1 caller-owned arrays are exactly the arguments %s; other arguments are immutable scalars (array-like use rejected)' % CALLER_ARRAYS,
        'A2 x is one-dimensional: x[<integer expression>] is a fresh scalar, x[a:b] is a view',
        'A3 argument-free self-calls %s are not in the IR table; C16_layout.no_taint_at_self_calls shows no attribute is tainted at any such call' % SELF_CALLS_OK,
        'A4 trusted pure summaries: %s, str.format, %s*' % (sorted(FRESH_FUNCS), list(PURE_EXPR_CALL_PREFIX)),
    ]
    files = {
        os.path.join(a.out, 'gen', 'G_obj.v'): g_obj(d, a.repo),
        os.path.join(a.out, 'gen', 'obj_manifest.json'): json.dumps(man, indent=1) + '\n',
        os.path.join(a.out, 'gprops', 'C16_layout.v'): C16_LAYOUT,
        os.path.join(a.out, 'gprops', 'C16_presets.v'): C16_PRESETS,
    }
    for p, txt in files.items():
        old = open(p).read() if os.path.exists(p) else None
        if old != txt:
            open(p, 'w').write(txt)
    print('gen_obj: %d dofs arrays, %d scalars, %d preset branches, %d advertised, IR sizes %s' % (
        len(d['dofs_arrays']), len(d['dofs_scalars']), len(d['preset_branches']), len(d['preset_advertised']),
        {k: len(v['stmts']) for k, v in d['ir'].items()}))


if __name__ == '__main__':
    main()
