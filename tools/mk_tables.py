#!/venv/bin/python
"""Development tool (NOT run by the checks): drafts tables/dims.json and tables/signs.json by
observing the unchanged implementation on one asymmetric r3 configuration.  The committed tables
were produced by this script and then reviewed by hand against the physical dimension / parity
of each quantity; the checks only READ the tables."""
import sys, os, json, logging
sys.path.insert(0, '/repo'); os.environ['MPLBACKEND'] = 'Agg'
import numpy as np
logging.disable(logging.CRITICAL)
from qsc import Qsc
base = dict(rc=[1, 0.17, 0.01], zs=[0, 0.16, 0.012], rs=[0, 0.01, 0.002], zc=[0, 0.012, -0.003], nfp=4, etabar=1.5,
            sigma0=0.1, I2=0.5, B0=1.1, B2c=-0.3, B2s=0.2, p2=-1000.0, order='r3', nphi=21, sG=-1, spsi=-1)

def build(d):
    q = Qsc(**d); q.calculate_shear(); return q

def scaled(lam, c):
    d = dict(base)
    for k in ('rc', 'zs', 'rs', 'zc'): d[k] = [x * lam for x in base[k]]
    d['etabar'] = base['etabar'] / lam; d['I2'] = base['I2'] / lam * c
    d['B2c'] = base['B2c'] / lam ** 2 * c; d['B2s'] = base['B2s'] / lam ** 2 * c
    d['p2'] = base['p2'] / lam ** 2 * c ** 2; d['B0'] = base['B0'] * c
    return d

def neg(d, keys):
    d = dict(d)
    for k in keys:
        d[k] = [-x for x in d[k]] if isinstance(d[k], list) else -d[k]
    return d

def flat(q):
    out = {}
    for k, v in q.__dict__.items():
        if isinstance(v, (bool, np.bool_, str)) or not isinstance(v, (int, float, np.floating, np.integer, np.ndarray)):
            continue
        a = np.asarray(v, dtype=float)
        n = q.nphi
        if a.ndim == 0 or a.shape == (n,):
            out[k] = a
        elif a.ndim >= 2 and a.shape[0] == n and all(s == 3 for s in a.shape[1:]):
            for idx in np.ndindex(*a.shape[1:]):
                out[k + ''.join('_%d' % i for i in idx)] = a[(slice(None),) + idx]
        elif a.ndim >= 2 and a.shape[-1] == n and all(s == 3 for s in a.shape[:-1]):
            for idx in np.ndindex(*a.shape[:-1]):
                out[k + ''.join('_%d' % i for i in idx)] = a[idx + (slice(None),)]
        elif a.ndim == 1:
            out[k] = a
    return out

q0 = flat(build(base)); qL = flat(build(scaled(2.0, 1.0))); qB = flat(build(scaled(1.0, 3.0)))
qF = flat(build(neg(base, ['sG', 'spsi', 'I2'])))
qM = flat(build(neg(base, ['zs', 'zc', 'sigma0', 'I2', 'B2s'])))
qT = flat(build(neg(base, ['rs', 'zs', 'I2'])))
dims, signs = {}, {}
for k, a in sorted(q0.items()):
    m = np.abs(a) > 1e-9 * max(1e-300, np.max(np.abs(a))) if a.size else np.zeros(0, bool)
    if not np.any(m):
        dims[k] = None; signs[k] = None; continue
    eL = np.median(np.log(np.abs(qL[k][m] / a[m])) / np.log(2.0)); eB = np.median(np.log(np.abs(qB[k][m] / a[m])) / np.log(3.0))
    dims[k] = [float(np.round(eL * 4) / 4), float(np.round(eB * 4) / 4)]
    sg = []
    for name, qq in (('F', qF), ('M', qM), ('T', qT)):
        b = qq[k]
        if name == 'T' and a.ndim == 1 and a.size == len(q0['phi']):
            b = np.roll(b[::-1], 1)
        r = b[m] / a[m]
        if np.allclose(r, 1, atol=1e-6): sg.append(1)
        elif np.allclose(r, -1, atol=1e-6): sg.append(-1)
        else: sg.append(None)
    signs[k] = sg
json.dump(dims, open('/verif/tables/dims_draft.json', 'w'), indent=0, sort_keys=True)
json.dump(signs, open('/verif/tables/signs_draft.json', 'w'), indent=0, sort_keys=True)
for k in sorted(signs): print(k, dims[k], signs[k])
