#!/usr/bin/env python3
"""Writes MANIFEST.json from the registry below (single source of truth for what is claimed)."""
import json, os
ROOT = os.path.dirname(os.path.dirname(os.path.abspath(__file__)))
props = [json.loads(l) for l in open(os.path.join(ROOT, 'properties.jsonl'))]
CLAIMED = {
 'C08': dict(level='proof', technique='reflective dimension checker proved sound in Coq (Equiv.infer_sound, Dim.dim_check_sound), run by vm_compute on the model regenerated from the source; translator validation + prediction correspondence',
     text='For every translated formula stage (r1 diagnostics, grad B, O(r^2) incl. the assembled linear system, Mercier, grad grad B (both derivations), r_singularity coefficients, O(r^3), shear, field-vector and tensor converters) a Coq theorem states that for every grid size, differentiation matrix, input environment and positive scale factors the outputs computed from the scaled inputs are the outputs scaled by the power given by their dimension; oracle solves enter through their residual equations, which are proved scale-covariant. The model is regenerated from /repo on every run.',
     note='Not proved: uniqueness/convergence of Newton and of the dense solve (their equations are proved covariant), absolute thresholds in r_singularity and fourier_minimum (modelled), float rounding; init_axis Fourier sums and control code are covered by other checks. Trusted: Coq kernel+vm_compute, 3 Reals axioms, translator (validated each run), tables/dims.json.',
     ref='DESIGN.md section 6 C08'),
 'C07': dict(level='proof', technique='reflective sign-parity checker proved sound in Coq (Equiv.infer_sound, Sign.sign_check_sound) for the three generators, run by vm_compute on the regenerated model; translator validation + prediction correspondence',
     text='For each generator (field reversal, mirror, toroidal reversal with profile reversal) and each translated formula stage, a Coq theorem states that for every grid size, every differentiation matrix compatible with the grid action and every input environment, the outputs computed from the transformed inputs are the original outputs times the fixed sign of tables/signs.json (profiles reversed under T); residual equations of the Newton and linear solves are proved covariant.',
     note='Not covered by the theorems: second row of the O(r^2) system under mirror (needs a cancellation the syntactic checker cannot see), untwisted quantities under T, Cartesian converters, thresholded root selection of r_singularity, helicity counting (control code), iota2 under F (see C19). The harness checks all of these numerically plus the lasym / definite-parity clause.',
     ref='DESIGN.md section 6 C07'),
 'C05': dict(level='proof', technique='reflective shift-equivariance checker proved sound in Coq (Shift.shift_check_sound), run by vm_compute on the regenerated model; translator validation + prediction correspondence',
     text='For every translated stage a Coq theorem states that, for every grid size and every circulant differentiation matrix, cyclically shifting all inputs shifts every covered output (tables/shift_cover.json) and preserves the residual equations of the sigma and O(r^2) solves; any use of a fixed grid index in a covered formula breaks the obligation.',
     note='Excluded because origin-dependent by definition: untwisted coefficients on helical axes, varphi (its induced law is checked numerically), Cartesian components. iota2 is excluded (C19 finding). Not proved: Newton reaches the shifted fixed point; init_axis Fourier sums under coefficient rotation are checked numerically by the harness.',
     ref='DESIGN.md section 6 C05'),
 'C04': dict(level='proof', technique='Coq theorems (ring/field) over the shallow reading of the program regenerated from calculate_r2: assembled block rows = full O(r^2) equations for every linear differentiation operator; closed forms; oracle-spec validation of np.linalg.solve',
     text='The residual of each block row of the linear system assembled by calculate_r2 is proved identical to the corresponding O(r^2) differential equation written independently in full form, for every index type, every linear differentiation operator (so every grid size and matrix) and every input; the two algebraic constraints and the closed forms of G2, beta_1s and the B20 statistics are proved identically. A dropped or mis-signed from_X20/from_Y20/inhomogeneous piece, a wrong block, iota vs iotaN, or a changed closed form breaks the proof.',
     note='Assumed: np.linalg.solve returns a solution of the assembled system (its residual is measured on every correspondence case). Not proved: size of the float residual relative to conditioning. Trusted: Coq kernel, 3 Reals axioms, translator (validated each run), the hand-written spec props/C04_spec.v.',
     ref='DESIGN.md section 6 C04'),
 'C02': dict(level='proof', technique='Coq: control-model theorems for newton() (state machine over the stream of residual norms, NaN included) tied to the code by trace correspondence evaluated inside Coq with PrimFloat; ring proof of Jacobian exactness and of the sigma0 pin on the programs regenerated from _residual/_jacobian/solve_sigma_equation',
     text='Theorems: the Newton driver returns x0 or an accepted strictly-decreasing iterate and, absent a warning, the returned residual is <= 1e4*tol (for every stream of norms, NaN included); the Jacobian handed to the solver is the exact derivative of the residual at every state (polynomial identity in eps for every linear differentiation operator); sigma[0] = sigma0 and iotaN = iota + helicity*nfp. The NaN-silent path of the original code was found by the model, reproduced on the real code and fixed.',
     note='Unproved clause: agreement of iota with a shooting solution of the continuous ODE as nphi grows (convergence theorem for collocation). Hypotheses of the Newton theorems: IEEE comparison is transitive/irreflexive (checked on a float sample, not proved for PrimFloat). The Newton model is hand-written; its tie to the code is the decision-by-decision trace correspondence run on every check.',
     ref='DESIGN.md section 6 C02'),
 'C20': dict(level='proof', technique='Coq theorems on hand-written executable models (list model of spectral_diff_matrix, stream model of newton, bracket search of fourier_minimum) + bitwise/decision correspondence with the implementation evaluated inside Coq (PrimFloat, vm_compute)',
     text='For every n and interval the differentiation matrix model is antisymmetric and (odd n) circulant with zero row sums, commutes with shifts and anticommutes with reversal; the model equals the implementation bit-for-bit on every generated size. Newton: never worse than the initial guess, accepts only decreasing steps, warns whenever the returned residual exceeds 1e4*tol. fourier_minimum: first valid bracket is chosen, result <= every sample under the stated scipy oracle hypotheses, decisions invariant under cyclic shifts.',
     note='Not proved (numeric oracle only): exact differentiation of every resolvable mode, interpolation exactness away from nodes, convergence of Newton on smooth well-posed systems; even n needs the Nyquist entry 1/tan(pi/2) to be exactly 0 (float value 6e-17).',
     ref='DESIGN.md section 6 C20'),
 'C11': dict(level='proof', technique='Coq theorems (ring/reflexivity, sum positivity by induction) on the program regenerated from mercier(); numeric closed-form oracle',
     text='DMerc = DWell + DGeod, the closed forms of DWell and of the reported d2_volume_d_psi2, vanishing of all three terms at p2 = 0 (every index type and environment), and DGeod <= 0 for every grid size under the stated positivity hypotheses.',
     note='Unproved clause: the geometric one (reported V\'\' equals the second psi-derivative of the volume enclosed by the constructed surfaces; V\' = 4 pi^2 |G0|/B0^2) -- it needs the O(r^3) geometry in the continuum model. Quadrature error not modelled.',
     ref='DESIGN.md section 6 C11'),
 'C13': dict(level='proof', technique='Coq theorems (trigonometric addition formulas + ring) on the regenerated r1/r2/r3 untwisting blocks and the four B_mag programs; axiom-free theorems on a hand-written quadrant-counter model tied to the code by evaluating the model inside Coq on the sign patterns of real objects',
     text='Untwisted coefficients describe the same surfaces (harmonics 1, 2, 3; identity at helicity 0); iotaN = iota + helicity*nfp; B_mag returns the prescribed |B| in the helical angle and the cylindrical / Boozer conventions agree; the helicity counter is an integer, odd under mirror and reversal, invariant under rotation of the origin, and equals the signed number of 4->1 crossings.',
     note='Not proved: the quadrant counter equals the winding number of the continuous normal only on a resolved grid (checked numerically against an unwrapped-angle winding number); spline error off the nodes; the factor sG*spsi multiplying the counter is glue outside the model (covered by the correspondence).',
     ref='DESIGN.md section 6 C13'),
 'C09': dict(level='proof', technique='Coq theorems (field/ring, Leibniz rule in a differential ring) over the programs regenerated from init_axis, r1_diagnostics, calculate_grad_B_tensor, Bfield_cylindrical, grad_B_tensor_cartesian and _residual, linked through one object state',
     text='Trace-free and curl = 2 sG spsi I2 in the continuum model (the latter from the sigma equation), contraction with a first-order displacement = first-order field vector, |B| to first order, Cartesian = rotated cylindrical with equal Frobenius norm, Frobenius norm = Frenet double contraction, L_grad_B formula.',
     note='Hypotheses: admissibility, sigma equation holds at the returned solution, orthonormal frame (C03). Not proved: size of the discrete trace/curl defect; min_L_grad_B (spectral-minimum oracle).',
     ref='DESIGN.md section 6 C09'),
 'C19': dict(level='proof', technique='reflective dimension and sign checkers (Coq, proved sound) on both branches of the regenerated calculate_shear; numeric oracle; two known findings',
     text='iota2 has dimension length^-2 field^0 and flips sign under mirror (both branches) and toroidal reversal (symmetric branch), for every grid size and input. Field-reversal invariance and origin independence are REFUTED on the real code (known findings).',
     note='Harness only: field-period representation, continuity under infinitesimal symmetry breaking, convergence in nphi. The reduced solve and the trapezoid rule enter through their defining equations / weights (validated each run).',
     ref='DESIGN.md section 6 C19'),
 'C03': dict(level='proof', technique='Coq theorems (field, Leibniz rule in a differential ring, induction over the trapezoid recurrence) on the program regenerated from init_axis and r1_diagnostics; independent Cartesian numeric oracle',
     text='Right-handed orthonormal Frenet frame, tangent direction, Frenet-Serret equations with the returned curvature and torsion (continuum model), G0 = sG B0 L/(2 pi), Boozer angle zero at phi = 0 / strictly increasing / spanning one period (every grid size), d_varphi_d_phi proportional to the arclength element, elongation = ratio of singular values >= 1.',
     note='Hypotheses: admissible axis (R0 > 0, curvature != 0), harmonic sums are derivatives of each other (checked term by term numerically; the init_axis_term program is translated). Not proved: quadrature error rate; min_R0, max_elongation depend on the spectral-minimum oracle.',
     ref='DESIGN.md section 6 C03'),
 'C12': dict(level='proof', technique='Coq: explicit-certificate proof that the quartic is a necessary condition for a double root (regenerated coefficient program); theorems on a hand-written generic-number model of the root selection, evaluated inside Coq with PrimFloat against the implementation bit for bit; reflective dimension/sign checks of the coefficient program',
     text='Quartic necessary condition; selection logic returns the sentinel or a positive accepted candidate, never drops a smaller selected candidate, reports the grid minimum; accepted candidates are exact zeros of the truncated Jacobian / its theta-derivative over the reals.',
     note='Partial: completeness under the absolute float thresholds is not proved (and the model exhibits a synthetic input where a smaller accepted linear candidate is discarded in favour of the quadratic one); the identification of g0..g2c with the triple product of the position vector is checked numerically every run, not yet a theorem.',
     ref='DESIGN.md section 6 C12'),
 'C16': dict(level='proof', technique='axiom-free Coq object model (all histories by induction) + structural front-end that extracts layouts / presets from the current source and has Coq check them against the model by computation + verified alias checker + model-vs-object replay inside Coq',
     text='Names/DOF alignment, set/get round trips, state after any history = fresh construction (iff calculate is padding invariant), no caller-array alias after any mutator order, preset facts.',
     note='calc_pad (zero-padding the axis coefficients does not change the outputs) is a hypothesis validated on every generated history. Known finding: 12 accepted-but-unadvertised preset names (tests pin both sides).',
     ref='DESIGN.md section 6 C16'),
 'C17': dict(level='proof', technique='verified effect checker (Coq, axiom-free soundness over an abstract heap, all call sequences) run by vm_compute on the effect IR that a fail-closed front-end extracts from the current sources; dynamic write-set / memory-sharing correspondence',
     text='If the checker accepts (it does, for all 19 entry points in any order and number), no protected attribute is re-bound and no object reachable from one is written, for every execution of every sequence of the entry points.',
     note='Trusted: the front-end abstraction and its purity summaries for numpy/scipy/matplotlib (validated each run against observed writes and np.shares_memory). Four attributes recomputed by calculate_grad_grad_B_tensor are checked dynamically for value identity instead. History-independence of results is checked dynamically.',
     ref='DESIGN.md section 6 C17'),
}
checks, na = [], []
for p in props:
    i = p['id']
    if i in CLAIMED:
        c = CLAIMED[i]
        checks.append(dict(property_id=i, quick_cmd='./check %s --tier quick' % i, thorough_cmd='./check %s --tier thorough' % i,
                           evidence_file='evidence/%s.json' % i, replay_cmd_template='./check %s --replay {path}' % i,
                           engine='coq-reflective' , level_claimed=dict(category=c['level'], text=c['text'], design_ref=c['ref']),
                           level_note=c['note'], technique=c['technique']))
    else:
        na.append(dict(property_id=i, reason='check not built yet in this revision (planned, see DESIGN.md section 6); not claimed'))
man = dict(version=1,
  setup_cmd='./setup.sh',
  hooks=dict(guard='PYQSC_VERIF', enable='no source hooks are used; checks wrap the implementation from outside (the guard variable is never read by /repo)',
             baseline_off_cmd='cd /repo && /venv/bin/python -m pytest -ra -q -p no:cacheprovider --timeout=900 --continue-on-collection-errors qsc/tests',
             source_commits=[], add_only=True),
  engines=[dict(name='coq-reflective', path='coq/theories', serves_properties=sorted(CLAIMED), kind_free_text='Coq 8.16 development: deep embedding of the formula language, generic equivariance type system with soundness proof, instances; models regenerated from /repo by tools/gen.py')],
  checks=checks, not_applicable=na,
  notes='All checks: ./check <id> [--tier quick|thorough]. See DESIGN.md.')
json.dump(man, open(os.path.join(ROOT, 'MANIFEST.json'), 'w'), indent=1)
print('claimed', sorted(CLAIMED), 'not claimed', len(na))
