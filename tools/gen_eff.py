#!/venv/bin/python
"""Effect front-end for property C17 (read-only diagnostics / plotting / export methods).

usage: PYTHONPATH=/repo /venv/bin/python tools/gen_eff.py [--repo /repo] [--out coq/gen] [--gprops coq/gprops] [--explain]

Parses the CURRENT sources under <repo>/qsc with `ast` (the analysis never imports them; the package is imported
only once, to read the attribute names of a live r3 object = eff_protected) and writes
   <out>/G_effects.v            eff_table, eff_entry, eff_protected, eff_recomputed   (IR of theories/Effects.v)
   <out>/effects_manifest.json  per method: what it sets / stores / calls, local may-alias sets, trusted summaries
   <gprops>/C17_check.v         Lemma C17_accepts : accepts eff_table eff_protected (entry ++ rev entry) = true.
FAIL-CLOSED: anything that cannot be classified prints `EFFECT-ERROR <file>:<line>: <why>` and exits 2.
A Python mirror of the checker (diagnostic only, never trusted) reports WHICH statement the Coq checker rejects.

The encoding differs from the sketch "one IR name per binding site, uses emitted for every site, Binds twice" in two
places, both in the conservative direction: (1) two `Bind`s / `SetAttr`s of the SAME IR name are never emitted,
because the checker's strong update would forget the first one (A1, A2); (2) the number of repetitions of a body is
computed (A3) instead of being fixed to two.

ABSTRACTION (flow-insensitive may-alias; every decision about PROTECTED memory is left to the verified checker)
 A1 Locals.  For every local x the front-end computes (graph reachability over all binding sites of x, loops and
    branches ignored) the set of ORIGINS x may alias: a new object, an attribute, a mutable default object.  Each
    (local, origin) pair gets its own IR name `x~origin` with exactly one `Bind`; a use of x (store, pass) is emitted
    for every IR name of x.  (The checker's Bind is a strong update, so two Binds of one name would lose the first.)
    Names of nested functions' locals are prefixed `<nested>.`; nested bodies are merged into the enclosing function.
 A2 Attributes.  Protected attributes keep their name (any SetAttr on them is rejected by the checker).  Every
    SetAttr site of a NON-protected attribute a gets its own IR attribute name `a@<fn>:<line>~origin`, and a read of
    `self.a` reads every such version plus the plain name `a` (the value the object was constructed with).  So no
    IR attribute is ever un-tainted by a conditional / later assignment (Effects.v M4(c)): taint is monotone.
    Cyclic attribute-to-attribute flows are rejected (EFFECT-ERROR).
 A3 Every method body is   (Binds ; Binds ; effects-in-source-order)  repeated R = 1 + (number of attributes that are
    both set by the method or its callees and may flow into a local there) times, so that a store is also checked
    with the taints created by LATER statements (loops).
 A4 Calls.  `self.m(..)` / `helper(.., self, ..)` -> CallSelf m.  Parameters are bound in the callee's prologue to
    the union of the origins of the arguments over ALL call sites (context-insensitive) plus a new object (user call);
    return values use the callee's return summary with parameters substituted by the actual arguments; if the callee
    stores through a parameter, the store is ALSO emitted on the argument at the call site.
 A5 Trusted summaries (see TRUSTED in the manifest): numpy functions by table (fresh / view / in-place), external
    libraries are pure w.r.t. their array arguments (PassVar x true) and return new objects; scipy.optimize drivers
    call their callback with a new first argument followed by `args=`; attributes only ever assigned from
    convert_to_spline / CubicSpline are callables whose call is pure.
 A6 User-supplied arguments of entry points do not alias the object's arrays.
"""
import ast, os, sys, json, argparse, time

HERE = os.path.dirname(os.path.abspath(__file__))
ROOT = os.path.dirname(HERE)

ENTRY = ['plot', 'plot_boundary', 'plot_axis', 'B_fieldline', 'B_contour', 'flux_tube', 'get_boundary',
         'Frenet_to_cylindrical', 'to_RZ', 'B_mag', 'Bfield_cylindrical', 'Bfield_cartesian',
         'grad_B_tensor_cartesian', 'grad_grad_B_tensor_cylindrical', 'grad_grad_B_tensor_cartesian', 'to_vmec',
         'calculate_shear', 'calculate_grad_grad_B_tensor', 'min_R0_penalty']
# helpers that are analysed even if the current sources do not reach them from an entry point
EXTRA = ['convert_to_spline', 'fourier_minimum', 'fourier_interpolation', 'to_Fourier', 'set_axes_equal',
         'create_subplot', 'create_field_lines', 'create_subplot_mayavi', 'Frenet_to_cylindrical_1_point',
         'Frenet_to_cylindrical_residual_func']
# attributes that calculate_grad_grad_B_tensor legitimately re-binds to a freshly recomputed (value-identical) array
RECOMPUTED = ['grad_grad_B', 'grad_grad_B_inverse_scale_length_vs_varphi', 'L_grad_grad_B',
              'grad_grad_B_inverse_scale_length']

TRUSTED_ROOTS = ('matplotlib', 'mpl_toolkits', 'scipy', 'mayavi', 'logging', 'datetime', 'warnings')
SPLINE_CTORS = ('convert_to_spline', 'spline', 'CubicSpline')

NP_FRESH = set('''copy array zeros ones full empty zeros_like ones_like full_like empty_like linspace arange meshgrid
 append concatenate insert roll stack vstack hstack dstack column_stack outer dot matmul cross inner vdot kron trace
 tensordot sum prod max min amax amin nanmax nanmin mean average median std var argmin argmax argsort abs absolute fabs
 sqrt exp log log10 log2 sin cos tan arctan2 arctan arcsin arccos sinh cosh tanh mod fmod floor ceil sign power maximum
 minimum cumsum cumprod diff gradient trapz interp isfinite isnan isinf all any allclose isclose finfo tile repeat eye
 identity sort unique delete pad clip round around rint floor_divide count_nonzero nonzero where array_equal polyfit
 polyval float64 float32 int32 int64 shape size ndim rad2deg deg2rad hypot square conj conjugate logical_and
 logical_or logical_not add subtract multiply divide negative reciprocal
 linalg.solve linalg.norm linalg.inv linalg.det linalg.eig linalg.eigvals linalg.lstsq
 fft.fft fft.ifft fft.rfft fft.irfft fft.fftfreq'''.split())
NP_VIEW = set('''transpose asarray asanyarray ascontiguousarray reshape ravel squeeze atleast_1d atleast_2d atleast_3d
 real imag flip fliplr flipud swapaxes moveaxis rollaxis broadcast_to expand_dims diagonal diag rot90 split
 array_split hsplit vsplit nan_to_num triu tril'''.split())   # may return (a tuple of) views of their array argument
NP_MUTATE = set('put copyto place putmask fill_diagonal put_along_axis random.shuffle'.split())   # write into arg 0
NP_CONST = set('pi nan inf e newaxis euler_gamma'.split())

M_MUTATE = set('''sort fill resize put itemset setfield setflags partition byteswap append extend insert update
 setdefault pop popitem clear remove reverse add discard __setitem__ __iadd__'''.split())
M_ALIAS_ARG = set('append extend insert update setdefault add'.split())   # receiver keeps a reference to the argument
M_VIEW = set('''transpose reshape ravel view squeeze swapaxes diagonal keys values items get astype newbyteorder
 __getitem__'''.split())
M_FRESH = set('''copy min max sum mean std var prod argmin argmax argsort all any dot flatten tolist item round cumsum
 cumprod nonzero conj conjugate clip trace format join strip split lstrip rstrip startswith endswith lower upper
 replace decode encode index count tobytes is_integer isoformat'''.split())

B_FRESH = set('''print str len range int float abs round bool isinstance issubclass hasattr type id hash repr callable
 divmod pow ord chr format complex any all'''.split())
B_CONT = set('list tuple sorted reversed enumerate zip iter next dict set frozenset map filter'.split())
B_ELEM = set('min max'.split())          # return one of their arguments / one element of their argument
B_FORBIDDEN = set('exec compile globals locals vars delattr __import__ input breakpoint memoryview super'.split())


class EffectError(Exception):
    pass


class Val:
    """abstract value of an expression: atoms = set of (kind, name, view) with kind in
       F (new object), A (attribute), V (local), D (mutable default object), ANY (any attribute), P (parameter)"""
    __slots__ = ('atoms', 'ext', 'cont', 'kind', 'ref')

    def __init__(self, atoms=(), ext=False, cont=False, kind='val', ref=None):
        self.atoms = set(atoms); self.ext = ext; self.cont = cont; self.kind = kind; self.ref = ref


FRESH_ATOM = ('F', None, False)


def fresh(ext=False, cont=False):
    return Val([FRESH_ATOM], ext=ext, cont=cont)


def view(v):
    return Val([(k, n, True) for (k, n, w) in v.atoms] or [FRESH_ATOM], ext=v.ext, cont=v.cont)


def union(vals, cont=None):
    vals = [v for v in vals if v is not None]
    at = set()
    for v in vals:
        at |= v.atoms
    if not at:
        at = {FRESH_ATOM}
    return Val(at, ext=bool(vals) and all(v.ext for v in vals), cont=any(v.cont for v in vals) if cont is None else cont)


# --------------------------------------------------------------------------------------------------------------------
# package model
# --------------------------------------------------------------------------------------------------------------------
class Module:
    def __init__(self, name, path):
        self.name, self.path = name, path
        self.tree = ast.parse(open(path).read(), filename=path)
        self.funcs, self.imports, self.consts, self.classes = {}, {}, set(), {}
        for st in self.tree.body:
            if isinstance(st, ast.FunctionDef):
                self.funcs[st.name] = st
            elif isinstance(st, ast.ClassDef):
                self.classes[st.name] = st
            elif isinstance(st, (ast.Import, ast.ImportFrom)):
                self.add_import(st, self.imports)
            elif isinstance(st, (ast.Assign, ast.AnnAssign, ast.AugAssign)):
                tg = st.targets if isinstance(st, ast.Assign) else [st.target]
                for t in tg:
                    for n in ast.walk(t):
                        if isinstance(n, ast.Name):
                            self.consts.add(n.id)
                # module-level handle on an external library object (logger = logging.getLogger(..))
                v = getattr(st, 'value', None)
                if isinstance(v, ast.Call) and len(tg) == 1 and isinstance(tg[0], ast.Name):
                    f, parts = v.func, []
                    while isinstance(f, ast.Attribute):
                        parts.append(f.attr); f = f.value
                    if isinstance(f, ast.Name) and self.imports.get(f.id, ('', ''))[0] == 'ext':
                        self.imports[tg[0].id] = ('ext', '.'.join([self.imports[f.id][1]] + parts[::-1]) + '()')
                        self.consts.discard(tg[0].id)

    @staticmethod
    def add_import(st, table):
        if isinstance(st, ast.Import):
            for a in st.names:
                table[(a.asname or a.name).split('.')[0]] = ('ext', a.name if a.asname else a.name.split('.')[0])
        else:
            pkg = st.level >= 1 or (st.module or '').split('.')[0] == 'qsc'
            for a in st.names:
                if pkg:
                    table[a.asname or a.name] = ('pkg', (st.module or '').split('.')[-1], a.name)
                else:
                    table[a.asname or a.name] = ('ext', (st.module or '') + '.' + a.name)


class Package:
    def __init__(self, repo):
        self.repo = repo
        d = os.path.join(repo, 'qsc')
        self.mods = {}
        for f in sorted(os.listdir(d)):
            if f.endswith('.py') and f != '__init__.py':
                self.mods[f[:-3]] = Module(f[:-3], os.path.join(d, f))
        # the class: methods by name -> (module, FunctionDef)
        self.methods = {}
        cls = self.mods['qsc'].classes.get('Qsc')
        if cls is None:
            raise EffectError('%s: class Qsc not found' % self.mods['qsc'].path)
        for st in cls.body:
            if isinstance(st, ast.ImportFrom) and st.level >= 1:
                for a in st.names:
                    m = self.mods.get(st.module)
                    if m is None:
                        raise EffectError('%s:%d: cannot resolve method import %s' % (self.mods['qsc'].path, st.lineno, a.name))
                    if a.name in m.funcs:
                        self.methods[a.asname or a.name] = (m, m.funcs[a.name])
            elif isinstance(st, ast.FunctionDef):
                self.methods[st.name] = (self.mods['qsc'], st)
        # attributes that are only ever assigned from a spline constructor (callable, pure)
        assigned = {}
        self.dynamic_setattr = False
        for m in self.mods.values():
            for n in ast.walk(m.tree):
                if isinstance(n, ast.Assign):
                    for t in n.targets:
                        for tt in (t.elts if isinstance(t, (ast.Tuple, ast.List)) else [t]):
                            if isinstance(tt, ast.Attribute) and isinstance(tt.value, ast.Name):
                                ok = isinstance(n.value, ast.Call) and (
                                    (isinstance(n.value.func, ast.Attribute) and n.value.func.attr in SPLINE_CTORS) or
                                    (isinstance(n.value.func, ast.Name) and n.value.func.id in SPLINE_CTORS)) and tt is t
                                assigned.setdefault(tt.attr, []).append(ok)
                elif isinstance(n, (ast.AugAssign, ast.AnnAssign)) and isinstance(n.target, ast.Attribute):
                    assigned.setdefault(n.target.attr, []).append(False)
                elif isinstance(n, ast.Call) and isinstance(n.func, ast.Name) and n.func.id == 'setattr':
                    if len(n.args) >= 2 and isinstance(n.args[1], ast.Constant):
                        assigned.setdefault(n.args[1].value, []).append(False)
                    else:
                        self.dynamic_setattr = True
        self.spline_attrs = {a for a, oks in assigned.items() if all(oks)}

    def find_function(self, name):
        """table key -> (module, node, is_method)"""
        if name in self.methods:
            m, nd = self.methods[name]
            return m, nd, True
        hits = [(m, m.funcs[name]) for m in self.mods.values() if name in m.funcs]
        if len(hits) != 1:
            raise EffectError('%s: function %s is defined %d times in the package' % (self.repo, name, len(hits)))
        return hits[0][0], hits[0][1], False


# --------------------------------------------------------------------------------------------------------------------
# one function of the table (with its nested functions merged in)
# --------------------------------------------------------------------------------------------------------------------
class Scope:
    def __init__(self, node, prefix, parent):
        self.node, self.prefix, self.parent = node, prefix, parent
        self.locals, self.nonlocals, self.nested, self.localmods = set(), set(), {}, {}
        a = node.args
        self.params = [x.arg for x in a.posonlyargs + a.args] + ([a.vararg.arg] if a.vararg else []) + \
                      [x.arg for x in a.kwonlyargs] + ([a.kwarg.arg] if a.kwarg else [])
        self.locals |= set(self.params)
        self.scan(node.body)
        self.locals -= self.nonlocals

    def scan(self, body):
        for st in body:
            for n in self.walk_no_nested(st):
                if isinstance(n, ast.Name) and isinstance(n.ctx, (ast.Store, ast.Del)):
                    self.locals.add(n.id)
                elif isinstance(n, ast.Nonlocal):
                    self.nonlocals |= set(n.names)
                elif isinstance(n, (ast.Import, ast.ImportFrom)):
                    for al in n.names:
                        self.locals.add((al.asname or al.name).split('.')[0])
                elif isinstance(n, ast.ExceptHandler) and n.name:
                    self.locals.add(n.name)
                elif isinstance(n, ast.FunctionDef):
                    self.locals.add(n.name)

    @staticmethod
    def walk_no_nested(st):
        todo = [st]
        while todo:
            n = todo.pop()
            yield n
            if isinstance(n, (ast.FunctionDef, ast.Lambda, ast.ClassDef)) and n is not st:
                continue
            if isinstance(n, ast.FunctionDef) and n is st:
                continue
            todo.extend(ast.iter_child_nodes(n))

    def lookup(self, name):
        s = self
        while s is not None:
            if name in s.locals:
                return s
            s = s.parent
        return None


class Site:
    __slots__ = ('line', 'atoms', 'ext', 'cont')

    def __init__(self, line, v):
        self.line, self.atoms, self.ext, self.cont = line, set(v.atoms), v.ext, v.cont


class Fn:
    def __init__(self, A, key):
        self.A, self.key = A, key
        self.mod, self.node, self.is_method = A.pkg.find_function(key)
        self.file = os.path.relpath(self.mod.path, A.pkg.repo)
        a = self.node.args
        self.params = [x.arg for x in a.posonlyargs + a.args]
        self.kwonly = [x.arg for x in a.kwonlyargs]
        self.vararg = a.vararg.arg if a.vararg else None
        self.kwarg = a.kwarg.arg if a.kwarg else None
        self.allparams = self.params + ([self.vararg] if self.vararg else []) + self.kwonly + ([self.kwarg] if self.kwarg else [])
        self.selfparam = self.params[0] if self.is_method and self.params else None
        if self.node.decorator_list:
            raise EffectError('%s:%d: decorated function %s' % (self.file, self.node.lineno, key))
        # facts carried from one global iteration to the next
        self.local_ext, self.local_cont = {}, {}
        self.param_in = {p: dict(atoms={FRESH_ATOM}, ext=None, cont=False) for p in self.allparams}
        self.summary = dict(ret=set(), ret_ext=True, ret_cont=False, stored=set())
        self.result = None
        self.seen_call = self.is_method

    def loc(self, node):
        return '%s:%d' % (self.file, getattr(node, 'lineno', self.node.lineno))


class Walker:
    def __init__(self, fn):
        self.fn, self.A = fn, fn.A
        self.sites, self.effects, self.calls = {}, [], []
        self.trusted, self.dkeys = set(), {}
        self.callees = []

    # ---- utilities -------------------------------------------------------------------------------------------------
    def err(self, node, why):
        raise EffectError('%s: %s' % (self.fn.loc(node), why))

    def add_site(self, scoped, node, v):
        self.sites.setdefault(scoped, []).append(Site(getattr(node, 'lineno', 0), v))

    def store(self, v, node, why):
        self.effects.append(('store', set(v.atoms), self.fn.loc(node), why))

    def passpure(self, v, node):
        at = {a for a in v.atoms if a[0] == 'V'}
        if at:
            self.effects.append(('pass', at, self.fn.loc(node), ''))

    def is_self(self, name, scope):
        s = scope.lookup(name)
        return s is not None and (s.prefix + name) in self.selfnames

    def run(self):
        fn = self.fn
        top = Scope(fn.node, '', None)
        self.selfnames = set()
        if fn.selfparam:
            self.selfnames.add(fn.selfparam)
        # locals that are only ever bound to the object itself (s = self)
        cand = {}
        for n in ast.walk(fn.node):
            if isinstance(n, ast.Assign) and len(n.targets) == 1 and isinstance(n.targets[0], ast.Name):
                cand.setdefault(n.targets[0].id, []).append(isinstance(n.value, ast.Name) and n.value.id in self.selfnames)
        for x, oks in cand.items():
            if any(oks):
                if not all(oks) or x in fn.allparams:
                    self.err(fn.node, 'local %s is bound to the object and to something else' % x)
                self.selfnames.add(x)
        for p in fn.allparams:
            if p == fn.selfparam:
                continue
            pi = fn.param_in[p]
            ext = (True if pi['ext'] is None else pi['ext']) and fn.key not in self.A.entry
            self.sites.setdefault(p, []).append(Site(fn.node.lineno, Val([('P', p, False)], ext=ext, cont=pi['cont'])))
        self.bind_defaults(fn.node, top, fn.key)
        self.block(fn.node.body, top)
        return self

    def bind_defaults(self, node, scope, qual):
        a = node.args
        pos = a.posonlyargs + a.args
        for arg, d in list(zip(pos[len(pos) - len(a.defaults):], a.defaults)) + \
                [(x, d) for x, d in zip(a.kwonlyargs, a.kw_defaults) if d is not None]:
            if isinstance(d, (ast.List, ast.Dict, ast.Set)) or (isinstance(d, ast.Call) and isinstance(d.func, ast.Name)
                                                                  and d.func.id in ('dict', 'list', 'set')):
                key = 'default:%s.%s' % (qual, arg.arg)
                self.add_site(scope.prefix + arg.arg, d, Val([('D', key, False)], cont=True))
            else:
                v = self.ev(d, scope.parent if scope.parent else scope)
                self.add_site(scope.prefix + arg.arg, d, union([v]))

    # ---- statements ------------------------------------------------------------------------------------------------
    def block(self, body, sc):
        for st in body:
            self.stmt(st, sc)

    def stmt(self, st, sc):
        if isinstance(st, ast.FunctionDef):
            if st.decorator_list:
                self.err(st, 'decorated nested function')
            ns = Scope(st, sc.prefix + st.name + '.', sc)
            sc.nested[st.name] = ns
            ns.retname = ns.prefix + '<ret>'
            for p in ns.params:
                self.sites.setdefault(ns.prefix + p, [])
            self.bind_defaults(st, ns, self.fn.key + '.' + st.name)
            self.block(st.body, ns)
        elif isinstance(st, ast.Return):
            v = self.ev(st.value, sc) if st.value is not None else fresh()
            if v.kind in ('self', 'func'):
                self.err(st, 'the object / a function is returned')
            self.add_site(sc.prefix + '<ret>', st, v)
        elif isinstance(st, ast.Assign):
            if isinstance(st.value, (ast.Tuple, ast.List)) and all(
                    isinstance(t, (ast.Tuple, ast.List)) and len(t.elts) == len(st.value.elts) for t in st.targets) \
                    and not any(isinstance(e, ast.Starred) for e in st.value.elts):
                vals = [self.ev(e, sc) for e in st.value.elts]
                for t in st.targets:
                    for tt, v in zip(t.elts, vals):
                        self.assign(tt, v, sc, st)
            else:
                v = self.ev(st.value, sc)
                for t in st.targets:
                    self.assign(t, v, sc, st)
        elif isinstance(st, ast.AnnAssign):
            if st.value is not None:
                self.assign(st.target, self.ev(st.value, sc), sc, st)
        elif isinstance(st, ast.AugAssign):
            v = self.ev(st.value, sc)
            t = st.target
            if isinstance(t, ast.Name):
                cur = self.ev(ast.copy_location(ast.Name(id=t.id, ctx=ast.Load()), t), sc)
                if cur.kind != 'val':
                    self.err(st, 'augmented assignment to %s' % t.id)
                self.store(cur, st, '%s %s= ...' % (t.id, type(st.op).__name__))
                s = sc.lookup(t.id)
                self.add_site(s.prefix + t.id, st, union([v]) if v.cont else fresh())
            elif isinstance(t, ast.Subscript):
                base = self.ev(t.value, sc)
                self.ev(t.slice, sc)
                self.store(base, st, 'augmented assignment through a subscript')
            elif isinstance(t, ast.Attribute):
                if isinstance(t.value, ast.Name) and self.is_self(t.value.id, sc):
                    self.effects.append(('store', {('A', t.attr, False)}, self.fn.loc(st), 'self.%s op= ...' % t.attr))
                    self.effects.append(('setattr', t.attr, union([v]).atoms if v.cont else {FRESH_ATOM}, self.fn.loc(st), st.lineno))
                else:
                    self.store(self.ev(t.value, sc), st, 'augmented assignment to an attribute of a local')
            else:
                self.err(st, 'augmented assignment target')
        elif isinstance(st, ast.For):
            it = self.ev(st.iter, sc)
            if it.kind != 'val':
                self.err(st, 'iteration over the object / a function')
            self.assign(st.target, view(it), sc, st, elementwise=True)
            self.block(st.body, sc); self.block(st.orelse, sc)
        elif isinstance(st, ast.While):
            self.ev(st.test, sc); self.block(st.body, sc); self.block(st.orelse, sc)
        elif isinstance(st, ast.If):
            self.ev(st.test, sc); self.block(st.body, sc); self.block(st.orelse, sc)
        elif isinstance(st, ast.With):
            for it in st.items:
                v = self.ev(it.context_expr, sc)
                if it.optional_vars is not None:
                    self.assign(it.optional_vars, v, sc, st)
            self.block(st.body, sc)
        elif isinstance(st, ast.Try):
            self.block(st.body, sc)
            for h in st.handlers:
                if h.type is not None:
                    self.ev(h.type, sc)
                if h.name:
                    self.add_site(sc.lookup(h.name).prefix + h.name, h, fresh())
                self.block(h.body, sc)
            self.block(st.orelse, sc); self.block(st.finalbody, sc)
        elif isinstance(st, ast.Raise):
            if st.exc is not None:
                self.ev(st.exc, sc)
        elif isinstance(st, ast.Assert):
            self.ev(st.test, sc)
            if st.msg is not None:
                self.ev(st.msg, sc)
        elif isinstance(st, ast.Expr):
            self.ev(st.value, sc)
        elif isinstance(st, (ast.Pass, ast.Break, ast.Continue, ast.Nonlocal)):
            pass
        elif isinstance(st, (ast.Import, ast.ImportFrom)):
            tab = {}
            Module.add_import(st, tab)
            for name, info in tab.items():
                if info[0] != 'ext' or info[1].split('.')[0] not in TRUSTED_ROOTS + ('numpy',):
                    self.err(st, 'import of %s inside a function' % (info,))
                sc.localmods[name] = info[1]
        elif isinstance(st, ast.Delete):
            for t in st.targets:
                if isinstance(t, ast.Subscript):
                    self.store(self.ev(t.value, sc), st, 'del x[...]')
                elif not isinstance(t, ast.Name):
                    self.err(st, 'del of an attribute')
        else:
            self.err(st, 'statement form %s is not classified' % type(st).__name__)

    def contains(self, base, v, node):
        """base (a container / object) now holds a reference to v"""
        if all(a[0] == 'F' for a in v.atoms):
            return
        vv = union([v])
        vv.ext = True      # neutral: holding a reference does not change what kind of object the holder is
        for (k, n, w) in base.atoms:
            if k == 'V':
                self.add_site(n, node, vv)
            elif k in ('A', 'D'):
                self.effects.append(('setattr', n, set(vv.atoms), self.fn.loc(node), getattr(node, 'lineno', 0)))
            elif k == 'ANY':
                self.err(node, 'a reference is stored into an unknown attribute')

    def assign(self, t, v, sc, node, elementwise=False):
        if isinstance(t, ast.Name):
            if self.is_self(t.id, sc):
                if v.kind != 'self':
                    self.err(node, 'alias %s of the object is re-bound' % t.id)
                return
            if v.kind in ('self', 'func'):
                self.err(node, 'the object / a function is bound to the local %s' % t.id)
            s = sc.lookup(t.id)
            if s is None:
                self.err(node, 'assignment to non-local %s' % t.id)
            self.add_site(s.prefix + t.id, node, union([v]))
        elif isinstance(t, (ast.Tuple, ast.List)):
            if v.kind != 'val':
                self.err(node, 'unpacking of the object / a function')
            for e in t.elts:
                if isinstance(e, ast.Starred):
                    self.err(node, 'starred assignment')
                self.assign(e, v if elementwise else view(v), sc, node, elementwise)
        elif isinstance(t, ast.Subscript):
            base = self.ev(t.value, sc)
            self.ev(t.slice, sc)
            if base.kind != 'val' or v.kind in ('self', 'func'):
                self.err(node, 'subscript store on / of the object or a function')
            self.store(base, node, 'subscript store')
            for (k, n, w) in self.ground_hint(base):
                if k == 'D':
                    key = t.slice.value if isinstance(t.slice, ast.Constant) else '<non-literal>'
                    self.dkeys.setdefault(n, set()).add(str(key))
            self.contains(base, v, node)
        elif isinstance(t, ast.Attribute):
            if isinstance(t.value, ast.Name) and self.is_self(t.value.id, sc):
                if v.kind in ('self', 'func'):
                    self.err(node, 'the object / a function is stored in self.%s' % t.attr)
                if t.attr.startswith('__'):
                    self.err(node, 'assignment to self.%s' % t.attr)
                self.effects.append(('setattr', t.attr, set(union([v]).atoms), self.fn.loc(node), node.lineno))
            else:
                base = self.ev(t.value, sc)
                if base.kind != 'val' or v.kind in ('self', 'func'):
                    self.err(node, 'attribute store on / of the object or a function')
                self.store(base, node, 'attribute store on a local object')
                self.contains(base, v, node)
        else:
            self.err(node, 'assignment target %s' % type(t).__name__)

    def ground_hint(self, v):
        """atoms of v with locals followed through the sites seen so far (used only for bookkeeping of default keys)"""
        out, seen, todo = set(), set(), list(v.atoms)
        while todo:
            a = todo.pop()
            if a in seen:
                continue
            seen.add(a)
            if a[0] == 'V':
                for s in self.sites.get(a[1], []):
                    todo.extend(s.atoms)
            else:
                out.add(a)
        return out

    # ---- expressions -----------------------------------------------------------------------------------------------
    def resolve(self, name, sc):
        """-> (kind, payload): self | local | nested | mod | pkgfunc | const | builtin"""
        s = sc.lookup(name)
        if s is not None:
            if (s.prefix + name) in self.selfnames:
                return 'self', None
            if name in s.nested:
                return 'nested', s.nested[name]
            if name in s.localmods:
                return 'mod', s.localmods[name]
            return 'local', s.prefix + name
        m = self.fn.mod
        if name in m.funcs:
            return 'pkgfunc', name
        if name in m.imports:
            info = m.imports[name]
            if info[0] == 'pkg':
                tm = self.A.pkg.mods.get(info[1])
                if tm is not None and info[2] in tm.funcs:
                    return 'pkgfunc', info[2]
                if tm is not None and info[2] in tm.consts:
                    return 'const', None
                return 'pkgother', info
            return 'mod', info[1]
        if name in m.consts:
            return 'const', None
        if name in m.classes:
            return 'pkgother', name
        import builtins
        if hasattr(builtins, name):
            return 'builtin', name
        return 'unknown', None

    def dotted(self, e, sc):
        """dotted path of an external module / member expression, or None"""
        if isinstance(e, ast.Name):
            k, p = self.resolve(e.id, sc)
            return p if k == 'mod' else None
        if isinstance(e, ast.Attribute):
            b = self.dotted(e.value, sc)
            return None if b is None else b + '.' + e.attr
        return None

    def check_root(self, path, node):
        root = path.split('.')[0]
        if root not in TRUSTED_ROOTS and root != 'numpy':
            self.err(node, 'external module %s has no trusted summary' % path)

    def ev(self, e, sc):
        m = getattr(self, 'e_' + type(e).__name__, None)
        if m is None:
            self.err(e, 'expression form %s is not classified' % type(e).__name__)
        return m(e, sc)

    def e_Constant(self, e, sc):
        return fresh()

    def e_JoinedStr(self, e, sc):
        for v in e.values:
            self.ev(v, sc)
        return fresh()

    def e_FormattedValue(self, e, sc):
        self.ev(e.value, sc)
        if e.format_spec is not None:
            self.ev(e.format_spec, sc)
        return fresh()

    def e_Compare(self, e, sc):
        for x in [e.left] + e.comparators:
            self.ev(x, sc)
        return fresh()

    def e_BoolOp(self, e, sc):
        return union([self.val(x, sc) for x in e.values])

    def e_UnaryOp(self, e, sc):
        self.val(e.operand, sc)
        return fresh()

    def e_BinOp(self, e, sc):
        a, b = self.val(e.left, sc), self.val(e.right, sc)
        if isinstance(e.op, (ast.Add, ast.Mult)) and (a.cont or b.cont):
            return union([a, b], cont=True)      # list concatenation / repetition keeps the members
        return fresh()

    def e_IfExp(self, e, sc):
        self.ev(e.test, sc)
        return union([self.val(e.body, sc), self.val(e.orelse, sc)])

    def val(self, e, sc):
        v = self.ev(e, sc)
        if v.kind in ('self', 'func'):
            self.err(e, 'the object / a function is used as a value')
        return v

    def e_Name(self, e, sc):
        k, p = self.resolve(e.id, sc)
        if k == 'self':
            return Val(kind='self')
        if k == 'local':
            return Val([('V', p, False)], ext=self.fn.local_ext.get(p, True), cont=self.fn.local_cont.get(p, False))
        if k == 'nested':
            return Val(kind='func', ref=('nested', p))
        if k == 'pkgfunc':
            return Val(kind='func', ref=('pkg', p))
        if k == 'mod':
            self.check_root(p, e)
            return Val([FRESH_ATOM], ext=True, kind='val')
        if k == 'const':
            return fresh()
        if k == 'builtin':
            if e.id in ('True', 'False', 'None', 'Ellipsis', 'NotImplemented') or isinstance(getattr(__import__('builtins'), e.id), type) \
                    and issubclass(getattr(__import__('builtins'), e.id), BaseException):
                return fresh()
            self.err(e, 'builtin %s used as a value' % e.id)
        self.err(e, 'name %s cannot be resolved (%s)' % (e.id, k))

    def e_Attribute(self, e, sc):
        if isinstance(e.value, ast.Name) and self.is_self(e.value.id, sc):
            a = e.attr
            if a in self.A.pkg.methods:
                self.err(e, 'bound method self.%s escapes' % a)
            if a.startswith('__'):
                self.err(e, 'self.%s' % a)
            return Val([('A', a, False)], ext=a in self.A.pkg.spline_attrs)
        d = self.dotted(e, sc)
        if d is not None:
            self.check_root(d, e)
            return Val([FRESH_ATOM], ext=True)
        b = self.val(e.value, sc)
        if e.attr in ('shape', 'size', 'ndim', 'dtype', 'nbytes', 'itemsize'):
            return fresh()
        return view(b)

    def e_Subscript(self, e, sc):
        b = self.val(e.value, sc)
        self.ev(e.slice, sc)
        return view(b)

    def e_Slice(self, e, sc):
        for x in (e.lower, e.upper, e.step):
            if x is not None:
                self.ev(x, sc)
        return fresh()

    def e_Tuple(self, e, sc):
        vs = []
        for x in e.elts:
            if isinstance(x, ast.Starred):
                vs.append(view(self.val(x.value, sc)))
            else:
                vs.append(self.val(x, sc))
        r = union(vs, cont=True)
        r.ext = False
        return r
    e_List = e_Tuple
    e_Set = e_Tuple

    def e_Dict(self, e, sc):
        vs = [self.val(x, sc) for x in list(e.keys) + list(e.values) if x is not None]
        r = union(vs, cont=True)
        r.ext = False
        return r

    def comp(self, e, sc, elts):
        for g in e.generators:
            if g.is_async:
                self.err(e, 'async comprehension')
            it = self.val(g.iter, sc)
            self.assign(g.target, view(it), sc, e, elementwise=True)
            for c in g.ifs:
                self.ev(c, sc)
        r = union([self.val(x, sc) for x in elts], cont=True)
        r.ext = False
        return r

    def e_ListComp(self, e, sc):
        return self.comp(e, sc, [e.elt])
    e_SetComp = e_ListComp
    e_GeneratorExp = e_ListComp

    def e_DictComp(self, e, sc):
        return self.comp(e, sc, [e.key, e.value])

    def e_Starred(self, e, sc):
        return view(self.val(e.value, sc))

    # ---- calls -----------------------------------------------------------------------------------------------------
    def args_of(self, e, sc, skip=()):
        """evaluate the arguments: -> (list of (Val, node) positional, dict kw -> Val, list of Val for **x)"""
        pos, kw, star = [], {}, []
        for a in e.args:
            pos.append((self.ev(a, sc), a))
        for k in e.keywords:
            if k.arg in skip:
                continue
            v = self.ev(k.value, sc)
            if k.arg is None:
                star.append(v)
            else:
                kw[k.arg] = v
        return pos, kw, star

    def trusted_call(self, name, e, sc, recv=None):
        """external function / method: pure w.r.t. its array arguments, result is a new (external) object"""
        callback_ok = name.startswith('scipy.optimize')
        skip = ()
        cbs = []
        if callback_ok:
            for a in e.args:
                if isinstance(a, ast.Name) and self.resolve(a.id, sc)[0] in ('nested', 'pkgfunc'):
                    cbs.append(a)
            skip = ('args',) if cbs else ()
        extra = []
        for k in e.keywords:
            if k.arg == 'args' and cbs:
                if not isinstance(k.value, ast.Tuple):
                    self.err(e, 'args= of %s is not a tuple display' % name)
                extra = list(k.value.elts)
        for a in e.args:
            if a in cbs:
                continue
            v = self.ev(a, sc)
            if v.kind != 'val':
                self.err(a, 'the object / a function is passed to the external function %s' % name)
            self.passpure(v, e)
        for k in e.keywords:
            if k.arg in skip:
                continue
            v = self.ev(k.value, sc)
            if v.kind != 'val':
                self.err(e, 'the object / a function is passed to the external function %s' % name)
            if k.arg == 'out':
                self.store(v, e, 'out= of %s' % name)
            else:
                self.passpure(v, e)
        for cb in cbs:
            fake = ast.copy_location(ast.Call(func=cb, args=[ast.copy_location(ast.Constant(value=0.0), e)] + extra, keywords=[]), e)
            self.ev(fake, sc)
            self.trusted.add('%s calls its callback f(x, *args) with a new x' % name)
        self.trusted.add(name)
        return fresh(ext=True)

    def np_call(self, path, e, sc):
        f = path[len('numpy.'):]
        pos, kw, star = self.args_of(e, sc)
        allv = [v for v, _ in pos] + list(kw.values()) + star
        for v in allv:
            if v.kind != 'val':
                self.err(e, 'the object / a function is passed to np.%s' % f)
        if 'out' in kw:
            self.store(kw['out'], e, 'out= of np.%s' % f)
        for v in allv:
            self.passpure(v, e)
        self.trusted.add('np.' + f)
        if f in NP_MUTATE:
            if not pos:
                self.err(e, 'np.%s without positional argument' % f)
            self.store(pos[0][0], e, 'np.%s writes into its first argument' % f)
            return fresh()
        if f in NP_VIEW or (f in ('array', 'meshgrid', 'nan_to_num') and 'copy' in kw):
            return view(union([v for v, _ in pos[:1]] if f not in ('meshgrid',) else [v for v, _ in pos]))
        if f in NP_FRESH:
            return fresh()
        self.err(e, 'np.%s has no summary' % f)

    def builtin_call(self, name, e, sc):
        if name in B_FORBIDDEN:
            self.err(e, '%s(...)' % name)
        if name == 'eval':
            a = e.args[0] if len(e.args) == 1 and not e.keywords else None
            if isinstance(a, ast.BinOp) and isinstance(a.op, ast.Add) and isinstance(a.left, ast.Constant) and \
                    a.left.value == 'self.' and self.is_self('self', sc):
                self.val(a.right, sc)
                self.trusted.add("eval('self.' + name) reads one attribute of the object")
                return Val([('ANY', None, False)])
            self.err(e, 'eval of something other than \'self.\' + <name>')
        if name in ('getattr', 'setattr'):
            if len(e.args) < 2 or e.keywords:
                self.err(e, name + ' call shape')
            tgt = e.args[0]
            onself = isinstance(tgt, ast.Name) and self.is_self(tgt.id, sc)
            lit = e.args[1].value if isinstance(e.args[1], ast.Constant) and isinstance(e.args[1].value, str) else None
            if name == 'getattr':
                rest = [self.val(x, sc) for x in e.args[2:]]
                if onself:
                    if lit is None:
                        self.val(e.args[1], sc)
                        return union([Val([('ANY', None, False)])] + rest)
                    return union([self.ev(ast.copy_location(ast.Attribute(value=tgt, attr=lit, ctx=ast.Load()), e), sc)] + rest)
                return union([view(self.val(tgt, sc))] + rest)
            if len(e.args) != 3:
                self.err(e, 'setattr call shape')
            v = self.val(e.args[2], sc)
            if onself:
                if lit is None:
                    self.err(e, 'setattr(self, <non-literal>, ...)')
                self.assign(ast.copy_location(ast.Attribute(value=tgt, attr=lit, ctx=ast.Store()), e), v, sc, e)
            else:
                b = self.val(tgt, sc)
                self.store(b, e, 'setattr on a local object')
                self.contains(b, v, e)
            return fresh()
        pos, kw, star = self.args_of(e, sc)
        allv = [v for v, _ in pos] + list(kw.values()) + star
        for v in allv:
            if v.kind != 'val':
                self.err(e, 'the object / a function is passed to %s()' % name)
            self.passpure(v, e)
        self.trusted.add('builtin ' + name)
        if name == 'open':
            return fresh(ext=True)
        import builtins
        bo = getattr(builtins, name, None)
        if name in B_FRESH or (isinstance(bo, type) and issubclass(bo, BaseException)):
            return fresh()
        if name == 'sum':
            return fresh() if len(pos) < 2 and 'start' not in kw else view(union([pos[1][0]] if len(pos) > 1 else [kw['start']]))
        if name in B_ELEM:
            return view(union(allv))
        if name in B_CONT:
            r = view(union(allv)) if allv else fresh()
            r.cont, r.ext = True, False
            return r
        self.err(e, 'builtin %s has no summary' % name)

    def bind_params(self, params, vararg, kwonly, kwarg, pos, kw, star, e, what, first=0):
        """-> dict param -> Val (only the supplied ones)"""
        out = {}
        i = first
        for v, node in pos:
            if isinstance(node, ast.Starred):
                for p in params[i:] + ([vararg] if vararg else []):
                    out[p] = union([out.get(p), v])
                i = len(params)
                continue
            if i < len(params):
                out[params[i]] = union([out.get(params[i]), v]) if params[i] in out else v
                i += 1
            elif vararg:
                out[vararg] = union([out.get(vararg), v], cont=True)
            else:
                self.err(e, 'too many positional arguments for %s' % what)
        for k, v in kw.items():
            if k in params or k in kwonly:
                out[k] = v
            elif kwarg:
                out[kwarg] = union([out.get(kwarg), v], cont=True)
            else:
                self.err(e, '%s has no parameter %s' % (what, k))
        for v in star:
            if kwarg:
                out[kwarg] = union([out.get(kwarg), view(v)], cont=True)
            else:
                for p in params[i:] + kwonly:
                    if p not in out:
                        out[p] = view(v)
        return out

    def table_call(self, key, e, sc, implicit_self):
        callee = self.A.get_fn(key)
        pos, kw, star = self.args_of(e, sc)
        m = self.bind_params(callee.params, callee.vararg, callee.kwonly, callee.kwarg, pos, kw, star, e, key,
                             first=1 if implicit_self else 0)
        if implicit_self and not callee.is_method:
            self.err(e, 'self.%s is not a method' % key)
        selfp = callee.params[0] if implicit_self else None
        for p, v in list(m.items()):
            if v.kind == 'self':
                if selfp not in (None, p):
                    self.err(e, 'the object is passed twice to %s' % key)
                selfp = p
                del m[p]
            elif v.kind != 'val':
                self.err(e, 'a function is passed to %s' % key)
        if callee.selfparam is None and selfp is not None:
            if callee.seen_call:
                self.err(e, '%s is called with and without the object in parameter %s' % (key, selfp))
            callee.selfparam = selfp
            self.A.changed = True
        if callee.selfparam != selfp:
            self.err(e, '%s: the object is expected in parameter %s, found in %s' % (key, callee.selfparam, selfp))
        callee.seen_call = True
        self.calls.append((key, self.fn.loc(e), m))
        self.effects.append(('call', key, {p: set(v.atoms) for p, v in m.items()}, self.fn.loc(e), ''))
        if key not in self.callees:
            self.callees.append(key)
        s = callee.summary
        at = set()
        for (k, n, w) in s['ret']:
            if k == 'P':
                v = m.get(n)
                if v is not None:
                    at |= {(k2, n2, w or w2) for (k2, n2, w2) in v.atoms}
                else:
                    at.add(FRESH_ATOM)
            else:
                at.add((k, n, w))
        return Val(at or [FRESH_ATOM], ext=s['ret_ext'], cont=s['ret_cont'])

    def nested_call(self, ns, e, sc):
        pos, kw, star = self.args_of(e, sc)
        a = ns.node.args
        params = [x.arg for x in a.posonlyargs + a.args]
        m = self.bind_params(params, a.vararg.arg if a.vararg else None, [x.arg for x in a.kwonlyargs],
                             a.kwarg.arg if a.kwarg else None, pos, kw, star, e, ns.node.name)
        for p, v in m.items():
            if v.kind != 'val':
                self.err(e, 'the object / a function is passed to nested function %s' % ns.node.name)
            self.add_site(ns.prefix + p, e, union([v]))
        r = ns.prefix + '<ret>'
        return Val([('V', r, False)], ext=self.fn.local_ext.get(r, True), cont=self.fn.local_cont.get(r, False))

    def e_Call(self, e, sc):
        f = e.func
        if isinstance(f, ast.Name):
            k, p = self.resolve(f.id, sc)
            if k == 'nested':
                return self.nested_call(p, e, sc)
            if k == 'pkgfunc':
                return self.table_call(p, e, sc, False)
            if k == 'mod':
                self.check_root(p, e)
                if p.split('.')[0] == 'numpy':
                    return self.np_call(p, e, sc)
                return self.trusted_call(p, e, sc)
            if k == 'builtin':
                return self.builtin_call(p, e, sc)
            if k == 'local':
                if not self.fn.local_ext.get(p, True):
                    self.err(e, 'call of the local %s which is not known to be an external object' % f.id)
                return self.trusted_call('<external object>()', e, sc)
            self.err(e, 'call of %s (%s) has no summary' % (f.id, k))
        if isinstance(f, ast.Attribute):
            if isinstance(f.value, ast.Name) and self.is_self(f.value.id, sc):
                if f.attr in self.A.pkg.methods:
                    return self.table_call(f.attr, e, sc, True)
                if f.attr in self.A.pkg.spline_attrs:
                    return self.trusted_call('self.<spline attribute>()', e, sc)
                self.err(e, 'call of self.%s: neither a method nor an attribute that only holds splines' % f.attr)
            d = self.dotted(f, sc)
            if d is not None:
                self.check_root(d, e)
                if d.split('.')[0] == 'numpy':
                    return self.np_call(d, e, sc)
                return self.trusted_call(d, e, sc)
            recv = self.val(f.value, sc)
            name = f.attr
            if name in M_MUTATE:
                pos, kw, star = self.args_of(e, sc)
                allv = [v for v, _ in pos] + list(kw.values()) + star
                for v in allv:
                    if v.kind != 'val':
                        self.err(e, 'the object / a function is passed to .%s()' % name)
                    self.passpure(v, e)
                self.store(recv, e, '.%s() mutates its receiver' % name)
                if name in M_ALIAS_ARG:
                    for v in allv:
                        self.contains(recv, v, e)
                self.trusted.add('method .%s(): in-place on the receiver' % name)
                return view(recv)
            if 'out' in [k.arg for k in e.keywords] and not recv.ext:
                pos, kw, star = self.args_of(e, sc)
                self.store(kw['out'], e, 'out= of .%s()' % name)
                return view(kw['out'])
            if name in M_VIEW and not recv.ext:
                self.args_of(e, sc)
                self.trusted.add('method .%s(): view of the receiver' % name)
                return view(recv)
            if name in M_FRESH and not recv.ext:
                pos, kw, star = self.args_of(e, sc)
                for v in [v for v, _ in pos] + list(kw.values()) + star:
                    if v.kind != 'val':
                        self.err(e, 'the object / a function is passed to .%s()' % name)
                    self.passpure(v, e)
                self.trusted.add('method .%s(): new result' % name)
                if name == 'copy' and recv.cont:
                    return view(recv)
                return fresh()
            if recv.ext:
                return self.trusted_call('<external object>.%s' % name, e, sc)
            self.err(e, 'method call .%s() on an array-valued expression has no summary' % name)
        recv = self.val(f, sc)
        if recv.ext:
            return self.trusted_call('<external object>()', e, sc)
        self.err(e, 'call of a computed expression')


# --------------------------------------------------------------------------------------------------------------------
# whole-program fixpoint
# --------------------------------------------------------------------------------------------------------------------
def closure(sites):
    clos = {x: set() for x in sites}
    ch = True
    while ch:
        ch = False
        for x, ss in sites.items():
            new = set()
            for s in ss:
                new |= close_atoms(s.atoms, clos)
            if not new <= clos[x]:
                clos[x] |= new
                ch = True
    return clos


def close_atoms(atoms, clos):
    out = set()
    for (k, n, w) in atoms:
        if k == 'V':
            if n in clos:
                out |= {(k2, n2, w or w2) for (k2, n2, w2) in clos[n]}
            else:
                out.add(('F', None, False))
        else:
            out.add((k, n, w))
    return out


def ground(atoms, fn):
    out = set()
    for (k, n, w) in atoms:
        if k == 'P':
            out |= {(k2, n2, w or w2) for (k2, n2, w2) in fn.param_in[n]['atoms']}
        else:
            out.add((k, n, w))
    return out


class Analysis:
    def __init__(self, repo):
        self.pkg = Package(repo)
        self.fns = {}
        self.entry = list(ENTRY)
        self.changed = False

    def get_fn(self, key):
        if key not in self.fns:
            self.fns[key] = Fn(self, key)
            self.changed = True
        return self.fns[key]

    def run(self):
        for k in ENTRY:
            self.get_fn(k)
        for k in EXTRA:
            try:
                self.get_fn(k)
            except EffectError:
                pass          # an optional helper that no longer exists
        for it in range(60):
            self.changed = False
            for key in list(self.fns):
                self.step(self.fns[key])
            if not self.changed:
                self.iterations = it + 1
                return
        raise EffectError('%s: the whole-program fixpoint did not stabilise' % self.pkg.repo)

    def step(self, fn):
        w = Walker(fn).run()
        clos = closure(w.sites)
        for x, ss in w.sites.items():
            e = fn.local_ext.get(x, True) and all(s.ext for s in ss)
            c = fn.local_cont.get(x, False) or any(s.cont for s in ss)
            if e != fn.local_ext.get(x, True) or c != fn.local_cont.get(x, False):
                self.changed = True
            fn.local_ext[x], fn.local_cont[x] = e, c
        stored = set()
        for ef in w.effects:
            if ef[0] == 'store':
                stored |= {n for (k, n, v) in close_atoms(ef[1], clos) if k == 'P'}
            elif ef[0] == 'call':
                cs = self.fns[ef[1]].summary['stored']
                for q in cs:
                    stored |= {n for (k, n, v) in close_atoms(ef[2].get(q, ()), clos) if k == 'P'}
        rs = w.sites.get('<ret>', [])
        summ = dict(ret=set(clos.get('<ret>', set())), ret_ext=bool(rs) and fn.local_ext.get('<ret>', True),
                    ret_cont=fn.local_cont.get('<ret>', False), stored=stored | fn.summary['stored'])
        summ['ret'] |= fn.summary['ret']
        if summ != fn.summary:
            self.changed = True
            fn.summary = summ
        for key, loc, m in w.calls:
            callee = self.fns[key]
            for p, v in m.items():
                pi = callee.param_in[p]
                g = ground(close_atoms(v.atoms, clos), fn)
                ext = v.ext if pi['ext'] is None else (pi['ext'] and v.ext)
                cont = pi['cont'] or v.cont
                if not g <= pi['atoms'] or ext != pi['ext'] or cont != pi['cont']:
                    self.changed = True
                pi['atoms'] |= g
                pi['ext'], pi['cont'] = ext, cont
        fn.result = (w, clos)


# --------------------------------------------------------------------------------------------------------------------
# expansion into the IR of theories/Effects.v
# --------------------------------------------------------------------------------------------------------------------
def live_attributes(repo):
    """attribute names of a live r3 object, exactly the object tools/gen.py:live_kinds builds (without calculate_shear)"""
    sys.path.insert(0, repo)
    os.environ.setdefault('MPLBACKEND', 'Agg')
    import logging
    logging.disable(logging.CRITICAL)
    import importlib
    for m in [m for m in sys.modules if m == 'qsc' or m.startswith('qsc.')]:
        del sys.modules[m]
    qsc = importlib.import_module('qsc')
    if os.path.realpath(os.path.dirname(qsc.__file__)) != os.path.realpath(os.path.join(repo, 'qsc')):
        raise EffectError('%s: qsc was imported from %s' % (repo, qsc.__file__))
    q = qsc.Qsc(rc=[1, 0.09, 0.01], zs=[0, -0.08, 0.01], rs=[0, 0.01, 0.0], zc=[0, 0.01, 0.0], nfp=2, etabar=0.9,
                sigma0=0.1, I2=0.5, B0=1.1, B2c=-0.3, B2s=0.2, p2=-1000.0, order='r3', nphi=9)
    logging.disable(logging.NOTSET)
    return list(q.__dict__.keys())


def cq(s):
    return '"' + s.replace('"', '""') + '"'


class Expander:
    def __init__(self, A, live):
        self.A = A
        self.live = list(live)
        self.recomputed = [a for a in RECOMPUTED]
        self.protected = [a for a in self.live if a not in RECOMPUTED]
        self.pset = set(self.protected)
        self.versions = {}
        self.setattr_ir = {}      # (fn key, effect index) -> list of (stmt, prov)
        self.site_info = []

    def gclos(self, fn, atoms):
        w, clos = fn.result
        return ground(close_atoms(atoms, clos), fn)

    @staticmethod
    def prefer_direct(g):
        """drop the view variant of an origin when the direct one is present"""
        return {(k, n, w) for (k, n, w) in g if not (w and (k, n, False) in g)}

    def build_versions(self):
        sites = {}     # attr -> list of (fn key, idx, line, loc, ground atoms)
        for key, fn in self.A.fns.items():
            w, clos = fn.result
            for i, ef in enumerate(w.effects):
                if ef[0] != 'setattr':
                    continue
                a, atoms, loc, line = ef[1], ef[2], ef[3], ef[4]
                g = self.prefer_direct(self.gclos(fn, atoms))
                if any(k == 'ANY' for (k, n, v) in g):
                    raise EffectError('%s: self.%s is bound to an attribute selected at run time' % (loc, a))
                g = {(k, n, v) for (k, n, v) in g if not (k in ('A', 'D') and n == a)}   # a flow from a to itself adds nothing
                sites.setdefault(a, []).append((key, i, line, loc, g))
        # topological order of the attribute-to-attribute flows
        deps = {a: {n for (_, _, _, _, g) in ss for (k, n, v) in g if k in ('A', 'D')} for a, ss in sites.items() if a not in self.pset}
        order, done, active = [], set(), []

        def visit(a):
            if a in done:
                return
            if a in active:
                s = sites[a][0]
                raise EffectError('%s: cyclic attribute-to-attribute flow %s' % (s[3], ' -> '.join(active[active.index(a):] + [a])))
            active.append(a)
            for b in sorted(deps.get(a, ())):
                if b in deps:
                    visit(b)
            active.pop()
            done.add(a)
            order.append(a)
        for a in sorted(deps):
            visit(a)
        for a in order:
            names = [a]
            used = set()
            for (key, i, line, loc, g) in sites[a]:
                stmts = []
                for (k, n, v) in sorted(g, key=str):
                    if k == 'F':
                        srcs = [('new', 'Fresh')]
                    else:
                        srcs = [(wv, '%s %s' % ('ViewOfAttr' if v else 'AttrOf', cq(wv))) for wv in self.vers(n)]
                    for org, rhs in srcs:
                        nm = '%s@%s:%d~%s' % (a, key, line, org)
                        while nm in used:
                            nm += "'"
                        used.add(nm)
                        names.append(nm)
                        stmts.append(('SetAttr %s %s' % (cq(nm), '(%s)' % rhs if rhs != 'Fresh' else rhs), loc))
                self.setattr_ir[(key, i)] = stmts
                self.site_info.append(dict(attr=a, fn=key, where=loc, origins=sorted('%s%s%s' % (k, ':' + n if n else '', "'" if v else '') for (k, n, v) in g)))
            self.versions[a] = names
        for a, ss in sites.items():
            if a in self.pset:
                for (key, i, line, loc, g) in ss:
                    stmts = []
                    for (k, n, v) in sorted(g, key=str) or [FRESH_ATOM]:
                        for rhs in (['Fresh'] if k == 'F' else ['(%s %s)' % ('ViewOfAttr' if v else 'AttrOf', cq(wv)) for wv in self.vers(n)]):
                            stmts.append(('SetAttr %s %s' % (cq(a), rhs), loc))
                    self.setattr_ir[(key, i)] = stmts
                    self.site_info.append(dict(attr=a, fn=key, where=loc, protected=True, origins=['(re-binds a protected attribute)']))
        self.set_sites = sites

    def vers(self, a):
        return self.versions.get(a, [a])

    def universe(self):
        u = list(self.live)
        for a in self.versions:
            if a not in u:
                u.append(a)
        return u

    def origins(self, g):
        """ground atoms -> list of (origin tag, rhs text)"""
        g = self.prefer_direct(g)
        out = []
        if any(k == 'ANY' for (k, n, v) in g):
            g = {x for x in g if x[0] == 'F'} | {('A', a, False) for a in self.universe()}
        for (k, n, v) in sorted(g, key=lambda t: (t[0] != 'F', str(t))):
            if k == 'F':
                out.append(('new', 'Fresh'))
            elif k in ('A', 'D'):
                for wv in self.vers(n):
                    out.append((wv + ("'" if v else ''), '(%s %s)' % ('ViewOfAttr' if v else 'AttrOf', cq(wv))))
            else:
                raise EffectError('internal: unexpected atom %r' % ((k, n, v),))
        seen, res = set(), []
        for o in out:
            if o[0] not in seen:
                seen.add(o[0]); res.append(o)
        return res

    def expand_fn(self, fn):
        w, clos = fn.result
        first = {x: min([s.line for s in ss] or [0]) for x, ss in w.sites.items()}
        irnames = {}
        binds = []
        for x in sorted(clos, key=lambda x: (first.get(x, 0), x)):
            if x.endswith('<ret>'):
                continue
            names = []
            for org, rhs in self.origins(ground(clos[x], fn)):
                nm = '%s~%s' % (x, org)
                names.append(nm)
                binds.append(('Bind %s %s' % (cq(nm), rhs), '%s:%d' % (fn.file, first.get(x, 0))))
            irnames[x] = names

        def targets(atoms, loc):
            """IR store statements for a store through something with these raw atoms"""
            out = []
            for (k, n, v) in sorted(atoms, key=str):
                if k == 'V':
                    out += [('StoreVar %s' % cq(nm), loc) for nm in irnames.get(n, [])]
                elif k in ('A', 'D'):
                    out += [('StoreAttr %s' % cq(wv), loc) for wv in self.vers(n)]
                elif k == 'ANY':
                    out += [('StoreAttr %s' % cq(wv), loc) for a in self.universe() for wv in self.vers(a)]
                elif k == 'P':
                    out += [('StoreVar %s' % cq(nm), loc) for nm in irnames.get(n, [])]
            return out
        effects = []
        for i, ef in enumerate(w.effects):
            if ef[0] == 'store':
                effects += targets(ef[1], ef[2])
            elif ef[0] == 'pass':
                for (k, n, v) in sorted(ef[1], key=str):
                    effects += [('PassVar %s true' % cq(nm), ef[2]) for nm in irnames.get(n, [])]
            elif ef[0] == 'setattr':
                effects += self.setattr_ir.get((fn.key, i), [])
            elif ef[0] == 'call':
                effects.append(('CallSelf %s' % cq(ef[1]), ef[3]))
                for q in sorted(self.A.fns[ef[1]].summary['stored']):
                    effects += targets(ef[2].get(q, ()), ef[3])
        # drop immediate duplicates
        def dedupe(l):
            out = []
            for s in l:
                if not out or out[-1] != s:
                    out.append(s)
            return out
        return dedupe(binds), dedupe(effects), irnames

    def reads_sets(self):
        """per function: real attributes that may flow into a local / a store / an attribute, and attributes set (transitively)"""
        reads, sets, stores, callees = {}, {}, {}, {}
        for key, fn in self.A.fns.items():
            w, clos = fn.result
            r = set()
            allat = [a for c in clos.values() for a in ground(c, fn)]
            for ef in w.effects:
                if ef[0] == 'setattr':
                    allat += list(self.gclos(fn, ef[2]))
                elif ef[0] == 'store':
                    allat += list(self.gclos(fn, ef[1]))
                elif ef[0] == 'call':
                    for q in self.A.fns[ef[1]].summary['stored']:
                        allat += list(self.gclos(fn, ef[2].get(q, ())))
            for (k, n, v) in allat:
                if k in ('A', 'D'):
                    r.add(n)
                elif k == 'ANY':
                    r |= set(self.universe())
            reads[key] = r
            sets[key] = {ef[1] for ef in w.effects if ef[0] == 'setattr'}
            st = set()
            for ef in w.effects:
                if ef[0] == 'store':
                    for (k, n, v) in self.gclos(fn, ef[1]):
                        if k in ('A', 'D'):
                            st.add(n)
                        elif k == 'ANY':
                            st.add('<any attribute>')
                elif ef[0] == 'call':
                    for q in self.A.fns[ef[1]].summary['stored']:
                        for (k, n, v) in self.gclos(fn, ef[2].get(q, ())):
                            if k in ('A', 'D'):
                                st.add(n)
            stores[key] = st
            callees[key] = list(w.callees)
        def trans(tab):
            out = {}
            def go(k, seen):
                if k in out:
                    return out[k]
                if k in seen:
                    raise EffectError('%s: recursion through %s' % (self.A.fns[k].file, k))
                r = set(tab[k])
                for c in callees[k]:
                    r |= go(c, seen | {k})
                out[k] = r
                return r
            for k in tab:
                go(k, set())
            return out
        return reads, sets, stores, callees, trans(reads), trans(sets), trans(stores)


# --------------------------------------------------------------------------------------------------------------------
# a Python mirror of Effects.check_calls -- DIAGNOSTIC ONLY (tells which statement the Coq checker rejects)
# --------------------------------------------------------------------------------------------------------------------
def mirror_check(table, protected, names):
    """table: dict name -> list of (stmt text, prov).  -> (accepted, message, final tainted attrs)"""
    import re
    rx = re.compile(r'^(Bind|SetAttr|StoreVar|StoreAttr|CallSelf|PassVar) "((?:[^"]|"")*)"(?: (.*))?$')
    parsed = {}
    for f, body in table.items():
        l = []
        for text, prov in body:
            m = rx.match(text)
            op, name, rest = m.group(1), m.group(2).replace('""', '"'), (m.group(3) or '').strip()
            src = None
            if rest.startswith('('):
                kind, arg = rest[1:-1].split(' ', 1)
                src = (kind, arg[1:-1].replace('""', '"'))
            elif rest == 'Fresh':
                src = ('Fresh', None)
            l.append((op, name, src, text, prov))
        parsed[f] = l
    P = set(protected)

    def tainted(src, ta, tv):
        if src[0] == 'Fresh':
            return False
        return src[1] in (ta if src[0] in ('AttrOf', 'ViewOfAttr') else tv)

    def call(f, ta, depth, stack):
        if depth == 0:
            return None, 'call depth exhausted at %s' % f
        if f not in parsed:
            return None, 'unknown callee %s' % f
        tv = set()
        for (op, name, src, text, prov) in parsed[f]:
            where = '%s  [%s]  in %s' % (text, prov, ' > '.join(stack + [f]))
            if op == 'Bind':
                (tv.add if tainted(src, ta, tv) else tv.discard)(name)
            elif op == 'SetAttr':
                if name in P:
                    return None, 're-binds a protected attribute: ' + where
                ta = (ta | {name}) if tainted(src, ta, tv) else (ta - {name})
            elif op == 'StoreVar':
                if name in tv:
                    return None, 'in-place write through a local that may alias protected memory: ' + where
            elif op == 'StoreAttr':
                if name in ta:
                    return None, 'in-place write into an attribute that may alias protected memory: ' + where
            elif op == 'CallSelf':
                ta, msg = call(name, ta, depth - 1, stack + [f])
                if ta is None:
                    return None, msg
        return ta, ''
    ta = set(protected)
    for f in names:
        ta, msg = call(f, ta, len(table), [])
        if ta is None:
            return False, msg, None
    return True, '', ta


# --------------------------------------------------------------------------------------------------------------------
def write_coq(path, repo, table, entry, protected, recomputed, reps):
    def ident(f):
        return 'm_' + ''.join(c if c.isalnum() else '_' for c in f)

    def chunks(nm, items, f):
        parts = []
        for i in range(0, max(len(items), 1), 150):
            pn = '%s_%d' % (nm, i // 150)
            f.write('Definition %s : method :=\n  [ %s ].\n' % (pn, ';\n    '.join(items[i:i + 150])))
            parts.append(pn)
        f.write('Definition %s : method := (%s)%%list.\n' % (nm, ' ++ '.join(parts)))
    with open(path, 'w') as f:
        f.write('(* GENERATED by tools/gen_eff.py from %s -- do not edit *)\n' % repo)
        f.write('From Coq Require Import List String. From QSC Require Import Effects. Import ListNotations. Open Scope string_scope.\n\n')
        for key, (binds, effects, R) in table.items():
            f.write('(* %s : %d Binds, %d effect statements, body repeated %d time(s) *)\n' % (key, len(binds), len(effects), R))
            chunks(ident(key) + '_binds', [b for b, _ in binds], f)
            chunks(ident(key) + '_effects', [b for b, _ in effects], f)
            body = '%s_binds ++ %s_binds ++ %s_effects' % ((ident(key),) * 3)
            f.write('Definition %s_body : method := (%s)%%list.\n' % (ident(key), body))
            f.write('Definition %s : method := (%s)%%list.\n\n' % (ident(key), ' ++ '.join([ident(key) + '_body'] * R)))
        f.write('Definition eff_table : table :=\n  [ %s ].\n\n' % ';\n    '.join('(%s, %s)' % (cq(k), ident(k)) for k in table))
        for nm, l in (('eff_entry', entry), ('eff_protected', protected), ('eff_recomputed', recomputed)):
            f.write('Definition %s : list string :=\n  [ %s ].\n\n' % (nm, '; '.join(cq(x) for x in l)))


def write_check(path):
    with open(path, 'w') as f:
        f.write('''(* GENERATED by tools/gen_eff.py -- do not edit *)
From Coq Require Import List String.
From QSC Require Import Effects.
From QSCGen Require Import G_effects.
Import ListNotations. Open Scope string_scope.

(* every C17 entry point twice: once in the listed order, once in the reverse order *)
Definition C17_sequence : list string := (eff_entry ++ rev eff_entry)%list.

Lemma C17_accepts : accepts eff_table eff_protected C17_sequence = true.
Proof. vm_compute. reflexivity. Qed.

(* every entry point alone, on a freshly constructed object *)
Lemma C17_accepts_each : forallb (fun f => accepts eff_table eff_protected [f]) eff_entry = true.
Proof. vm_compute. reflexivity. Qed.

(* the tainted-attribute set reached after C17_sequence is closed under every single entry point: starting from it,
   each entry point is accepted and adds no new tainted attribute.  (Together with monotonicity of the checker in its
   tainted set -- not proved in Effects.v -- this is the inductive invariant for ALL sequences.) *)
Definition C17_tainted : list string :=
  match check_calls eff_table eff_protected C17_sequence with Some t => t | None => [] end.
Lemma C17_closed :
  forallb (fun f => match check_sequence eff_table eff_protected (List.length eff_table) C17_tainted [f] with
                    | Some t => forallb (fun x => mem x C17_tainted) t
                    | None => false end) eff_entry = true.
Proof. vm_compute. reflexivity. Qed.

Theorem C17_protected_unchanged : forall fuel s s',
  Inv eff_protected eff_protected [] s ->
  run_sequence eff_table fuel C17_sequence s s' ->
  protected_unchanged eff_protected s s'.
Proof. intros fuel s s' HI Hr. exact (accepts_sound _ _ _ fuel s s' C17_accepts HI Hr). Qed.
Print Assumptions C17_protected_unchanged.
''')


def main():
    ap = argparse.ArgumentParser()
    ap.add_argument('--repo', default='/repo')
    ap.add_argument('--out', default=os.path.join(ROOT, 'coq', 'gen'))
    ap.add_argument('--gprops', default=os.path.join(ROOT, 'coq', 'gprops'))
    ap.add_argument('--explain', action='store_true', help='print which statement the checker rejects (Python mirror of the checker)')
    a = ap.parse_args()
    t0 = time.time()
    repo = os.path.abspath(a.repo)
    try:
        A = Analysis(repo)
        A.run()
        live = live_attributes(repo)
        X = Expander(A, live)
        X.build_versions()
        reads, sets, stores, callees, treads, tsets, tstores = X.reads_sets()
        table, irn = {}, {}
        for key, fn in A.fns.items():
            binds, effects, irnames = X.expand_fn(fn)
            hop = {x for x in (treads[key] & tsets[key]) if x not in X.pset}
            table[key] = (binds, effects, 1 + len(hop))
            irn[key] = irnames
    except EffectError as ex:
        print('EFFECT-ERROR %s' % ex)
        return 2
    os.makedirs(a.out, exist_ok=True)
    os.makedirs(a.gprops, exist_ok=True)
    write_coq(os.path.join(a.out, 'G_effects.v'), repo, table, ENTRY, X.protected, X.recomputed, None)
    write_check(os.path.join(a.gprops, 'C17_check.v'))
    # ---- manifest ----
    man = dict(repo=repo, entry=ENTRY, protected=X.protected, recomputed=X.recomputed, iterations=A.iterations,
               attribute_versions={k: v for k, v in X.versions.items()}, setattr_sites=X.site_info,
               spline_attributes=sorted(A.pkg.spline_attrs), methods={}, unclassified=[],
               assumptions=['A6: user-supplied arguments of entry points do not alias the object\'s arrays',
                            'external libraries never write into arrays they are given (trusted list below)',
                            'objects returned by external libraries are new objects'])
    trusted = set()
    dkeys = {}
    reach = set()

    def mark(k):
        if k not in reach:
            reach.add(k)
            for c in callees[k]:
                mark(c)
    for k in ENTRY:
        mark(k)
    for key, fn in A.fns.items():
        w, clos = fn.result
        trusted |= w.trusted
        for k, v in w.dkeys.items():
            dkeys.setdefault(k, set()).update(v)
        binds, effects, R = table[key]
        aliases = {}
        for x, c in clos.items():
            at = sorted({n + ("'" if v else '') if k != 'ANY' else '<any attribute>' for (k, n, v) in ground(c, fn) if k in ('A', 'D', 'ANY')})
            if at:
                aliases[x] = at
        rg = ground(fn.summary['ret'], fn)
        man['methods'][key] = dict(
            file=fn.file, line=fn.node.lineno, entry=key in ENTRY, reachable_from_entry=key in reach,
            object_parameter=fn.selfparam, statements=(2 * len(binds) + len(effects)) * R, binds=len(binds),
            effects=len(effects), repetitions=R,
            sets=sorted(sets[key]), sets_new=sorted(x for x in sets[key] if x not in live),
            sets_existing=sorted(x for x in sets[key] if x in live), stores_in_place=sorted(stores[key]),
            callees=callees[key], sets_transitive=sorted(tsets[key]), stores_transitive=sorted(tstores[key]),
            local_may_alias=aliases,
            returns=sorted({('view of ' if v else '') + (n or 'new object') if k != 'ANY' else '<any attribute>' for (k, n, v) in rg}),
            returns_attrs=sorted({n if k != 'ANY' else '<any attribute>' for (k, n, v) in rg if k in ('A', 'D', 'ANY')}),
            returns_alias_of_protected=sorted({n for (k, n, v) in rg if k == 'A' and n in X.pset}),
            parameters_stored_through=sorted(fn.summary['stored']), trusted_calls=sorted(w.trusted), unclassified=[])
    # which attributes the value bound to a (new) attribute may share memory with, per method, transitively
    own = {}
    for si in X.site_info:
        d = own.setdefault(si['fn'], {}).setdefault(si['attr'], set())
        for o in si['origins']:
            if o.startswith(('A:', 'D:')):
                d.add(o[2:].rstrip("'"))
    def set_origins(k, seen=()):
        out = {a: set(v) for a, v in own.get(k, {}).items()}
        for c in callees[k]:
            if c not in seen:
                for a, v in set_origins(c, seen + (k,)).items():
                    out.setdefault(a, set()).update(v)
        return out
    for key in man['methods']:
        man['methods'][key]['set_origin_attrs_transitive'] = {a: sorted(v) for a, v in set_origins(key).items()}
    man['trusted_summaries'] = sorted(trusted)
    man['default_dict_keys_written'] = {k: sorted(v) for k, v in dkeys.items()}
    flat = {k: [(s, p) for s, p in (b + b + e) * R] for k, (b, e, R) in table.items()}
    ok, msg, ta = mirror_check(flat, X.protected, ENTRY + ENTRY[::-1])
    man['mirror_check'] = dict(accepted=ok, message=msg, tainted_after=sorted(ta) if ta is not None else None)
    json.dump(man, open(os.path.join(a.out, 'effects_manifest.json'), 'w'), indent=1)
    n = sum(v['statements'] for v in man['methods'].values())
    print('gen_eff: %d methods, %d IR statements, %d protected attributes, %d trusted summaries, %.1fs' %
          (len(table), n, len(X.protected), len(trusted), time.time() - t0))
    print('gen_eff: checker mirror (diagnostic): %s' % ('ACCEPT' if ok else 'REJECT -- ' + msg))
    if a.explain and not ok:
        print('EFFECT-REJECT %s' % msg)
    return 0


if __name__ == '__main__':
    sys.exit(main())
