#!/usr/bin/env python3
"""seedverify.py [ids...]: confirm seeded changes produced by independent sub-agents (under /tmp/seeds/<prop>/m<k>/)
in a scratch worktree of /repo: the demo passes on the pristine tree, fails with the patch, and the repository's own test
suite still passes with the patch.  Confirmed seeds are copied to /verif/seeded/<prop>_m<k>/ with meta.json."""
import os, sys, json, subprocess, shutil, re, time
from concurrent.futures import ThreadPoolExecutor

SRC = '/tmp/seeds'
DST = os.path.join(os.path.dirname(os.path.dirname(os.path.abspath(__file__))), 'seeded')
ENVB = dict(os.environ, OMP_NUM_THREADS='1', OPENBLAS_NUM_THREADS='1', MPLBACKEND='Agg', PYTHONHASHSEED='0')


def sh(cmd, cwd=None, env=None, timeout=3600):
    p = subprocess.run(cmd, shell=True, cwd=cwd, env=env, capture_output=True, text=True, timeout=timeout)
    return p.returncode, (p.stdout + p.stderr)


def verify(prop, k):
    d = os.path.join(SRC, prop, k)
    patch, demo = os.path.join(d, 'patch.diff'), os.path.join(d, 'demo.py')
    if not (os.path.exists(patch) and os.path.exists(demo)):
        return dict(id='%s_%s' % (prop, k), ok=False, why='missing patch or demo')
    wt = '/tmp/sv_%s_%s' % (prop, k)
    sh('git -C /repo worktree remove --force %s' % wt)
    shutil.rmtree(wt, ignore_errors=True)
    rc, out = sh('git -C /repo worktree add -q --detach %s HEAD' % wt)
    if rc != 0:
        return dict(id='%s_%s' % (prop, k), ok=False, why='worktree: ' + out[-300:])
    env = dict(ENVB, PYTHONPATH=wt)
    res = dict(id='%s_%s' % (prop, k), property=prop)
    try:
        rc0, o0 = sh('/venv/bin/python %s' % demo, cwd=wt, env=env, timeout=1800)
        res['demo_pristine_rc'] = rc0
        rc, out = sh('git apply %s' % patch, cwd=wt)
        if rc != 0:
            res.update(ok=False, why='patch does not apply: ' + out[-300:])
            return res
        rc1, o1 = sh('/venv/bin/python %s' % demo, cwd=wt, env=env, timeout=1800)
        res['demo_patched_rc'] = rc1
        res['demo_patched_tail'] = o1.strip()[-400:]
        rct, ot = sh('/venv/bin/python -m pytest -q -p no:cacheprovider --timeout=900 --continue-on-collection-errors qsc/tests',
                     cwd=wt, env=env, timeout=3600)
        m = re.search(r'(\d+) passed', ot)
        res['tests_passed'] = int(m.group(1)) if m else 0
        res['tests_failed'] = bool(re.search(r'\d+ failed', ot))
        res['ok'] = (rc0 == 0 and rc1 != 0 and res['tests_passed'] == 31 and not res['tests_failed'])
        if not res['ok']:
            res['why'] = 'demo/test outcome not as required'
    finally:
        sh('git -C /repo worktree remove --force %s' % wt)
        shutil.rmtree(wt, ignore_errors=True)
    if res.get('ok'):
        dst = os.path.join(DST, '%s_%s' % (prop, k))
        os.makedirs(dst, exist_ok=True)
        shutil.copy(patch, os.path.join(dst, 'patch.diff'))
        shutil.copy(demo, os.path.join(dst, 'demo.py'))
        notes = os.path.join(d, 'notes.md')
        if os.path.exists(notes):
            shutil.copy(notes, os.path.join(dst, 'notes.md'))
        meta = dict(property=prop, source='independent sub-agent given only the property text',
                    needs=open(notes).read()[:1500] if os.path.exists(notes) else '',
                    confirmed=dict(demo_pristine_rc=res['demo_pristine_rc'], demo_patched_rc=res['demo_patched_rc'],
                                   tests_passed_with_patch=res['tests_passed'],
                                   commands=['PYTHONPATH=<worktree> /venv/bin/python demo.py  (pristine, then patched)',
                                             'PYTHONPATH=<worktree> /venv/bin/python -m pytest -q -p no:cacheprovider --timeout=900 --continue-on-collection-errors qsc/tests']),
                    detected_by={})
        mp = os.path.join(dst, 'meta.json')
        if os.path.exists(mp):
            old = json.load(open(mp))
            meta['detected_by'] = old.get('detected_by', {})
        json.dump(meta, open(mp, 'w'), indent=1)
    return res


def main():
    todo = []
    for prop in sorted(os.listdir(SRC)):
        if prop == 'prompts' or not os.path.isdir(os.path.join(SRC, prop)) or (len(sys.argv) > 1 and prop not in sys.argv[1:]):
            continue
        for k in sorted(os.listdir(os.path.join(SRC, prop))):
            if os.path.isdir(os.path.join(SRC, prop, k)) and not os.path.exists(os.path.join(DST, '%s_%s' % (prop, k), 'meta.json')):
                todo.append((prop, k))
    with ThreadPoolExecutor(max_workers=int(os.environ.get("SEEDVERIFY_J", "4"))) as ex:
        for r in ex.map(lambda a: verify(*a), todo):
            print(json.dumps(r))
            sys.stdout.flush()


if __name__ == '__main__':
    main()
