#!/venv/bin/python
"""Regenerate /verif/coq/gen/*.v from /repo's current working tree.

usage: gen.py [--repo /repo] [--out /verif/coq/gen]
Writes one Coq file per translated source function (all branch variants) plus
gen_manifest.json describing every program (inputs with kinds, outputs,
self-calls made, branch decisions taken, size).  Exit status 2 and a
`TRANSLATE-ERROR` line if any anchored function cannot be translated.
"""
import sys, os, json, argparse, hashlib, traceback

HERE = os.path.dirname(os.path.abspath(__file__))
sys.path.insert(0, HERE)
import py2coq
from py2coq import (StateVec, Interp, TranslateError, E, SArr, Opaque, Struct, NPhi, var, cst, mk,
                    coq_prog, expr_size, translate_function, nested, lift)


def live_kinds(repo):
    """kind table from a live object built by the code under test"""
    sys.path.insert(0, repo)
    os.environ.setdefault('MPLBACKEND', 'Agg')
    import numpy as np
    import logging
    logging.disable(logging.CRITICAL)
    from qsc import Qsc
    q = Qsc(rc=[1, 0.09, 0.01], zs=[0, -0.08, 0.01], rs=[0, 0.01, 0.0], zc=[0, 0.01, 0.0], nfp=2, etabar=0.9,
            sigma0=0.1, I2=0.5, B0=1.1, B2c=-0.3, B2s=0.2, p2=-1000.0, order='r3', nphi=9)
    q.calculate_shear()
    n = q.nphi
    kinds = {}
    for k, v in q.__dict__.items():
        if k == 'nphi':
            kinds[k] = 'nphi'
        elif k in ('d_d_varphi',):
            kinds[k] = 'dmat'
        elif k in ('d_d_phi',):
            kinds[k] = 'opaque'
        elif isinstance(v, str):
            kinds[k] = 'strvar'
        elif isinstance(v, (bool, np.bool_)):
            kinds[k] = 'bool'
        elif isinstance(v, (int, float, np.integer, np.floating)):
            kinds[k] = 's'
        elif isinstance(v, np.ndarray):
            if v.shape == (n,):
                kinds[k] = 'p'
            elif v.ndim == 1:
                kinds[k] = 'coef'
            elif v.shape[0] == n and all(d == 3 for d in v.shape[1:]):
                kinds[k] = ['arr', list(v.shape[1:]), 'first']
            elif v.shape[-1] == n and all(d == 3 for d in v.shape[:-1]):
                kinds[k] = ['arr', list(v.shape[:-1]), 'last']
            else:
                kinds[k] = 'opaque'
        else:
            kinds[k] = 'opaque'
    return kinds


class RSing(Interp):
    """calculate_r_singularity: translate the coefficient formulas; the per-grid-point
    root selection loop is modelled separately (RootSelect.v)."""
    def nphi_loop(self, st):
        self.returned = Opaque('stop-at-root-loop')


class Shear(Interp):
    """calculate_shear: the reduced solve DMred @ I[1:] = sigma[1:] is an oracle with the
    emitted residual equation  (Dv I - rhs) pinned to 0 at index 0 ,  I[0] = 0."""
    def e_Subscript(self, e):
        src = ast_unparse(e)
        if src in ('d_d_varphi[1:, 1:]', 'd_d_varphi[1:,1:]'):
            return Opaque('DMred')
        if src.endswith('[1:]'):
            base = self.expr(e.value)
            if isinstance(base, E) and base.kind == 'p':
                return ('tail', base)
        return Interp.e_Subscript(self, e)

    def binop(self, op, a, b, node):
        if (isinstance(a, tuple) and a and a[0] == 'ext') or (isinstance(b, tuple) and b and b[0] == 'ext'):
            return self.binop_ext(op, a, b, node)
        if isinstance(a, tuple) and a and a[0] == 'tail' or isinstance(b, tuple) and b and b[0] == 'tail':
            ua = a[1] if isinstance(a, tuple) else a
            ub = b[1] if isinstance(b, tuple) else b
            return ('tail', Interp.binop(self, op, ua, ub, node))
        return Interp.binop(self, op, a, b, node)

    def c_np_linalg_solve(self, M, rhs):
        if isinstance(M, Opaque) and M.what == 'DMred' and isinstance(rhs, tuple) and rhs[0] == 'tail':
            self.nsolve = getattr(self, 'nsolve', 0) + 1
            nm = 'redsolve%d' % self.nsolve
            self.inputs[nm] = 'p'
            I = var(nm, 'p')
            z = cst(0)
            eq = E('Pin0', (mk('Sub', self.dv(I), rhs[1]), z), 'p')
            self.emit(nm + '_eq', eq)
            self.emit(nm + '_pin', E('At', (I, 0), 's'))
            self.aux_progs[nm] = {'unknowns': [nm], 'equations': [nm + '_eq', nm + '_pin']}
            return ('tail', I)
        return Interp.c_np_linalg_solve(self, M, rhs)

    def c_np_insert(self, a, pos, val):
        if isinstance(a, tuple) and a[0] == 'tail' and pos == 0 and val == 0:
            z = cst(0)
            return E('Pin0', (a[1], z), 'p')
        self.err('unsupported np.insert')

    def c_np_append(self, a, b):
        # profile extended by one end value: kept as a pair for integ.trapezoid
        return ('ext', lift(a), lift(b))

    def binop_ext(self, op, a, b, node):
        ea = a if (isinstance(a, tuple) and a and a[0] == 'ext') else ('ext', a, a)
        eb = b if (isinstance(b, tuple) and b and b[0] == 'ext') else ('ext', b, b)
        return ('ext', Interp.binop(self, op, ea[1], eb[1], node), Interp.binop(self, op, ea[2], eb[2], node))

    def c_integ_trapezoid(self, y, x):
        """scipy.integrate.trapezoid(y_ext, x_ext) with x_ext = append(varphi, 2 pi/nfp) is the linear functional
        sum_j y_j w_j + y_end w_end  with the trapezoid weights w (inputs trapz_w, trapz_wend; computed from varphi by the harness
        exactly as the rule prescribes and validated against the implementation on every run)"""
        if not (isinstance(y, tuple) and y[0] == 'ext' and isinstance(x, tuple) and x[0] == 'ext'):
            self.err('unsupported trapezoid arguments')
        xs = x[1]
        if not (isinstance(xs, E) and xs.op == 'Var' and xs.args[0] == 's.varphi'):
            self.err('trapezoid abscissa is not self.varphi')
        self.inputs['trapz_w'] = 'p'; self.inputs['trapz_wend'] = 's'
        return mk('Add', E('Sum', (mk('Mul', y[1], var('trapz_w', 'p')),), 's'), mk('Mul', y[2], var('trapz_wend', 's')))


class SigmaSolve(Interp):
    """solve_sigma_equation: newton() is an oracle returning a state vector (iota in slot 0, sigma elsewhere);
    the glue  iota = x[0]; sigma[0] = sigma0  is translated exactly."""
    def e_Call(self, e):
        import ast
        if ast.unparse(e.func) == 'newton':
            src = [ast.unparse(a) for a in e.args] + ['%s=%s' % (k.arg, ast.unparse(k.value)) for k in e.keywords]
            if src != ['self._residual', 'x0', 'jac=self._jacobian']:
                self.err('unexpected newton() call: %s' % src, e)
            self.inputs['newton_xs'] = 'p'; self.inputs['newton_xi'] = 's'
            self.aux_progs['newton'] = {'unknowns': ['newton_xs', 'newton_xi'], 'equations': [], 'residual_program': 'residual', 'x0': 'x0'}
            return StateVec(var('newton_xs', 'p'), var('newton_xi', 's'))
        return Interp.e_Call(self, e)

    def bind_value(self, name, v, is_attr):
        if isinstance(v, StateVec):
            # self.sigma = <state vector>: kept symbolic until the pin  self.sigma[0] = self.sigma0
            return v
        return Interp.bind_value(self, name, v, is_attr)

    def store_sub(self, tgt, val, node):
        obj = self.expr(tgt.value)
        idx = self.index(tgt.slice)
        nm, is_attr = self.target_name(tgt.value)
        if isinstance(obj, StateVec) and idx == (0,):
            new = E('Pin0', (obj.tail, lift(val)), 'p')
            if is_attr:
                self.selfobj._attrs[nm] = Interp.bind_value(self, nm, new, True)
            else:
                self.locals[nm] = Interp.bind_value(self, nm, new, False)
            return
        return Interp.store_sub(self, tgt, val, node)


class FourierTerm:
    """value of a list comprehension / accumulation over the axis harmonics: the generic term for harmonic jn"""
    def __init__(self, expr):
        self.expr = expr


class InitAxis(Interp):
    """init_axis: irregular glue around straight-line formulas.  Recognised exactly (anything else fails closed):
      * phi = np.linspace(0, 2*pi/nfp, nphi, endpoint=False): `phi` becomes the profile input "phi" (its defining property
        phi[k] = k*d_phi is used by Axis.v), phi[1]-phi[0] is kept symbolic through the Linspace value;
      * the harmonic loop `for jn in range(0, self.nfourier)`: executed once for a symbolic harmonic; the accumulated terms are emitted
        as the separate program init_axis_term and the sums R0..Z0ppp become the inputs "R0".."Z0ppp" of the main program;
      * spectral_diff_matrix(self.nphi, xmax=2*np.pi/self.nfp); the row scaling loop defining d_d_varphi (pattern checked: this is
        what justifies translating np.matmul(d_d_varphi, a) as (D_phi a)/d_varphi_d_phi everywhere);
      * the cumulative trapezoid loop for varphi (source text checked; the partial sums are the input "varphi_cumsum");
      * splines (opaque) -- but the Fourier sums handed to R0_func / Z0_func are translated (program init_axis_term);
      * self.lasym (boolean expression: recorded as text, modelled in Lasym.v)."""
    VARPHI_BODY = 'self.varphi[j] = self.varphi[j - 1] + (d_l_d_phi[j - 1] + d_l_d_phi[j])'
    DDV_BODY = 'self.d_d_varphi[j, :] = self.d_d_phi[j, :] / self.d_varphi_d_phi[j]'

    def __init__(self, *a, **k):
        Interp.__init__(self, *a, **k)
        self.term_prog = []
        self.facts = {}

    def stmt(self, st):
        import ast
        if isinstance(st, ast.Assign) and len(st.targets) == 1:
            t = st.targets[0]
            if isinstance(t, ast.Attribute) and isinstance(t.value, ast.Name) and t.value.id in self.self_names:
                if t.attr == 'lasym':
                    self.facts['lasym_expr'] = ast.unparse(st.value)
                    return
                if isinstance(st.value, ast.Call) and ast.unparse(st.value.func) == 'self.convert_to_spline':
                    arg = st.value.args[0]
                    if t.attr in ('R0_func', 'Z0_func'):
                        v = self.expr(arg)
                        if not isinstance(v, FourierTerm):
                            self.err('%s is not built from a sum over the axis harmonics' % t.attr, st)
                        self.term_prog.append((t.attr + '_term', v.expr))
                    else:
                        self.facts.setdefault('splines', {})[t.attr] = ast.unparse(arg)
                    return
        return Interp.stmt(self, st)

    def for_loop(self, st):
        import ast
        rng = ast.unparse(st.iter)
        if rng == 'range(0, self.nfourier)':
            self.harmonic_loop(st)
            return
        if rng == 'range(1, nphi)':
            body = '; '.join(ast.unparse(b) for b in st.body)
            if body != self.VARPHI_BODY:
                self.err('unexpected varphi recurrence: %s' % body, st)
            self.facts['varphi_recurrence'] = body
            self.inputs['varphi_cumsum'] = 'p'
            self.selfobj._attrs['varphi'] = var('varphi_cumsum', 'p')
            return
        if rng == 'range(nphi)' and len(st.body) == 1 and ast.unparse(st.body[0]) == self.DDV_BODY:
            self.facts['d_d_varphi_rows'] = self.DDV_BODY
            return
        return Interp.for_loop(self, st)

    def harmonic_loop(self, st):
        import ast
        jn = var('jn', 's')
        self.inputs['jn'] = 's'
        self.locals[st.target.id] = jn
        acc_before = {k: v for k, v in self.locals.items()}
        saved_prog = self.prog
        self.prog = []
        terms = {}
        for b in st.body:
            if isinstance(b, ast.AugAssign) and isinstance(b.op, ast.Add) and isinstance(b.target, ast.Name):
                nm = b.target.id
                val = lift(self.expr(b.value))
                terms[nm] = val
            else:
                self.stmt(b)
        loop_locals = self.prog
        self.prog = saved_prog
        for (n, e) in loop_locals:
            self.term_prog.append((n, e))
        for nm, e in terms.items():
            self.term_prog.append((nm + '_term', e))
            self.inputs[nm + '_sum'] = 'p'
            self.locals[nm] = var(nm + '_sum', 'p')   # the Fourier sum over all harmonics: an input of the main program
        self.facts['harmonic_sums'] = sorted(terms)
        del self.locals[st.target.id]

    def self_get(self, attr, node):
        if attr in ('rc', 'zs', 'rs', 'zc'):
            return Opaque('coef:' + attr)
        if attr == 'd_d_phi' and 'd_d_phi' in self.selfobj._attrs:
            return self.selfobj._attrs['d_d_phi']
        return Interp.self_get(self, attr, node)

    def e_Subscript(self, e):
        import ast
        obj = self.expr(e.value)
        if isinstance(obj, Opaque) and obj.what.startswith('coef:'):
            idx = self.index(e.slice)
            if len(idx) == 1 and isinstance(idx[0], E) and idx[0].op == 'Var' and idx[0].args[0] == 'jn':
                nm = obj.what[5:] + '_jn'
                self.inputs[nm] = 's'
                return var(nm, 's')
            self.err('unsupported access to an axis coefficient array: %s' % ast.unparse(e), e)
        return Interp.e_Subscript(self, e)

    def e_ListComp(self, e):
        import ast
        g = e.generators[0]
        it = ast.unparse(g.iter)
        if it in ('range(len(self.rc))', 'range(len(self.zs))', 'range(len(self.rs))', 'range(len(self.zc))'):
            self.locals[g.target.id] = var('jn', 's')
            v = lift(self.expr(e.elt))
            del self.locals[g.target.id]
            return FourierTerm(v)
        return Interp.e_ListComp(self, e)

    def c_sum(self, a):
        if isinstance(a, FourierTerm):
            return a
        return Interp.c_sum(self, a)

    def c_np_linspace(self, start, stop, n, endpoint=True):
        L = Interp.c_np_linspace(self, start, stop, n, endpoint=endpoint)
        self.inputs['phi'] = 'p'
        self.facts['phi'] = 'linspace(0, stop, nphi, endpoint=False)'
        return L

    def c_spectral_diff_matrix(self, n, xmax=None, xmin=0):
        self.facts['spectral_diff_matrix'] = 'n=nphi' if isinstance(n, NPhi) else 'n=?'
        self.emit('d_d_phi_xmax', lift(xmax))
        return Opaque('d_d_phi')

    def c_np_zeros(self, shape):
        if isinstance(shape, tuple) and len(shape) == 2 and all(isinstance(x, NPhi) for x in shape):
            return Opaque('square-zeros')
        return Interp.c_np_zeros(self, shape)

    def on_self_method(self, name, args, kw, node):
        return Interp.on_self_method(self, name, args, kw, node)

    def finish(self):
        for k in ('lasym_expr', 'varphi_recurrence', 'd_d_varphi_rows', 'spectral_diff_matrix', 'harmonic_sums', 'phi'):
            if k not in self.facts:
                self.err('init_axis: expected construct not found: %s' % k)
        if self.facts['spectral_diff_matrix'] != 'n=nphi':
            self.err('spectral_diff_matrix is not called with n = nphi')
        self.extra_programs = {'init_axis_term': self.term_prog}


class BMag(Interp):
    """util.B_mag: spline evaluations are oracles (inputs nu_at_phi, B20_at_phi); the splines themselves are opaque"""
    def e_Call(self, e):
        import ast
        fn = ast.unparse(e.func)
        if fn == 'self.nu_spline':
            self.inputs['nu_at_phi'] = 's'
            return var('nu_at_phi', 's')
        if fn == 'self.B20_spline':
            self.inputs['B20_at_phi'] = 's'
            return var('B20_at_phi', 's')
        if fn == 'spline':
            self.facts = getattr(self, 'facts', {})
            self.facts['boozer_spline'] = ast.unparse(e)
            return Opaque('spline')
        return Interp.e_Call(self, e)

    def bind_value(self, name, v, is_attr):
        if isinstance(v, Opaque):
            return v
        return Interp.bind_value(self, name, v, is_attr)

    def finish(self):
        r = self.returned
        if isinstance(r, E):
            self.emit('s.ret', r)
            self.outputs.append('ret')


class FrenetPoint(Interp):
    """Frenet_to_cylindrical_residual_func / Frenet_to_cylindrical_1_point: every spline evaluation `qsc.<name>(phi0)` is an oracle input
    named `<name>@phi0`; np.arctan2(y, x) is recorded as the pair of bindings atan2_y, atan2_x and its value is the oracle input `atan2`."""
    def __init__(self, *a, **k):
        Interp.__init__(self, *a, **k)
        self.self_names = ('qsc',)

    def e_Call(self, e):
        import ast
        f = e.func
        if isinstance(f, ast.Attribute) and isinstance(f.value, ast.Name) and f.value.id == 'qsc' and len(e.args) == 1 and ast.unparse(e.args[0]) == 'phi0':
            nm = f.attr + '@phi0'
            self.inputs[nm] = 's'
            return var(nm, 's')
        if ast.unparse(f) == 'np.arctan2':
            y, x = [lift(self.expr(a)) for a in e.args]
            self.emit('atan2_y', y); self.emit('atan2_x', x)
            self.inputs['atan2'] = 's'
            return var('atan2', 's')
        return Interp.e_Call(self, e)

    def finish(self):
        r = self.returned
        if isinstance(r, (tuple, list)):
            for i, x in enumerate(r):
                if isinstance(x, E):
                    self.emit('s.ret%d' % i, x); self.outputs.append('ret%d' % i)
        elif isinstance(r, E):
            self.emit('s.ret', r); self.outputs.append('ret')


class SurfaceSeries(Interp):
    """Frenet_to_cylindrical / to_RZ: the assembly of X, Y, Z at one poloidal angle from the untwisted coefficients is translated
    (loop over theta / over the points executed once for a symbolic angle); everything after the first spline construction is the
    root-finding / interpolation layer handled by the harness."""
    def for_loop(self, st):
        import ast
        it = ast.unparse(st.iter)
        if it in ('range(ntheta)', 'points'):
            if it == 'points':
                self.locals[st.target.id] = [var('pt_r', 's'), var('pt_theta', 's'), var('pt_phi0', 's')]
            else:
                self.locals[st.target.id] = Opaque('theta-index')
            for b in st.body:
                if isinstance(b, ast.Assign) and ast.unparse(b.targets[0]) == 'self.X_spline':
                    break
                self.stmt(b)
            self.returned = Opaque('stop-at-splines')
            return
        return Interp.for_loop(self, st)

    def e_Subscript(self, e):
        import ast
        if ast.unparse(e) == 'theta[j_theta]':
            self.inputs['theta'] = 's'
            return var('theta', 's')
        return Interp.e_Subscript(self, e)

    def c_np_linspace(self, *a, **k):
        return Opaque('grid')

    def c_np_zeros(self, shape):
        return Opaque('zeros2d')


class VmecScalars(Interp):
    """to_vmec: only the scalar physics (PHIEDGE, pressure coefficients, CURTOR) is modelled; resolution defaults, the call to
    Frenet_to_cylindrical / to_Fourier and the text layer are validated by parsing the written file back (harness)."""
    KEEP = ('phiedge', 'temp', 'am', 'curtor')

    def stmt(self, st):
        import ast
        if isinstance(st, ast.Assign) and len(st.targets) == 1 and isinstance(st.targets[0], ast.Name) and st.targets[0].id in self.KEEP:
            v = self.expr(st.value)
            if isinstance(v, list):
                for i, x in enumerate(v):
                    self.emit('%s_%d' % (st.targets[0].id, i), lift(x))
                self.locals[st.targets[0].id] = v
                return
            return Interp.stmt(self, st)
        self.facts = getattr(self, 'facts', {})
        self.facts.setdefault('not_modelled', []).append(ast.unparse(st)[:60])


class Jac(Interp):
    """_jacobian: the returned matrix is  D/dvarphi + diag(d) with column 0 replaced by c.
    Emitted as the Jacobian-vector product  ret = J @ h  for a symbolic direction h."""
    def finish(self):
        M = self.returned
        if not isinstance(M, py2coq.SMat) or M.col0 is None:
            self.err('_jacobian did not return the expected matrix')
        # direction h = Pin0(hs, hi): hs = sigma-part, hi = iota-part
        hs, hi = var('hs', 'p'), var('hi', 's')
        self.inputs['hs'] = 'p'; self.inputs['hi'] = 's'
        z = cst(0)
        ht = E('Pin0', (hs, z), 'p')   # column 0 was overwritten: h[0] does not enter through D or the diagonal
        rows = self.mat_apply(M, [ht])
        r = mk('Add', rows[0], mk('Mul', M.col0, hi))
        self.bind_value('ret', r, True)


def ast_unparse(e):
    import ast
    return ast.unparse(e)


class WithReturn(Interp):
    """functions whose result is the returned array: components are emitted as ret_i_j"""
    def finish(self):
        r = self.returned
        if isinstance(r, SArr):
            self.bind_value('ret', r, True)
        elif isinstance(r, E):
            self.bind_value('ret', r, True)
        elif isinstance(r, (tuple, list)):
            for i, x in enumerate(r):
                self.bind_value('ret%d' % i, x, True)

    def on_self_method(self, name, args, kw, node):
        if name == 'Bfield_cylindrical':
            def comp(idx):
                nm = 'Bcyl_%d' % idx[0]
                self.inputs[nm] = 'p'
                return var(nm, 'p')
            return SArr((3,), nested((3,), comp), 'last')
        if name == 'grad_grad_B_tensor_cylindrical':
            def comp(idx):
                nm = 'ggBcyl' + ''.join('_%d' % i for i in idx)
                self.inputs[nm] = 'p'
                return var(nm, 'p')
            return SArr((3, 3, 3), nested((3, 3, 3), comp), 'last')
        return Interp.on_self_method(self, name, args, kw, node)


def free_vars(prog, kinds_hint):
    """names read before being bound: the true inputs of a program"""
    bound, free = set(), {}
    def walk(e):
        if e.op == 'Var':
            if e.args[0] not in bound:
                free.setdefault(e.args[0], e.kind)
        for a in e.args:
            if isinstance(a, E):
                walk(a)
    for n, e in prog:
        walk(e)
        bound.add(n)
    return free


def programs(kinds):
    """(relfile, function, variant-name, decisions, params, interpreter class)"""
    H0 = {'self.helicity == 0': True}
    HN = {'self.helicity == 0': False}
    P = []
    X = StateVec(var('xs', 'p'), var('xi', 's'))
    P.append(('qsc/init_axis.py', 'init_axis', '', {}, {}, InitAxis))
    P.append(('qsc/calculate_r1.py', '_residual', '', {}, {'x': X}, Interp))
    P.append(('qsc/calculate_r1.py', '_jacobian', '', {}, {'x': X}, Jac))
    P.append(('qsc/calculate_r1.py', 'solve_sigma_equation', '', {}, {}, SigmaSolve))
    P.append(('qsc/calculate_r1.py', 'r1_diagnostics', 'h0', H0, {}, Interp))
    P.append(('qsc/calculate_r1.py', 'r1_diagnostics', 'hN', HN, {}, Interp))
    P.append(('qsc/grad_B_tensor.py', 'calculate_grad_B_tensor', '', {'hasattr(__len__)': False}, {}, Interp))
    P.append(('qsc/calculate_r2.py', 'calculate_r2', 'h0', H0, {}, Interp))
    P.append(('qsc/calculate_r2.py', 'calculate_r2', 'hN', HN, {}, Interp))
    P.append(('qsc/mercier.py', 'mercier', '', {}, {}, Interp))
    P.append(('qsc/grad_B_tensor.py', 'calculate_grad_grad_B_tensor', '', {'two_ways': True}, {'two_ways': True}, Interp))
    P.append(('qsc/r_singularity.py', 'calculate_r_singularity', '', {'high_order': False}, {'high_order': False}, RSing))
    P.append(('qsc/r_singularity.py', 'calculate_r_singularity', 'ho', {'high_order': True}, {'high_order': True}, RSing))
    P.append(('qsc/calculate_r3.py', 'calculate_r3', 'h0', H0, {}, Interp))
    P.append(('qsc/calculate_r3.py', 'calculate_r3', 'hN', HN, {}, Interp))
    symc = 'self.sigma0 == 0 and np.max(np.abs(self.rs)) == 0 and (np.max(np.abs(self.zc)) == 0)'
    P.append(('qsc/calculate_r3.py', 'calculate_shear', 'sym', {symc: True}, {'B31c': var('B31c', 's')}, Shear))
    P.append(('qsc/calculate_r3.py', 'calculate_shear', 'nonsym', {symc: False}, {'B31c': var('B31c', 's')}, Shear))
    bm = {'r': var('r', 's'), 'theta': var('theta', 's'), 'phi': var('phi_arg', 's')}
    for ordn, od in (('r1', {"self.order != 'r1'": False}), ('r2', {"self.order != 'r1'": True})):
        for bt in (False, True):
            d = dict(od); d['Boozer_toroidal == False'] = (not bt)
            P.append(('qsc/util.py', 'B_mag', '%s_%s' % (ordn, 'boozer' if bt else 'cyl'), d, dict(bm, Boozer_toroidal=bt), BMag))
    ps = {'phi0': var('phi0', 's'), 'phi_target': var('phi_target', 's'), 'qsc': Struct('qsc')}
    big = 'Frenet_to_cylindrical_residual > np.pi'; small = 'Frenet_to_cylindrical_residual < -np.pi'
    for ordn, od in (('r1', {"qsc.order != 'r1'": False}), ('r2', {"qsc.order != 'r1'": True})):
        P.append(('qsc/Frenet_to_cylindrical.py', 'Frenet_to_cylindrical_residual_func', ordn, dict(od, **{big: False, small: False}), dict(ps), FrenetPoint))
        P.append(('qsc/Frenet_to_cylindrical.py', 'Frenet_to_cylindrical_1_point', ordn, dict(od), dict(ps), FrenetPoint))
    for ordn, od in (('r1', {"self.order != 'r1'": False}), ('r2', {"self.order != 'r1'": True, "self.order == 'r3'": False}),
                     ('r3', {"self.order != 'r1'": True, "self.order == 'r3'": True})):
        P.append(('qsc/Frenet_to_cylindrical.py', 'Frenet_to_cylindrical', ordn, dict(od), {'r': var('r', 's'), 'ntheta': Opaque('ntheta')}, SurfaceSeries))
        P.append(('qsc/Frenet_to_cylindrical.py', 'to_RZ', ordn, dict(od), {'points': Opaque('points')}, SurfaceSeries))
    P.append(('qsc/to_vmec.py', 'to_vmec', 'scalars', {}, {'r': var('r', 's'), 'filename': 'f', 'params': Opaque('params'), 'ntheta': Opaque('n'), 'ntorMax': Opaque('n')}, VmecScalars))
    rt = {'r': var('r', 's'), 'theta': var('theta', 's')}
    P.append(('qsc/grad_B_tensor.py', 'Bfield_cylindrical', 'r', {'r == 0': False}, dict(rt), WithReturn))
    P.append(('qsc/grad_B_tensor.py', 'Bfield_cylindrical', 'r0', {'r == 0': True}, dict(rt), WithReturn))
    P.append(('qsc/grad_B_tensor.py', 'Bfield_cartesian', '', {}, dict(rt), WithReturn))
    P.append(('qsc/grad_B_tensor.py', 'grad_B_tensor_cartesian', '', {}, {}, WithReturn))
    P.append(('qsc/grad_B_tensor.py', 'grad_grad_B_tensor_cylindrical', '', {}, {}, WithReturn))
    P.append(('qsc/grad_B_tensor.py', 'grad_grad_B_tensor_cartesian', '', {}, {}, WithReturn))
    return P


def main():
    ap = argparse.ArgumentParser()
    ap.add_argument('--repo', default='/repo')
    ap.add_argument('--out', default=os.path.join(os.path.dirname(HERE), 'coq', 'gen'))
    a = ap.parse_args()
    os.makedirs(a.out, exist_ok=True)
    written = set()

    def put(name, text):
        """write only when the content changed (keeps build stamps valid, and never leaves the directory half-empty)"""
        path = os.path.join(a.out, name)
        written.add(name)
        if os.path.exists(path) and open(path).read() == text:
            return
        tmp = path + '.tmp%d' % os.getpid()
        open(tmp, 'w').write(text)
        os.replace(tmp, path)
    manifest = {'repo': a.repo, 'programs': {}, 'errors': []}
    try:
        kinds = live_kinds(a.repo)
    except Exception as ex:
        print('TRANSLATE-ERROR live object construction failed: %r' % (ex,))
        manifest['errors'].append('live object: %r' % (ex,))
        put('gen_manifest.json', json.dumps(manifest, indent=1))
        return 2
    kinds['order'] = 'strvar'
    manifest['kinds'] = kinds
    byfile = {}
    for relfile, fn, variant, dec, params, cls in programs(kinds):
        pname = fn.lstrip('_') + ('_' + variant if variant else '')
        try:
            def hook(it, params=params):
                pass
            it = translate_function(a.repo, relfile, fn, kinds, dec, params=dict(params), cls=cls)
            if hasattr(it, 'finish'):
                it.finish()
        except TranslateError as ex:
            print('TRANSLATE-ERROR %s' % ex)
            manifest['errors'].append(str(ex))
            continue
        except Exception as ex:
            tb = traceback.format_exc().strip().splitlines()[-3:]
            print('TRANSLATE-ERROR %s %s: internal %r %s' % (relfile, fn, ex, ' | '.join(tb)))
            manifest['errors'].append('%s %s: internal %r' % (relfile, fn, ex))
            continue
        byfile.setdefault(fn.lstrip('_'), []).append((pname, it))
        for xn, xp in getattr(it, 'extra_programs', {}).items():
            class _X: pass
            x = _X(); x.prog = xp
            byfile[fn.lstrip('_')].append((xn, x))
            manifest['programs'][xn] = {'file': relfile, 'function': fn, 'variant': 'term', 'inputs': dict(sorted(free_vars(xp, {}).items())), 'outputs': [], 'final_name': {},
                                        'last_version': {}, 'bindings': [n for n, _ in xp], 'kinds_of_bindings': {n: e.kind for n, e in xp},
                                        'calls': [], 'decisions': {}, 'solves': {}, 'nodes': sum(expr_size(e) for _, e in xp), 'auxiliary': True}
        # inputs in order of first use is not needed; sort for stability
        manifest['programs'][pname] = {
            'file': relfile, 'function': fn, 'variant': variant,
            'inputs': dict(sorted(free_vars(it.prog, it.inputs).items())),
            'outputs': list(dict.fromkeys(it.outputs)),
            'final_name': dict(it.final_name),
            'last_version': {k: (k if v == 1 else '%s#%d' % (k, v)) for k, v in it.versions.items()},
            'bindings': [n for n, _ in it.prog],
            'kinds_of_bindings': {n: e.kind for n, e in it.prog},
            'calls': it.calls, 'decisions': {k: v for k, v in dec.items()},
            'solves': it.aux_progs, 'facts': getattr(it, 'facts', {}),
            'nodes': sum(expr_size(e) for _, e in it.prog),
        }
    for fn, items in byfile.items():
        mod = 'G_' + fn
        txt = '(* GENERATED by tools/gen.py from the repository working tree -- do not edit *)\n'
        txt += 'From Coq Require Import String List QArith.\nFrom QSC Require Import Expr.\nImport ListNotations.\nOpen Scope string_scope.\n\n'
        for pname, it in items:
            txt += coq_prog(pname, it.prog) + '\n'
        put(mod + '.v', txt)
    # facts recognised in irregular code (source text of boolean expressions, loop bodies ...) as Coq strings, so that proofs can pin them
    ftxt = '(* GENERATED by tools/gen.py -- source-text facts recognised by the translator *)\nFrom Coq Require Import String.\nOpen Scope string_scope.\n\n'
    for pname, info in sorted(manifest['programs'].items()):
        for k, v in sorted((info.get('facts') or {}).items()):
            if isinstance(v, str):
                ftxt += 'Definition fact_%s_%s : string := "%s".\n' % (pname, k, v.replace('"', '""'))
    put('G_facts.v', ftxt)
    put('gen_manifest.json', json.dumps(manifest, indent=1))
    own = ('G_effects.v', 'G_obj.v', 'effects_manifest.json', 'obj_manifest.json', 'G_pins.v')   # written by gen_eff.py / gen_obj.py / gen_pins.py
    for f in os.listdir(a.out):
        if (f.startswith('G_') and f.endswith('.v') or f == 'gen_manifest.json') and f not in written and f not in own:
            os.remove(os.path.join(a.out, f))
    print('gen: %d programs, %d errors' % (len(manifest['programs']), len(manifest['errors'])))
    return 2 if manifest['errors'] else 0


if __name__ == '__main__':
    sys.exit(main())
