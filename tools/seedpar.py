#!/usr/bin/env python3
"""seedpar.py [-j K] [--own] [seed ids...]: run tools/seedtest.py on many seeded changes in parallel.

Each of the K workers gets a private copy of /verif (with its compiled files: the stamps are content hashes, so they stay valid) and a private scratch
worktree of /repo (outside /repo and /verif), so /repo itself and /verif's generated model are never touched; the meta.json files the workers write are
copied back to /verif/seeded/<id>/ and everything scratch is removed at the end."""
import os, sys, json, subprocess, shutil, time
from concurrent.futures import ThreadPoolExecutor
ROOT = os.path.dirname(os.path.dirname(os.path.abspath(__file__)))
BASE = '/tmp/vpar'


def sh(cmd, **kw):
    return subprocess.run(cmd, shell=True, capture_output=True, text=True, **kw)


def worker(k, ids, flags):
    d = os.path.join(BASE, str(k))
    shutil.rmtree(d, ignore_errors=True)
    os.makedirs(d)
    v, r = os.path.join(d, 'verif'), os.path.join(d, 'repo')
    sh('rsync -a --exclude .git --exclude work --exclude evidence %s/ %s/' % (ROOT, v))
    os.makedirs(os.path.join(v, 'work'), exist_ok=True)
    sh('git -C /repo worktree remove --force %s' % r)
    p = sh('git -C /repo worktree add -q --detach %s HEAD' % r)
    if p.returncode != 0:
        return k, 'worktree failed: ' + p.stderr
    env = dict(os.environ, VERIF_REPO=r, PYTHONPATH=r, VERIF_SEED=os.environ.get('VERIF_SEED', '1'))
    log = open(os.path.join(ROOT, 'work', 'seedpar_%d.log' % k), 'w')
    try:
        subprocess.run(['python3', os.path.join(v, 'tools', 'seedtest.py')] + ids + flags, env=env, stdout=log, stderr=subprocess.STDOUT, cwd=v)
        for sid in ids:
            src = os.path.join(v, 'seeded', sid, 'meta.json')
            if os.path.exists(src):
                shutil.copy(src, os.path.join(ROOT, 'seeded', sid, 'meta.json'))
        # replay files referenced by the violation lines are kept for inspection
        rp = os.path.join(v, 'work', 'replays')
        if os.path.isdir(rp):
            os.makedirs(os.path.join(ROOT, 'work', 'replays'), exist_ok=True)
            for f in os.listdir(rp):
                shutil.copy(os.path.join(rp, f), os.path.join(ROOT, 'work', 'replays', f))
    finally:
        log.close()
        sh('git -C /repo worktree remove --force %s' % r)
        shutil.rmtree(d, ignore_errors=True)
    return k, 'done'


def main():
    K = 4
    args = sys.argv[1:]
    if '-j' in args:
        i = args.index('-j'); K = int(args[i + 1]); del args[i:i + 2]
    flags = [a for a in args if a.startswith('--')]
    ids = [a for a in args if not a.startswith('--')] or sorted(s for s in os.listdir(os.path.join(ROOT, 'seeded')) if os.path.isdir(os.path.join(ROOT, 'seeded', s)))
    # longest first (C01, C10 rebuild minutes of proofs), round-robin over the workers
    heavy = {'C01': 0, 'C10': 0, 'C12': 1, 'C11': 1, 'C04': 1, 'C09': 2}
    ids.sort(key=lambda s: (heavy.get(s.split('_')[0], 3), s))
    parts = [ids[k::K] for k in range(K)]
    t0 = time.time()
    with ThreadPoolExecutor(K) as ex:
        for k, msg in ex.map(lambda kv: worker(kv[0], kv[1], flags), [(k, p) for k, p in enumerate(parts) if p]):
            print('worker', k, msg)
    sh('git -C /repo worktree prune')
    print('seedpar: %d seeds in %.0f s' % (len(ids), time.time() - t0))


if __name__ == '__main__':
    main()
