"""Minimal parallel Coq build used by the checks (full .vo builds, never -vos)."""
import os, subprocess, time, re, fcntl, hashlib, json
from concurrent.futures import ThreadPoolExecutor

ROOT = os.path.dirname(os.path.dirname(os.path.abspath(__file__)))
COQ = os.path.join(ROOT, 'coq')
QFLAGS = ['-Q', 'theories', 'QSC', '-Q', 'gen', 'QSCGen', '-Q', 'gprops', 'QSCGProps', '-Q', 'props', 'QSCProps']
THEORIES = ['Expr', 'FloatEval', 'Equiv', 'Dim', 'Sign', 'Shift', 'Replicate', 'Shallow', 'Pipeline', 'Series', 'DiffMat', 'Quadrant', 'Newton', 'Bracket', 'RootSelect', 'ObjModel', 'Effects', 'TrigSum', 'VmecEmit', 'DiffKernel', 'InterpKernel', 'EvenKernel', 'Winding', 'FloatOrder', 'NewtonConv', 'SpectralConv', 'SecondOrder']
FORBIDDEN = re.compile(r'\b(Admitted|admit|Axiom|Axioms|Parameter|Parameters|Conjecture|Hypothesis\s|Variable\s)|Unset\s+Guard|bypass_check|type-in-type|impredicative-set|Admit\s+Obligations')
ALLOWED_AXIOMS = {
    'ClassicalDedekindReals.sig_not_dec', 'ClassicalDedekindReals.sig_forall_dec',
    'FunctionalExtensionality.functional_extensionality_dep',
    # the same three standard-library axioms, as printed when the declaring module is imported
    'functional_extensionality_dep', 'sig_not_dec', 'sig_forall_dec',
}
# specification axioms of the primitive floats declared by the standard library (Coq.Floats.FloatAxioms); they are used ONLY by
# theories/FloatOrder.v (IEEE order laws for PrimFloat.ltb / leb) and, in its RealSemantics module, together with Classical_Prop.classic (via Flocq / Reals)
FLOAT_AXIOMS = {'FloatAxioms.ltb_spec', 'FloatAxioms.leb_spec', 'FloatAxioms.eqb_spec', 'FloatAxioms.abs_spec', 'FloatAxioms.Prim2SF_valid', 'FloatAxioms.SF2Prim_Prim2SF', 'FloatAxioms.Prim2SF_SF2Prim',
                'ltb_spec', 'leb_spec', 'eqb_spec', 'abs_spec', 'Prim2SF_valid', 'SF2Prim_Prim2SF', 'Prim2SF_SF2Prim', 'Classical_Prop.classic', 'classic'}
# Coq's primitive machine floats / integers are reported by Print Assumptions under "Axioms:" although they are kernel primitives, not
# declared axioms; they only occur in the PrimFloat instances of the hand-written control models (used for the correspondence checks)
PRIMITIVES = {'float', 'int', 'ltb', 'leb', 'eqb', 'add', 'sub', 'mul', 'div', 'sqrt', 'abs', 'opp', 'of_uint63', 'normfr_mantissa', 'frshiftexp',
              'ldshiftexp', 'next_up', 'next_down', 'classify', 'compare',
              'PrimFloat.float', 'PrimFloat.ltb', 'PrimFloat.leb', 'PrimFloat.eqb', 'PrimFloat.add', 'PrimFloat.sub', 'PrimFloat.mul', 'PrimFloat.div',
              'PrimFloat.sqrt', 'PrimFloat.abs', 'PrimFloat.opp', 'Uint63.int', 'PrimInt63.int',
              'land', 'lsr', 'lor', 'lsl', 'PrimInt63.eqb', 'PrimInt63.land', 'PrimInt63.lsr', 'PrimInt63.lor', 'PrimInt63.lsl', 'PrimInt63.sub', 'PrimInt63.add',
              'PrimFloat.frshiftexp', 'PrimFloat.normfr_mantissa', 'PrimFloat.ldshiftexp', 'PrimFloat.of_uint63'}


class Lock:
    def __init__(self):
        self.f = open(os.path.join(ROOT, '.build.lock'), 'w')

    def __enter__(self):
        fcntl.flock(self.f, fcntl.LOCK_EX)
        return self

    def __exit__(self, *a):
        fcntl.flock(self.f, fcntl.LOCK_UN)
        self.f.close()


def sha(path):
    return hashlib.sha256(open(path, 'rb').read()).hexdigest()


def coqc(vfile, timeout=900):
    """compile one file (path relative to coq/); returns (ok, output, seconds)"""
    t = time.time()
    try:
        p = subprocess.run(['coqc'] + QFLAGS + [vfile], cwd=COQ, capture_output=True, text=True, timeout=timeout)
        ok, out = p.returncode == 0, p.stdout + p.stderr
    except subprocess.TimeoutExpired:
        ok, out = False, 'TIMEOUT after %ds' % timeout
    return ok, out, time.time() - t


def deps_hash(vfile):
    """hash of the file and of everything it Requires from this project (transitively, by name)"""
    seen, stack, h = set(), [vfile], hashlib.sha256()
    while stack:
        f = stack.pop()
        if f in seen:
            continue
        seen.add(f)
        p = os.path.join(COQ, f)
        if not os.path.exists(p):
            h.update(b'missing:' + f.encode())
            continue
        src = open(p).read()
        h.update(f.encode()); h.update(src.encode())
        for m in re.finditer(r'From\s+(QSC|QSCGen|QSCGProps|QSCProps)\s+Require\s+(?:Import|Export)?\s*([^.]*)\.', src):
            d = {'QSC': 'theories', 'QSCGen': 'gen', 'QSCGProps': 'gprops', 'QSCProps': 'props'}[m.group(1)]
            for mod in m.group(2).split():
                stack.append('%s/%s.v' % (d, mod))
    return h.hexdigest()


def up_to_date(vfile):
    vo = os.path.join(COQ, vfile[:-2] + '.vo')
    st = os.path.join(COQ, vfile[:-2] + '.stamp')
    if not (os.path.exists(vo) and os.path.exists(st)):
        return False
    try:
        rec = json.load(open(st))
    except Exception:
        return False
    return rec.get('hash') == deps_hash(vfile)


def build_one(vfile, force=False, timeout=900):
    """returns dict(file, ok, out, secs, cached)"""
    st = os.path.join(COQ, vfile[:-2] + '.stamp')
    if not force and up_to_date(vfile):
        rec = json.load(open(st))
        return dict(file=vfile, ok=True, out=rec.get('out', ''), secs=0.0, cached=True)
    for ext in ('.vo', '.stamp'):
        try:
            os.remove(os.path.join(COQ, vfile[:-2] + ext))
        except FileNotFoundError:
            pass
    ok, out, secs = coqc(vfile, timeout)
    if ok:
        json.dump({'hash': deps_hash(vfile), 'out': out}, open(st, 'w'))
    return dict(file=vfile, ok=ok, out=out, secs=secs, cached=False)


def build_theories(only=None):
    res = []
    for t in THEORIES:
        if only is not None and t not in only:
            continue
        f = 'theories/%s.v' % t
        if not os.path.exists(os.path.join(COQ, f)):
            continue
        r = build_one(f)
        res.append(r)
        if not r['ok']:
            break
    return res


def build_many(vfiles, jobs=16, timeout=900):
    with ThreadPoolExecutor(max_workers=jobs) as ex:
        return list(ex.map(lambda f: build_one(f, timeout=timeout), vfiles))


def axioms_of(out):
    """names listed under 'Axioms:' in Print Assumptions output.  An entry is `name : type` on one line, or `name` followed by a
    continuation line indented by exactly two spaces (`  : type`); anything else (e.g. the output of a later Check, which indents
    by five spaces) ends the block."""
    names = set()
    lines = out.splitlines()
    i = 0
    while i < len(lines):
        if lines[i].strip() == 'Axioms:':
            i += 1
            while i < len(lines):
                ln = lines[i]
                m1 = re.match(r'^([A-Za-z_][\w.\']*) : ', ln)
                m2 = re.match(r'^([A-Za-z_][\w.\']*)$', ln)
                if m1:
                    names.add(m1.group(1)); i += 1
                elif m2 and i + 1 < len(lines) and re.match(r'^  : ', lines[i + 1]):
                    names.add(m2.group(1)); i += 2
                elif ln.startswith('  ') and not ln.startswith('     :'):
                    i += 1   # continuation of a type
                else:
                    break
        else:
            i += 1
    return names


def closed_count(out):
    return len(re.findall(r'Closed under the global context', out))


def grep_gate():
    """reject forbidden vernacular anywhere in the hand-written or generated development.
    Variable / Hypothesis / Context are accepted only INSIDE a Section (they are discharged when
    the section closes and appear as explicit premises); Print Assumptions is the final arbiter."""
    bad = []
    for d in ('theories', 'props', 'gen', 'gprops'):
        p = os.path.join(COQ, d)
        if not os.path.isdir(p):
            continue
        for f in sorted(os.listdir(p)):
            if not f.endswith('.v'):
                continue
            src = open(os.path.join(p, f)).read()
            src = re.sub(r'\(\*.*?\*\)', '', src, flags=re.S)
            depth = 0
            for sent in re.split(r'\.\s', src):
                st = sent.strip()
                if re.match(r'^(Section|Module)\s+\w+', st) and ':=' not in st:
                    depth += 1
                elif re.match(r'^End\s+\w+', st):
                    depth = max(0, depth - 1)
                for m in FORBIDDEN.finditer(sent):
                    w = m.group(0).strip()
                    if w in ('Variable', 'Hypothesis') and depth > 0:
                        continue
                    bad.append('%s/%s: %s' % (d, f, w))
    return bad


def modname(vfile):
    d, f = vfile.split('/', 1)
    return {'theories': 'QSC', 'gen': 'QSCGen', 'gprops': 'QSCGProps', 'props': 'QSCProps'}[d] + '.' + f[:-2]


def coqchk(vfiles, timeout=3000):
    """independent re-check of compiled obligations and everything they depend on; returns (ok, axioms, tail of output)"""
    mods = [modname(f) for f in vfiles]
    t = time.time()
    try:
        p = subprocess.run(['coqchk', '-silent', '-o'] + QFLAGS + mods, cwd=COQ, capture_output=True, text=True, timeout=timeout)
    except subprocess.TimeoutExpired:
        return False, set(), 'coqchk TIMEOUT', time.time() - t
    out = p.stdout + p.stderr
    axioms = set()
    m = re.search(r'\* Axioms:(.*?)(?:\n\* |\Z)', out, flags=re.S)
    if m:
        for ln in m.group(1).splitlines():
            ln = ln.strip()
            if ln and ln != '<none>':
                axioms.add(ln)
    return p.returncode == 0, axioms, out[-1500:], time.time() - t
