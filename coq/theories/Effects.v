(* ------------------------------------------------------------------------- *)
(*  Effects.v : a verified read-only-effect checker for pyQSC methods (C17)   *)
(*                                                                           *)
(*  Property C17: calling any evaluation / plotting / export / optional      *)
(*  diagnostic method of a Qsc object, in any order and any number of times, *)
(*  leaves every previously computed output bit-for-bit unchanged (methods   *)
(*  may only ADD new attributes).                                            *)
(*                                                                           *)
(*  A Python front-end summarises each method as a list of [stmt] (the       *)
(*  effect IR below).  This file gives                                       *)
(*    1. the IR,                                                             *)
(*    2. a relational semantics on an abstract heap,                         *)
(*    3. a boolean (option-valued) checker by abstract interpretation,       *)
(*    4. soundness: accepted methods / sequences of methods never re-bind a  *)
(*       protected attribute and never change the version stamp of an object *)
(*       that shares memory with a protected attribute's object.             *)
(*  Only List Arith Lia Bool String are used: no axioms.                     *)
(*                                                                           *)
(*  MODELLING DECISIONS (all of them; see also the comments in place)        *)
(*  M1  Locations are [nat].  An object is a location.  [share s l] is the   *)
(*      ROOT of the memory block the object l lives in: a freshly allocated  *)
(*      array is its own root; a view (slice / transpose / reshape) of l0 is *)
(*      a NEW location whose root is the root of l0 (path-compressed, so one *)
(*      step of [share] reaches the root; [wf] demands share o share = share *)
(*      on allocated locations).  Two objects share memory iff they have the *)
(*      same root.                                                           *)
(*  M2  [heap s l] is the version stamp of the object at l (bit-for-bit      *)
(*      unchanged = same stamp).  An in-place write through l may change     *)
(*      the stamp of EVERY location with the same root as l to ARBITRARY     *)
(*      values (this subsumes: a value never seen before), and changes no    *)
(*      other stamp.  This is the only source of nondeterminism, hence the   *)
(*      relational semantics.                                                *)
(*  M3  Allocation is the bump allocator [next]; it does not touch [heap]    *)
(*      (the stamp of a never-referenced location is irrelevant).            *)
(*  M4  The semantics is TOTAL on lookups: reading an unbound local or an    *)
(*      unset attribute yields a fresh object (it stands for a parameter, a  *)
(*      global, a module constant: something disjoint from the protected     *)
(*      objects), a view of an unbound name is a fresh object, an in-place   *)
(*      store through an unbound name writes nowhere.  So every IR program   *)
(*      has executions and the soundness theorem is never vacuous because of *)
(*      a binding the front-end forgot.  FRONT-END OBLIGATIONS that follow:  *)
(*      (a) a parameter that a caller may bind to an attribute's object must *)
(*          be emitted as [Bind p (AttrOf a)] in the callee's prologue;      *)
(*      (b) a result of [self.m(..)] or of an external function that may     *)
(*          alias its argument/attribute must be emitted as VarOf/ViewOfVar/ *)
(*          AttrOf/ViewOfAttr, not as Fresh;                                 *)
(*      (c) the checker is for STRAIGHT-LINE code and does strong updates    *)
(*          ([x = Fresh] untaints x).  For an if/else the front-end emits    *)
(*          both branches in sequence but must NOT emit an untainting Bind   *)
(*          or SetAttr that is only executed conditionally (dropping such a  *)
(*          statement is conservative: the name keeps its taint);            *)
(*      (d) a loop body must be emitted k+1 times, k = number of names bound *)
(*          in the body (taint may need k rounds to propagate backwards,     *)
(*          e.g.  for ..: x[0] = 1; x = y; y = self.B20 ).                   *)
(*  M5  [SetAttr a r] re-binds the attribute; the old object is not touched. *)
(*  M6  [CallSelf m] runs the body found in the table in a FRESH local map   *)
(*      and restores the caller's locals afterwards.  Arguments/results are  *)
(*      not modelled (see M4 a,b).  An unknown callee has no execution in    *)
(*      the semantics and is REJECTED by the checker.  [fuel] bounds the     *)
(*      call nesting depth of an execution; the checker has its own bound    *)
(*      [depth] (use [length T]) and rejects when it is exhausted, hence it  *)
(*      rejects recursion.  Soundness holds for every fuel.                  *)
(*  M7  [PassVar x false] = [StoreVar x];  [PassVar x true] = no effect.     *)
(*  M8  The checker tracks two may-alias sets: tainted locals [tv] (per      *)
(*      frame) and tainted attributes [ta] (threaded PERSISTENTLY through    *)
(*      the whole call sequence, initially = protected).  x tainted means:   *)
(*      x may refer to an object sharing memory with a protected             *)
(*      attribute's object.  Re-binding a name to an untainted value         *)
(*      removes it from the set (strong update), except that protected       *)
(*      attributes can never be re-bound at all.                             *)
(*  M9  Exceptions are not modelled as such, but the checker accepts every    *)
(*      prefix of an accepted body ([check_stmts_prefix]), so a top-level    *)
(*      body aborted after any statement is covered by E1 as well.           *)
(* ------------------------------------------------------------------------- *)

From Coq Require Import List Arith Lia Bool String.
Import ListNotations.
Open Scope string_scope.
Open Scope list_scope.

(* ========================================================================= *)
(** * 1. The effect IR                                                       *)
(* ========================================================================= *)

Inductive rhs : Type :=
| Fresh                        (* newly allocated array / scalar *)
| AttrOf (a : string)          (* self.a *)
| VarOf (x : string)           (* another local *)
| ViewOfAttr (a : string)      (* slice / transpose / reshape of self.a *)
| ViewOfVar (x : string).      (* slice / transpose / reshape of a local *)

Inductive stmt : Type :=
| Bind (x : string) (r : rhs)          (* x = r *)
| SetAttr (a : string) (r : rhs)       (* self.a = r *)
| StoreVar (x : string)                (* x[...] = v, x += v, x.sort() *)
| StoreAttr (a : string)               (* self.a[...] = v, self.a += v *)
| CallSelf (m : string)                (* self.m(...) *)
| PassVar (x : string) (pure : bool).  (* f(x); pure = f does not write through x *)

Definition method := list stmt.
Definition table := list (string * method).

Fixpoint lookup (T : table) (f : string) : option method :=
  match T with
  | [] => None
  | (g, body) :: T' => if String.eqb f g then Some body else lookup T' f
  end.

(* ========================================================================= *)
(** * 2. Abstract heap and relational semantics                              *)
(* ========================================================================= *)

Definition loc := nat.

Record state : Type := mkState {
  attrs : string -> option loc;   (* which object each attribute refers to *)
  vars  : string -> option loc;   (* which object each local refers to     *)
  heap  : loc -> nat;             (* version stamp of each object          *)
  next  : loc;                    (* bump allocator                        *)
  share : loc -> loc              (* root of the memory block of an object *)
}.

Definition no_vars : string -> option loc := fun _ => None.

Definition upd (f : string -> option loc) (x : string) (l : loc)
  : string -> option loc :=
  fun y => if String.eqb y x then Some l else f y.

Definition set_var (x : string) (l : loc) (s : state) : state :=
  mkState (attrs s) (upd (vars s) x l) (heap s) (next s) (share s).
Definition set_attr (a : string) (l : loc) (s : state) : state :=
  mkState (upd (attrs s) a l) (vars s) (heap s) (next s) (share s).
Definition set_heap (h : loc -> nat) (s : state) : state :=
  mkState (attrs s) (vars s) h (next s) (share s).
Definition set_vars (v : string -> option loc) (s : state) : state :=
  mkState (attrs s) v (heap s) (next s) (share s).
Definition clear_vars (s : state) : state := set_vars no_vars s.

(* Allocate location [next s].  [base = None]: a fresh block (its own root);
   [base = Some b]: a view of b (same root as b). *)
Definition alloc (base : option loc) (s : state) : state :=
  mkState (attrs s) (vars s) (heap s) (S (next s))
          (fun l => if Nat.eqb l (next s)
                    then match base with Some b => share s b | None => next s end
                    else share s l).

(* Evaluation of a right-hand side is deterministic: the object it denotes and
   the state after the allocation it may have performed (M4: total). *)
Definition eval_rhs (r : rhs) (s : state) : loc * state :=
  match r with
  | Fresh => (next s, alloc None s)
  | AttrOf a => match attrs s a with
                | Some l => (l, s)
                | None => (next s, alloc None s)
                end
  | VarOf x => match vars s x with
               | Some l => (l, s)
               | None => (next s, alloc None s)
               end
  | ViewOfAttr a => (next s, alloc (attrs s a) s)
  | ViewOfVar x => (next s, alloc (vars s x) s)
  end.

(* In-place write through (the object denoted by) [o] (M2). *)
Definition may_write (o : option loc) (s : state) (l' : loc) : Prop :=
  match o with
  | Some l => share s l' = share s l
  | None => False
  end.

Definition write (o : option loc) (s s' : state) : Prop :=
  exists h, (forall l', ~ may_write o s l' -> h l' = heap s l') /\ s' = set_heap h s.

(* Big-step execution of a statement list.  [fuel] = allowed call nesting. *)
Inductive exec (T : table) : nat -> method -> state -> state -> Prop :=
| ExNil : forall n s, exec T n [] s s
| ExBind : forall n x r m s s',
    exec T n m (set_var x (fst (eval_rhs r s)) (snd (eval_rhs r s))) s' ->
    exec T n (Bind x r :: m) s s'
| ExSetAttr : forall n a r m s s',
    exec T n m (set_attr a (fst (eval_rhs r s)) (snd (eval_rhs r s))) s' ->
    exec T n (SetAttr a r :: m) s s'
| ExStoreVar : forall n x m s s1 s',
    write (vars s x) s s1 -> exec T n m s1 s' ->
    exec T n (StoreVar x :: m) s s'
| ExStoreAttr : forall n a m s s1 s',
    write (attrs s a) s s1 -> exec T n m s1 s' ->
    exec T n (StoreAttr a :: m) s s'
| ExCall : forall n f body m s s1 s',
    lookup T f = Some body ->
    exec T n body (clear_vars s) s1 ->              (* fresh frame *)
    exec T (S n) m (set_vars (vars s) s1) s' ->     (* caller's frame restored *)
    exec T (S n) (CallSelf f :: m) s s'
| ExPassPure : forall n x m s s',
    exec T n m s s' ->
    exec T n (PassVar x true :: m) s s'
| ExPassImpure : forall n x m s s1 s',
    write (vars s x) s s1 -> exec T n m s1 s' ->
    exec T n (PassVar x false :: m) s s'.

(* A sequence of top-level method calls on the same object; each call gets a
   fresh frame, and the frame is dropped when the call returns. *)
Inductive run_sequence (T : table) (fuel : nat)
  : list string -> state -> state -> Prop :=
| RunNil : forall s, run_sequence T fuel [] s s
| RunCons : forall f body rest s s1 s2,
    lookup T f = Some body ->
    exec T fuel body (clear_vars s) s1 ->
    run_sequence T fuel rest (clear_vars s1) s2 ->
    run_sequence T fuel (f :: rest) s s2.

(* ========================================================================= *)
(** * 3. The checker                                                         *)
(* ========================================================================= *)

Fixpoint mem (x : string) (l : list string) : bool :=
  match l with
  | [] => false
  | y :: l' => if String.eqb x y then true else mem x l'
  end.

Definition remove_str (x : string) (l : list string) : list string :=
  filter (fun y => negb (String.eqb y x)) l.

(* may the value of [r] alias a protected object? *)
Definition rhs_tainted (ta tv : list string) (r : rhs) : bool :=
  match r with
  | Fresh => false
  | AttrOf a | ViewOfAttr a => mem a ta
  | VarOf x | ViewOfVar x => mem x tv
  end.

(* [P] = protected attributes; [callee f ta] = check the method named f from
   tainted attributes ta; ta = tainted attributes, tv = tainted locals;
   result = new tainted attributes, or None = rejected. *)
Fixpoint check_stmts (P : list string)
         (callee : string -> list string -> option (list string))
         (m : method) (ta tv : list string) {struct m}
  : option (list string) :=
  match m with
  | [] => Some ta
  | Bind x r :: m' =>
      check_stmts P callee m' ta
        (if rhs_tainted ta tv r then x :: tv else remove_str x tv)
  | SetAttr a r :: m' =>
      if mem a P then None
      else check_stmts P callee m'
             (if rhs_tainted ta tv r then a :: ta else remove_str a ta) tv
  | StoreVar x :: m' =>
      if mem x tv then None else check_stmts P callee m' ta tv
  | StoreAttr a :: m' =>
      if mem a ta then None else check_stmts P callee m' ta tv
  | CallSelf f :: m' =>
      match callee f ta with
      | None => None
      | Some ta1 => check_stmts P callee m' ta1 tv
      end
  | PassVar x pure :: m' =>
      if pure then check_stmts P callee m' ta tv
      else if mem x tv then None else check_stmts P callee m' ta tv
  end.

(* check a call of the method named f, allowing [depth] nested call levels *)
Fixpoint check_call (T : table) (P : list string) (depth : nat)
         (f : string) (ta : list string) : option (list string) :=
  match depth with
  | 0 => None
  | S d =>
      match lookup T f with
      | None => None
      | Some body => check_stmts P (check_call T P d) body ta []
      end
  end.

(* check a method body whose calls may nest [depth] levels deep *)
Definition check_method (T : table) (protected : list string) (depth : nat)
           (tainted_attrs : list string) (m : method) : option (list string) :=
  check_stmts protected (check_call T protected depth) m tainted_attrs [].

Fixpoint check_sequence (T : table) (protected : list string) (depth : nat)
         (tainted_attrs : list string) (names : list string)
  : option (list string) :=
  match names with
  | [] => Some tainted_attrs
  | f :: rest =>
      match lookup T f with
      | None => None
      | Some body =>
          match check_method T protected depth tainted_attrs body with
          | None => None
          | Some ta' => check_sequence T protected depth ta' rest
          end
      end
  end.

(* the entry point meant for the generator: depth = |T|, tainted = protected *)
Definition check_calls (T : table) (protected : list string)
           (names : list string) : option (list string) :=
  check_sequence T protected (List.length T) protected names.

Definition accepts (T : table) (protected : list string)
           (names : list string) : bool :=
  match check_calls T protected names with Some _ => true | None => false end.

(* ========================================================================= *)
(** * 4. Invariant                                                           *)
(* ========================================================================= *)

(* l shares memory with the object of some protected attribute *)
Definition guarded (P : list string) (s : state) (l : loc) : Prop :=
  exists a p, In a P /\ attrs s a = Some p /\ share s l = share s p.

Record wf (s : state) : Prop := mkWf {
  wf_attrs : forall a l, attrs s a = Some l -> l < next s;
  wf_vars  : forall x l, vars s x = Some l -> l < next s;
  wf_share : forall l, l < next s -> share s l < next s;
  wf_idem  : forall l, l < next s -> share s (share s l) = share s l
}.

(* every object sharing memory with a protected attribute's object is only
   referenced by tainted attributes [ta] and tainted locals [tv] *)
Definition Inv (P ta tv : list string) (s : state) : Prop :=
  wf s /\
  incl P ta /\
  (forall b l, attrs s b = Some l -> guarded P s l -> In b ta) /\
  (forall x l, vars s x = Some l -> guarded P s l -> In x tv).

(* what an accepted execution preserves (frame condition) *)
Definition pres (P : list string) (s s' : state) : Prop :=
  next s <= next s' /\
  (forall l, l < next s -> share s' l = share s l) /\
  (forall a, In a P -> attrs s' a = attrs s a) /\
  (forall l, l < next s -> guarded P s l -> heap s' l = heap s l).

(* the user-facing form of the conclusion *)
Definition protected_unchanged (P : list string) (s s' : state) : Prop :=
  (forall a, In a P -> attrs s' a = attrs s a) /\
  (forall a p, In a P -> attrs s a = Some p ->
     share s' p = share s p /\
     heap s' p = heap s p /\
     share s' (share s p) = share s p /\
     heap s' (share s p) = heap s (share s p)).

(* ========================================================================= *)
(** * 5. Lemmas                                                              *)
(* ========================================================================= *)

Ltac splits := repeat match goal with |- _ /\ _ => split end.

Lemma mem_In : forall x l, mem x l = true <-> In x l.
Proof.
  induction l as [|y l IH]; simpl.
  - split; [discriminate | tauto].
  - destruct (String.eqb x y) eqn:E.
    + apply String.eqb_eq in E. subst. tauto.
    + apply String.eqb_neq in E. rewrite IH. split.
      * auto.
      * intros [H|H]; [congruence | assumption].
Qed.

Lemma mem_false : forall x l, mem x l = false -> ~ In x l.
Proof.
  intros x l H HI. apply mem_In in HI. congruence.
Qed.

Lemma remove_str_In : forall y x l, In y (remove_str x l) <-> In y l /\ y <> x.
Proof.
  intros. unfold remove_str. rewrite filter_In.
  destruct (String.eqb y x) eqn:E; simpl.
  - apply String.eqb_eq in E. subst. split; [intros [_ H]; discriminate | tauto].
  - apply String.eqb_neq in E. tauto.
Qed.

Lemma pres_refl : forall P s, pres P s s.
Proof. unfold pres; auto. Qed.

Lemma guarded_pres : forall P s s' l,
  wf s -> pres P s s' -> l < next s -> (guarded P s' l <-> guarded P s l).
Proof.
  intros P s s' l W (Hn & Hs & Ha & Hh) Hl. split.
  - intros (a & p & HaP & Hp & Hsh). exists a, p.
    rewrite (Ha a HaP) in Hp.
    pose proof (wf_attrs s W a p Hp) as Hlt.
    rewrite (Hs l Hl), (Hs p Hlt) in Hsh. auto.
  - intros (a & p & HaP & Hp & Hsh). exists a, p.
    pose proof (wf_attrs s W a p Hp) as Hlt.
    rewrite (Ha a HaP), (Hs l Hl), (Hs p Hlt). auto.
Qed.

Lemma pres_trans : forall P s s1 s2,
  wf s -> pres P s s1 -> pres P s1 s2 -> pres P s s2.
Proof.
  intros P s s1 s2 W H1 H2.
  pose proof H1 as (Hn1 & Hs1 & Ha1 & Hh1).
  pose proof H2 as (Hn2 & Hs2 & Ha2 & Hh2).
  unfold pres. splits.
  - lia.
  - intros l Hl. rewrite Hs2 by lia. auto.
  - intros a Ha. rewrite Ha2 by auto. auto.
  - intros l Hl Hg. rewrite Hh2.
    + auto.
    + lia.
    + apply (guarded_pres P s s1 l W H1 Hl). exact Hg.
Qed.

Lemma pres_protected_unchanged : forall P s s',
  wf s -> pres P s s' -> protected_unchanged P s s'.
Proof.
  intros P s s' W (Hn & Hs & Ha & Hh). split; [exact Ha|].
  intros a p HaP Hp.
  pose proof (wf_attrs s W a p Hp) as Hlt.
  pose proof (wf_share s W p Hlt) as Hlt2.
  assert (G1 : guarded P s p) by (exists a, p; auto).
  assert (G2 : guarded P s (share s p)).
  { exists a, p. splits; auto. apply (wf_idem s W p Hlt). }
  splits.
  - apply Hs; auto.
  - apply Hh; auto.
  - rewrite Hs by auto. apply (wf_idem s W p Hlt).
  - apply Hh; auto.
Qed.

(* --- allocation --------------------------------------------------------- *)

Definition base_ok (base : option loc) (s : state) : Prop :=
  forall b, base = Some b -> b < next s.

Lemma alloc_wf : forall base s, wf s -> base_ok base s -> wf (alloc base s).
Proof.
  intros base s W B. constructor; simpl.
  - intros a l H. apply (wf_attrs s W) in H. lia.
  - intros x l H. apply (wf_vars s W) in H. lia.
  - intros l Hl. destruct (Nat.eqb_spec l (next s)) as [E|E].
    + destruct base as [b|].
      * pose proof (wf_share s W b (B b eq_refl)). lia.
      * lia.
    + assert (l < next s) by lia. pose proof (wf_share s W l H). lia.
  - intros l Hl. destruct (Nat.eqb_spec l (next s)) as [E|E].
    + destruct base as [b|].
      * pose proof (wf_share s W b (B b eq_refl)) as Hb.
        destruct (Nat.eqb_spec (share s b) (next s)) as [E2|E2]; [lia|].
        apply (wf_idem s W b (B b eq_refl)).
      * rewrite Nat.eqb_refl. reflexivity.
    + assert (Hl' : l < next s) by lia.
      pose proof (wf_share s W l Hl') as Hb.
      destruct (Nat.eqb_spec (share s l) (next s)) as [E2|E2]; [lia|].
      apply (wf_idem s W l Hl').
Qed.

Lemma alloc_pres : forall P base s, pres P s (alloc base s).
Proof.
  intros P base s. unfold pres; simpl. splits; auto.
  intros l Hl. destruct (Nat.eqb_spec l (next s)); [lia | reflexivity].
Qed.

Lemma alloc_new_guarded : forall P base s,
  wf s -> base_ok base s ->
  guarded P (alloc base s) (next s) ->
  exists b, base = Some b /\ guarded P s b.
Proof.
  intros P base s W B (a & p & HaP & Hp & Hsh). simpl in Hp, Hsh.
  pose proof (wf_attrs s W a p Hp) as Hlt.
  rewrite Nat.eqb_refl in Hsh.
  destruct (Nat.eqb_spec p (next s)) as [E|E]; [lia|].
  destruct base as [b|].
  - exists b. split; auto. exists a, p. auto.
  - pose proof (wf_share s W p Hlt). lia.
Qed.

(* --- right-hand sides --------------------------------------------------- *)

Lemma alloc_case : forall P base s,
  wf s -> base_ok base s ->
  wf (alloc base s) /\
  pres P s (alloc base s) /\
  attrs (alloc base s) = attrs s /\
  vars (alloc base s) = vars s /\
  next s < next (alloc base s) /\
  (guarded P (alloc base s) (next s) -> exists b, base = Some b /\ guarded P s b).
Proof.
  intros P base s W B.
  split; [apply alloc_wf; assumption|].
  split; [apply alloc_pres|].
  split; [reflexivity|].
  split; [reflexivity|].
  split; [simpl; lia|].
  apply alloc_new_guarded; assumption.
Qed.

Lemma eval_rhs_sound : forall P ta tv r s,
  Inv P ta tv s ->
  wf (snd (eval_rhs r s)) /\
  pres P s (snd (eval_rhs r s)) /\
  attrs (snd (eval_rhs r s)) = attrs s /\
  vars (snd (eval_rhs r s)) = vars s /\
  fst (eval_rhs r s) < next (snd (eval_rhs r s)) /\
  (guarded P (snd (eval_rhs r s)) (fst (eval_rhs r s)) ->
   rhs_tainted ta tv r = true).
Proof.
  intros P ta tv r s (W & HP & HA & HV).
  assert (BN : base_ok None s) by (intros b Hb; discriminate).
  destruct (alloc_case P None s W BN) as (F1 & F2 & F3 & F4 & F5 & F6).
  assert (F7 : forall t : bool, guarded P (alloc None s) (next s) -> t = true).
  { intros t G. destruct (F6 G) as (b & Hb & _). discriminate. }
  destruct r as [|a|x|a|x]; simpl.
  - splits; auto.
  - destruct (attrs s a) as [l|] eqn:E; simpl.
    + splits; auto.
      * apply pres_refl.
      * apply (wf_attrs s W a l E).
      * intros G. apply mem_In. apply (HA a l E G).
    + splits; auto.
  - destruct (vars s x) as [l|] eqn:E; simpl.
    + splits; auto.
      * apply pres_refl.
      * apply (wf_vars s W x l E).
      * intros G. apply mem_In. apply (HV x l E G).
    + splits; auto.
  - assert (B : base_ok (attrs s a) s)
      by (intros b Hb; apply (wf_attrs s W a b Hb)).
    destruct (alloc_case P _ s W B) as (A1 & A2 & A3 & A4 & A5 & A6).
    splits; auto.
    intros G. destruct (A6 G) as (b & Hb & Gb).
    apply mem_In. apply (HA a b Hb Gb).
  - assert (B : base_ok (vars s x) s)
      by (intros b Hb; apply (wf_vars s W x b Hb)).
    destruct (alloc_case P _ s W B) as (A1 & A2 & A3 & A4 & A5 & A6).
    splits; auto.
    intros G. destruct (A6 G) as (b & Hb & Gb).
    apply mem_In. apply (HV x b Hb Gb).
Qed.

Lemma Inv_transfer : forall P ta tv s s1,
  Inv P ta tv s -> wf s1 -> pres P s s1 ->
  attrs s1 = attrs s -> vars s1 = vars s -> Inv P ta tv s1.
Proof.
  intros P ta tv s s1 (W & HP & HA & HV) W1 Hp Ea Ev.
  unfold Inv. splits; auto.
  - intros b l Hb G. rewrite Ea in Hb.
    apply (HA b l Hb).
    apply (guarded_pres P s s1 l W Hp (wf_attrs s W b l Hb)). exact G.
  - intros x l Hx G. rewrite Ev in Hx.
    apply (HV x l Hx).
    apply (guarded_pres P s s1 l W Hp (wf_vars s W x l Hx)). exact G.
Qed.

(* --- re-binding a local ------------------------------------------------- *)

Lemma set_var_pres : forall P x l s, pres P s (set_var x l s).
Proof. intros. unfold pres; simpl; auto. Qed.

Lemma set_var_inv : forall P ta tv s x l (t : bool),
  Inv P ta tv s -> l < next s -> (guarded P s l -> t = true) ->
  Inv P ta (if t then x :: tv else remove_str x tv) (set_var x l s).
Proof.
  intros P ta tv s x l t (W & HP & HA & HV) Hl Ht.
  split; [|split; [exact HP|split]].
  - constructor; simpl.
    + apply (wf_attrs s W).
    + intros y l'. unfold upd. destruct (String.eqb y x).
      * intros H; inversion H; subst; auto.
      * apply (wf_vars s W).
    + apply (wf_share s W).
    + apply (wf_idem s W).
  - intros b l' Hb G. apply (HA b l' Hb). exact G.
  - intros y l'. simpl. unfold upd.
    destruct (String.eqb y x) eqn:E.
    + apply String.eqb_eq in E. subst y.
      intros H G. inversion H; subst l'.
      rewrite (Ht G). left; reflexivity.
    + apply String.eqb_neq in E. intros H G.
      pose proof (HV y l' H G) as Hin.
      destruct t.
      * right; exact Hin.
      * apply remove_str_In. auto.
Qed.

(* --- re-binding a non-protected attribute ------------------------------- *)

Lemma upd_other : forall f a l b, b <> a -> upd f a l b = f b.
Proof.
  intros. unfold upd. destruct (String.eqb b a) eqn:E; auto.
  apply String.eqb_eq in E. contradiction.
Qed.

Lemma guarded_set_attr : forall P a l s l',
  ~ In a P -> (guarded P (set_attr a l s) l' <-> guarded P s l').
Proof.
  intros P a l s l' Hn. split; intros (b & p & HbP & Hp & Hsh);
    exists b, p; simpl in *; (split; [exact HbP|split; [|exact Hsh]]).
  - rewrite upd_other in Hp; auto. intros ->; contradiction.
  - rewrite upd_other; auto. intros ->; contradiction.
Qed.

Lemma set_attr_pres : forall P a l s, ~ In a P -> pres P s (set_attr a l s).
Proof.
  intros P a l s Hn. unfold pres; simpl. splits; auto.
  intros b Hb. apply upd_other. intros ->; contradiction.
Qed.

Lemma set_attr_inv : forall P ta tv s a l (t : bool),
  Inv P ta tv s -> ~ In a P -> l < next s -> (guarded P s l -> t = true) ->
  Inv P (if t then a :: ta else remove_str a ta) tv (set_attr a l s).
Proof.
  intros P ta tv s a l t (W & HP & HA & HV) Hn Hl Ht.
  split; [|split; [|split]].
  - constructor; simpl.
    + intros b l'. unfold upd. destruct (String.eqb b a).
      * intros H; inversion H; subst; auto.
      * apply (wf_attrs s W).
    + apply (wf_vars s W).
    + apply (wf_share s W).
    + apply (wf_idem s W).
  - intros b Hb. destruct t.
    + right. apply HP; exact Hb.
    + apply remove_str_In. split; [apply HP; exact Hb|].
      intros ->; contradiction.
  - intros b l' Hb G. apply guarded_set_attr in G; [|exact Hn].
    simpl in Hb. unfold upd in Hb.
    destruct (String.eqb b a) eqn:E.
    + apply String.eqb_eq in E. subst b. inversion Hb; subst l'.
      rewrite (Ht G). left; reflexivity.
    + apply String.eqb_neq in E.
      pose proof (HA b l' Hb G) as Hin.
      destruct t.
      * right; exact Hin.
      * apply remove_str_In. auto.
  - intros x l' Hx G. apply guarded_set_attr in G; [|exact Hn].
    apply (HV x l' Hx G).
Qed.

(* --- in-place writes ---------------------------------------------------- *)

Lemma write_sound : forall P ta tv o s s1,
  Inv P ta tv s ->
  (forall w, o = Some w -> ~ guarded P s w) ->
  write o s s1 ->
  pres P s s1 /\ Inv P ta tv s1.
Proof.
  intros P ta tv o s s1 HI Ho (h & Hh & ->).
  split.
  - unfold pres; simpl. splits; auto.
    intros l Hl G. apply Hh.
    destruct o as [w|]; simpl; [|tauto].
    intros Hsh. apply (Ho w eq_refl).
    destruct G as (a & p & HaP & Hp & Hs).
    exists a, p. splits; auto. congruence.
  - destruct HI as (W & HP & HA & HV).
    split; [|split; [exact HP|split]].
    + constructor; simpl.
      * apply (wf_attrs s W).
      * apply (wf_vars s W).
      * apply (wf_share s W).
      * apply (wf_idem s W).
    + exact HA.
    + exact HV.
Qed.

(* --- frames ------------------------------------------------------------- *)

Lemma Inv_clear : forall P ta tv s, Inv P ta tv s -> Inv P ta [] (clear_vars s).
Proof.
  intros P ta tv s (W & HP & HA & HV).
  split; [|split; [exact HP|split]].
  - constructor; simpl.
    + apply (wf_attrs s W).
    + intros x l H; discriminate.
    + apply (wf_share s W).
    + apply (wf_idem s W).
  - exact HA.
  - intros x l H; discriminate.
Qed.

Lemma Inv_restore : forall P ta tv ta1 tv1 s s1,
  Inv P ta tv s -> pres P s s1 -> Inv P ta1 tv1 s1 ->
  Inv P ta1 tv (set_vars (vars s) s1).
Proof.
  intros P ta tv ta1 tv1 s s1 (W & HP & HA & HV) Hp (W1 & HP1 & HA1 & HV1).
  pose proof Hp as (Hn & _).
  split; [|split; [exact HP1|split]].
  - constructor; simpl.
    + apply (wf_attrs s1 W1).
    + intros x l H. apply (wf_vars s W) in H. lia.
    + apply (wf_share s1 W1).
    + apply (wf_idem s1 W1).
  - exact HA1.
  - intros x l Hx G. simpl in Hx.
    apply (HV x l Hx).
    apply (guarded_pres P s s1 l W Hp (wf_vars s W x l Hx)). exact G.
Qed.

(* ========================================================================= *)
(** * 6. Soundness                                                           *)
(* ========================================================================= *)

Lemma exec_sound : forall T P n m s s',
  exec T n m s s' ->
  forall d ta tv ta',
    check_stmts P (check_call T P d) m ta tv = Some ta' ->
    Inv P ta tv s ->
    pres P s s' /\ exists tv', Inv P ta' tv' s'.
Proof.
  intros T P n m s s' H.
  induction H; intros d ta tv ta' Hc HI; simpl in Hc.
  - (* nil *)
    inversion Hc; subst. split; [apply pres_refl | eauto].
  - (* Bind *)
    destruct (eval_rhs_sound P ta tv r s HI) as (W1 & P1 & Ea & Ev & Hl & Ht).
    pose proof (Inv_transfer P ta tv s _ HI W1 P1 Ea Ev) as HI1.
    pose proof (set_var_inv P ta tv _ x _ _ HI1 Hl Ht) as HI2.
    destruct (IHexec d _ _ _ Hc HI2) as (P2 & tv' & HI').
    split; [|eauto].
    destruct HI as (W & _).
    eapply pres_trans; [exact W| |exact P2].
    eapply pres_trans; [exact W|exact P1|apply set_var_pres].
  - (* SetAttr *)
    destruct (mem a P) eqn:EaP; [discriminate|].
    apply mem_false in EaP.
    destruct (eval_rhs_sound P ta tv r s HI) as (W1 & P1 & Ea & Ev & Hl & Ht).
    pose proof (Inv_transfer P ta tv s _ HI W1 P1 Ea Ev) as HI1.
    pose proof (set_attr_inv P ta tv _ a _ _ HI1 EaP Hl Ht) as HI2.
    destruct (IHexec d _ _ _ Hc HI2) as (P2 & tv' & HI').
    split; [|eauto].
    destruct HI as (W & _).
    eapply pres_trans; [exact W| |exact P2].
    eapply pres_trans; [exact W|exact P1|apply set_attr_pres; exact EaP].
  - (* StoreVar *)
    destruct (mem x tv) eqn:Ex; [discriminate|].
    apply mem_false in Ex.
    assert (Ho : forall w, vars s x = Some w -> ~ guarded P s w).
    { intros w Hw G. destruct HI as (_ & _ & _ & HV). apply Ex. eauto. }
    destruct (write_sound P ta tv _ s s1 HI Ho H) as (P1 & HI1).
    destruct (IHexec d _ _ _ Hc HI1) as (P2 & tv' & HI').
    split; [|eauto].
    destruct HI as (W & _). eapply pres_trans; eauto.
  - (* StoreAttr *)
    destruct (mem a ta) eqn:Ex; [discriminate|].
    apply mem_false in Ex.
    assert (Ho : forall w, attrs s a = Some w -> ~ guarded P s w).
    { intros w Hw G. destruct HI as (_ & _ & HA & _). apply Ex. eauto. }
    destruct (write_sound P ta tv _ s s1 HI Ho H) as (P1 & HI1).
    destruct (IHexec d _ _ _ Hc HI1) as (P2 & tv' & HI').
    split; [|eauto].
    destruct HI as (W & _). eapply pres_trans; eauto.
  - (* CallSelf *)
    destruct (check_call T P d f ta) as [ta1|] eqn:Ecall; [|discriminate].
    destruct d as [|d']; simpl in Ecall; [discriminate|].
    rewrite H in Ecall.
    destruct (IHexec1 d' _ _ _ Ecall (Inv_clear P ta tv s HI))
      as (P1 & tv1 & HI1).
    (* [pres] and [guarded] do not look at [vars] *)
    assert (P1' : pres P s s1) by exact P1.
    pose proof (Inv_restore P ta tv ta1 tv1 s s1 HI P1' HI1) as HI2.
    destruct (IHexec2 (S d') _ _ _ Hc HI2) as (P2 & tv' & HI').
    split; [|eauto].
    destruct HI as (W & _).
    eapply pres_trans; [exact W| |exact P2].
    exact P1.
  - (* PassVar pure *)
    apply (IHexec d _ _ _ Hc HI).
  - (* PassVar impure *)
    destruct (mem x tv) eqn:Ex; [discriminate|].
    apply mem_false in Ex.
    assert (Ho : forall w, vars s x = Some w -> ~ guarded P s w).
    { intros w Hw G. destruct HI as (_ & _ & _ & HV). apply Ex. eauto. }
    destruct (write_sound P ta tv _ s s1 HI Ho H) as (P1 & HI1).
    destruct (IHexec d _ _ _ Hc HI1) as (P2 & tv' & HI').
    split; [|eauto].
    destruct HI as (W & _). eapply pres_trans; eauto.
Qed.

(* every prefix of an accepted statement list is accepted (M9) *)
Lemma check_stmts_prefix : forall P callee m1 m2 ta tv ta',
  check_stmts P callee (m1 ++ m2) ta tv = Some ta' ->
  exists ta1, check_stmts P callee m1 ta tv = Some ta1.
Proof.
  induction m1 as [|c m1 IH]; intros m2 ta tv ta' H; simpl in *.
  - eauto.
  - destruct c as [x r|a r|x|a|f|x pure].
    + eapply IH; eauto.
    + destruct (mem a P); [discriminate|]. eapply IH; eauto.
    + destruct (mem x tv); [discriminate|]. eapply IH; eauto.
    + destruct (mem a ta); [discriminate|]. eapply IH; eauto.
    + destruct (callee f ta); [|discriminate]. eapply IH; eauto.
    + destruct pure; [eapply IH; eauto|].
      destruct (mem x tv); [discriminate|]. eapply IH; eauto.
Qed.

(** E1 *)
Theorem check_method_sound : forall T P depth ta ta' m fuel s s',
  check_method T P depth ta m = Some ta' ->
  Inv P ta [] s ->
  exec T fuel m s s' ->
  protected_unchanged P s s' /\ Inv P ta' [] (clear_vars s').
Proof.
  intros T P depth ta ta' m fuel s s' Hc HI Hex.
  destruct (exec_sound T P fuel m s s' Hex depth ta [] ta' Hc HI)
    as (Hp & tv' & HI').
  split.
  - apply pres_protected_unchanged; [apply HI | exact Hp].
  - apply (Inv_clear P ta' tv' s' HI').
Qed.
Print Assumptions check_method_sound.

Lemma sequence_sound : forall T P depth fuel names s s',
  run_sequence T fuel names s s' ->
  forall ta ta',
    check_sequence T P depth ta names = Some ta' ->
    Inv P ta [] s ->
    pres P s s' /\ Inv P ta' [] (clear_vars s').
Proof.
  intros T P depth fuel names s s' H.
  induction H; intros ta ta' Hc HI; simpl in Hc.
  - inversion Hc; subst. split; [apply pres_refl | apply (Inv_clear _ _ _ _ HI)].
  - rewrite H in Hc.
    destruct (check_method T P depth ta body) as [ta1|] eqn:Em; [|discriminate].
    destruct (exec_sound T P fuel body _ s1 H0 depth ta [] ta1 Em
                         (Inv_clear P ta [] s HI)) as (P1 & tv1 & HI1).
    assert (P1' : pres P s (clear_vars s1)) by exact P1.
    destruct (IHrun_sequence ta1 ta' Hc (Inv_clear P ta1 tv1 s1 HI1))
      as (P2 & HI2).
    split; [|exact HI2].
    destruct HI as (W & _). eapply pres_trans; eauto.
Qed.

(** E2 : C17, in any order and any number of times *)
Theorem readonly_sequence_sound : forall T P depth ta ta' names fuel s s',
  check_sequence T P depth ta names = Some ta' ->
  Inv P ta [] s ->
  run_sequence T fuel names s s' ->
  protected_unchanged P s s' /\ Inv P ta' [] (clear_vars s').
Proof.
  intros T P depth ta ta' names fuel s s' Hc HI Hr.
  destruct (sequence_sound T P depth fuel names s s' Hr ta ta' Hc HI)
    as (Hp & HI').
  split; [|exact HI'].
  apply pres_protected_unchanged; [apply HI | exact Hp].
Qed.
Print Assumptions readonly_sequence_sound.

(* The form used by the generator: tainted = protected initially, depth = |T|.
   [Inv P P [] s] reads: s is well formed and the only references to memory
   shared with a protected attribute's object are protected attributes. *)
Corollary check_calls_sound : forall T P ta' names fuel s s',
  check_calls T P names = Some ta' ->
  Inv P P [] s ->
  run_sequence T fuel names s s' ->
  protected_unchanged P s s'.
Proof.
  intros T P ta' names fuel s s' Hc HI Hr.
  apply (readonly_sequence_sound T P _ P ta' names fuel s s' Hc HI Hr).
Qed.
Print Assumptions check_calls_sound.

Corollary accepts_sound : forall T P names fuel s s',
  accepts T P names = true ->
  Inv P P [] s ->
  run_sequence T fuel names s s' ->
  protected_unchanged P s s'.
Proof.
  intros T P names fuel s s' Hacc HI Hr. unfold accepts in Hacc.
  destruct (check_calls T P names) as [ta'|] eqn:E; [|discriminate].
  apply (check_calls_sound T P ta' names fuel s s' E HI Hr).
Qed.
Print Assumptions accepts_sound.

(* fuel is only an upper bound on nesting: more fuel, more executions *)
Lemma exec_fuel_mono : forall T n m s s',
  exec T n m s s' -> forall k, n <= k -> exec T k m s s'.
Proof.
  intros T n m s s' H. induction H; intros k Hk.
  - constructor.
  - constructor; auto.
  - constructor; auto.
  - econstructor; eauto.
  - econstructor; eauto.
  - destruct k as [|k]; [lia|].
    econstructor; eauto. apply IHexec1. lia.
  - constructor; auto.
  - econstructor; eauto.
Qed.

(* ========================================================================= *)
(** * 7. Examples                                                            *)
(* ========================================================================= *)

(** E3 : the plot() defect of pinned pyQSC
       data = self.r_singularity_vs_varphi ; data[data > 1e20] = nan *)
Example rejects_plot_bug :
  check_method [] ["r_singularity_vs_varphi"] 0 ["r_singularity_vs_varphi"]
    [Bind "data" (AttrOf "r_singularity_vs_varphi"); StoreVar "data"] = None
  /\
  check_method [] ["r_singularity_vs_varphi"] 0 ["r_singularity_vs_varphi"]
    [Bind "data" Fresh; StoreVar "data"] = Some ["r_singularity_vs_varphi"].
Proof. split; reflexivity. Qed.
Print Assumptions rejects_plot_bug.

(** E4 : a view of a protected array leaks into a cache attribute and is
        written through in a LATER method call *)
Definition leak_table : table :=
  [("make_cache", [SetAttr "cache" (ViewOfAttr "B20")]);
   ("poke_cache", [StoreAttr "cache"])].

Example rejects_view_leak :
  (* each method alone is fine ... *)
  check_calls leak_table ["B20"] ["make_cache"] = Some ["cache"; "B20"] /\
  check_calls leak_table ["B20"] ["poke_cache"] = Some ["B20"] /\
  check_calls leak_table ["B20"] ["poke_cache"; "make_cache"] = Some ["cache"; "B20"] /\
  (* ... the store after the leak is not *)
  check_calls leak_table ["B20"] ["make_cache"; "poke_cache"] = None /\
  (* also through a nested call, and with a copy instead of a view it is fine *)
  check_method leak_table ["B20"] 2 ["B20"]
    [CallSelf "make_cache"; Bind "c" (AttrOf "cache"); PassVar "c" false] = None /\
  check_method leak_table ["B20"] 2 ["B20"]
    [CallSelf "make_cache"; SetAttr "cache" Fresh; CallSelf "poke_cache"]
    = Some ["B20"].
Proof. splits; reflexivity. Qed.
Print Assumptions rejects_view_leak.

(* unknown callees and recursion are rejected *)
Example rejects_unknown_and_recursion :
  check_calls [("f", [CallSelf "g"])] [] ["f"] = None /\
  check_calls [("f", [CallSelf "f"])] [] ["f"] = None /\
  check_calls [("f", [CallSelf "g"]); ("g", [Bind "x" Fresh])] [] ["f"] = Some [].
Proof. splits; reflexivity. Qed.

(* front-end obligation M4(d): a loop body emitted once is accepted although
   its second iteration would write into B20; emitted k+1 = 3 times it is
   rejected. *)
Definition loop_body : method :=
  [StoreVar "x"; Bind "x" (VarOf "y"); Bind "y" (AttrOf "B20")].
Example loop_needs_unrolling :
  check_method [] ["B20"] 0 ["B20"] loop_body = Some ["B20"] /\
  check_method [] ["B20"] 0 ["B20"] (loop_body ++ loop_body) = Some ["B20"] /\
  check_method [] ["B20"] 0 ["B20"] (loop_body ++ loop_body ++ loop_body) = None.
Proof. splits; reflexivity. Qed.

(** E5 : non-vacuity.  A concrete state satisfying the invariant, a concrete
        accepted method that DOES write (into a fresh local, which it then
        publishes as a new attribute, and it also takes a read-only view of
        the protected array), and a concrete execution. *)
Definition demo_state : state :=
  mkState (fun a => if String.eqb a "B20" then Some 0 else None)
          no_vars
          (fun _ => 7)
          1
          (fun l => l).

Definition demo_method : method :=
  [ Bind "tmp" Fresh;                    (* tmp = np.zeros(..)         *)
    StoreVar "tmp";                      (* tmp[...] = ...             *)
    SetAttr "B20_plot" (VarOf "tmp");    (* self.B20_plot = tmp        *)
    Bind "v" (ViewOfAttr "B20");         (* v = self.B20[1:]           *)
    PassVar "v" true;                    (* plt.plot(v)                *)
    StoreAttr "B20_plot" ].              (* self.B20_plot *= 2         *)

Lemma demo_Inv : Inv ["B20"] ["B20"] [] demo_state.
Proof.
  split; [|split; [|split]].
  - constructor; simpl.
    + intros a l. destruct (String.eqb a "B20"); intros H; inversion H; lia.
    + intros x l H; discriminate.
    + auto.
    + auto.
  - apply incl_refl.
  - intros b l Hb _. simpl in Hb.
    destruct (String.eqb b "B20") eqn:E; [|discriminate].
    apply String.eqb_eq in E. subst. left; reflexivity.
  - intros x l H; discriminate.
Qed.

Example demo_accepted :
  check_method [] ["B20"] 0 ["B20"] demo_method = Some ["B20"].
Proof. reflexivity. Qed.

Example demo_execution :
  exists s',
    exec [] 0 demo_method demo_state s' /\
    (* the method really wrote: a new attribute, whose object was modified twice *)
    attrs s' "B20_plot" = Some 1 /\ heap s' 1 = 99 /\ heap demo_state 1 = 7 /\
    (* the protected attribute, its object and its stamp are untouched *)
    attrs s' "B20" = Some 0 /\ share s' 0 = 0 /\ heap s' 0 = 7 /\
    (* and the local v really is a view of the protected array *)
    (exists v, vars s' "v" = Some v /\ share s' v = share s' 0).
Proof.
  eexists. split.
  - unfold demo_method.
    apply ExBind.
    eapply ExStoreVar.
    { exists (fun l => if Nat.eqb l 1 then 42 else 7). split; [|reflexivity].
      intros l' Hn. simpl in *.
      destruct (Nat.eqb_spec l' 1); [|reflexivity].
      exfalso. apply Hn. reflexivity. }
    apply ExSetAttr.
    apply ExBind.
    apply ExPassPure.
    eapply ExStoreAttr.
    { exists (fun l => if Nat.eqb l 1 then 99 else 7). split; [|reflexivity].
      intros l' Hn. simpl in *.
      destruct (Nat.eqb_spec l' 1) as [E|E].
      - exfalso. apply Hn. subst l'. reflexivity.
      - reflexivity. }
    apply ExNil.
  - simpl. splits; try reflexivity. exists 2. split; reflexivity.
Qed.
Print Assumptions demo_execution.

(* ... and the general theorem applies to that execution (and to every other
   execution of demo_method from demo_state). *)
Example demo_protected : forall fuel s',
  exec [] fuel demo_method demo_state s' ->
  attrs s' "B20" = Some 0 /\ heap s' 0 = 7.
Proof.
  intros fuel s' H.
  destruct (check_method_sound [] ["B20"] 0 ["B20"] _ demo_method fuel
              demo_state s' demo_accepted demo_Inv H) as ((Ha & Hh) & _).
  split.
  - apply (Ha "B20"). left; reflexivity.
  - destruct (Hh "B20" 0) as (_ & H0 & _); [left; reflexivity|reflexivity|].
    exact H0.
Qed.
Print Assumptions demo_protected.
