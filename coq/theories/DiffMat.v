(* Model of pyQSC's spectral_diff_matrix (qsc/spectral_diff_matrix.py) and its
   structural properties: antisymmetry, circulant structure, vanishing row sums,
   and the shift / reversal grid actions used by the symmetry instances
   (Sign.v, Shift.v).

   The model is polymorphic in the scalar type so that the SAME definition can be
   run on primitive floats (end of file) and reasoned about over R.
   [topc] stands for the list 1/sin(k h/2) (n odd) or 1/tan(k h/2) (n even),
   k = 1 .. n/2; all theorems hold for an arbitrary list of that length. *)
From Coq Require Import Reals List Lra Lia Permutation Bool Arith ZArith Zify ZifyNat.
From QSC Require Import Expr Equiv Sign Shift.
Import ListNotations.

Close Scope R_scope.

#[local] Ltac Zify.zify_post_hook ::= Z.to_euclidean_division_equations.

Section Model.
  Context {A : Type} (zero : A) (opp : A -> A) (mul : A -> A -> A) (half : A).
  Definition sgn (k : nat) (x : A) : A := if Nat.even k then x else opp x.        (* (-1)**k * x *)
  Definition temp (n : nat) (topc : list A) : list A :=
    let n1 := (n - 1) / 2 in
    if Nat.even n then topc ++ map opp (rev (firstn n1 topc)) else topc ++ rev (firstn n1 topc).
  Definition col1 (n : nat) (topc : list A) : list A :=
    zero :: map (fun kt => sgn (fst kt) (mul half (snd kt))) (combine (seq 1 (n - 1)) (temp n topc)).
  (* toeplitz(col1, r = -col1), times the interval factor *)
  Definition Dmat (n : nat) (topc : list A) (scale : A) (i j : nat) : A :=
    mul scale (if Nat.leb j i then nth (i - j) (col1 n topc) zero else opp (nth (j - i) (col1 n topc) zero)).
End Model.

(* ------------------------------------------------------------------ *)
(* generic list / arithmetic helpers *)

Lemma nth_firstn_lt {A} (l : list A) d : forall p i, i < p -> nth i (firstn p l) d = nth i l d.
Proof.
  induction l as [|a l IH]; intros [|p] [|i] H; simpl; try lia; auto.
  apply IH; lia.
Qed.

Lemma NoDup_map_inj_in {A B} (f : A -> B) (l : list A) :
  (forall x y, In x l -> In y l -> f x = f y -> x = y) -> NoDup l -> NoDup (map f l).
Proof.
  induction l as [|a l IH]; intros Hinj Hnd; simpl; [constructor|].
  inversion Hnd as [|? ? Hnotin Hnd']; subst. constructor.
  - intros Hin. apply in_map_iff in Hin. destruct Hin as [x [Hfx Hx]].
    assert (x = a) by (apply Hinj; [right; exact Hx|left; reflexivity|exact Hfx]).
    subst. contradiction.
  - apply IH; [|exact Hnd']. intros x y Hx Hy. apply Hinj; right; assumption.
Qed.

Lemma grid_perm_of_inj n (pi : nat -> nat) :
  (forall j, j < n -> pi j < n) ->
  (forall i j, i < n -> j < n -> pi i = pi j -> i = j) ->
  grid_perm n pi.
Proof.
  intros Hran Hinj. unfold grid_perm, grid.
  apply NoDup_Permutation_bis.
  - apply NoDup_map_inj_in; [|apply seq_NoDup].
    intros x y Hx Hy. apply in_seq in Hx. apply in_seq in Hy. apply Hinj; lia.
  - rewrite map_length. lia.
  - intros y Hy. apply in_map_iff in Hy. destruct Hy as [x [<- Hx]].
    apply in_seq in Hx. apply in_seq. specialize (Hran x). lia.
Qed.

Lemma mod_canon a n : 0 < n -> a < 2 * n -> a mod n = if a <? n then a else a - n.
Proof.
  intros Hn Ha. destruct (Nat.ltb_spec a n) as [H|H].
  - apply Nat.mod_small; exact H.
  - replace a with ((a - n) + 1 * n) at 1 by lia.
    rewrite Nat.mod_add by lia. apply Nat.mod_small. lia.
Qed.

Lemma shift_canon j k n : 0 < n -> j < n ->
  (j + k) mod n = if j + k mod n <? n then j + k mod n else j + k mod n - n.
Proof.
  intros Hn Hj. rewrite <- (Nat.add_mod_idemp_r j k n) by lia.
  assert (k mod n < n) by (apply Nat.mod_upper_bound; lia).
  apply mod_canon; lia.
Qed.

Lemma rev_canon j n : j < n -> (n - j) mod n = if j =? 0 then 0 else n - j.
Proof.
  intros Hj. destruct (Nat.eqb_spec j 0) as [->|H].
  - rewrite Nat.sub_0_r. apply Nat.mod_same. lia.
  - apply Nat.mod_small. lia.
Qed.

Lemma grid_perm_shift n k : 0 < n -> grid_perm n (fun j => (j + k) mod n).
Proof.
  intros Hn. apply grid_perm_of_inj.
  - intros j _. apply Nat.mod_upper_bound. lia.
  - intros i j Hi Hj. rewrite !shift_canon by assumption.
    assert (k mod n < n) by (apply Nat.mod_upper_bound; lia).
    destruct (Nat.ltb_spec (i + k mod n) n), (Nat.ltb_spec (j + k mod n) n); lia.
Qed.

Lemma grid_perm_rev n : grid_perm n (fun j => (n - j) mod n).
Proof.
  apply grid_perm_of_inj.
  - intros j Hj. apply Nat.mod_upper_bound. lia.
  - intros i j Hi Hj. rewrite !rev_canon by assumption.
    destruct (Nat.eqb_spec i 0), (Nat.eqb_spec j 0); lia.
Qed.

Lemma grid_perm_diff n i : i < n -> grid_perm n (fun j => (i + n - j) mod n).
Proof.
  intros Hi. apply grid_perm_of_inj.
  - intros j _. apply Nat.mod_upper_bound. lia.
  - intros a b Ha Hb. rewrite !mod_canon by lia.
    destruct (Nat.ltb_spec (i + n - a) n), (Nat.ltb_spec (i + n - b) n); lia.
Qed.

Lemma rev_pin n j : j < n -> Nat.eqb ((n - j) mod n) 0 = Nat.eqb j 0.
Proof.
  intros Hj. rewrite rev_canon by exact Hj.
  destruct (Nat.eqb_spec j 0) as [->|H]; [reflexivity|].
  apply Nat.eqb_neq. lia.
Qed.

(* ------------------------------------------------------------------ *)
(* the real-number instance *)
Open Scope R_scope.

Definition DR (n : nat) (topc : list R) (s : R) (i j : nat) : R := Dmat 0 Ropp Rmult (/2) n topc s i j.
Definition colR (n : nat) (topc : list R) (k : nat) : R := nth k (col1 0 Ropp Rmult (/2) n topc) 0.
Definition tmpR (n : nat) (topc : list R) (m : nat) : R := nth m (temp Ropp n topc) 0.

Lemma DR_unfold n topc s i j :
  DR n topc s i j = s * (if Nat.leb j i then colR n topc (i - j) else - colR n topc (j - i)).
Proof. reflexivity. Qed.

Lemma colR_0 n topc : colR n topc 0 = 0.
Proof. reflexivity. Qed.

Lemma sgn_opp k x : sgn Ropp k (- x) = - sgn Ropp k x.
Proof. unfold sgn. destruct (Nat.even k); lra. Qed.

Lemma temp_length n topc : length topc = (n / 2)%nat -> length (temp Ropp n topc) = (n - 1)%nat.
Proof.
  intros HL. unfold temp.
  destruct (Nat.even n) eqn:E.
  - apply Nat.even_spec in E. destruct E as [h ->].
    rewrite app_length, map_length, rev_length, firstn_length. lia.
  - assert (O : Nat.odd n = true) by (unfold Nat.odd; rewrite E; reflexivity).
    apply Nat.odd_spec in O. destruct O as [h ->].
    rewrite app_length, rev_length, firstn_length. lia.
Qed.

Lemma colR_S n topc k : length topc = (n / 2)%nat -> (k < n - 1)%nat ->
  colR n topc (S k) = sgn Ropp (S k) (/2 * tmpR n topc k).
Proof.
  intros HL Hk. unfold colR, col1, tmpR.
  pose proof (temp_length n topc HL) as HT.
  set (f := fun kt : nat * R => sgn Ropp (fst kt) (/ 2 * snd kt)).
  change (nth (S k) (0 :: map f (combine (seq 1 (n - 1)) (temp Ropp n topc))) 0)
    with (nth k (map f (combine (seq 1 (n - 1)) (temp Ropp n topc))) 0).
  rewrite (nth_indep _ 0 (f (0%nat, 0))).
  2:{ rewrite map_length, combine_length, seq_length, HT. lia. }
  rewrite map_nth. rewrite combine_nth by (rewrite seq_length, HT; reflexivity).
  rewrite seq_nth by exact Hk. unfold f. simpl fst. simpl snd. reflexivity.
Qed.

Lemma tmpR_lo n topc m : length topc = (n / 2)%nat -> (m < n / 2)%nat -> tmpR n topc m = nth m topc 0.
Proof.
  intros HL Hm. unfold tmpR, temp. destruct (Nat.even n); apply app_nth1; lia.
Qed.

Lemma tmpR_hi n topc m : length topc = (n / 2)%nat -> (n / 2 <= m < n - 1)%nat ->
  tmpR n topc m = if Nat.even n then - nth (n - 2 - m) topc 0 else nth (n - 2 - m) topc 0.
Proof.
  intros HL Hm. unfold tmpR, temp.
  destruct (Nat.even n) eqn:E.
  - apply Nat.even_spec in E. destruct E as [h ->].
    rewrite app_nth2 by lia.
    rewrite (nth_indep _ 0 (- 0)) by (rewrite map_length, rev_length, firstn_length; lia).
    rewrite map_nth. f_equal.
    rewrite rev_nth by (rewrite firstn_length; lia).
    rewrite firstn_length. rewrite nth_firstn_lt by lia.
    f_equal. lia.
  - assert (O : Nat.odd n = true) by (unfold Nat.odd; rewrite E; reflexivity).
    apply Nat.odd_spec in O. destruct O as [h ->].
    rewrite app_nth2 by lia.
    rewrite rev_nth by (rewrite firstn_length; lia).
    rewrite firstn_length. rewrite nth_firstn_lt by lia.
    f_equal. lia.
Qed.

(* temp is a palindrome (odd n) / anti-palindrome away from the centre (even n) *)
Lemma tmpR_palin n topc a b : length topc = (n / 2)%nat -> (a + b = n - 2)%nat -> (2 <= n)%nat ->
  (Nat.even n = true -> a = (n / 2 - 1)%nat -> nth (n / 2 - 1) topc 0 = 0) ->
  tmpR n topc b = if Nat.even n then - tmpR n topc a else tmpR n topc a.
Proof.
  intros HL Hab Hn Hc.
  destruct (Nat.even n) eqn:E.
  - pose proof E as E'. apply Nat.even_spec in E'. destruct E' as [h Hh].
    destruct (lt_eq_lt_dec a (n / 2 - 1)) as [[Hlt|Heq]|Hgt].
    + rewrite (tmpR_lo n topc a) by lia. rewrite (tmpR_hi n topc b) by lia.
      rewrite E. do 2 f_equal. lia.
    + assert (b = a) by lia. subst b.
      rewrite (tmpR_lo n topc a) by lia. rewrite Heq. rewrite (Hc eq_refl Heq). lra.
    + rewrite (tmpR_hi n topc a) by lia. rewrite (tmpR_lo n topc b) by lia.
      rewrite E. rewrite Ropp_involutive. f_equal. lia.
  - assert (O : Nat.odd n = true) by (unfold Nat.odd; rewrite E; reflexivity).
    apply Nat.odd_spec in O. destruct O as [h Hh].
    destruct (le_lt_dec (n / 2) a) as [Hge|Hlt].
    + rewrite (tmpR_hi n topc a) by lia. rewrite (tmpR_lo n topc b) by lia.
      rewrite E. f_equal. lia.
    + rewrite (tmpR_lo n topc a) by lia. rewrite (tmpR_hi n topc b) by lia.
      rewrite E. f_equal. lia.
Qed.

(* the reflection law of the first column, in its most general form *)
Lemma colR_refl_gen n topc k : length topc = (n / 2)%nat -> (1 <= k <= n - 1)%nat ->
  (Nat.even n = true -> k = (n / 2)%nat -> nth (n / 2 - 1) topc 0 = 0) ->
  colR n topc (n - k) = - colR n topc k.
Proof.
  intros HL Hk Hc.
  replace (n - k)%nat with (S (n - k - 1)) by lia.
  replace k with (S (k - 1)) at 2 by lia.
  rewrite !colR_S by lia.
  rewrite (tmpR_palin n topc (k - 1) (n - k - 1)); try lia.
  2:{ intros E Hk'. apply Hc; [exact E|].
      apply Nat.even_spec in E. destruct E as [h Hh]. lia. }
  replace (S (n - k - 1)) with (n - k)%nat by lia.
  replace (S (k - 1)) with k by lia.
  unfold sgn. rewrite Nat.even_sub by lia.
  destruct (Nat.even n), (Nat.even k); simpl; lra.
Qed.

Lemma odd_not_even n : Nat.odd n = true -> Nat.even n = false.
Proof. unfold Nat.odd. destruct (Nat.even n); [discriminate|reflexivity]. Qed.

Lemma odd_pos n : Nat.odd n = true -> (0 < n)%nat.
Proof. destruct n; [discriminate|lia]. Qed.

Lemma colR_refl_odd n topc k : length topc = (n / 2)%nat -> Nat.odd n = true -> (1 <= k <= n - 1)%nat ->
  colR n topc (n - k) = - colR n topc k.
Proof.
  intros HL Ho Hk. apply colR_refl_gen; try assumption.
  intros E. rewrite (odd_not_even n Ho) in E. discriminate.
Qed.

(* T7, first part: for even n the reflection law holds except at the centre k = n/2 *)
Lemma colR_refl_even n topc k : length topc = (n / 2)%nat -> Nat.even n = true ->
  (1 <= k <= n - 1)%nat -> k <> (n / 2)%nat ->
  colR n topc (n - k) = - colR n topc k.
Proof.
  intros HL He Hk Hne. apply colR_refl_gen; try assumption.
  intros _ Hk'. contradiction.
Qed.

(* ... and everywhere once the central entry 1/tan(pi/2) is exactly 0 *)
Lemma colR_refl_even_central n topc k : length topc = (n / 2)%nat -> Nat.even n = true ->
  nth (n / 2 - 1) topc 0 = 0 -> (1 <= k <= n - 1)%nat ->
  colR n topc (n - k) = - colR n topc k.
Proof.
  intros HL He H0 Hk. apply colR_refl_gen; try assumption.
  intros _ _. exact H0.
Qed.

(* ------------------------------------------------------------------ *)
(* T1: antisymmetry, every n, every topc *)
Theorem DR_antisym n topc s : length topc = (n / 2)%nat ->
  forall i j, (i < n)%nat -> (j < n)%nat -> DR n topc s i j = - DR n topc s j i.
Proof.
  intros _ i j _ _. rewrite !DR_unfold.
  destruct (Nat.leb_spec j i) as [H1|H1], (Nat.leb_spec i j) as [H2|H2]; try lia; try lra.
  assert (i = j) by lia. subst. rewrite Nat.sub_diag, colR_0. lra.
Qed.
Print Assumptions DR_antisym.

(* ------------------------------------------------------------------ *)
(* Everything else follows from the reflection law of the first column. *)
Section Circulant.
  Variable n : nat.
  Variable topc : list R.
  Variable s : R.
  Hypothesis Hrefl : forall k, (1 <= k <= n - 1)%nat -> colR n topc (n - k) = - colR n topc k.

  Lemma DR_mod i j : (i < n)%nat -> (j < n)%nat ->
    DR n topc s i j = s * colR n topc ((i + n - j) mod n).
  Proof.
    intros Hi Hj. rewrite DR_unfold. rewrite mod_canon by lia.
    destruct (Nat.leb_spec j i) as [H|H], (Nat.ltb_spec (i + n - j) n) as [H'|H']; try lia.
    - f_equal. f_equal. lia.
    - f_equal. replace (i + n - j)%nat with (n - (j - i))%nat by lia.
      rewrite Hrefl by lia. reflexivity.
  Qed.

  Lemma DR_circulant_gen i j i' j' : (i < n)%nat -> (j < n)%nat -> (i' < n)%nat -> (j' < n)%nat ->
    ((i + n - j) mod n = (i' + n - j') mod n)%nat -> DR n topc s i j = DR n topc s i' j'.
  Proof. intros Hi Hj Hi' Hj' E. rewrite !DR_mod by assumption. rewrite E. reflexivity. Qed.

  Lemma colR_gsum0 : gsum n (colR n topc) = 0.
  Proof.
    assert (E : gsum n (colR n topc) = -1 * gsum n (colR n topc)).
    { rewrite <- (gsum_reindex n (fun j => (n - j) mod n)%nat (colR n topc)) at 1 by apply grid_perm_rev.
      rewrite <- gsum_scal. apply gsum_ext. intros k Hk.
      rewrite rev_canon by exact Hk. destruct (Nat.eqb_spec k 0) as [->|Hk0].
      - rewrite colR_0. lra.
      - rewrite Hrefl by lia. lra. }
    lra.
  Qed.

  Lemma DR_rowsum_gen i : (i < n)%nat -> gsum n (fun j => DR n topc s i j) = 0.
  Proof.
    intros Hi.
    rewrite (gsum_ext n _ (fun j => s * colR n topc ((i + n - j) mod n))).
    2:{ intros k Hk. apply DR_mod; assumption. }
    rewrite gsum_scal.
    rewrite (gsum_reindex n (fun j => (i + n - j) mod n)%nat (colR n topc)) by (apply grid_perm_diff; exact Hi).
    rewrite colR_gsum0. lra.
  Qed.

  Lemma DR_shift_gen k i j : (i < n)%nat -> (j < n)%nat ->
    DR n topc s ((i + k) mod n) ((j + k) mod n) = DR n topc s i j.
  Proof.
    intros Hi Hj.
    assert (Hk : (k mod n < n)%nat) by (apply Nat.mod_upper_bound; lia).
    apply DR_circulant_gen; try assumption; try (apply Nat.mod_upper_bound; lia).
    rewrite !shift_canon by lia.
    generalize dependent (k mod n)%nat. intros k' Hk.
    destruct (Nat.ltb_spec (i + k') n), (Nat.ltb_spec (j + k') n);
      rewrite !mod_canon by lia;
      repeat match goal with |- context [Nat.ltb ?a ?b] => destruct (Nat.ltb_spec a b) end; lia.
  Qed.

  Lemma DR_rev_gen i j : (i < n)%nat -> (j < n)%nat ->
    DR n topc s ((n - i) mod n) ((n - j) mod n) = - DR n topc s i j.
  Proof.
    intros Hi Hj.
    assert (A : DR n topc s i j = - DR n topc s j i).
    { rewrite !DR_unfold.
      destruct (Nat.leb_spec j i) as [H1|H1], (Nat.leb_spec i j) as [H2|H2]; try lia; try lra.
      assert (i = j) by lia. subst. rewrite Nat.sub_diag, colR_0. lra. }
    rewrite A, Ropp_involutive.
    apply DR_circulant_gen; try assumption; try (apply Nat.mod_upper_bound; lia).
    rewrite !rev_canon by lia.
    destruct (Nat.eqb_spec i 0), (Nat.eqb_spec j 0);
      rewrite !mod_canon by lia;
      repeat match goal with |- context [Nat.ltb ?a ?b] => destruct (Nat.ltb_spec a b) end; lia.
  Qed.
End Circulant.

(* ------------------------------------------------------------------ *)
(* T2: circulant, n odd *)
Theorem DR_circulant n topc s : length topc = (n / 2)%nat -> Nat.odd n = true ->
  forall i j i' j', (i < n)%nat -> (j < n)%nat -> (i' < n)%nat -> (j' < n)%nat ->
    ((i + n - j) mod n = (i' + n - j') mod n)%nat -> DR n topc s i j = DR n topc s i' j'.
Proof.
  intros HL Ho i j i' j'. apply DR_circulant_gen.
  intros k Hk. apply colR_refl_odd; assumption.
Qed.
Print Assumptions DR_circulant.

(* T3: annihilates constants, n odd *)
Theorem DR_rowsum n topc s : length topc = (n / 2)%nat -> Nat.odd n = true ->
  forall i, (i < n)%nat -> gsum n (fun j => DR n topc s i j) = 0.
Proof.
  intros HL Ho i. apply DR_rowsum_gen.
  intros k Hk. apply colR_refl_odd; assumption.
Qed.
Print Assumptions DR_rowsum.

(* T4: shift action, n odd *)
Theorem DR_shift n topc s k : length topc = (n / 2)%nat -> Nat.odd n = true ->
  grid_perm n (fun j => (j + k) mod n) /\
  forall i j, (i < n)%nat -> (j < n)%nat ->
    DR n topc s ((i + k) mod n) ((j + k) mod n) = DR n topc s i j.
Proof.
  intros HL Ho. split.
  - apply grid_perm_shift. apply odd_pos; exact Ho.
  - intros i j. apply DR_shift_gen.
    intros m Hm. apply colR_refl_odd; assumption.
Qed.
Print Assumptions DR_shift.

(* T5: reversal action, n odd *)
Theorem DR_rev n topc s : length topc = (n / 2)%nat -> Nat.odd n = true ->
  grid_perm n (fun j => (n - j) mod n) /\
  (forall j, (j < n)%nat -> Nat.eqb ((n - j) mod n) 0 = Nat.eqb j 0) /\
  forall i j, (i < n)%nat -> (j < n)%nat ->
    DR n topc s ((n - i) mod n) ((n - j) mod n) = - DR n topc s i j.
Proof.
  intros HL Ho. split; [apply grid_perm_rev|]. split; [apply rev_pin|].
  intros i j. apply DR_rev_gen.
  intros m Hm. apply colR_refl_odd; assumption.
Qed.
Print Assumptions DR_rev.

(* ------------------------------------------------------------------ *)
(* T6: the records consumed by Shift.v / Sign.v *)
Lemma shift_action_of_DR n topc s k (fmin : (nat -> R) -> R) :
  length topc = (n / 2)%nat -> Nat.odd n = true ->
  (forall v v', (forall j, (j < n)%nat -> v' j = v ((j + k) mod n)%nat) -> fmin v' = fmin v) ->
  (forall v, (forall j, v j = 0) -> fmin v = 0) ->
  shift_action_ok n (DR n topc s) fmin (fun j => (j + k) mod n)%nat.
Proof.
  intros HL Ho Hf Hf0. destruct (DR_shift n topc s k HL Ho) as [HP HD].
  constructor; assumption.
Qed.
Print Assumptions shift_action_of_DR.

Lemma rev_action_of_DR n topc s (fmin : (nat -> R) -> R) :
  length topc = (n / 2)%nat -> Nat.odd n = true ->
  (forall v v', (forall j, (j < n)%nat -> v' j = v ((n - j) mod n)%nat) -> fmin v' = fmin v) ->
  (forall v, (forall j, v j = 0) -> fmin v = 0) ->
  sign_action_ok n (DR n topc s) fmin (fun j => (n - j) mod n)%nat true.
Proof.
  intros HL Ho Hf Hf0. destruct (DR_rev n topc s HL Ho) as [HP [Hpin HD]].
  constructor; try assumption.
  - apply odd_pos; exact Ho.
  - intros j k Hj Hk. rewrite HD by assumption. simpl. lra.
Qed.
Print Assumptions rev_action_of_DR.

Lemma id_action_any n (Dm : nat -> nat -> R) (fmin : (nat -> R) -> R) :
  (0 < n)%nat ->
  (forall v v', (forall j, (j < n)%nat -> v' j = v j) -> fmin v' = fmin v) ->
  (forall v, (forall j, v j = 0) -> fmin v = 0) ->
  sign_action_ok n Dm fmin (fun j => j) false.
Proof.
  intros Hn Hf Hf0. constructor; try assumption.
  - unfold grid_perm. rewrite map_id. apply Permutation_refl.
  - intros j k _ _. simpl. lra.
  - intros j _. reflexivity.
Qed.
Print Assumptions id_action_any.

(* ------------------------------------------------------------------ *)
(* T7: even n.  The model deviates from a circulant only through the central entry
   nth (n/2 - 1) topc = 1/tan(pi/2), which is exactly 0 over R (but 6.1e-17 in floats). *)
Theorem DR_circulant_even n topc s : length topc = (n / 2)%nat -> Nat.even n = true ->
  nth (n / 2 - 1) topc 0 = 0 ->
  forall i j i' j', (i < n)%nat -> (j < n)%nat -> (i' < n)%nat -> (j' < n)%nat ->
    ((i + n - j) mod n = (i' + n - j') mod n)%nat -> DR n topc s i j = DR n topc s i' j'.
Proof.
  intros HL He H0 i j i' j'. apply DR_circulant_gen.
  intros k Hk. apply colR_refl_even_central; assumption.
Qed.
Print Assumptions DR_circulant_even.

Theorem DR_rowsum_even n topc s : length topc = (n / 2)%nat -> Nat.even n = true ->
  nth (n / 2 - 1) topc 0 = 0 ->
  forall i, (i < n)%nat -> gsum n (fun j => DR n topc s i j) = 0.
Proof.
  intros HL He H0 i. apply DR_rowsum_gen.
  intros k Hk. apply colR_refl_even_central; assumption.
Qed.
Print Assumptions DR_rowsum_even.

Theorem DR_shift_even n topc s k : length topc = (n / 2)%nat -> Nat.even n = true ->
  nth (n / 2 - 1) topc 0 = 0 -> (0 < n)%nat ->
  grid_perm n (fun j => (j + k) mod n) /\
  forall i j, (i < n)%nat -> (j < n)%nat ->
    DR n topc s ((i + k) mod n) ((j + k) mod n) = DR n topc s i j.
Proof.
  intros HL He H0 Hn. split.
  - apply grid_perm_shift. exact Hn.
  - intros i j. apply DR_shift_gen.
    intros m Hm. apply colR_refl_even_central; assumption.
Qed.
Print Assumptions DR_shift_even.

Theorem DR_rev_even n topc s : length topc = (n / 2)%nat -> Nat.even n = true ->
  nth (n / 2 - 1) topc 0 = 0 ->
  grid_perm n (fun j => (n - j) mod n) /\
  (forall j, (j < n)%nat -> Nat.eqb ((n - j) mod n) 0 = Nat.eqb j 0) /\
  forall i j, (i < n)%nat -> (j < n)%nat ->
    DR n topc s ((n - i) mod n) ((n - j) mod n) = - DR n topc s i j.
Proof.
  intros HL He H0. split; [apply grid_perm_rev|]. split; [apply rev_pin|].
  intros i j. apply DR_rev_gen.
  intros m Hm. apply colR_refl_even_central; assumption.
Qed.
Print Assumptions DR_rev_even.

Close Scope R_scope.

(* ------------------------------------------------------------------ *)
(* the executable float instance of the SAME model *)
From Coq Require Import Floats.PrimFloat.

Section FloatInstance.
  Definition Dmat_float (n : nat) (topc : list float) (scale : float) (i j : nat) : float :=
    Dmat (A:=float) 0%float PrimFloat.opp PrimFloat.mul 0.5%float n topc scale i j.
  Definition Dmat_float_table (n : nat) (topc : list float) (scale : float) : list (list float) :=
    map (fun i => map (fun j => Dmat_float n topc scale i j) (seq 0 n)) (seq 0 n).
End FloatInstance.

(* n = 3: topc = [1/sin(pi/3)] = [1.1547005383792517] (hex literal: exact binary64 value);
   the result is a 3x3 antisymmetric circulant, equal to numpy's spectral_diff_matrix(3) *)
Eval vm_compute in Dmat_float_table 3 [0x1.279a74590331dp+0%float] 1%float.
