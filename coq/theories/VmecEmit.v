(* Model of the boundary section of the VMEC input file written by qsc/to_vmec.py and of a namelist reader.

     for m in range(mpol+1):
       for n in range(-ntor, ntor+1):
         if RBC[n+ntor,m] != 0 or ZBS[n+ntor,m] != 0:
            write "RBC(n,m) = ..,  ZBS(n,m) = .."
            if lasym: write "RBS(n,m) = ..,  ZBC(n,m) = .."

   The scalar type is abstract with a zero test [isz] (x == 0), so that the SAME definitions run on booleans
   (zero patterns of the real arrays, correspondence check) and are reasoned about over R (props/C15_file.v).
   A Fortran namelist reader initialises the arrays with zero and performs the assignments in file order. *)
From Coq Require Import List ZArith Bool Arith Lia.
Import ListNotations.

Section Emit.
  Context {A : Type} (zero : A) (isz : A -> bool).

  Inductive field := F_RBC | F_ZBS | F_RBS | F_ZBC.
  Definition field_eqb (a b : field) : bool :=
    match a, b with F_RBC, F_RBC | F_ZBS, F_ZBS | F_RBS, F_RBS | F_ZBC, F_ZBC => true | _, _ => false end.
  (* one assignment "NAME(n,m) = v" *)
  Record assign := { a_f : field; a_n : Z; a_m : nat; a_v : A }.
  Definition arr := Z -> nat -> A.

  Definition mode_lines (lasym : bool) (RBC RBS ZBC ZBS : arr) (m : nat) (n : Z) : list assign :=
    if negb (isz (RBC n m)) || negb (isz (ZBS n m)) then
      [ {| a_f := F_RBC; a_n := n; a_m := m; a_v := RBC n m |}; {| a_f := F_ZBS; a_n := n; a_m := m; a_v := ZBS n m |} ]
      ++ (if lasym then [ {| a_f := F_RBS; a_n := n; a_m := m; a_v := RBS n m |}; {| a_f := F_ZBC; a_n := n; a_m := m; a_v := ZBC n m |} ] else [])
    else [].

  Definition row_n (ntor i : nat) : Z := (Z.of_nat i - Z.of_nat ntor)%Z.
  Definition emit (lasym : bool) (RBC RBS ZBC ZBS : arr) (mpol ntor : nat) : list assign :=
    flat_map (fun m => flat_map (fun i => mode_lines lasym RBC RBS ZBC ZBS m (row_n ntor i)) (seq 0 (2 * ntor + 1))) (seq 0 (mpol + 1)).

  (* namelist reader: zero-initialised, assignments in order (a later one overrides) *)
  Definition hits (f : field) (n : Z) (m : nat) (a : assign) : bool := field_eqb f (a_f a) && (n =? a_n a)%Z && (m =? a_m a)%nat.
  Definition read (ls : list assign) (f : field) (n : Z) (m : nat) : A :=
    fold_left (fun acc a => if hits f n m a then a_v a else acc) ls zero.

  (* header: MPOL, NTOR as written, and the default resolutions *)
  Definition ntor_written (ntor ntorMax : nat) : nat := Nat.min ntor ntorMax.
  Definition mpol_default (ntheta : nat) : nat := Nat.min (ntheta / 2) 100.
  Definition ntor_default (nphi : nat) : nat := Nat.min (nphi / 2) 100.

  (* ---------------------------------------------------------------- *)
  Lemma flat_map_cons' {X Y} (F : X -> list Y) x xs : flat_map F (x :: xs) = F x ++ flat_map F xs.
  Proof. reflexivity. Qed.

  Lemma read_app l1 l2 f n m :
    read (l1 ++ l2) f n m = fold_left (fun acc a => if hits f n m a then a_v a else acc) l2 (read l1 f n m).
  Proof. unfold read. apply fold_left_app. Qed.

  Lemma fold_nohit l f n m acc : (forall a, In a l -> hits f n m a = false) ->
    fold_left (fun acc a => if hits f n m a then a_v a else acc) l acc = acc.
  Proof.
    revert acc. induction l as [|a l IH]; intros acc H; simpl; [reflexivity|].
    rewrite (H a (or_introl eq_refl)). apply IH. intros b Hb. apply H. right. exact Hb.
  Qed.

  Lemma mode_lines_key lasym RBC RBS ZBC ZBS m n a : In a (mode_lines lasym RBC RBS ZBC ZBS m n) -> a_n a = n /\ a_m a = m.
  Proof.
    unfold mode_lines. destruct (negb (isz (RBC n m)) || negb (isz (ZBS n m))); [|intros []].
    destruct lasym; simpl; intros H; repeat (destruct H as [H|H]; [subst a; simpl; split; reflexivity|]); destruct H.
  Qed.

  Lemma hits_key f n m a : hits f n m a = true -> a_n a = n /\ a_m a = m.
  Proof.
    unfold hits. intros H. apply andb_prop in H. destruct H as [H Hm]. apply andb_prop in H. destruct H as [_ Hn].
    apply Z.eqb_eq in Hn. apply Nat.eqb_eq in Hm. split; congruence.
  Qed.

  Lemma row_n_inj ntor i i' : row_n ntor i = row_n ntor i' -> i = i'.
  Proof. unfold row_n. lia. Qed.

  (* reading inside one row block: only index i can hit *)
  Lemma read_row lasym RBC RBS ZBC ZBS m ntor f i acc : forall (is : list nat), NoDup is ->
    fold_left (fun acc a => if hits f (row_n ntor i) m a then a_v a else acc)
              (flat_map (fun i' => mode_lines lasym RBC RBS ZBC ZBS m (row_n ntor i')) is) acc
    = if in_dec Nat.eq_dec i is
      then fold_left (fun acc a => if hits f (row_n ntor i) m a then a_v a else acc) (mode_lines lasym RBC RBS ZBC ZBS m (row_n ntor i)) acc
      else acc.
  Proof.
    intros is. revert acc. induction is as [|i' is IH]; intros acc Hnd; [reflexivity|].
    inversion Hnd as [|x xs Hni Hnd']; subst. rewrite flat_map_cons'. rewrite fold_left_app.
    destruct (Nat.eq_dec i' i) as [E|NE].
    - subst i'. rewrite (IH _ Hnd'). destruct (in_dec Nat.eq_dec i is) as [Hin|_]; [contradiction|].
      destruct (in_dec Nat.eq_dec i (i :: is)) as [_|Hn]; [reflexivity|]. exfalso. apply Hn. left. reflexivity.
    - rewrite (fold_nohit (mode_lines lasym RBC RBS ZBC ZBS m (row_n ntor i'))).
      + rewrite (IH _ Hnd'). destruct (in_dec Nat.eq_dec i is) as [Hin|Hn]; destruct (in_dec Nat.eq_dec i (i' :: is)) as [Hin'|Hn']; try reflexivity.
        * exfalso. apply Hn'. right. exact Hin.
        * exfalso. destruct Hin' as [E|Hin']; [exact (NE E)|exact (Hn Hin')].
      + intros a Ha. destruct (hits f (row_n ntor i) m a) eqn:Hh; [|reflexivity].
        apply hits_key in Hh. apply mode_lines_key in Ha. destruct Hh as [Hn _]. destruct Ha as [Hn' _].
        exfalso. apply NE. apply (row_n_inj ntor). congruence.
  Qed.

  Lemma read_rows lasym RBC RBS ZBC ZBS ntor f i m acc : forall (ms : list nat), NoDup ms -> (i < 2 * ntor + 1)%nat ->
    fold_left (fun acc a => if hits f (row_n ntor i) m a then a_v a else acc)
              (flat_map (fun m' => flat_map (fun i' => mode_lines lasym RBC RBS ZBC ZBS m' (row_n ntor i')) (seq 0 (2 * ntor + 1))) ms) acc
    = if in_dec Nat.eq_dec m ms
      then fold_left (fun acc a => if hits f (row_n ntor i) m a then a_v a else acc) (mode_lines lasym RBC RBS ZBC ZBS m (row_n ntor i)) acc
      else acc.
  Proof.
    intros ms. revert acc. induction ms as [|m' ms IH]; intros acc Hnd Hi; [reflexivity|].
    inversion Hnd as [|x xs Hni Hnd']; subst. rewrite flat_map_cons'. rewrite fold_left_app.
    destruct (Nat.eq_dec m' m) as [E|NE].
    - subst m'. match goal with |- fold_left _ _ ?X = _ => etransitivity; [exact (IH X Hnd' Hi)|] end. destruct (in_dec Nat.eq_dec m ms) as [Hin|_]; [contradiction|].
      destruct (in_dec Nat.eq_dec m (m :: ms)) as [_|Hn]; [|exfalso; apply Hn; left; reflexivity].
      rewrite (read_row lasym RBC RBS ZBC ZBS m ntor f i acc (seq 0 (2 * ntor + 1)) (seq_NoDup _ _)).
      destruct (in_dec Nat.eq_dec i (seq 0 (2 * ntor + 1))) as [_|Hn]; [reflexivity|].
      exfalso. apply Hn. apply in_seq. lia.
    - rewrite (fold_nohit (flat_map (fun i' => mode_lines lasym RBC RBS ZBC ZBS m' (row_n ntor i')) (seq 0 (2 * ntor + 1)))).
      + match goal with |- fold_left _ _ ?X = _ => etransitivity; [exact (IH X Hnd' Hi)|] end. destruct (in_dec Nat.eq_dec m ms) as [Hin|Hn]; destruct (in_dec Nat.eq_dec m (m' :: ms)) as [Hin'|Hn']; try reflexivity.
        * exfalso. apply Hn'. right. exact Hin.
        * exfalso. destruct Hin' as [E|Hin']; [exact (NE E)|exact (Hn Hin')].
      + intros a Ha. destruct (hits f (row_n ntor i) m a) eqn:Hh; [|reflexivity].
        apply hits_key in Hh. apply in_flat_map in Ha. destruct Ha as [i' [_ Ha]]. apply mode_lines_key in Ha.
        exfalso. apply NE. destruct Hh as [_ Hm]. destruct Ha as [_ Hm']. congruence.
  Qed.

  (* what the reader finds for one in-range entry *)
  Theorem read_emit lasym RBC RBS ZBC ZBS mpol ntor f i m : (m <= mpol)%nat -> (i < 2 * ntor + 1)%nat ->
    read (emit lasym RBC RBS ZBC ZBS mpol ntor) f (row_n ntor i) m
    = fold_left (fun acc a => if hits f (row_n ntor i) m a then a_v a else acc) (mode_lines lasym RBC RBS ZBC ZBS m (row_n ntor i)) zero.
  Proof.
    intros Hm Hi. unfold read, emit.
    rewrite (read_rows lasym RBC RBS ZBC ZBS ntor f i m zero (seq 0 (mpol + 1)) (seq_NoDup _ _) Hi).
    destruct (in_dec Nat.eq_dec m (seq 0 (mpol + 1))) as [_|Hn]; [reflexivity|]. exfalso. apply Hn. apply in_seq. lia.
  Qed.

  Definition same (x y : A) : Prop := x = y \/ (isz x = true /\ y = zero).

  Lemma hits_refl f n m v : hits f n m {| a_f := f; a_n := n; a_m := m; a_v := v |} = true.
  Proof. unfold hits. simpl. rewrite Z.eqb_refl, Nat.eqb_refl. destruct f; reflexivity. Qed.

  (* RBC and ZBS: every in-range entry is recovered (entries equal to zero come back as the reader's zero) *)
  Theorem read_RBC lasym RBC RBS ZBC ZBS mpol ntor i m : (m <= mpol)%nat -> (i < 2 * ntor + 1)%nat ->
    same (RBC (row_n ntor i) m) (read (emit lasym RBC RBS ZBC ZBS mpol ntor) F_RBC (row_n ntor i) m).
  Proof.
    intros Hm Hi. rewrite (read_emit lasym RBC RBS ZBC ZBS mpol ntor F_RBC i m Hm Hi). unfold mode_lines.
    destruct (isz (RBC (row_n ntor i) m)) eqn:E1; destruct (isz (ZBS (row_n ntor i) m)) eqn:E2; cbn [negb orb];
      try (right; split; [exact E1|reflexivity]); left;
      destruct lasym; cbn [app fold_left]; unfold hits; cbn [a_f a_n a_m a_v field_eqb andb]; rewrite ?Z.eqb_refl, ?Nat.eqb_refl; reflexivity.
  Qed.

  Theorem read_ZBS lasym RBC RBS ZBC ZBS mpol ntor i m : (m <= mpol)%nat -> (i < 2 * ntor + 1)%nat ->
    same (ZBS (row_n ntor i) m) (read (emit lasym RBC RBS ZBC ZBS mpol ntor) F_ZBS (row_n ntor i) m).
  Proof.
    intros Hm Hi. rewrite (read_emit lasym RBC RBS ZBC ZBS mpol ntor F_ZBS i m Hm Hi). unfold mode_lines.
    destruct (isz (RBC (row_n ntor i) m)) eqn:E1; destruct (isz (ZBS (row_n ntor i) m)) eqn:E2; cbn [negb orb];
      try (right; split; [exact E2|reflexivity]); left;
      destruct lasym; cbn [app fold_left]; unfold hits; cbn [a_f a_n a_m a_v field_eqb andb]; rewrite ?Z.eqb_refl, ?Nat.eqb_refl; reflexivity.
  Qed.

  (* RBS and ZBC are written only on lines whose RBC or ZBS is nonzero *)
  Definition guarded (RBC RBS ZBC ZBS : arr) (mpol ntor : nat) : Prop :=
    forall i m, (m <= mpol)%nat -> (i < 2 * ntor + 1)%nat ->
      isz (RBC (row_n ntor i) m) = true -> isz (ZBS (row_n ntor i) m) = true ->
      isz (RBS (row_n ntor i) m) = true /\ isz (ZBC (row_n ntor i) m) = true.

  Theorem read_RBS RBC RBS ZBC ZBS mpol ntor i m : (m <= mpol)%nat -> (i < 2 * ntor + 1)%nat ->
    guarded RBC RBS ZBC ZBS mpol ntor ->
    same (RBS (row_n ntor i) m) (read (emit true RBC RBS ZBC ZBS mpol ntor) F_RBS (row_n ntor i) m).
  Proof.
    intros Hm Hi G. rewrite (read_emit true RBC RBS ZBC ZBS mpol ntor F_RBS i m Hm Hi). unfold mode_lines.
    destruct (isz (RBC (row_n ntor i) m)) eqn:E1; destruct (isz (ZBS (row_n ntor i) m)) eqn:E2; cbn [negb orb];
      try (left; cbn [app fold_left]; unfold hits; cbn [a_f a_n a_m a_v field_eqb andb]; rewrite ?Z.eqb_refl, ?Nat.eqb_refl; reflexivity).
    right. split; [apply (G i m Hm Hi E1 E2)|reflexivity].
  Qed.

  Theorem read_ZBC RBC RBS ZBC ZBS mpol ntor i m : (m <= mpol)%nat -> (i < 2 * ntor + 1)%nat ->
    guarded RBC RBS ZBC ZBS mpol ntor ->
    same (ZBC (row_n ntor i) m) (read (emit true RBC RBS ZBC ZBS mpol ntor) F_ZBC (row_n ntor i) m).
  Proof.
    intros Hm Hi G. rewrite (read_emit true RBC RBS ZBC ZBS mpol ntor F_ZBC i m Hm Hi). unfold mode_lines.
    destruct (isz (RBC (row_n ntor i) m)) eqn:E1; destruct (isz (ZBS (row_n ntor i) m)) eqn:E2; cbn [negb orb];
      try (left; cbn [app fold_left]; unfold hits; cbn [a_f a_n a_m a_v field_eqb andb]; rewrite ?Z.eqb_refl, ?Nat.eqb_refl; reflexivity).
    right. split; [apply (G i m Hm Hi E1 E2)|reflexivity].
  Qed.

  (* with lasym = false nothing is written for RBS / ZBC *)
  Theorem read_sym_no_asym RBC RBS ZBC ZBS mpol ntor n m :
    read (emit false RBC RBS ZBC ZBS mpol ntor) F_RBS n m = zero /\ read (emit false RBC RBS ZBC ZBS mpol ntor) F_ZBC n m = zero.
  Proof.
    split; unfold read; apply fold_nohit; intros a Ha; unfold emit in Ha;
      apply in_flat_map in Ha; destruct Ha as [m' [_ Ha]]; apply in_flat_map in Ha; destruct Ha as [i' [_ Ha]];
      unfold mode_lines in Ha; destruct (negb (isz (RBC (row_n ntor i') m')) || negb (isz (ZBS (row_n ntor i') m'))); simpl in Ha;
      repeat (destruct Ha as [Ha|Ha]; [subst a; reflexivity|]); destruct Ha.
  Qed.

  (* every written index is inside the declared ranges 0..MPOL, |n| <= ntor (NOT NTOR = min(ntor, ntorMax)) *)
  Theorem emit_in_range lasym RBC RBS ZBC ZBS mpol ntor a : In a (emit lasym RBC RBS ZBC ZBS mpol ntor) ->
    (a_m a <= mpol)%nat /\ (- Z.of_nat ntor <= a_n a <= Z.of_nat ntor)%Z.
  Proof.
    unfold emit. intros Ha. apply in_flat_map in Ha. destruct Ha as [m [Hm Ha]]. apply in_flat_map in Ha. destruct Ha as [i [Hi Ha]].
    apply mode_lines_key in Ha. destruct Ha as [Hn Hm']. apply in_seq in Hm. apply in_seq in Hi. unfold row_n in Hn. lia.
  Qed.
End Emit.

(* Without the guard an asymmetric coefficient is lost: RBC = ZBS = 0, RBS = 1 at (n, m) = (0, 1)  (boolean instance: true = "zero") *)
Example unguarded_asym_entry_lost :
  let nz : Z -> nat -> bool := fun n m => negb ((n =? 0)%Z && (m =? 1)%nat) in   (* "is zero" pattern of RBS *)
  let allz : Z -> nat -> bool := fun _ _ => true in
  read true (emit (fun b => b) true allz nz allz allz 1 0) F_RBS 0%Z 1%nat = true (* reader sees zero *) /\ nz 0%Z 1%nat = false (* array entry is nonzero *).
Proof. vm_compute. split; reflexivity. Qed.

Print Assumptions read_RBC.
Print Assumptions read_ZBS.
Print Assumptions read_RBS.
Print Assumptions read_ZBC.
Print Assumptions read_sym_no_asym.
Print Assumptions emit_in_range.
