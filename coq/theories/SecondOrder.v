(* ====================================================================== *)
(*  SecondOrder.v -- second-order convergence in the grid spacing:        *)
(*  the textbook statements behind the property text.                     *)
(*                                                                        *)
(*  pyQSC computes                                                        *)
(*   (i)  the Boozer toroidal angle by a CUMULATIVE TRAPEZOID sum of the  *)
(*        arclength element on a uniform grid, and several integrals by   *)
(*        the trapezoid rule on non-uniform abscissae;                    *)
(*   (ii) several outputs as extrema OVER GRID POINTS of a profile.       *)
(*                                                                        *)
(*  T1  single panel (antiderivative form, and the RInt corollary):       *)
(*        | F b - F a - (b-a)/2 (f a + f b) | <= M (b-a)^3 / 12           *)
(*      with the exact error term  - f''(d)/12 (b-a)^3 ,  a < d < b.      *)
(*  T2  cumulative sums: on abscissae x_0 < x_1 < ... < x_n with steps    *)
(*      <= h, at EVERY j <= n                                             *)
(*        | F x_j - F x_0 - T_j | <= (x_j - x_0) M h^2 / 12 ;             *)
(*      on the uniform grid x_j = a + j h                                 *)
(*        | F x_j - F a - T_j | <= j (M h^3 / 12) = (x_j - a) M h^2 / 12. *)
(*  T3  extremum over grid points: if x* maximises f on [a,b] then some   *)
(*      grid point x_j = a + j h (n h = b - a) has                        *)
(*        0 <= f x* - f x_j <= M h^2 / 8 ,                                *)
(*      hence  0 <= f x* - max_j f x_j <= M h^2 / 8 ; same for minima.    *)
(*                                                                        *)
(*  Every bound comes with an Example in which it is ATTAINED.            *)
(*  All hypotheses are on the closed interval only, in the [is_derive]    *)
(*  style of NewtonConv.v (whose Rolle / Taylor-Lagrange lemmas are       *)
(*  copied here; this file imports no project file).                      *)
(* ====================================================================== *)

From Coq Require Import List Arith Lia Reals Lra.
From Coquelicot Require Import Coquelicot.
Import ListNotations.

Local Open Scope R_scope.

(* ====================================================================== *)
(*  PART 0 : Rolle and Taylor-Lagrange (copied from NewtonConv.v)         *)
(* ====================================================================== *)

(* Rolle, either orientation, hypotheses on the CLOSED interval only. *)
Lemma rolle_between : forall (g g' : R -> R) (u v : R),
  u <> v ->
  (forall t, Rmin u v <= t <= Rmax u v -> is_derive g t (g' t)) ->
  g u = g v ->
  exists c, Rmin u v < c < Rmax u v /\ g' c = 0.
Proof.
  intros g g' u v Hne Hd Heq.
  destruct (Rlt_dec u v) as [Hlt | Hge].
  - rewrite Rmin_left, Rmax_right in * by lra.
    destruct (MVT_cor2 g g' u v Hlt) as (c & Hc & Hin).
    { intros t Ht. apply is_derive_Reals. apply Hd. exact Ht. }
    exists c. split; [exact Hin|].
    assert (H0 : g' c * (v - u) = 0) by lra.
    apply Rmult_integral in H0. destruct H0; lra.
  - assert (Hlt : v < u) by lra.
    rewrite Rmin_right, Rmax_left in * by lra.
    destruct (MVT_cor2 g g' v u Hlt) as (c & Hc & Hin).
    { intros t Ht. apply is_derive_Reals. apply Hd. exact Ht. }
    exists c. split; [exact Hin|].
    assert (H0 : g' c * (u - v) = 0) by lra.
    apply Rmult_integral in H0. destruct H0; lra.
Qed.

(* Rolle on [u,v], u < v. *)
Lemma rolle_lt : forall (g g' : R -> R) (u v : R),
  u < v ->
  (forall t, u <= t <= v -> is_derive g t (g' t)) ->
  g u = g v ->
  exists c, u < c < v /\ g' c = 0.
Proof.
  intros g g' u v Hlt Hd Heq.
  destruct (rolle_between g g' u v) as (c & Hc & Ec); [lra | | exact Heq |].
  - intros t Ht. rewrite Rmin_left, Rmax_right in Ht by lra. apply Hd. exact Ht.
  - rewrite Rmin_left, Rmax_right in Hc by lra. exists c. split; assumption.
Qed.

(* Taylor-Lagrange of order 2 at x, evaluated at y, either orientation. *)
Lemma taylor2 : forall (f f' f'' : R -> R) (x y : R),
  x <> y ->
  (forall t, Rmin x y <= t <= Rmax x y -> is_derive f t (f' t)) ->
  (forall t, Rmin x y <= t <= Rmax x y -> is_derive f' t (f'' t)) ->
  exists d, Rmin x y < d < Rmax x y /\
    f y = f x + f' x * (y - x) + f'' d / 2 * (y - x) ^ 2.
Proof.
  intros f f' f'' x y Hne Hf Hf'.
  set (K := (f y - f x - f' x * (y - x)) / (y - x) ^ 2).
  set (p   := fun t : R => f x + f' x * (t - x) + K * (t - x) ^ 2).
  set (p'  := fun t : R => f' x + 2 * K * (t - x)).
  set (phi  := fun t : R => f t - p t).
  set (phi' := fun t : R => f' t - p' t).
  set (phi'' := fun t : R => f'' t - 2 * K).
  assert (Hp : forall t, is_derive p t (p' t)).
  { intros t. unfold p, p'. auto_derive; [exact I | ring]. }
  assert (Hp' : forall t, is_derive p' t (2 * K)).
  { intros t. unfold p'. auto_derive; [exact I | ring]. }
  assert (Hphi : forall t, Rmin x y <= t <= Rmax x y -> is_derive phi t (phi' t)).
  { intros t Ht. exact (is_derive_minus f p t (f' t) (p' t) (Hf t Ht) (Hp t)). }
  assert (Hphi' : forall t, Rmin x y <= t <= Rmax x y -> is_derive phi' t (phi'' t)).
  { intros t Ht. exact (is_derive_minus f' p' t (f'' t) (2 * K) (Hf' t Ht) (Hp' t)). }
  assert (Hyx : (y - x) ^ 2 <> 0).
  { apply pow_nonzero. lra. }
  assert (Ex : phi x = 0) by (unfold phi, p; ring).
  assert (Ey : phi y = 0) by (unfold phi, p, K; field; lra).
  assert (Ex' : phi' x = 0) by (unfold phi', p'; ring).
  destruct (rolle_between phi phi' x y Hne Hphi) as (c & Hc & Ec); [lra|].
  assert (Hxc : x <> c).
  { intros ->. unfold Rmin, Rmax in Hc. destruct (Rle_dec c y); lra. }
  assert (Hsub : forall t, Rmin x c <= t <= Rmax x c -> Rmin x y <= t <= Rmax x y).
  { intros t. unfold Rmin, Rmax in *.
    destruct (Rle_dec x c); destruct (Rle_dec x y); lra. }
  destruct (rolle_between phi' phi'' x c Hxc) as (d & Hd & Ed).
  { intros t Ht. apply Hphi'. apply Hsub. exact Ht. }
  { rewrite Ex'. symmetry. exact Ec. }
  exists d. split.
  - clear - Hc Hd. unfold Rmin, Rmax in *.
    destruct (Rle_dec x c); destruct (Rle_dec x y); lra.
  - unfold phi'' in Ed. unfold phi, p in Ey.
    assert (EK : K * (y - x) ^ 2 = f y - f x - f' x * (y - x)).
    { unfold K. field. lra. }
    replace (f'' d) with (2 * K) by lra. lra.
Qed.

(* ====================================================================== *)
(*  PART 1 (T1) : one trapezoid panel                                     *)
(* ====================================================================== *)

(* The exact error term.  F is an antiderivative of f on [a,b].
   Proof: g(t) = F t - F a - (t-a)/2 (f a + f t) - K (t-a)^3 with K chosen
   such that g(b) = 0; g(a) = g'(a) = 0; Rolle twice;
   g''(t) = -(t-a) (f''(t)/2 + 6K). *)
Theorem trapezoid_panel_exact : forall (F f f' f'' : R -> R) (a b : R),
  a < b ->
  (forall t, a <= t <= b -> is_derive F t (f t)) ->
  (forall t, a <= t <= b -> is_derive f t (f' t)) ->
  (forall t, a <= t <= b -> is_derive f' t (f'' t)) ->
  exists d, a < d < b /\
    F b - F a - (b - a) / 2 * (f a + f b) = - f'' d / 12 * (b - a) ^ 3.
Proof.
  intros F f f' f'' a b Hab HF Hf Hf'.
  remember ((F b - F a - (b - a) / 2 * (f a + f b)) / (b - a) ^ 3) as K eqn:HK.
  set (g   := fun t : R => F t - F a - (t - a) / 2 * (f a + f t) - K * (t - a) ^ 3).
  set (g'  := fun t : R => f t - / 2 * (f a + f t) - (t - a) / 2 * f' t
                            - 3 * K * (t - a) ^ 2).
  set (g'' := fun t : R => - (t - a) * (f'' t / 2 + 6 * K)).
  assert (Hg : forall t, a <= t <= b -> is_derive g t (g' t)).
  { intros t Ht. unfold g, g'.
    pose proof (HF t Ht) as H1. pose proof (Hf t Ht) as H2.
    auto_derive.
    - repeat split; eexists; eassumption.
    - assert (E1 : Derive (fun x : R => F x) t = f t)
        by (apply is_derive_unique; exact H1).
      assert (E2 : Derive (fun x : R => f x) t = f' t)
        by (apply is_derive_unique; exact H2).
      rewrite E1, E2. field. }
  assert (Hg' : forall t, a <= t <= b -> is_derive g' t (g'' t)).
  { intros t Ht. unfold g', g''.
    pose proof (Hf t Ht) as H2. pose proof (Hf' t Ht) as H3.
    auto_derive.
    - repeat split; eexists; eassumption.
    - assert (E2 : Derive (fun x : R => f x) t = f' t)
        by (apply is_derive_unique; exact H2).
      assert (E3 : Derive (fun x : R => f' x) t = f'' t)
        by (apply is_derive_unique; exact H3).
      rewrite E2, E3. field. }
  assert (Hba : (b - a) ^ 3 <> 0) by (apply pow_nonzero; lra).
  assert (Ea : g a = 0) by (unfold g; field).
  assert (Eb : g b = 0) by (unfold g; rewrite HK; field; lra).
  assert (Ea' : g' a = 0) by (unfold g'; field).
  destruct (rolle_lt g g' a b Hab Hg) as (c & Hc & Ec); [lra|].
  destruct (rolle_lt g' g'' a c) as (d & Hd & Ed); [lra | | lra |].
  { intros t Ht. apply Hg'. lra. }
  exists d. split; [lra|].
  unfold g'' in Ed.
  apply Rmult_integral in Ed. destruct Ed as [Ed | Ed]; [lra|].
  assert (EK : K * (b - a) ^ 3 = F b - F a - (b - a) / 2 * (f a + f b)).
  { rewrite HK. field. lra. }
  rewrite <- EK. replace K with (- f'' d / 12) by lra. reflexivity.
Qed.

(* T1, antiderivative form. *)
Theorem trapezoid_panel : forall (F f f' f'' : R -> R) (a b M : R),
  a < b ->
  (forall t, a <= t <= b -> is_derive F t (f t)) ->
  (forall t, a <= t <= b -> is_derive f t (f' t)) ->
  (forall t, a <= t <= b -> is_derive f' t (f'' t)) ->
  (forall t, a <= t <= b -> Rabs (f'' t) <= M) ->
  Rabs (F b - F a - (b - a) / 2 * (f a + f b)) <= M * (b - a) ^ 3 / 12.
Proof.
  intros F f f' f'' a b M Hab HF Hf Hf' Hup.
  destruct (trapezoid_panel_exact F f f' f'' a b Hab HF Hf Hf') as (d & Hd & E).
  rewrite E.
  assert (Hpos : 0 <= (b - a) ^ 3) by (apply pow_le; lra).
  replace (- f'' d / 12 * (b - a) ^ 3) with (- (f'' d * ((b - a) ^ 3 / 12))) by field.
  rewrite Rabs_Ropp, Rabs_mult, (Rabs_pos_eq ((b - a) ^ 3 / 12)) by lra.
  replace (M * (b - a) ^ 3 / 12) with (M * ((b - a) ^ 3 / 12)) by field.
  apply Rmult_le_compat_r; [lra|]. apply Hup. lra.
Qed.

Print Assumptions trapezoid_panel.

(* The RInt corollary: on [a,b], RInt f a b = F b - F a (f is differentiable,
   hence continuous, on [a,b]). *)
Lemma RInt_antiderivative : forall (F f f' : R -> R) (a b : R),
  a <= b ->
  (forall t, a <= t <= b -> is_derive F t (f t)) ->
  (forall t, a <= t <= b -> is_derive f t (f' t)) ->
  RInt f a b = F b - F a.
Proof.
  intros F f f' a b Hab HF Hf.
  apply is_RInt_unique.
  apply (is_RInt_derive F f a b).
  - intros x Hx. rewrite Rmin_left, Rmax_right in Hx by lra. apply HF. exact Hx.
  - intros x Hx. rewrite Rmin_left, Rmax_right in Hx by lra.
    apply (@ex_derive_continuous R_AbsRing R_NormedModule f x).
    exists (f' x). apply Hf. exact Hx.
Qed.

Theorem trapezoid_panel_RInt : forall (F f f' f'' : R -> R) (a b M : R),
  a < b ->
  (forall t, a <= t <= b -> is_derive F t (f t)) ->
  (forall t, a <= t <= b -> is_derive f t (f' t)) ->
  (forall t, a <= t <= b -> is_derive f' t (f'' t)) ->
  (forall t, a <= t <= b -> Rabs (f'' t) <= M) ->
  Rabs (RInt f a b - (b - a) / 2 * (f a + f b)) <= M * (b - a) ^ 3 / 12.
Proof.
  intros F f f' f'' a b M Hab HF Hf Hf' Hup.
  rewrite (RInt_antiderivative F f f' a b) by (assumption || lra).
  apply (trapezoid_panel F f f' f'' a b M); assumption.
Qed.

Print Assumptions trapezoid_panel_RInt.

(* If f is twice differentiable EVERYWHERE the antiderivative need not be
   supplied: t |-> RInt f a t is one. *)
Theorem trapezoid_panel_RInt_global : forall (f f' f'' : R -> R) (a b M : R),
  a < b ->
  (forall t, is_derive f t (f' t)) ->
  (forall t, is_derive f' t (f'' t)) ->
  (forall t, a <= t <= b -> Rabs (f'' t) <= M) ->
  Rabs (RInt f a b - (b - a) / 2 * (f a + f b)) <= M * (b - a) ^ 3 / 12.
Proof.
  intros f f' f'' a b M Hab Hf Hf' Hup.
  assert (Hc : forall t, continuous f t).
  { intros t. apply (@ex_derive_continuous R_AbsRing R_NormedModule f t).
    exists (f' t). apply Hf. }
  apply (trapezoid_panel_RInt (fun t => RInt f a t) f f' f'' a b M); auto.
  intros t _.
  apply (is_derive_RInt f (fun t => RInt f a t) a t).
  - exists (mkposreal 1 Rlt_0_1). intros y _.
    apply (@RInt_correct R_CompleteNormedModule).
    apply (@ex_RInt_continuous R_CompleteNormedModule). intros z _. apply Hc.
  - apply Hc.
Qed.

Print Assumptions trapezoid_panel_RInt_global.

(* The bound is attained: f = x^2 on [0,1], M = 2, error = -1/6. *)
Example trapezoid_panel_sharp :
  let F := fun x : R => x ^ 3 / 3 in
  let f := fun x : R => x ^ 2 in
  let f' := fun x : R => 2 * x in
  let f'' := fun _ : R => 2 in
  (forall t, is_derive F t (f t)) /\
  (forall t, is_derive f t (f' t)) /\
  (forall t, is_derive f' t (f'' t)) /\
  (forall t, Rabs (f'' t) <= 2) /\
  F 1 - F 0 - (1 - 0) / 2 * (f 0 + f 1) = - (1 / 6) /\
  Rabs (F 1 - F 0 - (1 - 0) / 2 * (f 0 + f 1)) = 2 * (1 - 0) ^ 3 / 12.
Proof.
  cbv zeta. split; [|split; [|split; [|split; [|split]]]].
  - intros t. auto_derive; [exact I | field].
  - intros t. auto_derive; [exact I | ring].
  - intros t. auto_derive; [exact I | ring].
  - intros _. rewrite Rabs_pos_eq; lra.
  - field.
  - replace (1 ^ 3 / 3 - 0 ^ 3 / 3 - (1 - 0) / 2 * (0 ^ 2 + 1 ^ 2)) with (- (1 / 6)) by field.
    rewrite Rabs_Ropp, Rabs_pos_eq by lra. field.
Qed.

(* ====================================================================== *)
(*  PART 2 (T3) : extrema over grid points                                *)
(* ====================================================================== *)

(* The uniform grid. *)
Definition grid (a h : R) (j : nat) : R := a + INR j * h.

Lemma grid_0 : forall a h, grid a h 0 = a.
Proof. intros. unfold grid. simpl. ring. Qed.

Lemma grid_S : forall a h j, grid a h (S j) = grid a h j + h.
Proof. intros. unfold grid. rewrite S_INR. ring. Qed.

Lemma grid_in : forall a b h n j, 0 < h -> INR n * h = b - a -> (j <= n)%nat ->
  a <= grid a h j <= b.
Proof.
  intros a b h n j Hh Hn Hj. unfold grid.
  assert (0 <= INR j) by apply pos_INR.
  assert (INR j <= INR n) by (apply le_INR; exact Hj).
  assert (0 <= INR j * h) by (apply Rmult_le_pos; lra).
  assert (INR j * h <= INR n * h) by (apply Rmult_le_compat_r; lra).
  lra.
Qed.

(* Every real in [0,n] is within 1/2 of a natural number <= n. *)
Lemma nearest_nat : forall n y, 0 <= y <= INR n ->
  exists j, (j <= n)%nat /\ Rabs (y - INR j) <= 1 / 2.
Proof.
  induction n as [|n IH]; intros y Hy.
  - simpl in Hy. exists 0%nat. split; [lia|]. simpl.
    replace (y - 0) with 0 by lra. rewrite Rabs_R0. lra.
  - rewrite S_INR in Hy.
    destruct (Rle_dec y (INR n)) as [Hle | Hgt].
    + destruct (IH y) as (j & Hj & Hd); [lra|]. exists j. split; [lia | exact Hd].
    + destruct (Rle_dec y (INR n + 1 / 2)) as [Hl | Hr].
      * exists n. split; [lia|]. apply Rabs_le. lra.
      * exists (S n). split; [lia|]. rewrite S_INR. apply Rabs_le. lra.
Qed.

(* Every point of [a,b] is within h/2 of a grid point. *)
Lemma nearest_grid : forall a b h n xs, 0 < h -> INR n * h = b - a -> a <= xs <= b ->
  exists j, (j <= n)%nat /\ Rabs (grid a h j - xs) <= h / 2.
Proof.
  intros a b h n xs Hh Hn Hxs.
  destruct (nearest_nat n ((xs - a) / h)) as (j & Hj & Hd).
  { split.
    - apply Rmult_le_pos; [lra|]. apply Rlt_le, Rinv_0_lt_compat, Hh.
    - apply Rmult_le_reg_r with h; [exact Hh|].
      replace ((xs - a) / h * h) with (xs - a) by (field; lra). lra. }
  exists j. split; [exact Hj|].
  unfold grid.
  replace (a + INR j * h - xs) with (- (h * ((xs - a) / h - INR j))) by (field; lra).
  rewrite Rabs_Ropp, Rabs_mult, (Rabs_pos_eq h) by lra.
  replace (h / 2) with (h * (1 / 2)) by field.
  apply Rmult_le_compat_l; lra.
Qed.

Lemma sq_le_of_abs : forall u c, Rabs u <= c -> u ^ 2 <= c ^ 2.
Proof.
  intros u c H. rewrite <- (pow2_abs u).
  apply pow_incr. split; [apply Rabs_pos | exact H].
Qed.

Section GridExtremum.

Variables f f' f'' : R -> R.
Variables a b M h : R.
Variable n : nat.

Hypothesis Hh   : 0 < h.
Hypothesis Hn   : INR n * h = b - a.
Hypothesis Hf   : forall t, a <= t <= b -> is_derive f t (f' t).
Hypothesis Hf'  : forall t, a <= t <= b -> is_derive f' t (f'' t).
Hypothesis Hup  : forall t, a <= t <= b -> Rabs (f'' t) <= M.

(* At a critical point xs of f the nearest grid point carries the value of f
   up to M h^2 / 8 (no extremality needed). *)
Lemma grid_critical : forall xs, a <= xs <= b -> f' xs = 0 ->
  exists j, (j <= n)%nat /\ Rabs (grid a h j - xs) <= h / 2 /\
            Rabs (f xs - f (grid a h j)) <= M * h ^ 2 / 8.
Proof using Hh Hn Hf Hf' Hup.
  intros xs Hxs Hcrit.
  destruct (nearest_grid a b h n xs Hh Hn Hxs) as (j & Hj & Hd).
  exists j. split; [exact Hj|]. split; [exact Hd|].
  pose proof (grid_in a b h n j Hh Hn Hj) as Hin.
  set (xj := grid a h j) in *.
  assert (HM : 0 <= M).
  { apply Rle_trans with (Rabs (f'' xs)); [apply Rabs_pos | apply Hup; exact Hxs]. }
  assert (Hh2 : 0 <= h ^ 2) by (apply pow_le; lra).
  destruct (Req_dec xs xj) as [E | Hne].
  - rewrite <- E. replace (f xs - f xs) with 0 by ring. rewrite Rabs_R0.
    apply Rmult_le_pos; [apply Rmult_le_pos; assumption | lra].
  - assert (Hsub : forall t, Rmin xs xj <= t <= Rmax xs xj -> a <= t <= b).
    { intros t. unfold Rmin, Rmax. destruct (Rle_dec xs xj); lra. }
    destruct (taylor2 f f' f'' xs xj Hne) as (d & Hdin & Et).
    { intros t Ht. apply Hf. apply Hsub. exact Ht. }
    { intros t Ht. apply Hf'. apply Hsub. exact Ht. }
    rewrite Hcrit in Et.
    replace (f xs - f xj) with (- (f'' d * ((xj - xs) ^ 2 / 2))) by (rewrite Et; field).
    assert (Hsq : (xj - xs) ^ 2 <= (h / 2) ^ 2) by (apply sq_le_of_abs; exact Hd).
    assert (Hsq0 : 0 <= (xj - xs) ^ 2) by apply pow2_ge_0.
    rewrite Rabs_Ropp, Rabs_mult, (Rabs_pos_eq ((xj - xs) ^ 2 / 2)) by lra.
    apply Rle_trans with (M * ((xj - xs) ^ 2 / 2)).
    + apply Rmult_le_compat_r; [lra|]. apply Hup. apply Hsub. lra.
    + replace (M * h ^ 2 / 8) with (M * ((h / 2) ^ 2 / 2)) by field.
      apply Rmult_le_compat_l; lra.
Qed.

(* An interior maximiser is a critical point. *)
Lemma interior_max_critical : forall xs, a < xs < b ->
  (forall x, a <= x <= b -> f x <= f xs) -> f' xs = 0.
Proof using Hf.
  intros xs Hxs Hmax.
  assert (Hlim : derivable_pt_lim f xs (f' xs)).
  { apply is_derive_Reals. apply Hf. lra. }
  pose (pr := exist (fun l => derivable_pt_abs f xs l) (f' xs) Hlim : derivable_pt f xs).
  pose proof (deriv_maximum f a b xs pr) as H.
  unfold pr in H. simpl in H. apply H; try lra.
  intros x H1 H2. apply Hmax. lra.
Qed.

(* T3, maximum.  xs is ANY maximiser of f on [a,b] (interior or end point:
   end points are grid points). *)
Theorem grid_max_second_order : forall xs, a <= xs <= b ->
  (forall x, a <= x <= b -> f x <= f xs) ->
  exists j, (j <= n)%nat /\ 0 <= f xs - f (grid a h j) <= M * h ^ 2 / 8.
Proof using Hh Hn Hf Hf' Hup.
  intros xs Hxs Hmax.
  assert (HM : 0 <= M).
  { apply Rle_trans with (Rabs (f'' xs)); [apply Rabs_pos | apply Hup; exact Hxs]. }
  assert (Hh2 : 0 <= h ^ 2) by (apply pow_le; lra).
  assert (Hbd : 0 <= M * h ^ 2 / 8).
  { apply Rmult_le_pos; [apply Rmult_le_pos; assumption | lra]. }
  destruct (Req_dec xs a) as [Ea | Hna].
  { exists 0%nat. split; [lia|]. rewrite grid_0, Ea. lra. }
  destruct (Req_dec xs b) as [Eb | Hnb].
  { exists n. split; [lia|]. unfold grid. rewrite Hn, Eb.
    replace (a + (b - a)) with b by ring. lra. }
  assert (Hcrit : f' xs = 0) by (apply interior_max_critical; [lra | exact Hmax]).
  destruct (grid_critical xs Hxs Hcrit) as (j & Hj & _ & Hd).
  exists j. split; [exact Hj|].
  pose proof (Hmax (grid a h j) (grid_in a b h n j Hh Hn Hj)) as Hle.
  rewrite Rabs_pos_eq in Hd by lra. lra.
Qed.

End GridExtremum.

Print Assumptions grid_max_second_order.

(* T3, minimum, by the symmetry f |-> -f. *)
Theorem grid_min_second_order : forall (f f' f'' : R -> R) (a b M h : R) (n : nat),
  0 < h -> INR n * h = b - a ->
  (forall t, a <= t <= b -> is_derive f t (f' t)) ->
  (forall t, a <= t <= b -> is_derive f' t (f'' t)) ->
  (forall t, a <= t <= b -> Rabs (f'' t) <= M) ->
  forall xs, a <= xs <= b ->
  (forall x, a <= x <= b -> f xs <= f x) ->
  exists j, (j <= n)%nat /\ 0 <= f (grid a h j) - f xs <= M * h ^ 2 / 8.
Proof.
  intros f f' f'' a b M h n Hh Hn Hf Hf' Hup xs Hxs Hmin.
  destruct (grid_max_second_order (fun t => - f t) (fun t => - f' t) (fun t => - f'' t)
              a b M h n Hh Hn) with (xs := xs) as (j & Hj & Hd).
  - intros t Ht. exact (is_derive_opp f t (f' t) (Hf t Ht)).
  - intros t Ht. exact (is_derive_opp f' t (f'' t) (Hf' t Ht)).
  - intros t Ht. rewrite Rabs_Ropp. apply Hup. exact Ht.
  - exact Hxs.
  - intros x Hx. pose proof (Hmin x Hx). lra.
  - exists j. split; [exact Hj|]. lra.
Qed.

Print Assumptions grid_min_second_order.

(* ---------------------------------------------------------------------- *)
(*  The maximum / minimum of the LIST of samples                          *)
(* ---------------------------------------------------------------------- *)

(* numpy  max / min  of a non-empty array (the value on [] is irrelevant). *)
Definition Rlist_max (l : list R) : R :=
  match l with [] => 0 | x :: t => fold_right Rmax x t end.
Definition Rlist_min (l : list R) : R :=
  match l with [] => 0 | x :: t => fold_right Rmin x t end.

Lemma fold_Rmax_ge : forall t x y, In y (x :: t) -> y <= fold_right Rmax x t.
Proof.
  induction t as [|z t IH]; intros x y Hin; simpl in *.
  - destruct Hin as [-> | []]. lra.
  - destruct Hin as [-> | [-> | Hin]].
    + apply Rle_trans with (fold_right Rmax y t); [apply IH; left; reflexivity | apply Rmax_r].
    + apply Rmax_l.
    + apply Rle_trans with (fold_right Rmax x t); [apply IH; right; exact Hin | apply Rmax_r].
Qed.

Lemma fold_Rmax_in : forall t x, In (fold_right Rmax x t) (x :: t).
Proof.
  induction t as [|z t IH]; intros x.
  - left. reflexivity.
  - change (In (Rmax z (fold_right Rmax x t)) (x :: z :: t)).
    destruct (Rle_dec z (fold_right Rmax x t)) as [H | H].
    + rewrite Rmax_right by exact H.
      destruct (IH x) as [E | Hin]; [left; exact E | right; right; exact Hin].
    + rewrite Rmax_left by lra. right. left. reflexivity.
Qed.

Lemma fold_Rmin_le : forall t x y, In y (x :: t) -> fold_right Rmin x t <= y.
Proof.
  induction t as [|z t IH]; intros x y Hin; simpl in *.
  - destruct Hin as [-> | []]. lra.
  - destruct Hin as [-> | [-> | Hin]].
    + apply Rle_trans with (fold_right Rmin y t); [apply Rmin_r | apply IH; left; reflexivity].
    + apply Rmin_l.
    + apply Rle_trans with (fold_right Rmin x t); [apply Rmin_r | apply IH; right; exact Hin].
Qed.

Lemma fold_Rmin_in : forall t x, In (fold_right Rmin x t) (x :: t).
Proof.
  induction t as [|z t IH]; intros x.
  - left. reflexivity.
  - change (In (Rmin z (fold_right Rmin x t)) (x :: z :: t)).
    destruct (Rle_dec z (fold_right Rmin x t)) as [H | H].
    + rewrite Rmin_left by exact H. right. left. reflexivity.
    + rewrite Rmin_right by lra.
      destruct (IH x) as [E | Hin]; [left; exact E | right; right; exact Hin].
Qed.

Lemma Rlist_max_ge : forall l y, In y l -> y <= Rlist_max l.
Proof. intros [|x t] y Hin; [destruct Hin | apply fold_Rmax_ge; exact Hin]. Qed.
Lemma Rlist_max_in : forall l, l <> [] -> In (Rlist_max l) l.
Proof. intros [|x t] Hne; [congruence | apply fold_Rmax_in]. Qed.
Lemma Rlist_min_le : forall l y, In y l -> Rlist_min l <= y.
Proof. intros [|x t] y Hin; [destruct Hin | apply fold_Rmin_le; exact Hin]. Qed.
Lemma Rlist_min_in : forall l, l <> [] -> In (Rlist_min l) l.
Proof. intros [|x t] Hne; [congruence | apply fold_Rmin_in]. Qed.

(* The n+1 samples f x_0, ..., f x_n. *)
Definition samples (f : R -> R) (a h : R) (n : nat) : list R :=
  map (fun j => f (grid a h j)) (seq 0 (S n)).

Lemma samples_in : forall f a h n y,
  In y (samples f a h n) <-> exists j, (j <= n)%nat /\ y = f (grid a h j).
Proof.
  intros f a h n y. unfold samples. rewrite in_map_iff. split.
  - intros (j & E & Hin). apply in_seq in Hin. exists j. split; [lia | congruence].
  - intros (j & Hj & E). exists j. split; [congruence | apply in_seq; lia].
Qed.

Lemma samples_nonempty : forall f a h n, samples f a h n <> [].
Proof. intros f a h n. unfold samples. simpl. discriminate. Qed.

Theorem grid_max_list_second_order :
  forall (f f' f'' : R -> R) (a b M h : R) (n : nat),
  0 < h -> INR n * h = b - a ->
  (forall t, a <= t <= b -> is_derive f t (f' t)) ->
  (forall t, a <= t <= b -> is_derive f' t (f'' t)) ->
  (forall t, a <= t <= b -> Rabs (f'' t) <= M) ->
  forall xs, a <= xs <= b ->
  (forall x, a <= x <= b -> f x <= f xs) ->
  0 <= f xs - Rlist_max (samples f a h n) <= M * h ^ 2 / 8.
Proof.
  intros f f' f'' a b M h n Hh Hn Hf Hf' Hup xs Hxs Hmax.
  destruct (grid_max_second_order f f' f'' a b M h n Hh Hn Hf Hf' Hup xs Hxs Hmax)
    as (j & Hj & Hd).
  split.
  - pose proof (Rlist_max_in _ (samples_nonempty f a h n)) as Hin.
    apply samples_in in Hin. destruct Hin as (k & Hk & ->).
    pose proof (Hmax _ (grid_in a b h n k Hh Hn Hk)). lra.
  - assert (Hge : f (grid a h j) <= Rlist_max (samples f a h n)).
    { apply Rlist_max_ge. apply samples_in. exists j. split; [exact Hj | reflexivity]. }
    lra.
Qed.

Print Assumptions grid_max_list_second_order.

Theorem grid_min_list_second_order :
  forall (f f' f'' : R -> R) (a b M h : R) (n : nat),
  0 < h -> INR n * h = b - a ->
  (forall t, a <= t <= b -> is_derive f t (f' t)) ->
  (forall t, a <= t <= b -> is_derive f' t (f'' t)) ->
  (forall t, a <= t <= b -> Rabs (f'' t) <= M) ->
  forall xs, a <= xs <= b ->
  (forall x, a <= x <= b -> f xs <= f x) ->
  0 <= Rlist_min (samples f a h n) - f xs <= M * h ^ 2 / 8.
Proof.
  intros f f' f'' a b M h n Hh Hn Hf Hf' Hup xs Hxs Hmin.
  destruct (grid_min_second_order f f' f'' a b M h n Hh Hn Hf Hf' Hup xs Hxs Hmin)
    as (j & Hj & Hd).
  split.
  - pose proof (Rlist_min_in _ (samples_nonempty f a h n)) as Hin.
    apply samples_in in Hin. destruct Hin as (k & Hk & ->).
    pose proof (Hmin _ (grid_in a b h n k Hh Hn Hk)). lra.
  - assert (Hge : Rlist_min (samples f a h n) <= f (grid a h j)).
    { apply Rlist_min_le. apply samples_in. exists j. split; [exact Hj | reflexivity]. }
    lra.
Qed.

Print Assumptions grid_min_list_second_order.

(* The bound is attained: f = -(x - 1/2)^2 on [0,1], h = 1, n = 1, M = 2:
   the maximum 0 sits midway between the two grid points, where f = -1/4,
   and M h^2 / 8 = 1/4. *)
Example grid_max_sharp :
  let f := fun x : R => - (x - 1 / 2) ^ 2 in
  let f' := fun x : R => - (2 * (x - 1 / 2)) in
  let f'' := fun _ : R => - 2 in
  (forall t, is_derive f t (f' t)) /\
  (forall t, is_derive f' t (f'' t)) /\
  (forall t, Rabs (f'' t) <= 2) /\
  (forall x, f x <= f (1 / 2)) /\
  INR 1 * 1 = 1 - 0 /\
  samples f 0 1 1 = [- (1 / 4); - (1 / 4)] /\
  f (1 / 2) - Rlist_max (samples f 0 1 1) = 2 * 1 ^ 2 / 8.
Proof.
  cbv zeta.
  assert (E : samples (fun x : R => - (x - 1 / 2) ^ 2) 0 1 1 = [- (1 / 4); - (1 / 4)]).
  { unfold samples, grid. simpl. f_equal; [|f_equal]; field. }
  split; [|split; [|split; [|split; [|split; [|split]]]]].
  - intros t. auto_derive; [exact I | ring].
  - intros t. auto_derive; [exact I | ring].
  - intros _. apply Rabs_le. lra.
  - intros x. pose proof (pow2_ge_0 (x - 1 / 2)).
    replace ((1 / 2 - 1 / 2) ^ 2) with 0 by field. lra.
  - simpl. ring.
  - exact E.
  - rewrite E. simpl. rewrite Rmax_left by lra. field.
Qed.

(* ====================================================================== *)
(*  PART 3 (T2) : cumulative trapezoid sums                               *)
(* ====================================================================== *)

(* Cumulative trapezoid sum on arbitrary abscissae x_0, x_1, ...:
   T_0 = 0,  T_{j+1} = T_j + (x_{j+1} - x_j)/2 (f x_j + f x_{j+1}). *)
Fixpoint trap_nu (f : R -> R) (x : nat -> R) (j : nat) : R :=
  match j with
  | O => 0
  | S i => trap_nu f x i + (x (S i) - x i) / 2 * (f (x i) + f (x (S i)))
  end.

(* On the uniform grid (python: varphi[j] = varphi[j-1] + h/2 (f[j-1] + f[j])). *)
Fixpoint trap_u (f : R -> R) (a h : R) (j : nat) : R :=
  match j with
  | O => 0
  | S i => trap_u f a h i + h / 2 * (f (grid a h i) + f (grid a h (S i)))
  end.

Lemma trap_u_S : forall f a h i,
  trap_u f a h (S i) = trap_u f a h i + h / 2 * (f (grid a h i) + f (grid a h (S i))).
Proof. reflexivity. Qed.

Lemma trap_u_nu : forall f a h j, trap_u f a h j = trap_nu f (grid a h) j.
Proof.
  intros f a h j. induction j as [|j IH]; [reflexivity|].
  simpl. rewrite IH, grid_S. f_equal. f_equal. field.
Qed.

Section CumulativeNonUniform.

Variables F f f' f'' : R -> R.
Variable x : nat -> R.
Variable n : nat.
Variables M h : R.

Hypothesis Hinc  : forall i, (i < n)%nat -> x i < x (S i).
Hypothesis Hstep : forall i, (i < n)%nat -> x (S i) - x i <= h.
Hypothesis HF  : forall t, x 0%nat <= t <= x n -> is_derive F t (f t).
Hypothesis Hf  : forall t, x 0%nat <= t <= x n -> is_derive f t (f' t).
Hypothesis Hf' : forall t, x 0%nat <= t <= x n -> is_derive f' t (f'' t).
Hypothesis Hup : forall t, x 0%nat <= t <= x n -> Rabs (f'' t) <= M.

Lemma abscissae_mono : forall i j, (i <= j)%nat -> (j <= n)%nat -> x i <= x j.
Proof using Hinc.
  intros i j Hij. induction Hij as [|j Hij IH]; intros Hjn; [lra|].
  apply Rle_trans with (x j); [apply IH; lia|]. apply Rlt_le, Hinc. lia.
Qed.

Lemma M_nonneg_nu : 0 <= M.
Proof using Hinc Hup.
  apply Rle_trans with (Rabs (f'' (x 0%nat))); [apply Rabs_pos|].
  apply Hup. split; [lra | apply abscissae_mono; lia].
Qed.

(* T2, non-uniform abscissae: second-order accurate at EVERY abscissa. *)
Theorem cumulative_trapezoid_nonuniform : forall j, (j <= n)%nat ->
  Rabs (F (x j) - F (x 0%nat) - trap_nu f x j) <= (x j - x 0%nat) * M * h ^ 2 / 12.
Proof using Hinc Hstep HF Hf Hf' Hup.
  pose proof M_nonneg_nu as HM.
  induction j as [|j IH]; intros Hj.
  - simpl. replace (F (x 0%nat) - F (x 0%nat) - 0) with 0 by ring.
    rewrite Rabs_R0. lra.
  - assert (Hjn : (j < n)%nat) by lia.
    pose proof (Hinc j Hjn) as Hlt. pose proof (Hstep j Hjn) as Hle.
    pose proof (abscissae_mono 0 j ltac:(lia) ltac:(lia)) as H0j.
    pose proof (abscissae_mono (S j) n ltac:(lia) ltac:(lia)) as HSn.
    assert (Hsub : forall t, x j <= t <= x (S j) -> x 0%nat <= t <= x n)
      by (intros t Ht; lra).
    assert (Hpanel : Rabs (F (x (S j)) - F (x j)
                           - (x (S j) - x j) / 2 * (f (x j) + f (x (S j))))
                     <= M * (x (S j) - x j) ^ 3 / 12).
    { apply (trapezoid_panel F f f' f'' (x j) (x (S j)) M Hlt);
        intros t Ht; auto. }
    simpl trap_nu.
    remember (x (S j) - x j) as dx eqn:Edx.
    assert (Hdx : 0 < dx <= h) by lra.
    assert (Hdx3 : M * dx ^ 3 / 12 <= dx * M * h ^ 2 / 12).
    { assert (Hsq : dx ^ 2 <= h ^ 2) by (apply pow_incr; lra).
      assert (H1 : dx * dx ^ 2 <= dx * h ^ 2) by (apply Rmult_le_compat_l; lra).
      assert (H2 : M * (dx * dx ^ 2) <= M * (dx * h ^ 2))
        by (apply Rmult_le_compat_l; assumption).
      lra. }
    replace (F (x (S j)) - F (x 0%nat)
             - (trap_nu f x j + dx / 2 * (f (x j) + f (x (S j)))))
      with ((F (x j) - F (x 0%nat) - trap_nu f x j)
            + (F (x (S j)) - F (x j) - dx / 2 * (f (x j) + f (x (S j))))) by ring.
    eapply Rle_trans; [apply Rabs_triang|].
    specialize (IH ltac:(lia)).
    replace ((x (S j) - x 0%nat) * M * h ^ 2 / 12)
      with ((x j - x 0%nat) * M * h ^ 2 / 12 + dx * M * h ^ 2 / 12)
      by (rewrite Edx; field).
    lra.
Qed.

End CumulativeNonUniform.

Print Assumptions cumulative_trapezoid_nonuniform.

(* T2, uniform grid: the Boozer-angle sum. *)
Theorem cumulative_trapezoid_uniform :
  forall (F f f' f'' : R -> R) (a h M : R) (n : nat),
  0 < h ->
  (forall t, a <= t <= grid a h n -> is_derive F t (f t)) ->
  (forall t, a <= t <= grid a h n -> is_derive f t (f' t)) ->
  (forall t, a <= t <= grid a h n -> is_derive f' t (f'' t)) ->
  (forall t, a <= t <= grid a h n -> Rabs (f'' t) <= M) ->
  forall j, (j <= n)%nat ->
  Rabs (F (grid a h j) - F a - trap_u f a h j) <= INR j * (M * h ^ 3 / 12) /\
  INR j * (M * h ^ 3 / 12) = (grid a h j - a) * M * h ^ 2 / 12.
Proof.
  intros F f f' f'' a h M n Hh HF Hf Hf' Hup j Hj.
  assert (E : INR j * (M * h ^ 3 / 12) = (grid a h j - a) * M * h ^ 2 / 12)
    by (unfold grid; field).
  split; [|exact E].
  rewrite E, trap_u_nu.
  pose proof (cumulative_trapezoid_nonuniform F f f' f'' (grid a h) n M h) as H.
  rewrite grid_0 in H. apply H; try assumption.
  - intros i _. rewrite grid_S. lra.
  - intros i _. rewrite grid_S. lra.
Qed.

Print Assumptions cumulative_trapezoid_uniform.

(* The same with the integral itself. *)
Corollary cumulative_trapezoid_uniform_RInt :
  forall (F f f' f'' : R -> R) (a h M : R) (n : nat),
  0 < h ->
  (forall t, a <= t <= grid a h n -> is_derive F t (f t)) ->
  (forall t, a <= t <= grid a h n -> is_derive f t (f' t)) ->
  (forall t, a <= t <= grid a h n -> is_derive f' t (f'' t)) ->
  (forall t, a <= t <= grid a h n -> Rabs (f'' t) <= M) ->
  forall j, (j <= n)%nat ->
  Rabs (RInt f a (grid a h j) - trap_u f a h j) <= (grid a h j - a) * M * h ^ 2 / 12.
Proof.
  intros F f f' f'' a h M n Hh HF Hf Hf' Hup j Hj.
  assert (Hjn : a <= grid a h j <= grid a h n).
  { unfold grid. assert (0 <= INR j) by apply pos_INR.
    assert (INR j <= INR n) by (apply le_INR; exact Hj).
    assert (0 <= INR j * h) by (apply Rmult_le_pos; lra).
    assert (INR j * h <= INR n * h) by (apply Rmult_le_compat_r; lra). lra. }
  rewrite (RInt_antiderivative F f f' a (grid a h j)).
  - destruct (cumulative_trapezoid_uniform F f f' f'' a h M n Hh HF Hf Hf' Hup j Hj)
      as [H E]. rewrite <- E. exact H.
  - lra.
  - intros t Ht. apply HF. lra.
  - intros t Ht. apply Hf. lra.
Qed.

Print Assumptions cumulative_trapezoid_uniform_RInt.

(* The bound is attained at EVERY grid point and for every h:
   f = x^2 from a = 0, M = 2: the cumulative error is exactly -j h^3/6. *)
Example cumulative_trapezoid_sharp : forall (h : R) (j : nat),
  let F := fun x : R => x ^ 3 / 3 in
  let f := fun x : R => x ^ 2 in
  F (grid 0 h j) - F 0 - trap_u f 0 h j = - (INR j * (2 * h ^ 3 / 12)).
Proof.
  intros h j. cbv zeta. induction j as [|j IH].
  - unfold grid. simpl. field.
  - assert (ET : trap_u (fun x : R => x ^ 2) 0 h j
                 = (grid 0 h j) ^ 3 / 3 + INR j * (2 * h ^ 3 / 12)) by lra.
    rewrite trap_u_S, ET, grid_S, S_INR. field.
Qed.

Example cumulative_trapezoid_sharp_abs : forall (h : R) (j : nat), 0 < h ->
  let F := fun x : R => x ^ 3 / 3 in
  let f := fun x : R => x ^ 2 in
  Rabs (F (grid 0 h j) - F 0 - trap_u f 0 h j) = INR j * (2 * h ^ 3 / 12).
Proof.
  intros h j Hh. cbv beta zeta.
  pose proof (cumulative_trapezoid_sharp h j) as E. cbv beta zeta in E. rewrite E.
  rewrite Rabs_Ropp. apply Rabs_pos_eq.
  apply Rmult_le_pos; [apply pos_INR|].
  assert (0 < h ^ 3) by (apply pow_lt; exact Hh). lra.
Qed.

(* ---------------------------------------------------------------------- *)
(*  Closed statements (for the notes)                                     *)
(* ---------------------------------------------------------------------- *)
Check trapezoid_panel_exact.
Check trapezoid_panel.
Check trapezoid_panel_RInt.
Check trapezoid_panel_RInt_global.
Check grid_critical.
Check grid_max_second_order.
Check grid_min_second_order.
Check grid_max_list_second_order.
Check grid_min_list_second_order.
Check cumulative_trapezoid_nonuniform.
Check cumulative_trapezoid_uniform.
Check cumulative_trapezoid_uniform_RInt.
