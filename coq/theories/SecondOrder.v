(* ====================================================================== *)
(*  SecondOrder.v -- second-order convergence in the grid spacing:        *)
(*  the textbook statements behind the property text.                     *)
(*                                                                        *)
(*  pyQSC computes                                                        *)
(*   (i)  the Boozer toroidal angle by a CUMULATIVE TRAPEZOID sum of the  *)
(*        arclength element on a uniform grid, and several integrals by   *)
(*        the trapezoid rule on non-uniform abscissae;                    *)
(*   (ii) several outputs as extrema OVER GRID POINTS of a profile.       *)
(*                                                                        *)
(*  T1  single panel (antiderivative form, and the RInt corollary):       *)
(*        | F b - F a - (b-a)/2 (f a + f b) | <= M (b-a)^3 / 12           *)
(*      with the exact error term  - f''(d)/12 (b-a)^3 ,  a < d < b.      *)
(*  T2  cumulative sums: on abscissae x_0 < x_1 < ... < x_n with steps    *)
(*      <= h, at EVERY j <= n                                             *)
(*        | F x_j - F x_0 - T_j | <= (x_j - x_0) M h^2 / 12 ;             *)
(*      on the uniform grid x_j = a + j h                                 *)
(*        | F x_j - F a - T_j | <= j (M h^3 / 12) = (x_j - a) M h^2 / 12. *)
(*  T3  extremum over grid points: if x* maximises f on [a,b] then some   *)
(*      grid point x_j = a + j h (n h = b - a) has                        *)
(*        0 <= f x* - f x_j <= M h^2 / 8 ,                                *)
(*      hence  0 <= f x* - max_j f x_j <= M h^2 / 8 ; same for minima.    *)
(*                                                                        *)
(*  Every bound comes with an Example in which it is ATTAINED.            *)
(*  All hypotheses are on the closed interval only, in the [is_derive]    *)
(*  style of NewtonConv.v (whose Rolle / Taylor-Lagrange lemmas are       *)
(*  copied here; this file imports no project file).                      *)
(* ====================================================================== *)

From Coq Require Import List Arith Lia Reals Lra.
From Coquelicot Require Import Coquelicot.
Import ListNotations.

Local Open Scope R_scope.

(* ====================================================================== *)
(*  PART 0 : Rolle and Taylor-Lagrange (copied from NewtonConv.v)         *)
(* ====================================================================== *)

(* Rolle, either orientation, hypotheses on the CLOSED interval only. *)
Lemma rolle_between : forall (g g' : R -> R) (u v : R),
  u <> v ->
  (forall t, Rmin u v <= t <= Rmax u v -> is_derive g t (g' t)) ->
  g u = g v ->
  exists c, Rmin u v < c < Rmax u v /\ g' c = 0.
Proof.
  intros g g' u v Hne Hd Heq.
  destruct (Rlt_dec u v) as [Hlt | Hge].
  - rewrite Rmin_left, Rmax_right in * by lra.
    destruct (MVT_cor2 g g' u v Hlt) as (c & Hc & Hin).
    { intros t Ht. apply is_derive_Reals. apply Hd. exact Ht. }
    exists c. split; [exact Hin|].
    assert (H0 : g' c * (v - u) = 0) by lra.
    apply Rmult_integral in H0. destruct H0; lra.
  - assert (Hlt : v < u) by lra.
    rewrite Rmin_right, Rmax_left in * by lra.
    destruct (MVT_cor2 g g' v u Hlt) as (c & Hc & Hin).
    { intros t Ht. apply is_derive_Reals. apply Hd. exact Ht. }
    exists c. split; [exact Hin|].
    assert (H0 : g' c * (u - v) = 0) by lra.
    apply Rmult_integral in H0. destruct H0; lra.
Qed.

(* Rolle on [u,v], u < v. *)
Lemma rolle_lt : forall (g g' : R -> R) (u v : R),
  u < v ->
  (forall t, u <= t <= v -> is_derive g t (g' t)) ->
  g u = g v ->
  exists c, u < c < v /\ g' c = 0.
Proof.
  intros g g' u v Hlt Hd Heq.
  destruct (rolle_between g g' u v) as (c & Hc & Ec); [lra | | exact Heq |].
  - intros t Ht. rewrite Rmin_left, Rmax_right in Ht by lra. apply Hd. exact Ht.
  - rewrite Rmin_left, Rmax_right in Hc by lra. exists c. split; assumption.
Qed.

(* Taylor-Lagrange of order 2 at x, evaluated at y, either orientation. *)
Lemma taylor2 : forall (f f' f'' : R -> R) (x y : R),
  x <> y ->
  (forall t, Rmin x y <= t <= Rmax x y -> is_derive f t (f' t)) ->
  (forall t, Rmin x y <= t <= Rmax x y -> is_derive f' t (f'' t)) ->
  exists d, Rmin x y < d < Rmax x y /\
    f y = f x + f' x * (y - x) + f'' d / 2 * (y - x) ^ 2.
Proof.
  intros f f' f'' x y Hne Hf Hf'.
  set (K := (f y - f x - f' x * (y - x)) / (y - x) ^ 2).
  set (p   := fun t : R => f x + f' x * (t - x) + K * (t - x) ^ 2).
  set (p'  := fun t : R => f' x + 2 * K * (t - x)).
  set (phi  := fun t : R => f t - p t).
  set (phi' := fun t : R => f' t - p' t).
  set (phi'' := fun t : R => f'' t - 2 * K).
  assert (Hp : forall t, is_derive p t (p' t)).
  { intros t. unfold p, p'. auto_derive; [exact I | ring]. }
  assert (Hp' : forall t, is_derive p' t (2 * K)).
  { intros t. unfold p'. auto_derive; [exact I | ring]. }
  assert (Hphi : forall t, Rmin x y <= t <= Rmax x y -> is_derive phi t (phi' t)).
  { intros t Ht. exact (is_derive_minus f p t (f' t) (p' t) (Hf t Ht) (Hp t)). }
  assert (Hphi' : forall t, Rmin x y <= t <= Rmax x y -> is_derive phi' t (phi'' t)).
  { intros t Ht. exact (is_derive_minus f' p' t (f'' t) (2 * K) (Hf' t Ht) (Hp' t)). }
  assert (Hyx : (y - x) ^ 2 <> 0).
  { apply pow_nonzero. lra. }
  assert (Ex : phi x = 0) by (unfold phi, p; ring).
  assert (Ey : phi y = 0) by (unfold phi, p, K; field; lra).
  assert (Ex' : phi' x = 0) by (unfold phi', p'; ring).
  destruct (rolle_between phi phi' x y Hne Hphi) as (c & Hc & Ec); [lra|].
  assert (Hxc : x <> c).
  { intros ->. unfold Rmin, Rmax in Hc. destruct (Rle_dec c y); lra. }
  assert (Hsub : forall t, Rmin x c <= t <= Rmax x c -> Rmin x y <= t <= Rmax x y).
  { intros t. unfold Rmin, Rmax in *.
    destruct (Rle_dec x c); destruct (Rle_dec x y); lra. }
  destruct (rolle_between phi' phi'' x c Hxc) as (d & Hd & Ed).
  { intros t Ht. apply Hphi'. apply Hsub. exact Ht. }
  { rewrite Ex'. symmetry. exact Ec. }
  exists d. split.
  - clear - Hc Hd. unfold Rmin, Rmax in *.
    destruct (Rle_dec x c); destruct (Rle_dec x y); lra.
  - unfold phi'' in Ed. unfold phi, p in Ey.
    assert (EK : K * (y - x) ^ 2 = f y - f x - f' x * (y - x)).
    { unfold K. field. lra. }
    replace (f'' d) with (2 * K) by lra. lra.
Qed.

(* ====================================================================== *)
(*  PART 1 (T1) : one trapezoid panel                                     *)
(* ====================================================================== *)

(* The exact error term.  F is an antiderivative of f on [a,b].
   Proof: g(t) = F t - F a - (t-a)/2 (f a + f t) - K (t-a)^3 with K chosen
   such that g(b) = 0; g(a) = g'(a) = 0; Rolle twice;
   g''(t) = -(t-a) (f''(t)/2 + 6K). *)
Theorem trapezoid_panel_exact : forall (F f f' f'' : R -> R) (a b : R),
  a < b ->
  (forall t, a <= t <= b -> is_derive F t (f t)) ->
  (forall t, a <= t <= b -> is_derive f t (f' t)) ->
  (forall t, a <= t <= b -> is_derive f' t (f'' t)) ->
  exists d, a < d < b /\
    F b - F a - (b - a) / 2 * (f a + f b) = - f'' d / 12 * (b - a) ^ 3.
Proof.
  intros F f f' f'' a b Hab HF Hf Hf'.
  remember ((F b - F a - (b - a) / 2 * (f a + f b)) / (b - a) ^ 3) as K eqn:HK.
  set (g   := fun t : R => F t - F a - (t - a) / 2 * (f a + f t) - K * (t - a) ^ 3).
  set (g'  := fun t : R => f t - / 2 * (f a + f t) - (t - a) / 2 * f' t
                            - 3 * K * (t - a) ^ 2).
  set (g'' := fun t : R => - (t - a) * (f'' t / 2 + 6 * K)).
  assert (Hg : forall t, a <= t <= b -> is_derive g t (g' t)).
  { intros t Ht. unfold g, g'.
    pose proof (HF t Ht) as H1. pose proof (Hf t Ht) as H2.
    auto_derive.
    - repeat split; eexists; eassumption.
    - assert (E1 : Derive (fun x : R => F x) t = f t)
        by (apply is_derive_unique; exact H1).
      assert (E2 : Derive (fun x : R => f x) t = f' t)
        by (apply is_derive_unique; exact H2).
      rewrite E1, E2. field. }
  assert (Hg' : forall t, a <= t <= b -> is_derive g' t (g'' t)).
  { intros t Ht. unfold g', g''.
    pose proof (Hf t Ht) as H2. pose proof (Hf' t Ht) as H3.
    auto_derive.
    - repeat split; eexists; eassumption.
    - assert (E2 : Derive (fun x : R => f x) t = f' t)
        by (apply is_derive_unique; exact H2).
      assert (E3 : Derive (fun x : R => f' x) t = f'' t)
        by (apply is_derive_unique; exact H3).
      rewrite E2, E3. field. }
  assert (Hba : (b - a) ^ 3 <> 0) by (apply pow_nonzero; lra).
  assert (Ea : g a = 0) by (unfold g; field).
  assert (Eb : g b = 0) by (unfold g; rewrite HK; field; lra).
  assert (Ea' : g' a = 0) by (unfold g'; field).
  destruct (rolle_lt g g' a b Hab Hg) as (c & Hc & Ec); [lra|].
  destruct (rolle_lt g' g'' a c) as (d & Hd & Ed); [lra | | lra |].
  { intros t Ht. apply Hg'. lra. }
  exists d. split; [lra|].
  unfold g'' in Ed.
  apply Rmult_integral in Ed. destruct Ed as [Ed | Ed]; [lra|].
  assert (EK : K * (b - a) ^ 3 = F b - F a - (b - a) / 2 * (f a + f b)).
  { rewrite HK. field. lra. }
  rewrite <- EK. replace K with (- f'' d / 12) by lra. reflexivity.
Qed.

(* T1, antiderivative form. *)
Theorem trapezoid_panel : forall (F f f' f'' : R -> R) (a b M : R),
  a < b ->
  (forall t, a <= t <= b -> is_derive F t (f t)) ->
  (forall t, a <= t <= b -> is_derive f t (f' t)) ->
  (forall t, a <= t <= b -> is_derive f' t (f'' t)) ->
  (forall t, a <= t <= b -> Rabs (f'' t) <= M) ->
  Rabs (F b - F a - (b - a) / 2 * (f a + f b)) <= M * (b - a) ^ 3 / 12.
Proof.
  intros F f f' f'' a b M Hab HF Hf Hf' Hup.
  destruct (trapezoid_panel_exact F f f' f'' a b Hab HF Hf Hf') as (d & Hd & E).
  rewrite E.
  assert (Hpos : 0 <= (b - a) ^ 3) by (apply pow_le; lra).
  replace (- f'' d / 12 * (b - a) ^ 3) with (- (f'' d * ((b - a) ^ 3 / 12))) by field.
  rewrite Rabs_Ropp, Rabs_mult, (Rabs_pos_eq ((b - a) ^ 3 / 12)) by lra.
  replace (M * (b - a) ^ 3 / 12) with (M * ((b - a) ^ 3 / 12)) by field.
  apply Rmult_le_compat_r; [lra|]. apply Hup. lra.
Qed.

Print Assumptions trapezoid_panel.

(* The RInt corollary: on [a,b], RInt f a b = F b - F a (f is differentiable,
   hence continuous, on [a,b]). *)
Lemma RInt_antiderivative : forall (F f f' : R -> R) (a b : R),
  a <= b ->
  (forall t, a <= t <= b -> is_derive F t (f t)) ->
  (forall t, a <= t <= b -> is_derive f t (f' t)) ->
  RInt f a b = F b - F a.
Proof.
  intros F f f' a b Hab HF Hf.
  apply is_RInt_unique.
  apply (is_RInt_derive F f a b).
  - intros x Hx. rewrite Rmin_left, Rmax_right in Hx by lra. apply HF. exact Hx.
  - intros x Hx. rewrite Rmin_left, Rmax_right in Hx by lra.
    apply ex_derive_continuous. exists (f' x). apply Hf. exact Hx.
Qed.

Theorem trapezoid_panel_RInt : forall (F f f' f'' : R -> R) (a b M : R),
  a < b ->
  (forall t, a <= t <= b -> is_derive F t (f t)) ->
  (forall t, a <= t <= b -> is_derive f t (f' t)) ->
  (forall t, a <= t <= b -> is_derive f' t (f'' t)) ->
  (forall t, a <= t <= b -> Rabs (f'' t) <= M) ->
  Rabs (RInt f a b - (b - a) / 2 * (f a + f b)) <= M * (b - a) ^ 3 / 12.
Proof.
  intros F f f' f'' a b M Hab HF Hf Hf' Hup.
  rewrite (RInt_antiderivative F f f' a b) by (assumption || lra).
  apply (trapezoid_panel F f f' f'' a b M); assumption.
Qed.

Print Assumptions trapezoid_panel_RInt.

(* If f is twice differentiable EVERYWHERE the antiderivative need not be
   supplied: t |-> RInt f a t is one. *)
Theorem trapezoid_panel_RInt_global : forall (f f' f'' : R -> R) (a b M : R),
  a < b ->
  (forall t, is_derive f t (f' t)) ->
  (forall t, is_derive f' t (f'' t)) ->
  (forall t, a <= t <= b -> Rabs (f'' t) <= M) ->
  Rabs (RInt f a b - (b - a) / 2 * (f a + f b)) <= M * (b - a) ^ 3 / 12.
Proof.
  intros f f' f'' a b M Hab Hf Hf' Hup.
  assert (Hc : forall t, continuous f t).
  { intros t. apply ex_derive_continuous. exists (f' t). apply Hf. }
  apply (trapezoid_panel_RInt (fun t => RInt f a t) f f' f'' a b M); auto.
  intros t _.
  apply (is_derive_RInt f (fun t => RInt f a t) a t).
  - exists (mkposreal 1 Rlt_0_1). intros y _.
    apply RInt_correct. apply ex_RInt_continuous. intros z _. apply Hc.
  - apply Hc.
Qed.

Print Assumptions trapezoid_panel_RInt_global.

(* The bound is attained: f = x^2 on [0,1], M = 2, error = -1/6. *)
Example trapezoid_panel_sharp :
  let F := fun x : R => x ^ 3 / 3 in
  let f := fun x : R => x ^ 2 in
  let f' := fun x : R => 2 * x in
  let f'' := fun _ : R => 2 in
  (forall t, is_derive F t (f t)) /\
  (forall t, is_derive f t (f' t)) /\
  (forall t, is_derive f' t (f'' t)) /\
  (forall t, Rabs (f'' t) <= 2) /\
  F 1 - F 0 - (1 - 0) / 2 * (f 0 + f 1) = - (1 / 6) /\
  Rabs (F 1 - F 0 - (1 - 0) / 2 * (f 0 + f 1)) = 2 * (1 - 0) ^ 3 / 12.
Proof.
  cbv zeta. repeat split.
  - intros t. auto_derive; [exact I | field].
  - intros t. auto_derive; [exact I | ring].
  - intros t. auto_derive; [exact I | ring].
  - intros _. rewrite Rabs_pos_eq; lra.
  - field.
  - replace (1 ^ 3 / 3 - 0 ^ 3 / 3 - (1 - 0) / 2 * (0 ^ 2 + 1 ^ 2)) with (- (1 / 6)) by field.
    rewrite Rabs_Ropp, Rabs_pos_eq by lra. field.
Qed.
