(* A second, more abstract semantics of the same expression language, used for
   identity ("the outputs satisfy equation E") theorems.

   [evalG O rho e] interprets expressions over profiles  I -> R  for an arbitrary
   index type I and an arbitrary structure O of operators (differentiation,
   grid sum / extrema, evaluation at a grid index).  The discrete model of
   Expr.v is the instance [disc_ops n Dm fmin] ([eval_is_evalG]); the continuum
   model is any instance whose [o_D] is a derivation ([derivation O]).

   For an SSA program (every name bound once, no forward references -- the
   translator emits programs in this form and [ssa] re-checks it by
   computation) the final environment is a fixpoint of the bindings
   ([run_fix]): the value of every bound name is its defining expression
   evaluated in the FINAL environment.  Identity proofs therefore treat the
   bound names as symbols constrained by their definitions and unfold only what
   they need. *)
From Coq Require Import Reals String List ZArith QArith Qreals Lra Lia Bool FunctionalExtensionality.
From QSC Require Import Expr.
Import ListNotations.
Open Scope R_scope.

Record ops (I : Type) : Type := {
  o_D : (I -> R) -> (I -> R);
  o_sum : (I -> R) -> R;
  o_max : (I -> R) -> R;
  o_min : (I -> R) -> R;
  o_fmin : (I -> R) -> R;
  o_at : nat -> (I -> R) -> R;
  o_pin : (I -> R) -> (I -> R) -> (I -> R)
}.
Arguments o_D {I}. Arguments o_sum {I}. Arguments o_max {I}. Arguments o_min {I}.
Arguments o_fmin {I}. Arguments o_at {I}. Arguments o_pin {I}.

Section G.
  Context {I : Type} (O : ops I).
  Definition envG := string -> I -> R.

  Fixpoint evalG (rho : envG) (e : expr) {struct e} : I -> R :=
    match e with
    | Cst q => fun _ => Q2R q
    | CPi => fun _ => PI
    | CMu0 => fun _ => mu0R
    | Var x => rho x
    | Neg a => fun i => - evalG rho a i
    | Add a b => fun i => evalG rho a i + evalG rho b i
    | Sub a b => fun i => evalG rho a i - evalG rho b i
    | Mul a b => fun i => evalG rho a i * evalG rho b i
    | Div a b => fun i => evalG rho a i / evalG rho b i
    | Pow a k => fun i => (evalG rho a i) ^ k
    | Sqrt a => fun i => sqrt (evalG rho a i)
    | Root4 a => fun i => sqrt (sqrt (evalG rho a i))
    | Abs a => fun i => Rabs (evalG rho a i)
    | Sin a => fun i => sin (evalG rho a i)
    | Cos a => fun i => cos (evalG rho a i)
    | Exp a => fun i => exp (evalG rho a i)
    | Dphi a => o_D O (evalG rho a)
    | Sum a => fun _ => o_sum O (evalG rho a)
    | MaxG a => fun _ => o_max O (evalG rho a)
    | MinG a => fun _ => o_min O (evalG rho a)
    | At a k => fun _ => o_at O k (evalG rho a)
    | Pin0 a b => o_pin O (evalG rho a) (evalG rho b)
    | FMin a => fun _ => o_fmin O (evalG rho a)
    end.

  Definition updG (rho : envG) (x : string) (v : I -> R) : envG :=
    fun y => if String.eqb y x then v else rho y.

  Fixpoint runG (p : prog) (rho : envG) : envG :=
    match p with
    | [] => rho
    | (x, e) :: p' => runG p' (updG rho x (evalG rho e))
    end.

  (* ---- variables of an expression, SSA check ---- *)
  Fixpoint vars (e : expr) : list string :=
    match e with
    | Cst _ | CPi | CMu0 => []
    | Var x => [x]
    | Neg a | Pow a _ | Sqrt a | Root4 a | Abs a | Sin a | Cos a | Exp a
    | Dphi a | Sum a | MaxG a | MinG a | At a _ | FMin a => vars a
    | Add a b | Sub a b | Mul a b | Div a b | Pin0 a b => vars a ++ vars b
    end.

  Definition memb (x : string) (l : list string) : bool := existsb (String.eqb x) l.
  Definition names (p : prog) : list string := map fst p.

  Fixpoint ssa (p : prog) : bool :=
    match p with
    | [] => true
    | (x, e) :: p' =>
        negb (memb x (names p'))
        && forallb (fun y => negb (memb y (x :: names p'))) (vars e)
        && ssa p'
    end.

  Fixpoint defn (p : prog) (x : string) : option expr :=
    match p with
    | [] => None
    | (y, e) :: p' => if String.eqb x y then Some e else defn p' x
    end.

  Lemma memb_false x l : memb x l = false -> ~ In x l.
  Proof.
    unfold memb. intros H Hin. assert (existsb (String.eqb x) l = true).
    { apply existsb_exists. exists x. split; [exact Hin|apply String.eqb_refl]. }
    congruence.
  Qed.

  Lemma evalG_ext rho1 rho2 e :
    (forall y, In y (vars e) -> rho1 y = rho2 y) -> evalG rho1 e = evalG rho2 e.
  Proof.
    induction e; simpl; intros H; try reflexivity;
      try (rewrite IHe by exact H; reflexivity);
      try (rewrite IHe1, IHe2 by (intros y Hy; apply H; apply in_or_app; auto); reflexivity).
    apply H. left; reflexivity.
  Qed.

  Lemma runG_unbound p : forall rho y, ~ In y (names p) -> runG p rho y = rho y.
  Proof.
    induction p as [|[x e] p IH]; intros rho y Hy; simpl; [reflexivity|].
    rewrite IH by (intros Hin; apply Hy; right; exact Hin).
    unfold updG. destruct (String.eqb y x) eqn:E; [|reflexivity].
    apply String.eqb_eq in E. subst. exfalso. apply Hy. left; reflexivity.
  Qed.

  (* The final environment is a fixpoint of every binding of an SSA program. *)
  Lemma memb_cons_false z x l : memb z (x :: l) = false -> z <> x /\ ~ In z l.
  Proof.
    unfold memb. simpl. intros H. apply orb_false_iff in H. destruct H as [H1 H2]. split.
    - intros ->. rewrite String.eqb_refl in H1. discriminate.
    - apply memb_false. exact H2.
  Qed.

  Theorem run_fix p : ssa p = true -> forall rho x e, defn p x = Some e ->
    runG p rho x = evalG (runG p rho) e.
  Proof.
    induction p as [|[y e'] p IH]; intros Hs rho x e Hd; [discriminate|].
    cbn [ssa] in Hs. cbn [defn] in Hd. cbn [runG].
    apply andb_true_iff in Hs. destruct Hs as [Hs Hs3]. apply andb_true_iff in Hs. destruct Hs as [Hs1 Hs2].
    destruct (String.eqb x y) eqn:Exy.
    - injection Hd as <-. apply String.eqb_eq in Exy. subst y.
      apply negb_true_iff in Hs1. apply memb_false in Hs1.
      rewrite runG_unbound by exact Hs1. unfold updG at 1. rewrite String.eqb_refl.
      apply evalG_ext. intros z Hz. rewrite forallb_forall in Hs2. specialize (Hs2 z Hz).
      apply negb_true_iff in Hs2. apply memb_cons_false in Hs2. destruct Hs2 as [Hzx Hzp].
      rewrite runG_unbound by exact Hzp.
      unfold updG. destruct (String.eqb z x) eqn:Ez; [|reflexivity].
      apply String.eqb_eq in Ez. contradiction.
    - apply IH; assumption.
  Qed.

  Theorem run_input p rho x : memb x (names p) = false -> runG p rho x = rho x.
  Proof. intros H. apply runG_unbound. apply memb_false. exact H. Qed.

  (* ---- structures on the operators ---- *)
  Definition padd (f g : I -> R) : I -> R := fun i => f i + g i.
  Definition pmul (f g : I -> R) : I -> R := fun i => f i * g i.
  Definition pconst (c : R) : I -> R := fun _ => c.

  Record linear : Prop := {
    D_add : forall f g i, o_D O (fun k => f k + g k) i = o_D O f i + o_D O g i;
    D_sub : forall f g i, o_D O (fun k => f k - g k) i = o_D O f i - o_D O g i;
    D_neg : forall f i, o_D O (fun k => - f k) i = - o_D O f i;
    D_scal : forall c f i, o_D O (fun k => c * f k) i = c * o_D O f i;
    D_scal_r : forall c f i, o_D O (fun k => f k * c) i = o_D O f i * c;
    D_zero : forall i, o_D O (fun _ => 0) i = 0
  }.

  Record derivation : Prop := {
    der_lin : linear;
    D_mul : forall f g i, o_D O (fun k => f k * g k) i = o_D O f i * g i + f i * o_D O g i;
    D_const : forall c i, o_D O (fun _ => c) i = 0
  }.
End G.

(* ---- the discrete instance and its agreement with Expr.eval ---- *)
Definition disc_ops (n : nat) (Dm : nat -> nat -> R) (fmin : (nat -> R) -> R) : ops nat := {|
  o_D := fun v j => gsum n (fun k => Dm j k * v k);
  o_sum := fun v => gsum n v;
  o_max := fun v => gmax n v;
  o_min := fun v => gmin n v;
  o_fmin := fmin;
  o_at := fun k v => v k;
  o_pin := fun a b j => if Nat.eqb j 0 then b j else a j
|}.

Lemma eval_is_evalG n Dm fmin rho e :
  forall j, eval n Dm fmin rho e j = evalG (disc_ops n Dm fmin) rho e j.
Proof.
  induction e; intros j; simpl; try reflexivity;
    try (rewrite IHe; reflexivity); try (rewrite IHe1, IHe2; reflexivity).
  - unfold gsum. f_equal. apply map_ext. intros k. rewrite IHe. reflexivity.
  - unfold gsum. f_equal. apply map_ext. intros k. apply IHe.
  - unfold gmax. f_equal. apply map_ext. intros k. apply IHe.
  - unfold gmin. f_equal. apply map_ext. intros k. apply IHe.
  - f_equal. apply functional_extensionality. exact IHe.
Qed.

Lemma run_is_runG n Dm fmin p : forall rho, run n Dm fmin p rho = runG (disc_ops n Dm fmin) p rho.
Proof.
  induction p as [|[x e] p IH]; intros rho; simpl; [reflexivity|].
  rewrite IH. f_equal. unfold upd, updG. apply functional_extensionality. intros y.
  destruct (String.eqb y x); [|reflexivity]. apply functional_extensionality. apply eval_is_evalG.
Qed.

Lemma disc_linear n Dm fmin : linear (disc_ops n Dm fmin).
Proof.
  constructor; simpl; intros.
  - rewrite <- gsum_plus. apply gsum_ext. intros; ring.
  - replace (gsum n (fun k => Dm i k * f k) - gsum n (fun k => Dm i k * g k))
      with (gsum n (fun k => Dm i k * f k) + (-1) * gsum n (fun k => Dm i k * g k)) by ring.
    rewrite <- gsum_scal, <- gsum_plus. apply gsum_ext. intros; ring.
  - replace (- gsum n (fun k => Dm i k * f k)) with ((-1) * gsum n (fun k => Dm i k * f k)) by ring.
    rewrite <- gsum_scal. apply gsum_ext. intros; ring.
  - rewrite <- gsum_scal. apply gsum_ext. intros; ring.
  - rewrite Rmult_comm. rewrite <- gsum_scal. apply gsum_ext. intros; ring.
  - apply gsum_zero. intros; ring.
Qed.

(* An environment V is a MODEL of program p when every bound name has the value of its
   defining expression in V.  The final environment of an SSA program is a model
   ([runG_is_fix]); identity theorems are stated for every model, with V abstract, so that
   the atoms seen by [ring] stay small. *)
Definition is_fix {I : Type} (O : ops I) (p : prog) (V : string -> I -> R) : Prop :=
  forall x e, defn p x = Some e -> V x = evalG O V e.

Lemma runG_is_fix {I : Type} (O : ops I) p rho : ssa p = true -> is_fix O p (runG O p rho).
Proof. intros Hs x e Hd. apply run_fix; assumption. Qed.

Ltac unfold_fix O p HV x :=
  let d := eval vm_compute in (defn p x) in
  lazymatch d with
  | Some ?e =>
      let H := constr:(@eq_refl (option expr) (Some e) <: defn p x = Some e) in
      try (rewrite (HV x e H); cbn [evalG])
  | None => idtac   (* name not bound in this program variant: nothing to unfold *)
  end.

Ltac unfold_fixes O p HV l :=
  lazymatch l with
  | nil => idtac
  | cons ?x ?l' => unfold_fix O p HV x; unfold_fixes O p HV l'
  end.

Ltac qsimp := unfold Q2R; cbn [QArith_base.Qnum QArith_base.Qden]; rewrite ?Rinv_1, ?Rmult_1_r.

(* ---- several stages sharing one object state ----
   S gives the value of every attribute ("s.<name>") of the object; V is the environment of
   one translated function (its locals and the attributes it reads / writes).  [stage O P S V]
   says V is a model of P that agrees with the object state on every attribute name. *)
Definition is_attr (x : string) : bool := String.prefix "s." x.
Definition agrees {I : Type} (V S : string -> I -> R) : Prop := forall x, is_attr x = true -> V x = S x.
Record stage {I : Type} (O : ops I) (P : prog) (S V : string -> I -> R) : Prop := {
  st_fix : is_fix O P V;
  st_agree : agrees V S
}.
Definition is_const {I : Type} (f : I -> R) : Prop := exists c, f = fun _ => c.

(* rewrite every attribute read V "s.x" into S "s.x" *)
Ltac to_state Hst :=
  repeat match goal with
         | |- context [?V (String ?a ?b)] =>
             lazymatch type of Hst with
             | stage _ _ ?S V =>
                 let x := constr:(String a b) in
                 let t := eval vm_compute in (is_attr x) in
                 lazymatch t with
                 | true => rewrite (st_agree _ _ _ _ Hst x (eq_refl true))
                 end
             end
         end.

(* ---- tactics ---- *)
Ltac unfold_def_opt O p Hssa rho x :=
  let d := eval vm_compute in (defn p x) in
  lazymatch d with
  | Some ?e =>
      let H := constr:(@eq_refl (option expr) (Some e) <: defn p x = Some e) in
      try (rewrite (run_fix O p Hssa rho x e H); cbn [evalG])
  | None => fail "no binding for" x
  end.

(* rewrite the value of bound name x (a string literal) of program p, in the final
   environment, by its definition; Hssa : ssa p = true *)
Ltac unfold_def O p Hssa rho x :=
  let d := eval vm_compute in (defn p x) in
  lazymatch d with
  | Some ?e =>
      let H := constr:(@eq_refl (option expr) (Some e) <: defn p x = Some e) in
      rewrite (run_fix O p Hssa rho x e H);
      cbn [evalG]
  | None => fail "no binding for" x
  end.
