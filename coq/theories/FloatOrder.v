(* ====================================================================== *)
(*  FloatOrder.v -- the IEEE-754 order facts assumed by the control-model  *)
(*  theorems of Newton.v / RootSelect.v / Bracket.v, PROVED for binary64   *)
(*  primitive floats (Coq.Floats.PrimFloat.ltb / leb), NaN, infinities and *)
(*  signed zeros included, and the float instances of those theorems.      *)
(*                                                                        *)
(*  Part 1 (order laws) reasons directly on SpecFloat: ltb_spec / leb_spec *)
(*  / eqb_spec reduce the primitives to SFltb / SFleb / SFeqb on           *)
(*  Prim2SF x.  Every non-NaN spec_float is mapped to a key in Z*Z*Z       *)
(*      -inf |-> (-2,0,0)   -m*2^e |-> (-1,-e,-m)   +-0 |-> (0,0,0)         *)
(*      +m*2^e |-> (1,e,m)  +inf |-> (2,0,0)                               *)
(*  and  x <  y  <->  neither is NaN /\ key x <lex key y  (float_ltb_spec), *)
(*       x <= y  <->  neither is NaN /\ key x <=lex key y (float_leb_spec). *)
(*  All order laws follow from the lexicographic order of Z*Z*Z (lia).     *)
(*  Axioms used by the order laws: ltb_spec, leb_spec, eqb_spec only.      *)
(*                                                                        *)
(*  F1 float_ltb_trans, F2 float_ltb_irrefl, F3 float_ltb_leb_trans :      *)
(*       unconditional.                                                    *)
(*  F4 float_ltb_negtrans : needs only the MIDDLE operand non-NaN.         *)
(*  F5 float_leb_total    : needs both operands non-NaN.                   *)
(*  F6 float_ltb_asym (unconditional), float_ltb_cotrans (middle operand   *)
(*     non-NaN), float_{irrefl,trans,asym,cotrans}_on (Bracket.v's forms). *)
(*  Examples by vm_compute show each side condition is necessary.          *)
(*                                                                        *)
(*  Part 2: instances of the theorems of Newton.v, RootSelect.v, Bracket.v *)
(*                                                                        *)
(*  Part 3 (module RealSemantics, via Flocq): the same comparisons are the *)
(*  order of the real values B2R (infinities as +-2^1024).  Not used by    *)
(*  parts 1-2; it brings in the axioms of the Coq Reals.                   *)
(*                                                                        *)
(*  No Axiom/Parameter/Admitted here; see the Print Assumptions at the end. *)
(* ====================================================================== *)

From Coq Require Import ZArith Lia Bool List Floats.
From Coq Require Reals Lra.
From Flocq Require Core.Core IEEE754.BinarySingleNaN IEEE754.PrimFloat.
From QSC Require Newton RootSelect Bracket.
Import ListNotations.

Module PF := Coq.Floats.PrimFloat.

(* ====================================================================== *)
(*  Part 1.  Order laws of PrimFloat.ltb / PrimFloat.leb                   *)
(* ====================================================================== *)

(* NaN test on the specification type *)
Definition sf_nan (s : spec_float) : bool :=
  match s with S754_nan => true | _ => false end.

(* Keys: (class, exponent, mantissa) with the sign folded in, ordered lexicographically.
   SFcompare compares finite numbers of equal sign by exponent first, then mantissa -- a
   lexicographic order whether or not the representation is canonical, so no validity
   hypothesis (Prim2SF_valid) is needed for the order laws.  The key of NaN is irrelevant. *)
Definition K : Type := (Z * Z * Z)%type.

Definition skey (s : spec_float) : K :=
  match s with
  | S754_zero _ => (0, 0, 0)%Z
  | S754_nan => (0, 0, 0)%Z
  | S754_infinity false => (2, 0, 0)%Z
  | S754_infinity true => (-2, 0, 0)%Z
  | S754_finite false m e => (1, e, Zpos m)%Z
  | S754_finite true m e => (-1, - e, Zneg m)%Z
  end.

Definition klt (k k' : K) : Prop :=
  let '(a, b, c) := k in let '(a', b', c') := k' in
  (a < a' \/ a = a' /\ (b < b' \/ b = b' /\ c < c'))%Z.
Definition kle (k k' : K) : Prop :=
  let '(a, b, c) := k in let '(a', b', c') := k' in
  (a < a' \/ a = a' /\ (b < b' \/ b = b' /\ c <= c'))%Z.

Lemma SFcompare_finite_pos : forall m1 e1 m2 e2,
  SFcompare (S754_finite false m1 e1) (S754_finite false m2 e2) =
  Some (match Z.compare e1 e2 with Lt => Lt | Gt => Gt | Eq => Pos.compare m1 m2 end).
Proof. reflexivity. Qed.
Lemma SFcompare_finite_neg : forall m1 e1 m2 e2,
  SFcompare (S754_finite true m1 e1) (S754_finite true m2 e2) =
  Some (match Z.compare e1 e2 with Lt => Gt | Gt => Lt | Eq => CompOpp (Pos.compare m1 m2) end).
Proof. reflexivity. Qed.

Lemma SFltb_lex : forall x y, sf_nan x = false -> sf_nan y = false ->
  (SFltb x y = true <-> klt (skey x) (skey y)).
Proof.
  intros [sx|sx| |sx mx ex] [sy|sy| |sy my ey] Hx Hy; try discriminate;
  try destruct sx; try destruct sy; unfold SFltb;
  rewrite ?SFcompare_finite_pos, ?SFcompare_finite_neg;
  try (destruct (Z.compare_spec ex ey); [destruct (Pos.compare_spec mx my)| |]);
  simpl; (split; intro HH; [try discriminate; try lia | try reflexivity; try lia]).
Qed.

Lemma SFleb_lex : forall x y, sf_nan x = false -> sf_nan y = false ->
  (SFleb x y = true <-> kle (skey x) (skey y)).
Proof.
  intros [sx|sx| |sx mx ex] [sy|sy| |sy my ey] Hx Hy; try discriminate;
  try destruct sx; try destruct sy; unfold SFleb;
  rewrite ?SFcompare_finite_pos, ?SFcompare_finite_neg;
  try (destruct (Z.compare_spec ex ey); [destruct (Pos.compare_spec mx my)| |]);
  simpl; (split; intro HH; [try discriminate; try lia | try reflexivity; try lia]).
Qed.

Lemma SFltb_nan : forall x y, sf_nan x = true \/ sf_nan y = true -> SFltb x y = false.
Proof.
  intros [sx|sx| |sx mx ex] [sy|sy| |sy my ey] [H|H]; try discriminate; reflexivity.
Qed.
Lemma SFleb_nan : forall x y, sf_nan x = true \/ sf_nan y = true -> SFleb x y = false.
Proof.
  intros [sx|sx| |sx mx ex] [sy|sy| |sy my ey] [H|H]; try discriminate; reflexivity.
Qed.

Lemma SFeqb_refl : forall x, SFeqb x x = negb (sf_nan x).
Proof.
  intros [[|]|[|]| |[|] m e]; try reflexivity; unfold SFeqb;
  rewrite ?SFcompare_finite_pos, ?SFcompare_finite_neg, Z.compare_refl, Pos.compare_refl; reflexivity.
Qed.

(* ---- float level ---- *)
Definition lkey (x : float) : K := skey (Prim2SF x).

Lemma float_is_nan_sf : forall x : float, PF.is_nan x = sf_nan (Prim2SF x).
Proof.
  intros x. unfold PF.is_nan. rewrite eqb_spec, SFeqb_refl. apply negb_involutive.
Qed.

Ltac ksolve :=
  unfold lkey in *;
  repeat match goal with
  | |- context [skey ?s] => let k := fresh "k" in set (k := skey s) in *; clearbody k; destruct k as [[? ?] ?]
  | H : context [skey ?s] |- _ => let k := fresh "k" in set (k := skey s) in *; clearbody k; destruct k as [[? ?] ?]
  end;
  unfold klt, kle in *; lia.

(* characterisation of the two primitives *)
Theorem float_ltb_spec : forall x y : float,
  PF.ltb x y = true <->
  PF.is_nan x = false /\ PF.is_nan y = false /\ klt (lkey x) (lkey y).
Proof.
  intros x y. rewrite ltb_spec, !float_is_nan_sf. unfold lkey.
  destruct (sf_nan (Prim2SF x)) eqn:Nx.
  { rewrite SFltb_nan by auto. split; [discriminate|intros (H & _); discriminate]. }
  destruct (sf_nan (Prim2SF y)) eqn:Ny.
  { rewrite SFltb_nan by auto. split; [discriminate|intros (_ & H & _); discriminate]. }
  rewrite (SFltb_lex _ _ Nx Ny). tauto.
Qed.

Theorem float_leb_spec : forall x y : float,
  PF.leb x y = true <->
  PF.is_nan x = false /\ PF.is_nan y = false /\ kle (lkey x) (lkey y).
Proof.
  intros x y. rewrite leb_spec, !float_is_nan_sf. unfold lkey.
  destruct (sf_nan (Prim2SF x)) eqn:Nx.
  { rewrite SFleb_nan by auto. split; [discriminate|intros (H & _); discriminate]. }
  destruct (sf_nan (Prim2SF y)) eqn:Ny.
  { rewrite SFleb_nan by auto. split; [discriminate|intros (_ & H & _); discriminate]. }
  rewrite (SFleb_lex _ _ Nx Ny). tauto.
Qed.

Lemma klt_dec : forall k k' : K, {klt k k'} + {kle k' k}.
Proof.
  intros [[a b] c] [[a' b'] c']. unfold klt, kle.
  destruct (Z_lt_dec a a'); [left; lia|].
  destruct (Z.eq_dec a a'); [|right; lia].
  destruct (Z_lt_dec b b'); [left; lia|].
  destruct (Z.eq_dec b b'); [|right; lia].
  destruct (Z_lt_dec c c'); [left; lia|right; lia].
Qed.

Lemma float_ltb_false : forall x y : float,
  PF.ltb x y = false <->
  PF.is_nan x = true \/ PF.is_nan y = true \/ kle (lkey y) (lkey x).
Proof.
  intros x y. pose proof (float_ltb_spec x y) as S.
  destruct (PF.ltb x y).
  - destruct (proj1 S eq_refl) as (Hx & Hy & Hl). split; [discriminate|].
    intros [H|[H|H]]; try congruence. exfalso. ksolve.
  - split; auto. intros _.
    destruct (PF.is_nan x) eqn:Nx; auto.
    destruct (PF.is_nan y) eqn:Ny; auto.
    right; right. destruct (klt_dec (lkey x) (lkey y)) as [L|L]; auto.
    assert (false = true); [|discriminate]. apply S. repeat split; auto.
Qed.

(* F1 *)
Theorem float_ltb_trans : forall a b c : float,
  PF.ltb a b = true -> PF.ltb b c = true -> PF.ltb a c = true.
Proof.
  intros a b c H1 H2. apply float_ltb_spec in H1, H2. apply float_ltb_spec.
  destruct H1 as (? & ? & ?), H2 as (? & ? & ?). repeat split; auto. ksolve.
Qed.

(* F2 *)
Theorem float_ltb_irrefl : forall a : float, PF.ltb a a = false.
Proof.
  intros a. destruct (PF.ltb a a) eqn:E; auto.
  apply float_ltb_spec in E. destruct E as (_ & _ & E). ksolve.
Qed.

(* F3 *)
Theorem float_ltb_leb_trans : forall a b c : float,
  PF.ltb a b = true -> PF.leb b c = true -> PF.leb a c = true.
Proof.
  intros a b c H1 H2. apply float_ltb_spec in H1. apply float_leb_spec in H2. apply float_leb_spec.
  destruct H1 as (? & ? & ?), H2 as (? & ? & ?). repeat split; auto. ksolve.
Qed.

(* F4 : only the MIDDLE operand has to be a number *)
Theorem float_ltb_negtrans : forall a b c : float,
  PF.is_nan b = false ->
  PF.ltb a b = false -> PF.ltb b c = false -> PF.ltb a c = false.
Proof.
  intros a b c Nb H1 H2. apply float_ltb_false in H1, H2. apply float_ltb_false.
  destruct H1 as [H1|[H1|H1]]; [auto|congruence|].
  destruct H2 as [H2|[H2|H2]]; [congruence|auto|].
  right; right; ksolve.
Qed.

(* F5 *)
Theorem float_leb_total : forall a b : float,
  PF.is_nan a = false -> PF.is_nan b = false ->
  PF.ltb a b = false -> PF.leb b a = true.
Proof.
  intros a b Na Nb H. apply float_ltb_false in H. apply float_leb_spec.
  destruct H as [H|[H|H]]; [congruence|congruence|]. auto.
Qed.

(* ---- consequences of a true comparison: both operands are numbers ---- *)
Lemma float_ltb_true_not_nan : forall a b : float,
  PF.ltb a b = true -> PF.is_nan a = false /\ PF.is_nan b = false.
Proof. intros a b H. apply float_ltb_spec in H. tauto. Qed.

Lemma float_leb_true_not_nan : forall a b : float,
  PF.leb a b = true -> PF.is_nan a = false /\ PF.is_nan b = false.
Proof. intros a b H. apply float_leb_spec in H. tauto. Qed.

Lemma float_ltb_nan_l : forall a b : float, PF.is_nan a = true -> PF.ltb a b = false.
Proof. intros a b H. apply float_ltb_false. auto. Qed.
Lemma float_ltb_nan_r : forall a b : float, PF.is_nan b = true -> PF.ltb a b = false.
Proof. intros a b H. apply float_ltb_false. auto. Qed.
Lemma float_leb_nan_l : forall a b : float, PF.is_nan a = true -> PF.leb a b = false.
Proof.
  intros a b H. destruct (PF.leb a b) eqn:E; auto.
  apply float_leb_true_not_nan in E. destruct E; congruence.
Qed.
Lemma float_leb_nan_r : forall a b : float, PF.is_nan b = true -> PF.leb a b = false.
Proof.
  intros a b H. destruct (PF.leb a b) eqn:E; auto.
  apply float_leb_true_not_nan in E. destruct E; congruence.
Qed.

(* F6 : the further order facts used (relative to a predicate) by Bracket.v *)
Theorem float_ltb_asym : forall a b : float, PF.ltb a b = true -> PF.ltb b a = false.
Proof.
  intros a b H. apply float_ltb_spec in H. apply float_ltb_false.
  destruct H as (_ & _ & H). right; right; ksolve.
Qed.

(* co-transitivity: only the MIDDLE operand has to be a number *)
Theorem float_ltb_cotrans : forall a b c : float,
  PF.is_nan b = false ->
  PF.ltb a c = true -> PF.ltb a b = true \/ PF.ltb b c = true.
Proof.
  intros a b c Nb H. apply float_ltb_spec in H. destruct H as (Na & Nc & H).
  destruct (klt_dec (lkey a) (lkey b)) as [L|L].
  - left. apply float_ltb_spec. auto.
  - right. apply float_ltb_spec. repeat split; auto. ksolve.
Qed.

(* further links between < and <= (not assumed by the three files, but they complete the picture) *)
Theorem float_ltb_leb : forall a b : float, PF.ltb a b = true -> PF.leb a b = true.
Proof.
  intros a b H. apply float_ltb_spec in H. apply float_leb_spec.
  destruct H as (? & ? & ?). repeat split; auto. ksolve.
Qed.

Theorem float_leb_ltb_trans : forall a b c : float,
  PF.leb a b = true -> PF.ltb b c = true -> PF.ltb a c = true.
Proof.
  intros a b c H1 H2. apply float_leb_spec in H1. apply float_ltb_spec in H2. apply float_ltb_spec.
  destruct H1 as (? & ? & ?), H2 as (? & ? & ?). repeat split; auto. ksolve.
Qed.

Theorem float_leb_trans : forall a b c : float,
  PF.leb a b = true -> PF.leb b c = true -> PF.leb a c = true.
Proof.
  intros a b c H1 H2. apply float_leb_spec in H1, H2. apply float_leb_spec.
  destruct H1 as (? & ? & ?), H2 as (? & ? & ?). repeat split; auto. ksolve.
Qed.

Theorem float_leb_refl : forall a : float, PF.leb a a = negb (PF.is_nan a).
Proof.
  intros a. destruct (PF.is_nan a) eqn:N; simpl.
  - apply float_leb_nan_l; assumption.
  - apply float_leb_spec. repeat split; auto. ksolve.
Qed.

(* for numbers,  a <= b  is exactly  not (b < a) ;  with a NaN both are false *)
Theorem float_leb_negb_ltb : forall a b : float,
  PF.is_nan a = false -> PF.is_nan b = false -> PF.leb a b = negb (PF.ltb b a).
Proof.
  intros a b Na Nb. destruct (PF.ltb b a) eqn:E; simpl.
  - destruct (PF.leb a b) eqn:F; auto.
    apply float_ltb_spec in E. apply float_leb_spec in F. exfalso. ksolve.
  - apply float_leb_total; assumption.
Qed.

(* ---- the side conditions are necessary ---- *)
Example float_ltb_negtrans_fails_with_nan :
  PF.ltb PF.zero PF.nan = false /\ PF.ltb PF.nan PF.one = false /\ PF.ltb PF.zero PF.one = true.
Proof. vm_compute. repeat split. Qed.

Example float_ltb_negtrans_not_universal :
  ~ (forall a b c : float, PF.ltb a b = false -> PF.ltb b c = false -> PF.ltb a c = false).
Proof.
  intros H. specialize (H PF.zero PF.nan PF.one eq_refl eq_refl). vm_compute in H. discriminate.
Qed.

Example float_leb_total_fails_nan_left :
  PF.ltb PF.nan PF.zero = false /\ PF.leb PF.zero PF.nan = false.
Proof. vm_compute. split; reflexivity. Qed.

Example float_leb_total_fails_nan_right :
  PF.ltb PF.zero PF.nan = false /\ PF.leb PF.nan PF.zero = false.
Proof. vm_compute. split; reflexivity. Qed.

Example float_leb_total_not_universal :
  ~ (forall a b : float, PF.ltb a b = false -> PF.leb b a = true).
Proof.
  intros H. specialize (H PF.nan PF.zero eq_refl). vm_compute in H. discriminate.
Qed.

Example float_ltb_cotrans_fails_with_nan :
  PF.ltb PF.zero PF.one = true /\ PF.ltb PF.zero PF.nan = false /\ PF.ltb PF.nan PF.one = false.
Proof. vm_compute. repeat split. Qed.

(* signed zeros compare equal; infinities are ordinary extreme elements *)
Example float_signed_zero_order :
  PF.ltb PF.neg_zero PF.zero = false /\ PF.ltb PF.zero PF.neg_zero = false /\
  PF.leb PF.neg_zero PF.zero = true /\ PF.leb PF.zero PF.neg_zero = true.
Proof. vm_compute. repeat split. Qed.

(* ====================================================================== *)
(*  Part 2.  INSTANCES                                                    *)
(* ====================================================================== *)


(* ---------------------------------------------------------------------- *)
(*  Newton.v  with  N := float, ltb := PrimFloat.ltb, leb := PrimFloat.leb *)
(*  All three order premises are discharged unconditionally: the           *)
(*  corollaries hold for EVERY stream of binary64 norms (NaN, +-inf, +-0). *)
(* ---------------------------------------------------------------------- *)
Section NewtonFloat.

Variables tol tol4 : float.
Variable nls : nat.
Variable norms : nat -> float.
Variable niter : nat.

Notation ctl := (Newton.newton_ctl PF.ltb PF.leb tol tol4 nls norms niter).
Notation acc := (Newton.accepted PF.ltb PF.leb tol tol4 nls norms niter).

Corollary newton_never_worse_float :
  let r := ctl in
  Newton.best r = 0 \/ PF.ltb (norms (Newton.best r)) (norms 0) = true.
Proof. exact (Newton.never_worse_than_initial PF.ltb PF.leb tol tol4 nls norms float_ltb_trans niter). Qed.

Corollary newton_accepted_chain_decreasing_float :
  Sorted.StronglySorted (Newton.better PF.ltb norms) (0 :: map fst acc).
Proof. exact (Newton.accepted_chain_decreasing PF.ltb PF.leb tol tol4 nls norms float_ltb_trans niter). Qed.

Corollary newton_accepted_pairwise_decreasing_float :
  let l := 0 :: map fst acc in
  forall i j, i < j < length l ->
  PF.ltb (norms (nth j l 0)) (norms (nth i l 0)) = true.
Proof. exact (@Newton.accepted_pairwise_decreasing _ PF.ltb PF.leb tol tol4 nls norms float_ltb_trans niter). Qed.

Corollary newton_last_not_below_best_float :
  let r := ctl in PF.ltb (Newton.last r) (norms (Newton.best r)) = false.
Proof.
  exact (Newton.no_warning_last_not_below_best PF.ltb PF.leb tol tol4 nls norms
           float_ltb_trans float_ltb_irrefl niter).
Qed.

Corollary newton_no_warning_means_best_small_float :
  let r := ctl in
  Newton.warned r = false -> PF.leb (norms (Newton.best r)) tol4 = true.
Proof.
  exact (@Newton.no_warning_means_best_small _ PF.ltb PF.leb tol tol4 nls norms float_ltb_leb_trans niter).
Qed.

(* float reading of the same: without a warning the returned point's norm is a NUMBER *)
Corollary newton_no_warning_best_not_nan_float :
  let r := ctl in
  Newton.warned r = false ->
  PF.is_nan (norms (Newton.best r)) = false /\ PF.is_nan tol4 = false.
Proof.
  intros r Hw. apply float_leb_true_not_nan. exact (newton_no_warning_means_best_small_float Hw).
Qed.

(* nan_always_warns has no order premise; on floats its premise follows from is_nan *)
Corollary newton_nan_always_warns_float :
  let r := ctl in
  PF.leb (Newton.last r) tol4 = false -> Newton.warned r = true.
Proof. exact (@Newton.nan_always_warns _ PF.ltb PF.leb tol tol4 nls norms niter). Qed.

Corollary newton_nan_last_warns_float :
  let r := ctl in
  PF.is_nan (Newton.last r) = true \/ PF.is_nan tol4 = true -> Newton.warned r = true.
Proof.
  intros r H. apply newton_nan_always_warns_float. fold r.
  destruct H as [H|H]; [apply float_leb_nan_l | apply float_leb_nan_r]; exact H.
Qed.

(* nan_initial_stops / nan_initial_warns: their NaN-like premises are consequences of is_nan *)
Corollary newton_nan_initial_float :
  1 <= niter -> PF.is_nan (norms 0) = true ->
  let r := ctl in
  Newton.best r = 0 /\ Newton.evals r = 1 + nls /\ Newton.last r = norms 0 /\
  Newton.achieved r = false /\ acc = [] /\ Newton.warned r = true.
Proof.
  intros Hn H0 r.
  assert (H1 : PF.ltb (norms 0) tol = false) by (apply float_ltb_nan_l; exact H0).
  assert (H2 : forall j, PF.ltb (norms j) (norms 0) = false) by (intro j; apply float_ltb_nan_r; exact H0).
  assert (H3 : PF.leb (norms 0) tol4 = false) by (apply float_leb_nan_l; exact H0).
  pose proof (@Newton.nan_initial_stops _ PF.ltb PF.leb tol tol4 nls norms niter Hn H1 H2) as S.
  pose proof (@Newton.nan_initial_warns _ PF.ltb PF.leb tol tol4 nls norms niter Hn H1 H2 H3) as W.
  cbv zeta in S. unfold r. tauto.
Qed.

End NewtonFloat.

(* ---------------------------------------------------------------------- *)
(*  RootSelect.v                                                          *)
(*                                                                        *)
(*  rc_is_sentinel_or_candidate, rc_minimal, rsing_min_lower need only     *)
(*  m1_not_pos / ltb_irrefl / ltb_trans: instantiated directly.            *)
(*                                                                        *)
(*  rc_minimal_quadratic, r_singularity_minimal carry the premise          *)
(*  ltb_negtrans and rsing_min_le carries leb_total, QUANTIFIED OVER THE   *)
(*  WHOLE CARRIER.  For carrier = float these premises are FALSE           *)
(*  (float_ltb_negtrans_not_universal, float_leb_total_not_universal), so  *)
(*  the generic theorems cannot be instantiated as they stand.  Their      *)
(*  CONCLUSIONS are nevertheless true for floats, for every input: the     *)
(*  proofs apply negative transitivity only with an accepted candidate     *)
(*  (rr > 0, hence not NaN) or a reported rc (sentinel or accepted         *)
(*  candidate) in the middle.  This is proved below by redoing the two     *)
(*  proofs with the law relativised to a predicate G ("is a number").      *)
(* ---------------------------------------------------------------------- *)

Lemma Forall2_In_r : forall (A B : Type) (R : A -> B -> Prop) l l',
  Forall2 R l l' -> forall b, In b l' -> exists a, In a l /\ R a b.
Proof.
  induction 1 as [|a b l l' Hab HF IH]; intros b0 Hb; simpl in Hb; [contradiction|].
  destruct Hb as [<-|Hb].
  - exists a. simpl; auto.
  - destruct (IH _ Hb) as (a0 & Ha & Hr). exists a0. simpl; auto.
Qed.
Arguments Forall2_In_r {A B R l l'} _ b _.

Section RootSelectRelative.

Variable n : RootSelect.num.
Notation N := (RootSelect.carrier n).
Notation ltb := (RootSelect.n_ltb n).
Notation leb := (RootSelect.n_leb n).
Notation zero := (RootSelect.l_0 n).
Notation sentinel := (RootSelect.l_1e100 n).

Variable G : N -> Prop.      (* "is a number" *)

Hypothesis m1_not_pos : ltb zero (RootSelect.l_m1 n) = false.
Hypothesis ltb_irrefl : forall a, ltb a a = false.
Hypothesis ltb_trans : forall a b c, ltb a b = true -> ltb b c = true -> ltb a c = true.
Hypothesis ltb_negtrans_G : forall a b c, G b -> ltb a b = false -> ltb b c = false -> ltb a c = false.
Hypothesis pos_G : forall a, ltb zero a = true -> G a.
Hypothesis sentinel_G : G sentinel.

Theorem rc_minimal_quadratic_rel :
  forall (g0 g1c g20 g2s g2c K0 K2s K2c K4s K4c : N) re im rc sel raw,
  RootSelect.select_rc_full n re im g0 g1c g20 g2s g2c K0 K2s K2c K4s K4c = RootSelect.Ok (rc, sel, raw) ->
  forall c, In c raw -> RootSelect.c_kind c <> RootSelect.Linear -> ltb (RootSelect.c_val c) rc = false.
Proof using ltb_irrefl ltb_trans ltb_negtrans_G pos_G.
  intros g0 g1c g20 g2s g2c K0 K2s K2c K4s K4c re im rc sel raw H.
  change ((fun st : RootSelect.state n => let '(rc, _, raw) := st in
             forall c, In c raw -> RootSelect.c_kind c <> RootSelect.Linear ->
                       ltb (RootSelect.c_val c) rc = false) (rc, sel, raw)).
  eapply RootSelect.select_rc_full_inv; [| |exact H].
  - simpl; contradiction.
  - intros s2 c2 gc at_ [[rc0 sel0] raw0] v st' P0 Hb.
    apply RootSelect.varsigma_body_ok in Hb. destruct Hb as (ct & sn & ->).
    intros c Hc Hk. apply in_app_or in Hc. destruct Hc as [Hc|Hc].
    + apply RootSelect.update_rc_mono; auto.
    + apply in_app_or in Hc. destruct Hc as [Hc|Hc].
      * exfalso. apply Hk. eapply RootSelect.lin_sols_kind; eauto.
      * destruct (RootSelect.keep_min_least n ltb_irrefl ltb_trans _ _
                    (RootSelect.quad_sols_length n g0 g1c g20 g2s g2c s2 c2 ct sn) Hc)
          as (m & E & Hm & Hcm).
        rewrite E. simpl.
        assert (Hpos : ltb zero (RootSelect.c_val m) = true)
          by (eapply RootSelect.quad_sols_pos; eauto).
        eapply ltb_negtrans_G; [apply pos_G; exact Hpos | exact Hcm |].
        apply RootSelect.update_rc_self; assumption.
Qed.

(* every reported rc is a number *)
Lemma rc_is_G :
  forall (g0 g1c g20 g2s g2c K0 K2s K2c K4s K4c : N) re im rc sel raw,
  RootSelect.select_rc_full n re im g0 g1c g20 g2s g2c K0 K2s K2c K4s K4c = RootSelect.Ok (rc, sel, raw) ->
  G rc.
Proof using m1_not_pos pos_G sentinel_G.
  intros g0 g1c g20 g2s g2c K0 K2s K2c K4s K4c re im rc sel raw H.
  destruct (RootSelect.rc_is_sentinel_or_candidate n g0 g1c g20 g2s g2c K0 K2s K2c K4s K4c
              m1_not_pos re im rc sel raw H) as [[->|Hin] Hpos]; [exact sentinel_G|].
  apply in_map_iff in Hin. destruct Hin as (c & <- & Hc). apply pos_G. apply Hpos. exact Hc.
Qed.

Theorem r_singularity_minimal_rel :
  forall (pts : list (RootSelect.point n)) (sts : list (RootSelect.state n)),
  Forall2 (fun p st => RootSelect.point_full n p = RootSelect.Ok st) pts sts ->
  forall st c, In st sts -> In c (snd (fst st)) ->
  ltb (RootSelect.c_val c) (RootSelect.rsing_min n (map (fun st => fst (fst st)) sts)) = false.
Proof using m1_not_pos ltb_irrefl ltb_trans ltb_negtrans_G pos_G sentinel_G.
  intros pts sts HF st c Hst Hc.
  set (rcs := map (fun st : RootSelect.state n => fst (fst st)) sts).
  assert (Hin : In (fst (fst st)) rcs)
    by (apply (in_map (fun st : RootSelect.state n => fst (fst st))); exact Hst).
  pose proof (RootSelect.rsing_min_lower n ltb_irrefl ltb_trans rcs _ Hin) as Hlow.
  destruct (Forall2_In_r HF st Hst) as (p & _ & Hp).
  destruct st as [[rc sel] raw]. simpl in *. unfold RootSelect.point_full in Hp.
  eapply ltb_negtrans_G; [| |exact Hlow].
  - eapply rc_is_G; exact Hp.
  - eapply RootSelect.rc_minimal; eauto.
Qed.

(* every per-point value is a number, hence so is their minimum *)
Lemma rcs_all_G :
  forall (pts : list (RootSelect.point n)) (sts : list (RootSelect.state n)),
  Forall2 (fun p st => RootSelect.point_full n p = RootSelect.Ok st) pts sts ->
  forall x, In x (map (fun st : RootSelect.state n => fst (fst st)) sts) -> G x.
Proof using m1_not_pos pos_G sentinel_G.
  intros pts sts HF x Hx. apply in_map_iff in Hx. destruct Hx as (st & <- & Hst).
  destruct (Forall2_In_r HF st Hst) as (p & _ & Hp).
  destruct st as [[rc sel] raw]. simpl. unfold RootSelect.point_full in Hp.
  eapply rc_is_G; exact Hp.
Qed.

End RootSelectRelative.

Section RootSelectFloat.

Notation fnum := RootSelect.float_num.
Notation fsentinel := (RootSelect.l_1e100 fnum).

(* the closed order facts about the literals of float_num *)
Lemma float_num_m1_not_pos : RootSelect.n_ltb fnum (RootSelect.l_0 fnum) (RootSelect.l_m1 fnum) = false.
Proof. vm_compute. reflexivity. Qed.

Lemma float_num_sentinel_not_nan : PF.is_nan fsentinel = false.
Proof. vm_compute. reflexivity. Qed.

Lemma float_num_pos_not_nan : forall a : float,
  RootSelect.n_ltb fnum (RootSelect.l_0 fnum) a = true -> PF.is_nan a = false.
Proof. intros a H. simpl in H. apply float_ltb_true_not_nan in H. tauto. Qed.

Lemma float_num_negtrans : forall a b c : float,
  PF.is_nan b = false ->
  RootSelect.n_ltb fnum a b = false -> RootSelect.n_ltb fnum b c = false -> RootSelect.n_ltb fnum a c = false.
Proof. exact float_ltb_negtrans. Qed.

Variables g0 g1c g20 g2s g2c K0 K2s K2c K4s K4c : float.
Variables re im : list float.
Variable rc : float.
Variables sel raw : list (RootSelect.cand fnum).

Hypothesis Hrun :
  RootSelect.select_rc_full fnum re im g0 g1c g20 g2s g2c K0 K2s K2c K4s K4c = RootSelect.Ok (rc, sel, raw).

(* S1 : direct instance *)
Corollary rc_is_sentinel_or_candidate_float :
  (rc = fsentinel \/ In rc (map (@RootSelect.c_val fnum) sel)) /\
  (forall c, In c sel -> PF.ltb PF.zero (RootSelect.c_val c) = true).
Proof using Hrun.
  exact (RootSelect.rc_is_sentinel_or_candidate fnum g0 g1c g20 g2s g2c K0 K2s K2c K4s K4c
           float_num_m1_not_pos re im rc sel raw Hrun).
Qed.

(* S2 : direct instance *)
Corollary rc_minimal_float :
  forall c, In c sel -> PF.ltb (RootSelect.c_val c) rc = false.
Proof using Hrun.
  exact (RootSelect.rc_minimal fnum g0 g1c g20 g2s g2c K0 K2s K2c K4s K4c
           float_ltb_irrefl float_ltb_trans re im rc sel raw Hrun).
Qed.

(* S2' : via the relativised proof; NO side condition on the inputs *)
Corollary rc_minimal_quadratic_float :
  forall c, In c raw -> RootSelect.c_kind c <> RootSelect.Linear ->
  PF.ltb (RootSelect.c_val c) rc = false.
Proof using Hrun.
  exact (@rc_minimal_quadratic_rel fnum (fun a => PF.is_nan a = false)
           float_ltb_irrefl float_ltb_trans float_num_negtrans float_num_pos_not_nan
           g0 g1c g20 g2s g2c K0 K2s K2c K4s K4c re im rc sel raw Hrun).
Qed.

(* the reported value is never NaN *)
Corollary rc_not_nan_float : PF.is_nan rc = false.
Proof using Hrun.
  exact (@rc_is_G fnum (fun a => PF.is_nan a = false)
           float_num_m1_not_pos float_num_pos_not_nan float_num_sentinel_not_nan
           g0 g1c g20 g2s g2c K0 K2s K2c K4s K4c re im rc sel raw Hrun).
Qed.

(* "<=" forms, positively: rc <= every selected candidate and every accepted quadratic candidate *)
Corollary rc_le_selected_float :
  forall c, In c sel -> PF.leb rc (RootSelect.c_val c) = true.
Proof using Hrun.
  intros c Hc. apply float_leb_total.
  - apply float_num_pos_not_nan. apply (proj2 rc_is_sentinel_or_candidate_float c Hc).
  - exact rc_not_nan_float.
  - exact (rc_minimal_float c Hc).
Qed.

Corollary rc_le_quadratic_float :
  forall c, In c raw -> RootSelect.c_kind c <> RootSelect.Linear ->
  PF.leb rc (RootSelect.c_val c) = true.
Proof using Hrun.
  intros c Hc Hk. apply float_leb_total.
  - apply float_num_pos_not_nan.
    exact (RootSelect.raw_positive fnum g0 g1c g20 g2s g2c K0 K2s K2c K4s K4c re im rc sel raw Hrun c Hc).
  - exact rc_not_nan_float.
  - exact (rc_minimal_quadratic_float c Hc Hk).
Qed.

End RootSelectFloat.

(* ---- grid level ---- *)
Section GridFloat.

Notation fnum := RootSelect.float_num.

(* S4, "<" form: direct instance, for EVERY list (NaN entries included) *)
Corollary rsing_min_lower_float : forall (l : list float) (x : float),
  In x l -> PF.ltb x (RootSelect.rsing_min fnum l) = false.
Proof. exact (RootSelect.rsing_min_lower fnum float_ltb_irrefl float_ltb_trans). Qed.

(* S4, "<=" form.  The premise leb_total of RootSelect.rsing_min_le is false on float, so that
   theorem cannot be instantiated; its conclusion holds when no entry of the list is NaN. *)
Corollary rsing_min_le_float : forall (l : list float) (x : float),
  (forall y, In y l -> PF.is_nan y = false) ->
  In x l -> PF.leb (RootSelect.rsing_min fnum l) x = true.
Proof.
  intros l x Hl Hx. apply float_leb_total.
  - apply Hl; exact Hx.
  - apply Hl. apply (RootSelect.rsing_min_in fnum l). intros ->. contradiction.
  - apply rsing_min_lower_float; exact Hx.
Qed.

(* ... and the side condition is necessary: with a NaN entry the scan skips it and the
   conclusion fails for x := that entry. *)
Example rsing_min_le_fails_with_nan :
  PF.leb (RootSelect.rsing_min fnum [PF.one; PF.nan]) PF.nan = false.
Proof. vm_compute. reflexivity. Qed.

Variable pts : list (RootSelect.point fnum).
Variable sts : list (RootSelect.state fnum).
Hypothesis Hgrid : Forall2 (fun p st => RootSelect.point_full fnum p = RootSelect.Ok st) pts sts.

Notation rcs := (map (fun st : RootSelect.state fnum => fst (fst st)) sts).

(* via the relativised proof; NO side condition on the inputs *)
Corollary r_singularity_minimal_float :
  forall st c, In st sts -> In c (snd (fst st)) ->
  PF.ltb (RootSelect.c_val c) (RootSelect.rsing_min fnum rcs) = false.
Proof using Hgrid.
  exact (@r_singularity_minimal_rel fnum (fun a => PF.is_nan a = false)
           float_num_m1_not_pos float_ltb_irrefl float_ltb_trans float_num_negtrans
           float_num_pos_not_nan float_num_sentinel_not_nan pts sts Hgrid).
Qed.

Corollary rcs_not_nan_float : forall x, In x rcs -> PF.is_nan x = false.
Proof using Hgrid.
  exact (@rcs_all_G fnum (fun a => PF.is_nan a = false)
           float_num_m1_not_pos float_num_pos_not_nan float_num_sentinel_not_nan pts sts Hgrid).
Qed.

(* r_singularity <= the value of every grid point: the side condition of rsing_min_le_float is
   automatically met by values produced by select_rc_full *)
Corollary r_singularity_le_points_float :
  forall x, In x rcs -> PF.leb (RootSelect.rsing_min fnum rcs) x = true.
Proof using Hgrid. intros x Hx. apply rsing_min_le_float; [exact rcs_not_nan_float | exact Hx]. Qed.

(* r_singularity <= every selected candidate of every grid point *)
Corollary r_singularity_le_selected_float :
  forall st c, In st sts -> In c (snd (fst st)) ->
  PF.leb (RootSelect.rsing_min fnum rcs) (RootSelect.c_val c) = true.
Proof using Hgrid.
  intros st c Hst Hc. apply float_leb_total.
  - destruct (Forall2_In_r Hgrid st Hst) as (p & _ & Hp).
    destruct st as [[rc sel] raw]. simpl in Hc. unfold RootSelect.point_full in Hp.
    apply float_num_pos_not_nan.
    exact (proj2 (RootSelect.rc_is_sentinel_or_candidate fnum _ _ _ _ _ _ _ _ _ _
                    float_num_m1_not_pos _ _ _ _ _ Hp) c Hc).
  - destruct sts as [|s0 ss] eqn:E; [contradiction|]. rewrite <- E in *.
    apply rcs_not_nan_float. apply (RootSelect.rsing_min_in fnum). rewrite E. discriminate.
  - exact (r_singularity_minimal_float st c Hst Hc).
Qed.

End GridFloat.

(* ---------------------------------------------------------------------- *)
(*  Bracket.v : its order hypotheses are already relative to a predicate P *)
(*    irrefl_on, trans_on, asym_on : hold for floats with ANY P            *)
(*    cotrans_on                   : holds when P excludes NaN             *)
(* ---------------------------------------------------------------------- *)
Section BracketFloat.

Definition not_nan (a : float) : Prop := PF.is_nan a = false.

Lemma float_irrefl_on : forall P : float -> Prop, Bracket.irrefl_on float PF.ltb P.
Proof. intros P a _. apply float_ltb_irrefl. Qed.
Lemma float_trans_on : forall P : float -> Prop, Bracket.trans_on float PF.ltb P.
Proof. intros P a b c _ _ _. apply float_ltb_trans. Qed.
Lemma float_asym_on : forall P : float -> Prop, Bracket.asym_on float PF.ltb P.
Proof. intros P a b _ _. apply float_ltb_asym. Qed.
Lemma float_cotrans_on : forall P : float -> Prop,
  (forall a, P a -> not_nan a) -> Bracket.cotrans_on float PF.ltb P.
Proof. intros P HP a b c _ Pb _. apply float_ltb_cotrans. apply HP; exact Pb. Qed.

Example float_cotrans_on_needs_not_nan : ~ Bracket.cotrans_on float PF.ltb (fun _ => True).
Proof.
  intros H. destruct (H PF.zero PF.nan PF.one I I I eq_refl) as [E|E]; vm_compute in E; discriminate.
Qed.

(* (2) no sample is strictly below y[argmin]: for EVERY non-empty list, NaN included *)
Corollary argmin_first_min_float : forall (d : float) (y : list float),
  y <> [] -> forall k, k < length y ->
  PF.ltb (nth k y d) (nth (Bracket.argmin_first PF.ltb y) y d) = false.
Proof.
  intros d y Hne k Hk.
  exact (Bracket.argmin_first_min float PF.ltb d (fun _ => True)
           (float_irrefl_on _) (float_trans_on _) y Hne (fun _ _ => I) k Hk).
Qed.

Corollary argmin_first_unique_float : forall (d : float) (y : list float) (m : nat),
  m < length y ->
  (forall k, k < length y -> k <> m -> PF.ltb (nth m y d) (nth k y d) = true) ->
  Bracket.argmin_first PF.ltb y = m.
Proof.
  intros d y m Hm Hu.
  exact (Bracket.argmin_first_unique float PF.ltb d (fun _ => True)
           (float_irrefl_on _) (float_trans_on _) y m (fun _ _ => I) Hm Hu).
Qed.

(* A3: full specification (first minimal element) when no sample is NaN *)
Corollary argmin_first_spec_float : forall (d : float) (y : list float),
  y <> [] -> (forall a, In a y -> PF.is_nan a = false) ->
  let i := Bracket.argmin_first PF.ltb y in
  i < length y /\
  (forall k, k < length y -> PF.ltb (nth k y d) (nth i y d) = false) /\
  (forall k, k < i -> PF.ltb (nth i y d) (nth k y d) = true).
Proof.
  intros d y Hne HP.
  exact (Bracket.argmin_first_spec float PF.ltb d not_nan
           (float_asym_on _) (float_cotrans_on _ (fun _ H => H)) y Hne HP).
Qed.

(* ... and the side condition is necessary for the "first" clause: with y = [2; nan; 1] the scan
   returns index 2, but  y[2] < y[1]  is false *)
Example argmin_first_first_clause_fails_with_nan :
  let y := [PF.two; PF.nan; PF.one] in
  Bracket.argmin_first PF.ltb y = 2 /\ PF.ltb (nth 2 y PF.zero) (nth 1 y PF.zero) = false.
Proof. vm_compute. split; reflexivity. Qed.

(* A.4 : oracle hypotheses kept, order hypotheses discharged.  Only the SAMPLES have to be
   numbers; the value returned by Brent may be anything (NaN included). *)
Corollary min_le_samples_float :
  forall (d : float) (y : list float) (func : Z -> float) (brent : Z * Z * Z -> float),
  let index := Z.of_nat (Bracket.argmin_first PF.ltb y) in
  let result := Bracket.fourier_minimum_model PF.ltb false y d func brent in
  (forall k : nat, k < length y -> func (Z.of_nat k) = nth k y d) ->
  (fst (Bracket.bracket_search PF.ltb func index) = true -> PF.ltb (func index) result <> true) ->
  y <> [] ->
  (forall a, In a y -> PF.is_nan a = false) ->
  fst (Bracket.bracket_search PF.ltb func index) = true ->
  forall k, k < length y -> PF.ltb (nth k y d) result = false.
Proof.
  intros d y func brent index result Hint Hbr Hne HP.
  apply (Bracket.min_le_samples float PF.ltb d y func brent Hint Hbr Hne
           (float_irrefl_on _) (float_trans_on _)).
  intros a b _ Hb. apply float_ltb_cotrans. apply HP; exact Hb.
Qed.

(* the same with Brent's property stated for every valid bracket; compared with
   Bracket.min_le_samples_swo the premise "P result" is not needed *)
Corollary min_le_samples_swo_float :
  forall (d : float) (y : list float) (func : Z -> float) (brent : Z * Z * Z -> float),
  let index := Z.of_nat (Bracket.argmin_first PF.ltb y) in
  let result := Bracket.fourier_minimum_model PF.ltb false y d func brent in
  (forall k : nat, k < length y -> func (Z.of_nat k) = nth k y d) ->
  (forall a b c, PF.ltb (func b) (func a) = true -> PF.ltb (func b) (func c) = true ->
                 PF.ltb (func b) (brent (a, b, c)) = false) ->
  y <> [] ->
  (forall a, In a y -> PF.is_nan a = false) ->
  fst (Bracket.bracket_search PF.ltb func index) = true ->
  forall k, k < length y -> PF.ltb (nth k y d) result = false.
Proof.
  intros d y func brent index result Hint Hbr Hne HP Hf.
  apply (min_le_samples_float d y func brent Hint); auto.
  intros _. fold index. fold result.
  destruct (Bracket.bracket_search PF.ltb func index) as [f j] eqn:Eb. simpl in Hf. subst f.
  destruct (Bracket.bracket_valid float PF.ltb _ _ _ Eb) as (_ & Hm & Hp & _).
  unfold result, Bracket.fourier_minimum_model. fold index. rewrite Eb. simpl.
  unfold Bracket.bracket_of. rewrite (Hbr _ _ _ Hm Hp). discriminate.
Qed.

(* A.5 : shift invariance, for EVERY data (only irreflexivity and transitivity are used) *)
Corollary shift_invariance_of_decisions_float :
  forall (d : float) (y y' : list float) (func func' : Z -> float) (s m : nat),
  let n := length y in
  n <> 0 -> length y' = n ->
  (forall k, k < n -> nth k y' d = nth ((k + s) mod n) y d) ->
  (forall k, func' k = func (k + Z.of_nat s)%Z) ->
  (forall k, func (k + Z.of_nat n)%Z = func k) ->
  m < n ->
  (forall k, k < n -> k <> m -> PF.ltb (nth m y d) (nth k y d) = true) ->
  Bracket.argmin_first PF.ltb y = m /\
  Bracket.argmin_first PF.ltb y' < n /\
  (Bracket.argmin_first PF.ltb y' + s) mod n = m /\
  Bracket.bracket_search PF.ltb func' (Z.of_nat (Bracket.argmin_first PF.ltb y')) =
  Bracket.bracket_search PF.ltb func (Z.of_nat (Bracket.argmin_first PF.ltb y)).
Proof.
  intros d y y' func func' s m n Hn Hlen Hrot Hs Hper Hm Hu.
  exact (Bracket.shift_invariance_of_decisions float PF.ltb (fun _ => True) d y y' func func' s m
           Hn Hlen Hrot Hs Hper (fun _ _ => I) (float_irrefl_on _) (float_trans_on _) Hm Hu).
Qed.

Corollary shift_invariance_rotl_float :
  forall (d : float) (y : list float) (func func' : Z -> float) (s m : nat),
  let n := length y in
  s <= n ->
  (forall k, func' k = func (k + Z.of_nat s)%Z) ->
  (forall k, func (k + Z.of_nat n)%Z = func k) ->
  m < n ->
  (forall k, k < n -> k <> m -> PF.ltb (nth m y d) (nth k y d) = true) ->
  (Bracket.argmin_first PF.ltb (Bracket.rotl s y) + s) mod n = Bracket.argmin_first PF.ltb y /\
  Bracket.bracket_search PF.ltb func' (Z.of_nat (Bracket.argmin_first PF.ltb (Bracket.rotl s y))) =
  Bracket.bracket_search PF.ltb func (Z.of_nat (Bracket.argmin_first PF.ltb y)).
Proof.
  intros d y func func' s m n Hs Hf Hper Hm Hu.
  exact (Bracket.shift_invariance_rotl float PF.ltb (fun _ => True) d y func func' s m
           Hs Hf Hper (fun _ _ => I) (float_irrefl_on _) (float_trans_on _) Hm Hu).
Qed.

End BracketFloat.


(* ====================================================================== *)
(*  Part 3.  The same order, read on the real values (via Flocq)           *)
(* ====================================================================== *)
Module RealSemantics.
Import Reals Lra.
Import Flocq.Core.Core Flocq.IEEE754.BinarySingleNaN Flocq.IEEE754.PrimFloat.
Notation float := Coq.Floats.PrimFloat.float (only parsing).

Local Instance Hprec : FLX.Prec_gt_0 prec := eq_refl _.
Local Instance Hmax : Prec_lt_emax prec emax := eq_refl _.

Notation bf := (binary_float prec emax).

Definition Bkey (x : bf) : R :=
  match x with
  | B754_infinity false => bpow radix2 emax
  | B754_infinity true => (- bpow radix2 emax)%R
  | _ => B2R x
  end.

Lemma B2R_bounds : forall x : bf, (- bpow radix2 emax < B2R x < bpow radix2 emax)%R.
Proof.
  intros x. pose proof (abs_B2R_lt_emax prec emax x) as H.
  apply Rabs_def2 in H. lra.
Qed.

Lemma Bkey_finite : forall x : bf, is_finite x = true -> Bkey x = B2R x.
Proof. intros [s|s| |s m e B]; simpl; try discriminate; reflexivity. Qed.

Lemma Bltb_key : forall x y : bf, is_nan x = false -> is_nan y = false ->
  Bltb x y = Rlt_bool (Bkey x) (Bkey y).
Proof.
  intros x y Hx Hy.
  destruct (is_finite x) eqn:Fx; destruct (is_finite y) eqn:Fy.
  - rewrite Bltb_correct, !Bkey_finite by assumption. reflexivity.
  - pose proof (B2R_bounds x).
    destruct y as [s|[|]| |s m e B]; try discriminate; rewrite (Bkey_finite x Fx);
    destruct x as [s'|s'| |s' m' e' B']; try discriminate; simpl Bkey; unfold Bltb; simpl SFltb;
    (destruct s'; simpl);
    symmetry; (apply Rlt_bool_true || apply Rlt_bool_false); simpl in *; lra.
  - pose proof (B2R_bounds y).
    destruct x as [s|[|]| |s m e B]; try discriminate; rewrite (Bkey_finite y Fy);
    destruct y as [s'|s'| |s' m' e' B']; try discriminate; simpl Bkey; unfold Bltb; simpl SFltb;
    (destruct s'; simpl);
    symmetry; (apply Rlt_bool_true || apply Rlt_bool_false); simpl in *; lra.
  - pose proof (bpow_gt_0 radix2 emax).
    destruct x as [s|[|]| |s m e B]; try discriminate;
    destruct y as [s'|[|]| |s' m' e' B']; try discriminate; simpl Bkey; unfold Bltb; simpl;
    symmetry; (apply Rlt_bool_true || apply Rlt_bool_false); lra.
Qed.

Lemma Bleb_key : forall x y : bf, is_nan x = false -> is_nan y = false ->
  Bleb x y = Rle_bool (Bkey x) (Bkey y).
Proof.
  intros x y Hx Hy.
  destruct (is_finite x) eqn:Fx; destruct (is_finite y) eqn:Fy.
  - rewrite Bleb_correct, !Bkey_finite by assumption. reflexivity.
  - pose proof (B2R_bounds x).
    destruct y as [s|[|]| |s m e B]; try discriminate; rewrite (Bkey_finite x Fx);
    destruct x as [s'|s'| |s' m' e' B']; try discriminate; simpl Bkey; unfold Bleb; simpl SFleb;
    (destruct s'; simpl);
    symmetry; (apply Rle_bool_true || apply Rle_bool_false); simpl in *; lra.
  - pose proof (B2R_bounds y).
    destruct x as [s|[|]| |s m e B]; try discriminate; rewrite (Bkey_finite y Fy);
    destruct y as [s'|s'| |s' m' e' B']; try discriminate; simpl Bkey; unfold Bleb; simpl SFleb;
    (destruct s'; simpl);
    symmetry; (apply Rle_bool_true || apply Rle_bool_false); simpl in *; lra.
  - pose proof (bpow_gt_0 radix2 emax).
    destruct x as [s|[|]| |s m e B]; try discriminate;
    destruct y as [s'|[|]| |s' m' e' B']; try discriminate; simpl Bkey; unfold Bleb; simpl;
    symmetry; (apply Rle_bool_true || apply Rle_bool_false); lra.
Qed.

Lemma Bltb_nan_l : forall x y : bf, is_nan x = true -> Bltb x y = false.
Proof. intros [s|s| |s m e B] y; try discriminate. reflexivity. Qed.
Lemma Bltb_nan_r : forall x y : bf, is_nan y = true -> Bltb x y = false.
Proof. intros x [s|s| |s m e B]; try discriminate. destruct x as [s|[|]| |[|] m e B]; reflexivity. Qed.
Lemma Bleb_nan_l : forall x y : bf, is_nan x = true -> Bleb x y = false.
Proof. intros [s|s| |s m e B] y; try discriminate. reflexivity. Qed.
Lemma Bleb_nan_r : forall x y : bf, is_nan y = true -> Bleb x y = false.
Proof. intros x [s|s| |s m e B]; try discriminate. destruct x as [s|[|]| |[|] m e B]; reflexivity. Qed.

(* ---- float level ---- *)

Definition fkey (x : float) : R := Bkey (Prim2B x).

Theorem float_ltb_real_spec : forall x y : float,
  PF.ltb x y = true <->
  PF.is_nan x = false /\ PF.is_nan y = false /\ (fkey x < fkey y)%R.
Proof.
  intros x y. rewrite ltb_equiv, !is_nan_equiv. unfold fkey.
  destruct (is_nan (Prim2B x)) eqn:Nx.
  { rewrite Bltb_nan_l by assumption. split; [discriminate|intros (H & _); discriminate]. }
  destruct (is_nan (Prim2B y)) eqn:Ny.
  { rewrite Bltb_nan_r by assumption. split; [discriminate|intros (_ & H & _); discriminate]. }
  rewrite Bltb_key by assumption.
  destruct (Rlt_bool_spec (Bkey (Prim2B x)) (Bkey (Prim2B y))); split; auto.
  - discriminate.
  - intros (_ & _ & ?). lra.
Qed.

Theorem float_leb_real_spec : forall x y : float,
  PF.leb x y = true <->
  PF.is_nan x = false /\ PF.is_nan y = false /\ (fkey x <= fkey y)%R.
Proof.
  intros x y. rewrite leb_equiv, !is_nan_equiv. unfold fkey.
  destruct (is_nan (Prim2B x)) eqn:Nx.
  { rewrite Bleb_nan_l by assumption. split; [discriminate|intros (H & _); discriminate]. }
  destruct (is_nan (Prim2B y)) eqn:Ny.
  { rewrite Bleb_nan_r by assumption. split; [discriminate|intros (_ & H & _); discriminate]. }
  rewrite Bleb_key by assumption.
  destruct (Rle_bool_spec (Bkey (Prim2B x)) (Bkey (Prim2B y))); split; auto.
  - discriminate.
  - intros (_ & _ & ?). lra.
Qed.


(* on finite operands the key is the real value *)
Lemma fkey_finite : forall x : float, PF.is_finite x = true -> fkey x = B2R (Prim2B x).
Proof. intros x H. rewrite is_finite_equiv in H. apply Bkey_finite; exact H. Qed.

End RealSemantics.

(* ====================================================================== *)
(*  Assumptions                                                           *)
(* ====================================================================== *)
Print Assumptions float_ltb_spec.
Print Assumptions float_leb_spec.
Print Assumptions float_ltb_false.
Print Assumptions float_ltb_trans.
Print Assumptions float_ltb_irrefl.
Print Assumptions float_ltb_leb_trans.
Print Assumptions float_ltb_negtrans.
Print Assumptions float_leb_total.
Print Assumptions float_ltb_asym.
Print Assumptions float_ltb_cotrans.
Print Assumptions float_ltb_leb.
Print Assumptions float_leb_ltb_trans.
Print Assumptions float_leb_trans.
Print Assumptions float_leb_refl.
Print Assumptions float_leb_negb_ltb.
Print Assumptions float_ltb_true_not_nan.
Print Assumptions float_leb_true_not_nan.
Print Assumptions float_ltb_nan_l.
Print Assumptions float_ltb_nan_r.
Print Assumptions float_leb_nan_l.
Print Assumptions float_leb_nan_r.
Print Assumptions float_ltb_negtrans_fails_with_nan.
Print Assumptions float_ltb_negtrans_not_universal.
Print Assumptions float_leb_total_fails_nan_left.
Print Assumptions float_leb_total_fails_nan_right.
Print Assumptions float_leb_total_not_universal.
Print Assumptions float_ltb_cotrans_fails_with_nan.
Print Assumptions float_signed_zero_order.
Print Assumptions newton_never_worse_float.
Print Assumptions newton_accepted_chain_decreasing_float.
Print Assumptions newton_accepted_pairwise_decreasing_float.
Print Assumptions newton_last_not_below_best_float.
Print Assumptions newton_no_warning_means_best_small_float.
Print Assumptions newton_no_warning_best_not_nan_float.
Print Assumptions newton_nan_always_warns_float.
Print Assumptions newton_nan_last_warns_float.
Print Assumptions newton_nan_initial_float.
Print Assumptions rc_minimal_quadratic_rel.
Print Assumptions rc_is_G.
Print Assumptions r_singularity_minimal_rel.
Print Assumptions rcs_all_G.
Print Assumptions float_num_m1_not_pos.
Print Assumptions float_num_sentinel_not_nan.
Print Assumptions rc_is_sentinel_or_candidate_float.
Print Assumptions rc_minimal_float.
Print Assumptions rc_minimal_quadratic_float.
Print Assumptions rc_not_nan_float.
Print Assumptions rc_le_selected_float.
Print Assumptions rc_le_quadratic_float.
Print Assumptions rsing_min_lower_float.
Print Assumptions rsing_min_le_float.
Print Assumptions rsing_min_le_fails_with_nan.
Print Assumptions r_singularity_minimal_float.
Print Assumptions rcs_not_nan_float.
Print Assumptions r_singularity_le_points_float.
Print Assumptions r_singularity_le_selected_float.
Print Assumptions float_irrefl_on.
Print Assumptions float_trans_on.
Print Assumptions float_asym_on.
Print Assumptions float_cotrans_on.
Print Assumptions float_cotrans_on_needs_not_nan.
Print Assumptions argmin_first_min_float.
Print Assumptions argmin_first_unique_float.
Print Assumptions argmin_first_spec_float.
Print Assumptions argmin_first_first_clause_fails_with_nan.
Print Assumptions min_le_samples_float.
Print Assumptions min_le_samples_swo_float.
Print Assumptions shift_invariance_of_decisions_float.
Print Assumptions shift_invariance_rotl_float.
Print Assumptions RealSemantics.float_ltb_real_spec.
Print Assumptions RealSemantics.float_leb_real_spec.
Print Assumptions RealSemantics.fkey_finite.
